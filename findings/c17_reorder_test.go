// Demonstration for the C17 known findings.  Copy into knx/ of a scratch
// worktree and run: go test -run TestC17Reorder -count=1 ./knx/
package knx

import (
	"testing"
	"time"

	"github.com/vapourismo/knx-go/knx/cemi"
)

func TestC17ReorderTunnel(t *testing.T) {
	reordered := 0
	for round := 0; round < 50; round++ {
		conn := &Tunnel{inbound: make(chan cemi.Message)}
		const n = 64
		for i := 0; i < n; i++ {
			conn.pushInbound(&cemi.UnsupportedMessage{Code: cemi.MessageCode(i)})
		}
		time.Sleep(2 * time.Millisecond)
		for i := 0; i < n; i++ {
			m := (<-conn.inbound).(*cemi.UnsupportedMessage)
			if int(m.Code) != i {
				reordered++
				// drain the rest
				for j := i + 1; j < n; j++ {
					<-conn.inbound
				}
				break
			}
		}
	}
	if reordered > 0 {
		t.Fatalf("telegrams delivered out of acceptance order in %d of 50 rounds", reordered)
	}
}

func TestC17ReorderRouter(t *testing.T) {
	reordered := 0
	for round := 0; round < 50; round++ {
		r := &Router{inbound: make(chan cemi.Message)}
		const n = 64
		for i := 0; i < n; i++ {
			r.pushInbound(&cemi.UnsupportedMessage{Code: cemi.MessageCode(i)})
		}
		time.Sleep(2 * time.Millisecond)
		for i := 0; i < n; i++ {
			m := (<-r.inbound).(*cemi.UnsupportedMessage)
			if int(m.Code) != i {
				reordered++
				for j := i + 1; j < n; j++ {
					<-r.inbound
				}
				break
			}
		}
	}
	if reordered > 0 {
		t.Fatalf("telegrams delivered out of acceptance order in %d of 50 rounds", reordered)
	}
}
