// Demonstration for the fixed C10 finding (84dba6a).  Copy into knx/ of a scratch worktree of the
// parent commit and run: go test -vet=off -count=1 -cpu 16 -run TestC10CloseReturnsBeforeInboundClosed ./knx/
package knx

import (
	"runtime"
	"testing"

	"github.com/vapourismo/knx-go/knx/cemi"
	"github.com/vapourismo/knx-go/knx/knxnet"
)

// After Close has returned, Inbound must be closed.  serve() defers
// close(ack), close(inbound), wait.Done() in that order, so they run in the
// reverse order: wait.Done() first.  Close's wait.Wait() can therefore return
// while the worker has not yet closed Inbound.
func TestC10CloseReturnsBeforeInboundClosed(t *testing.T) {
	open := 0
	const rounds = 300000
	for i := 0; i < rounds; i++ {
		client, gateway := newDummySockets()
		conn := &Tunnel{
			sock:    client,
			config:  DefaultTunnelConfig,
			ack:     make(chan *knxnet.TunnelRes),
			inbound: make(chan cemi.Message),
			done:    make(chan struct{}),
		}
		conn.wait.Add(1)
		go conn.serve()
		go func() {
			for range gateway.Inbound() {
			}
		}()
		runtime.Gosched()
		conn.Close()
		select {
		case _, ok := <-conn.Inbound():
			if ok {
				t.Fatal("unexpected message")
			}
		default:
			open++
		}
		gateway.Close()
	}
	if open > 0 {
		t.Fatalf("Close returned while Inbound was still open in %d of %d rounds", open, rounds)
	}
}
