// Demonstration for the C05 known finding (C05.X1).  Copy into knx/ of a scratch
// worktree and run: go test -run TestC05LostAck -count=1 ./knx/
//
// History: Send #1 reaches a rule-following gateway (it is put on the bus and
// acknowledged), every acknowledgement for it is lost, Send #1 times out and
// reports an error.  Send #2 (another telegram) reuses sequence number 0; the
// gateway expects 1, recognises 0 as a repetition of the previous request,
// re-acknowledges it and does NOT put it on the bus.  Send #2 reports success
// although its telegram never reached the bus.
package knx

import (
	"testing"
	"time"

	"github.com/vapourismo/knx-go/knx/cemi"
	"github.com/vapourismo/knx-go/knx/knxnet"
)

func TestC05LostAck(t *testing.T) {
	client, gateway := newDummySockets()
	defer client.Close()
	defer gateway.Close()

	config := DefaultTunnelConfig
	config.ResendInterval = 20 * time.Millisecond
	config.ResponseTimeout = 70 * time.Millisecond
	conn := makeTunnelConn(client, config, 1)

	// the gateway of the KNXnet/IP tunnelling rules
	var bus []cemi.MessageCode // what was put on the bus, by message code
	dropAcks := true            // the network loses the acknowledgements of the first exchange
	expected := uint8(0)
	done := make(chan struct{})
	go func() {
		defer close(done)
		for msg := range gateway.Inbound() {
			req, ok := msg.(*knxnet.TunnelReq)
			if !ok {
				continue
			}
			switch req.SeqNumber {
			case expected: // new request: forward and acknowledge
				bus = append(bus, req.Payload.(*cemi.UnsupportedMessage).Code)
				expected++
			case expected - 1: // repetition of the previous one: acknowledge again, do not forward
			default:
				continue
			}
			if dropAcks {
				continue
			}
			res := &knxnet.TunnelRes{Channel: req.Channel, SeqNumber: req.SeqNumber, Status: 0}
			go func() {
				select {
				case conn.ack <- res:
				case <-time.After(config.ResendInterval):
				}
			}()
		}
	}()

	err1 := conn.requestTunnel(&cemi.UnsupportedMessage{Code: 0xA1})
	if err1 == nil {
		t.Fatal("setup: the first Send should time out (all its acknowledgements are lost)")
	}
	dropAcks = false
	err2 := conn.requestTunnel(&cemi.UnsupportedMessage{Code: 0xB2})
	gateway.Close()
	<-done

	onBus := false
	for _, c := range bus {
		if c == 0xB2 {
			onBus = true
		}
	}
	if err2 == nil && !onBus {
		t.Fatalf("Send #2 reported success but its telegram never reached the bus (bus = %x): the request reused the sequence number of the timed-out Send #1 and was acknowledged as its repetition", bus)
	}
}
