package knx

import (
	"sync"
	"testing"
	"time"

	"github.com/vapourismo/knx-go/knx/cemi"
	"github.com/vapourismo/knx-go/knx/knxnet"
)

// TestC10RaceChannelControl demonstrates the data race on Tunnel.channel and Tunnel.control.
//
// (*Tunnel).requestConn writes conn.control and conn.channel without holding a lock. During a
// reconnect it runs on the serve goroutine, while application goroutines concurrently read these
// fields through Tunnel.Send (requestTunnel, seqMu only), Tunnel.Close (requestDisc, no lock) and
// the heartbeat goroutine (requestConnState, no lock).
//
// Only real code paths are used: a Tunnel on the in-memory dummy sockets, the serve goroutine
// started exactly like NewTunnel does, and a fake gateway on the other socket end which keeps
// disconnecting the client (so serve reconnects and obtains a NEW channel id every time) and
// acknowledges tunnel / connection state requests.
//
// Run with: go test -race -vet=off -count=1 -run TestC10RaceChannelControl ./knx/
// Without -race the test passes.
func TestC10RaceChannelControl(t *testing.T) {
	client, gateway := newDummySockets()

	config := DefaultTunnelConfig
	config.ResendInterval = 5 * time.Millisecond
	config.ResponseTimeout = 100 * time.Millisecond
	config.HeartbeatInterval = time.Hour

	const firstChannel uint8 = 1

	// Same initialisation as NewTunnel, minus the dialing and the initial requestConn: we pretend
	// the initial connection has been established with channel 1.
	conn := &Tunnel{
		sock:    client,
		config:  checkTunnelConfig(config),
		layer:   knxnet.TunnelLayerData,
		channel: firstChannel,
		control: knxnet.HostInfo{Protocol: knxnet.UDP4},
		ack:     make(chan *knxnet.TunnelRes),
		inbound: make(chan cemi.Message),
		done:    make(chan struct{}),
	}

	// The application thread that will eventually call Close. It is started before the serve
	// goroutine exists and does nothing but sleep, so nothing orders it with the reconnects that
	// the serve goroutine performs in the meantime.
	closed := make(chan struct{})
	go func() {
		defer close(closed)
		time.Sleep(1 * time.Second)
		conn.Close()
	}()

	// Start the worker like NewTunnel does.
	conn.wait.Add(1)
	go conn.serve()

	var helpers sync.WaitGroup
	stop := make(chan struct{})

	// Drain inbound messages (there are none, but be a good citizen).
	helpers.Add(1)
	go func() {
		defer helpers.Done()
		for range conn.Inbound() {
		}
	}()

	// Fake gateway.
	helpers.Add(1)
	go func() {
		defer helpers.Done()

		channel := firstChannel
		connected := true
		clientLeft := false
		reconnects := 0

		kick := time.NewTicker(3 * time.Millisecond)
		defer kick.Stop()

		defer func() { t.Logf("gateway: served %d reconnects", reconnects) }()

		for {
			select {
			case <-stop:
				return

			// Terminate the current connection; the client's serve goroutine will reconnect.
			case <-kick.C:
				if connected && !clientLeft {
					connected = false
					gateway.Send(&knxnet.DiscReq{Channel: channel})
				}

			case msg, open := <-gateway.Inbound():
				if !open {
					return
				}

				switch msg := msg.(type) {
				case *knxnet.ConnReq:
					// New connection gets a NEW channel; a resent request gets the same answer.
					if !connected {
						connected = true
						channel++
						if channel == 0 {
							channel = 1
						}
						reconnects++
					}

					gateway.Send(&knxnet.ConnRes{
						Channel: channel,
						Status:  knxnet.NoError,
						Control: msg.Control,
					})

				case *knxnet.TunnelReq:
					gateway.Send(&knxnet.TunnelRes{
						Channel:   msg.Channel,
						SeqNumber: msg.SeqNumber,
						Status:    0,
					})

				case *knxnet.ConnStateReq:
					gateway.Send(&knxnet.ConnStateRes{
						Channel: msg.Channel,
						Status:  knxnet.NoError,
					})

				case *knxnet.DiscReq:
					// Client called Close.
					clientLeft = true
					gateway.Send(&knxnet.DiscRes{Channel: msg.Channel})

				case *knxnet.DiscRes:
					// Answer to our own disconnect request.
				}
			}
		}
	}()

	// Application goroutines which send through the tunnel. Errors are expected here: requests
	// that get caught in a reconnect are not acknowledged and time out.
	for i := 0; i < 2; i++ {
		helpers.Add(1)
		go func() {
			defer helpers.Done()

			for {
				select {
				case <-stop:
					return
				default:
				}

				if err := conn.Send(&cemi.LDataReq{}); err != nil {
					time.Sleep(time.Millisecond)
				}
			}
		}()
	}

	select {
	case <-closed:
	case <-time.After(15 * time.Second):
		t.Error("Tunnel.Close did not return in time")
	}

	close(stop)
	gateway.Close()

	finished := make(chan struct{})
	go func() {
		helpers.Wait()
		close(finished)
	}()

	select {
	case <-finished:
	case <-time.After(15 * time.Second):
		t.Error("helper goroutines did not terminate in time")
	}
}
