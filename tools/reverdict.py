#!/usr/bin/env python3
"""usage: tools/reverdict.py [--jobs N] [seed-id ...]
Re-runs every check against every kept seeded change (scratch copies of /repo's tree,
removed afterwards) and rewrites the `checks` verdicts in seeded/<id>/meta.json."""
import sys, os, json, glob, subprocess, tempfile, shutil, concurrent.futures
here = os.path.dirname(os.path.dirname(os.path.abspath(__file__)))
REPO = os.environ.get("KX_REPO", "/repo")
ENV = dict(os.environ, GOFLAGS="-mod=mod", GOPROXY="off", GOSUMDB="off", GOTOOLCHAIN="local", GOWORK="off")
PROPS = [c["property_id"] for c in json.load(open(os.path.join(here, "MANIFEST.json")))["checks"]]

def run(d):
    sid = os.path.basename(d)
    tmp = tempfile.mkdtemp(prefix="kxrev.")
    try:
        repo, vdir = os.path.join(tmp, "repo"), os.path.join(tmp, "verif")
        os.makedirs(repo); os.makedirs(vdir)
        files = subprocess.run(["git", "-C", REPO, "ls-files", "-z"], capture_output=True, check=True).stdout.split(b"\0")
        for f in files:
            if not f: continue
            src = os.path.join(REPO.encode(), f)
            if not os.path.exists(src): continue
            dst = os.path.join(repo.encode(), f)
            os.makedirs(os.path.dirname(dst), exist_ok=True)
            shutil.copy2(src, dst)
        shutil.copy2(os.path.join(here, "known_findings.json"), vdir)
        r = subprocess.run(["patch", "-p1", "-s", "-i", os.path.join(d, "patch.diff")], cwd=repo, capture_output=True)
        if r.returncode != 0: return sid, None, "patch does not apply"
        r = subprocess.run(["go", "build", "./..."], cwd=repo, env=ENV, capture_output=True)
        if r.returncode != 0: return sid, None, "does not compile"
        env = dict(ENV, GOFLAGS="-mod=vendor")
        verdicts, first = {}, {}
        props = PROPS
        if os.environ.get("REV_MODE") == "recorded":
            # faster: only the seed's own property and the checks recorded as detecting it; the other verdicts are kept
            m0 = json.load(open(os.path.join(d, "meta.json")))
            old = m0.get("checks", {})
            props = [q for q in PROPS if q == m0.get("property") or old.get(q) == "DETECTED"]
            if os.environ.get("REV_OWN"):
                props = [q for q in PROPS if q == m0.get("property")]
            verdicts = dict(old)
        for p in props:
            r = subprocess.run([os.environ.get("KX_BIN", os.path.join(here, "bin", "kxcheck")), "-prop", p, "-tier", "quick", "-repo", repo, "-verif", vdir], env=env, capture_output=True, text=True)
            verdicts[p] = "DETECTED" if r.returncode == 1 else "missed" if r.returncode == 0 else "checker-error"
            if r.returncode == 1:
                for l in r.stdout.splitlines():
                    if ": " + p + "." in l:
                        first[p] = l.replace(repo + "/", "")[:300]; break
        return sid, verdicts, first
    finally:
        shutil.rmtree(tmp, ignore_errors=True)

def main():
    args = [a for a in sys.argv[1:] if not a.startswith("--")]
    jobs = 6
    if "--jobs" in sys.argv: jobs = int(sys.argv[sys.argv.index("--jobs") + 1]); args = [a for a in args if a != str(jobs)]
    dirs = sorted(glob.glob(os.path.join(here, "seeded", "*")))
    if args: dirs = [d for d in dirs if os.path.basename(d) in args]
    cache = tempfile.mkdtemp(prefix="kxcache.")
    ENV["GOCACHE"] = cache
    import atexit
    atexit.register(lambda: shutil.rmtree(cache, ignore_errors=True))
    with concurrent.futures.ThreadPoolExecutor(max_workers=jobs) as ex:
        for sid, verdicts, extra in ex.map(run, dirs):
            mp = os.path.join(here, "seeded", sid, "meta.json")
            m = json.load(open(mp))
            if verdicts is None:
                print(sid, "SKIPPED", extra); continue
            m["checks"] = verdicts
            m["check_report"] = [extra[k] for k in sorted(extra)][:6]
            json.dump(m, open(mp, "w"), indent=1)
            det = [k for k, v in verdicts.items() if v == "DETECTED"]
            print(sid, "detected by", ",".join(det) if det else "NONE")
if __name__ == "__main__":
    main()
