#!/bin/sh
# usage: tools/eqall.sh [dir-glob]  - runs every refactoring under /tmp/wt/out/*/e* through all checks, 8 at a time
ls -d ${1:-/tmp/wt/out/*/e*} | xargs -P 8 -I{} sh -c 'EQ_LINES=0 /verif/tools/eqcheck.sh {} 2>&1 | grep RESULT' | sort
