#!/usr/bin/env python3
"""usage: tools/mutsweep.py MUTS.jsonl OUT.jsonl [--jobs N] [--only substr]
Mutation sweep: applies each single-site mutation (bin/mutgen) to a scratch copy of /repo's
tree (under a temp dir, removed afterwards), keeps those that compile and pass the whole suite,
and runs every check against each survivor.  Output: one JSON line per mutant with
status killed|nobuild|survived and, for survivors, the checks that fire."""
import sys, os, json, subprocess, tempfile, shutil, threading, queue, re
here = os.path.dirname(os.path.dirname(os.path.abspath(__file__)))
REPO = os.environ.get("KX_REPO", "/repo")
ENV = dict(os.environ, GOFLAGS="-mod=mod", GOPROXY="off", GOSUMDB="off", GOTOOLCHAIN="local", GOWORK="off")
PROPS = ",".join("C%02d" % i for i in range(1, 21))

def copytree(dst):
    files = subprocess.run(["git", "-C", REPO, "ls-files", "-z"], capture_output=True, check=True).stdout.split(b"\0")
    for f in files:
        if not f: continue
        src = os.path.join(REPO.encode(), f)
        if not os.path.exists(src): continue
        d = os.path.join(dst.encode(), f)
        os.makedirs(os.path.dirname(d), exist_ok=True)
        shutil.copy2(src, d)

def worker(q, out, lock, k, base):
    repo = os.path.join(base, "w%d" % k, "repo"); vdir = os.path.join(base, "w%d" % k, "verif")
    os.makedirs(repo); os.makedirs(vdir)
    copytree(repo)
    shutil.copy2(os.path.join(here, "known_findings.json"), vdir)
    while True:
        m = q.get()
        if m is None: return
        path = os.path.join(repo, m["file"])
        orig = open(path, "rb").read()
        res = dict(m)
        try:
            assert orig[m["off"]:m["off"] + m["len"]].decode() == m["old"], "stale offsets"
            open(path, "wb").write(orig[:m["off"]] + m["new"].encode() + orig[m["off"] + m["len"]:])
            r = subprocess.run(["go", "build", "./..."], cwd=repo, env=ENV, capture_output=True)
            if r.returncode != 0:
                res["status"] = "nobuild"
            else:
                try:
                    r = subprocess.run(["go", "test", "-vet=off", "-count=1", "-timeout", "90s", "./..."], cwd=repo, env=ENV, capture_output=True, timeout=150)
                    rc = r.returncode
                except subprocess.TimeoutExpired:
                    rc = 99
                if rc != 0:
                    res["status"] = "killed"
                else:
                    res["status"] = "survived"
                    env = dict(ENV, GOFLAGS="-mod=vendor")
                    dptp = "C06,C07,C08,C19"
                    props = dptp if m["file"].startswith("knx/dpt/") else ",".join(x for x in PROPS.split(",") if x not in dptp)
                    r = subprocess.run([os.path.join(here, "bin", "kxcheck"), "-prop", props, "-tier", "quick", "-repo", repo, "-verif", vdir], env=env, capture_output=True, text=True, timeout=600)
                    det, err, first = [], [], {}
                    for l in r.stdout.splitlines():
                        mm = re.match(r"== (C\d\d): .* violations=(\d+) exit=(\d+)", l)
                        if mm:
                            if mm.group(3) == "1": det.append(mm.group(1))
                            elif mm.group(3) != "0": err.append(mm.group(1))
                        mm = re.match(r"\S*: (C\d\d)\.[^:]*: ", l)
                    for l in r.stdout.splitlines():
                        if re.match(r"^[^ =].*: C\d\d\.", l) and len(first) < 3:
                            first[len(first)] = l.replace(repo + "/", "")[:260]
                    res["detected"] = det; res["checker_error"] = err; res["report"] = list(first.values())
        except Exception as e:
            res["status"] = "error"; res["error"] = str(e)
        finally:
            open(path, "wb").write(orig)
        with lock:
            out.write(json.dumps(res) + "\n"); out.flush()

def main():
    args = [a for a in sys.argv[1:]]
    jobs = 12; only = None
    if "--jobs" in args: i = args.index("--jobs"); jobs = int(args[i + 1]); del args[i:i + 2]
    if "--only" in args: i = args.index("--only"); only = args[i + 1]; del args[i:i + 2]
    muts = [json.loads(l) for l in open(args[0])]
    if only: muts = [m for m in muts if only in m["file"]]
    done = set()
    if os.path.exists(args[1]):
        for l in open(args[1]): done.add(json.loads(l)["id"])
    muts = [m for m in muts if m["id"] not in done]
    base = tempfile.mkdtemp(prefix="kxsweep.")
    lock = threading.Lock()
    out = open(args[1], "a")
    # the build cache grows by tens of MB per mutant: a private cache per chunk, removed after the chunk
    CH = 300
    for c0 in range(0, len(muts), CH):
        cache = os.path.join(base, "gocache"); gotmp = os.path.join(base, "gotmp")
        os.makedirs(cache, exist_ok=True); os.makedirs(gotmp, exist_ok=True)
        ENV["GOCACHE"] = cache; ENV["GOTMPDIR"] = gotmp
        q = queue.Queue()
        for m in muts[c0:c0 + CH]: q.put(m)
        ths = []
        for k in range(jobs):
            q.put(None)
            t = threading.Thread(target=worker, args=(q, out, lock, k, os.path.join(base, "c%d" % c0))); t.start(); ths.append(t)
        for t in ths: t.join()
        shutil.rmtree(os.path.join(base, "c%d" % c0), ignore_errors=True)
        shutil.rmtree(cache, ignore_errors=True); shutil.rmtree(gotmp, ignore_errors=True)
    shutil.rmtree(base, ignore_errors=True)
if __name__ == "__main__":
    main()
