#!/usr/bin/env python3
"""Regenerates /verif/MANIFEST.json from the table below and validates it."""
import json, os, sys
here = os.path.dirname(os.path.dirname(os.path.abspath(__file__)))

TRUST = "trusted base: kxcheck's rules and engines, go/types + go/ssa (x/tools v0.29.0); "

CLAIMS = json.load(open(os.path.join(here, "tools", "claims.json")))
CLAIMED = {k: (v["category"], v["text"], v["design_ref"], v["level_note"], v["technique"]) for k, v in CLAIMS.items()}

NOT_YET = "check not built yet in this round (static-analysis design exists in DESIGN.md); not claimed until it is"
NOT_APPLICABLE = {

}

def main():
    props = [json.loads(l)["id"] for l in open(os.path.join(here, "properties.jsonl"))]
    checks, na = [], []
    for pid in props:
        if pid in CLAIMED:
            cat, text, ref, note, tech = CLAIMED[pid]
            checks.append({
                "property_id": pid,
                "quick_cmd": "./check %s quick" % pid,
                "thorough_cmd": "./check %s thorough" % pid,
                "evidence_file": "/verif/evidence/%s.json" % pid,
                "replay_cmd_template": "./check %s quick  # deterministic; details in {path}" % pid,
                "engine": "kxcheck",
                "level_claimed": {"category": cat, "text": text, "design_ref": ref},
                "level_note": note,
                "technique": tech,
            })
        else:
            na.append({"property_id": pid, "reason": NOT_APPLICABLE.get(pid, NOT_YET)})
    m = {
        "version": 1,
        "setup_cmd": "cd /verif/checker && GOFLAGS=-mod=vendor GOPROXY=off GOSUMDB=off GOTOOLCHAIN=local GOWORK=off CGO_ENABLED=0 go build -o /verif/bin/kxcheck .",
        "hooks": {
            "guard": "verif",
            "enable": "no hooks: the checks analyse /repo's source as it is; nothing in /repo is built with a tag",
            "baseline_off_cmd": "cd /repo && GOFLAGS=-mod=mod GOPROXY=off GOSUMDB=off go test -vet=off -count=1 ./...",
            "source_commits": [],
            "add_only": True,
        },
        "engines": [{
            "name": "kxcheck", "path": "/verif/checker",
            "serves_properties": sorted(CLAIMED),
            "kind_free_text": "repository-specific static analyser over go/packages + go/ssa: dominating-edge facts, access paths, locksets, channel-operation index, path counting, bit provenance, compiler bounds-check listing",
        }],
        "checks": checks,
        "not_applicable": na,
        "notes": "Static analysis only: every check decides its property from the type-checked SSA of /repo's working tree; nothing in /repo is executed. Genuine defects found were repaired by fix: commits in /repo (listed in known_findings.json as status=fixed); unrepaired ones are status=known.",
    }
    out = os.path.join(here, "MANIFEST.json")
    json.dump(m, open(out, "w"), indent=1)
    open(out, "a").write("\n")
    try:
        import jsonschema
        jsonschema.validate(m, json.load(open("/root/.vp/MANIFEST.schema.json")))
        print("MANIFEST.json valid: %d checks, %d not_applicable" % (len(checks), len(na)))
    except ImportError:
        print("jsonschema not available; written without validation")

if __name__ == "__main__":
    main()
