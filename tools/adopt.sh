#!/bin/sh
# usage: tools/adopt.sh <src-dir> <seed-id> [Cnn ...]
# Confirms a seeded defect with seedcheck.sh and, if confirmed (suite passes,
# demo fails with / passes without), keeps it as /verif/seeded/<seed-id>/ with the
# confirmation and the checks' verdicts recorded in meta.json.
set -u
here=$(cd "$(dirname "$0")/.." && pwd)
src=$(readlink -f "$1"); id=$2; shift 2
out=$("$here/tools/seedcheck.sh" "$src" "$@" 2>&1)
echo "$out" | tail -${ADOPT_LINES:-6}
res=$(echo "$out" | grep '^RESULT' | tail -1)
case "$res" in
  *"suite=pass"*"demo_with_change=FAIL demo_without_change=pass"*) ;;
  *) echo "NOT CONFIRMED: $id"; exit 1;;
esac
mkdir -p "$here/seeded/$id"
cp "$src"/patch.diff "$src"/meta.json "$here/seeded/$id/"
f=$(python3 -c "import json;print(json.load(open('$src/meta.json'))['demo']['file'])")
cp "$src/$f" "$here/seeded/$id/"
python3 - "$here/seeded/$id/meta.json" "$res" "$out" <<'PY'
import json,sys,re
p,res,out=sys.argv[1:4]
m=json.load(open(p))
m['confirmed_by_me']={'ran':'tools/seedcheck.sh (scratch worktree of /repo HEAD: apply patch, go build, full suite, demo with change, checks, demo without change)','result':res}
checks=dict(re.findall(r'(C\d\d)=exit(\d)',res))
m['checks']={k:('DETECTED' if v=='1' else 'missed' if v=='0' else 'checker-error') for k,v in checks.items()}
m['check_report']=[l for l in out.splitlines() if re.match(r'^[\w/.-]*:\d*:?\d*:? ?(C\d\d|PLATFORM|IMPORT)\.',l) or l.startswith(': C')][:6]
json.dump(m,open(p,'w'),indent=1)
PY
echo "ADOPTED $id"
