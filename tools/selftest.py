#!/usr/bin/env python3
"""usage: tools/selftest.py <Cnn> [--jobs N]

Both-ways validation of one check on scratch copies of /repo's working tree
(outside /repo and /verif, removed afterwards):
  * every kept seeded defect (seeded/*/patch.diff) this check is recorded to detect,
    every hand mutant mutants/<Cnn>-*.diff and every fix commit listed for <Cnn> in
    mutants/reverts.txt (reverted) must make the check exit 1;
  * every equivalent rewrite mutants/EQUIV-<Cnn>-*.diff and every behaviour-preserving
    refactoring mutants/equiv/*.diff (all checks) must leave it silent (exit 0).
A variant that no longer applies or compiles is skipped and counted.
Prints a JSON summary; exit 0 when everything behaved as expected, 2 otherwise."""
import sys, os, json, glob, subprocess, tempfile, shutil, concurrent.futures

here = os.path.dirname(os.path.dirname(os.path.abspath(__file__)))
REPO = os.environ.get("KX_REPO", "/repo")
ENV = dict(os.environ, GOFLAGS="-mod=mod", GOPROXY="off", GOSUMDB="off", GOTOOLCHAIN="local", GOWORK="off")


def cases(prop):
    out = []
    for d in sorted(glob.glob(os.path.join(here, "seeded", "*"))):
        try:
            m = json.load(open(os.path.join(d, "meta.json")))
        except Exception:
            continue
        if m.get("checks", {}).get(prop) == "DETECTED":
            out.append(("seed:" + os.path.basename(d), "patch", os.path.join(d, "patch.diff"), 1))
    for f in sorted(glob.glob(os.path.join(here, "mutants", prop + "-*.diff"))):
        out.append(("mutant:" + os.path.basename(f)[:-5], "patch", f, 1))
    for f in sorted(glob.glob(os.path.join(here, "mutants", "EQUIV-" + prop + "-*.diff"))):
        out.append(("equivalent:" + os.path.basename(f)[:-5], "patch", f, 0))
    # behaviour-preserving refactorings written by independent agents: every check must stay silent on each
    for f in sorted(glob.glob(os.path.join(here, "mutants", "equiv", "*.diff"))):
        out.append(("refactoring:" + os.path.basename(f)[:-5], "patch", f, 0))
    rv = os.path.join(here, "mutants", "reverts.txt")
    if os.path.exists(rv):
        for line in open(rv):
            line = line.strip()
            if not line or line.startswith("#"):
                continue
            commit, *props = line.split()
            if prop in props:
                out.append(("revert:" + commit, "revert", commit, 1))
    return out


def run_case(prop, case):
    name, kind, arg, want = case
    tmp = tempfile.mkdtemp(prefix="kxself.")
    try:
        repo = os.path.join(tmp, "repo")
        vdir = os.path.join(tmp, "verif")
        os.makedirs(repo)
        os.makedirs(vdir)
        files = subprocess.run(["git", "-C", REPO, "ls-files", "-z"], capture_output=True, check=True).stdout.split(b"\0")
        for f in files:
            if not f:
                continue
            src = os.path.join(REPO.encode(), f)
            if not os.path.exists(src):
                continue
            dst = os.path.join(repo.encode(), f)
            os.makedirs(os.path.dirname(dst), exist_ok=True)
            shutil.copy2(src, dst)
        shutil.copy2(os.path.join(here, "known_findings.json"), vdir)
        if kind == "patch":
            r = subprocess.run(["patch", "-p1", "-s", "-i", arg], cwd=repo, capture_output=True)
        else:
            diff = subprocess.run(["git", "-C", REPO, "show", arg], capture_output=True).stdout
            r = subprocess.run(["patch", "-R", "-p1", "-s"], cwd=repo, input=diff, capture_output=True)
        if r.returncode != 0:
            return name, "skipped", "does not apply to the current tree"
        r = subprocess.run(["go", "build", "./..."], cwd=repo, env=ENV, capture_output=True)
        if r.returncode != 0:
            return name, "skipped", "does not compile"
        env = dict(ENV, GOFLAGS="-mod=vendor")
        r = subprocess.run([os.path.join(here, "bin", "kxcheck"), "-prop", prop, "-tier", "quick", "-repo", repo, "-verif", vdir],
                           env=env, capture_output=True, text=True)
        if r.returncode == want:
            return name, "ok", ""
        first = ""
        for l in r.stdout.splitlines():
            if ": " + prop + "." in l:
                first = l.replace(repo + "/", "")[:200]
                break
        return name, "UNEXPECTED", "exit %d, expected %d %s" % (r.returncode, want, first)
    finally:
        shutil.rmtree(tmp, ignore_errors=True)


def main():
    prop = sys.argv[1]
    jobs = 4
    if "--jobs" in sys.argv:
        jobs = int(sys.argv[sys.argv.index("--jobs") + 1])
    cs = cases(prop)
    res = []
    # every scratch copy lives at a fresh path and therefore adds its own entries to the Go build cache
    # (about 14 MB per variant): a private cache, removed at the end, keeps the disk bounded
    cache = tempfile.mkdtemp(prefix="kxcache.")
    ENV["GOCACHE"] = cache
    try:
        with concurrent.futures.ThreadPoolExecutor(max_workers=jobs) as ex:
            for r in ex.map(lambda c: run_case(prop, c), cs):
                res.append(r)
    finally:
        subprocess.run(["chmod", "-R", "u+w", cache], capture_output=True)
        shutil.rmtree(cache, ignore_errors=True)
    summ = {
        "variants": len(cs),
        "breaking_applied": sum(1 for (n, s, _), c in zip(res, cs) if c[3] == 1 and s != "skipped"),
        "breaking_detected": sum(1 for (n, s, _), c in zip(res, cs) if c[3] == 1 and s == "ok"),
        "equivalents_applied": sum(1 for (n, s, _), c in zip(res, cs) if c[3] == 0 and s != "skipped"),
        "equivalents_silent": sum(1 for (n, s, _), c in zip(res, cs) if c[3] == 0 and s == "ok"),
        "skipped": [n + ": " + w for n, s, w in res if s == "skipped"],
        "unexpected": [n + ": " + w for n, s, w in res if s == "UNEXPECTED"],
        "detected": [n for (n, s, _), c in zip(res, cs) if c[3] == 1 and s == "ok"],
    }
    print(json.dumps(summ, indent=1))
    sys.exit(2 if summ["unexpected"] else 0)


if __name__ == "__main__":
    main()
