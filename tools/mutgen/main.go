// mutgen enumerates single-site syntactic mutations of the library's non-test
// sources (operator swaps, literal +-1, condition negation, statement removal,
// boolean flips) and prints them as JSON lines:
//
//	{"id":..,"file":..,"line":..,"op":..,"off":..,"len":..,"new":..,"old":..}
//
// The sweep driver (tools/mutsweep.py) applies each to a scratch copy of the
// tree, keeps those that compile and pass the suite, and runs every check.
package main

import (
	"encoding/json"
	"fmt"
	"go/ast"
	"go/parser"
	"go/token"
	"os"
	"path/filepath"
	"sort"
	"strconv"
	"strings"
)

type mut struct {
	ID   int    `json:"id"`
	File string `json:"file"`
	Line int    `json:"line"`
	Fn   string `json:"fn"`
	Op   string `json:"op"`
	Off  int    `json:"off"`
	Len  int    `json:"len"`
	New  string `json:"new"`
	Old  string `json:"old"`
}

var swaps = map[token.Token][]string{
	token.LSS: {"<=", ">="}, token.LEQ: {"<", "=="}, token.GTR: {">=", "<="}, token.GEQ: {">", "=="},
	token.EQL: {"!="}, token.NEQ: {"=="},
	token.ADD: {"-"}, token.SUB: {"+"}, token.MUL: {"/"}, token.QUO: {"*"}, token.REM: {"/"},
	token.LAND: {"||"}, token.LOR: {"&&"},
	token.AND: {"|"}, token.OR: {"&", "^"}, token.XOR: {"|"}, token.SHL: {">>"}, token.SHR: {"<<"}, token.AND_NOT: {"&"},
}
var asgSwaps = map[token.Token][]string{
	token.ADD_ASSIGN: {"-="}, token.SUB_ASSIGN: {"+="}, token.OR_ASSIGN: {"&=", "="}, token.AND_ASSIGN: {"|=", "="},
	token.SHL_ASSIGN: {">>="}, token.SHR_ASSIGN: {"<<="}, token.AND_NOT_ASSIGN: {"&="}, token.MUL_ASSIGN: {"/="}, token.QUO_ASSIGN: {"*="},
}

var extra bool
var swapMode bool

func main() {
	root := os.Args[1]
	extra = len(os.Args) > 2 && os.Args[2] == "extra"
	swapMode = len(os.Args) > 2 && os.Args[2] == "swap"
	var files []string
	filepath.Walk(filepath.Join(root, "knx"), func(p string, info os.FileInfo, err error) error {
		if err == nil && !info.IsDir() && strings.HasSuffix(p, ".go") && !strings.HasSuffix(p, "_test.go") {
			files = append(files, p)
		}
		return nil
	})
	sort.Strings(files)
	enc := json.NewEncoder(os.Stdout)
	id := 0
	for _, path := range files {
		src, _ := os.ReadFile(path)
		fset := token.NewFileSet()
		f, err := parser.ParseFile(fset, path, src, 0)
		if err != nil {
			fmt.Fprintln(os.Stderr, err)
			os.Exit(1)
		}
		rel, _ := filepath.Rel(root, path)
		tf := fset.File(f.Pos())
		var cur string
		emit := func(pos token.Pos, n int, op, nw string) {
			isExtra := op == "swap args" || op == "swap fields" || op == "empty if body"
			if swapMode != (op == "swap stmts") {
				return
			}
			if !swapMode && extra != isExtra {
				return
			}
			off := tf.Offset(pos)
			id++
			enc.Encode(mut{id, rel, tf.Line(pos), cur, op, off, n, nw, string(src[off : off+n])})
		}
		text := func(n ast.Node) string { return string(src[tf.Offset(n.Pos()):tf.Offset(n.End())]) }
		for _, d := range f.Decls {
			fd, ok := d.(*ast.FuncDecl)
			if !ok || fd.Body == nil {
				// package-level constants and variables: literals only
				if gd, ok := d.(*ast.GenDecl); ok && (gd.Tok == token.CONST || gd.Tok == token.VAR) {
					cur = gd.Tok.String()
					ast.Inspect(gd, func(n ast.Node) bool {
						if bl, ok := n.(*ast.BasicLit); ok && bl.Kind == token.INT {
							if v, err := strconv.ParseInt(bl.Value, 0, 64); err == nil {
								emit(bl.Pos(), len(bl.Value), "lit+1", strconv.FormatInt(v+1, 10))
								if v > 0 {
									emit(bl.Pos(), len(bl.Value), "lit-1", strconv.FormatInt(v-1, 10))
								}
							}
						}
						return true
					})
				}
				continue
			}
			cur = fd.Name.Name
			if fd.Recv != nil && len(fd.Recv.List) > 0 {
				cur = text(fd.Recv.List[0].Type) + "." + cur
			}
			parentIf := map[*ast.BlockStmt]bool{}
			ast.Inspect(fd.Body, func(n ast.Node) bool {
				if is, ok := n.(*ast.IfStmt); ok {
					parentIf[is.Body] = true
					if eb, ok := is.Else.(*ast.BlockStmt); ok {
						parentIf[eb] = true
					}
				}
				return true
			})
			ast.Inspect(fd.Body, func(n ast.Node) bool {
				switch x := n.(type) {
				case *ast.BinaryExpr:
					for _, nw := range swaps[x.Op] {
						emit(x.OpPos, len(x.Op.String()), "bin "+x.Op.String()+"->"+nw, nw)
					}
				case *ast.AssignStmt:
					for _, nw := range asgSwaps[x.Tok] {
						emit(x.TokPos, len(x.Tok.String()), "asg "+x.Tok.String()+"->"+nw, nw)
					}
					if x.Tok != token.DEFINE {
						emit(x.Pos(), int(x.End()-x.Pos()), "del assign", "_ = 0")
					}
				case *ast.IncDecStmt:
					nw := "--"
					if x.Tok == token.DEC {
						nw = "++"
					}
					emit(x.TokPos, 2, "incdec", nw)
					emit(x.Pos(), int(x.End()-x.Pos()), "del incdec", "_ = 0")
				case *ast.BasicLit:
					if x.Kind == token.INT {
						if v, err := strconv.ParseInt(x.Value, 0, 64); err == nil {
							emit(x.Pos(), len(x.Value), "lit+1", strconv.FormatInt(v+1, 10))
							if v > 0 {
								emit(x.Pos(), len(x.Value), "lit-1", strconv.FormatInt(v-1, 10))
							}
						}
					}
				case *ast.Ident:
					if x.Name == "true" {
						emit(x.Pos(), 4, "bool", "false")
					} else if x.Name == "false" {
						emit(x.Pos(), 5, "bool", "true")
					}
				case *ast.IfStmt:
					emit(x.Cond.Pos(), int(x.Cond.End()-x.Cond.Pos()), "negate if", "!("+text(x.Cond)+")")
				case *ast.ForStmt:
					if x.Cond != nil {
						emit(x.Cond.Pos(), int(x.Cond.End()-x.Cond.Pos()), "negate for", "!("+text(x.Cond)+")")
					}
				case *ast.ExprStmt:
					if _, isCall := x.X.(*ast.CallExpr); isCall {
						emit(x.Pos(), int(x.End()-x.Pos()), "del call", "_ = 0")
					}
				case *ast.DeferStmt:
					emit(x.Pos(), int(x.End()-x.Pos()), "del defer", "_ = 0")
				case *ast.GoStmt:
					emit(x.Pos(), 3, "go->sync", "")
				case *ast.SendStmt:
					emit(x.Pos(), int(x.End()-x.Pos()), "del send", "_ = 0")
				case *ast.BranchStmt:
					if x.Label == nil && x.Tok == token.BREAK {
						emit(x.Pos(), 5, "break->continue", "continue")
					} else if x.Label == nil && x.Tok == token.CONTINUE {
						emit(x.Pos(), 8, "continue->break", "break")
					}
				case *ast.ReturnStmt:
					// return err -> return nil for a lone identifier result named err
					if len(x.Results) >= 1 {
						last := x.Results[len(x.Results)-1]
						if id, ok := last.(*ast.Ident); ok && id.Name == "err" {
							emit(id.Pos(), 3, "return err->nil", "nil")
						}
					}
				case *ast.UnaryExpr:
					if x.Op == token.NOT {
						emit(x.OpPos, 1, "drop !", "")
					}
				case *ast.SliceExpr:
					if x.High != nil {
						emit(x.High.Pos(), int(x.High.End()-x.High.Pos()), "slice hi+1", "("+text(x.High)+")+1")
					}
					if x.Low != nil {
						emit(x.Low.Pos(), int(x.Low.End()-x.Low.Pos()), "slice lo+1", "("+text(x.Low)+")+1")
					}
				case *ast.CallExpr:
					if extra {
						for i := 0; i+1 < len(x.Args); i++ {
							a, b := x.Args[i], x.Args[i+1]
							emit(a.Pos(), int(b.End()-a.Pos()), "swap args", text(b)+", "+text(a))
						}
					}
				case *ast.CompositeLit:
					if extra {
						for i := 0; i+1 < len(x.Elts); i++ {
							ka, oka := x.Elts[i].(*ast.KeyValueExpr)
							kb, okb := x.Elts[i+1].(*ast.KeyValueExpr)
							if oka && okb {
								emit(ka.Value.Pos(), int(ka.Value.End()-ka.Value.Pos()), "swap fields", text(kb.Value))
							}
						}
					}
				case *ast.BlockStmt:
					if swapMode {
						simple := func(st ast.Stmt) bool {
							switch st.(type) {
							case *ast.ExprStmt, *ast.AssignStmt, *ast.IncDecStmt, *ast.SendStmt, *ast.DeferStmt, *ast.GoStmt:
								return true
							}
							return false
						}
						for i := 0; i+1 < len(x.List); i++ {
							a, b := x.List[i], x.List[i+1]
							if simple(a) && simple(b) {
								// keep := definitions in front of their uses: swapping them rarely compiles anyway
								emit(a.Pos(), int(b.End()-a.Pos()), "swap stmts", text(b)+"\n"+text(a))
							}
						}
					}
					if extra && len(x.List) > 0 {
						if _, isIf := parentIf[x]; isIf {
							emit(x.List[0].Pos(), int(x.List[len(x.List)-1].End()-x.List[0].Pos()), "empty if body", "")
						}
					}
				case *ast.CaseClause:
					if len(x.Body) > 0 && len(x.List) > 0 {
						// empty the arm
						emit(x.Body[0].Pos(), int(x.Body[len(x.Body)-1].End()-x.Body[0].Pos()), "empty case", "")
					}
				}
				return true
			})
		}
	}
}
