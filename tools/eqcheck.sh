#!/bin/sh
# usage: tools/eqcheck.sh <dir with patch.diff> [Cnn ...]   (default: every claimed check)
# Applies a behaviour-preserving refactoring to a scratch copy of /repo, requires it to
# compile and pass the suite, and runs the named checks: every one must stay silent.
set -u
here=$(cd "$(dirname "$0")/.." && pwd)
d=$(readlink -f "$1"); shift
export GOFLAGS=-mod=mod GOPROXY=off GOSUMDB=off GOTOOLCHAIN=local GOWORK=off
[ $# -eq 0 ] && set -- $(python3 -c "import json;print(' '.join(c['property_id'] for c in json.load(open('$here/MANIFEST.json'))['checks']))")
tmp=$(mktemp -d /tmp/kxeq.XXXXXX)
trap 'rm -rf "$tmp"' EXIT
mkdir -p "$tmp/repo" "$tmp/verif"
(cd /repo && git ls-files -z | xargs -0 cp --parents -t "$tmp/repo")
cp "$here/known_findings.json" "$tmp/verif/"
(cd "$tmp/repo" && patch -p1 -s < "$d/patch.diff") || { echo "RESULT $d patch-does-not-apply"; exit 3; }
(cd "$tmp/repo" && go build ./...) || { echo "RESULT $d does-not-compile"; exit 3; }
suite=pass
if [ -n "${EQ_NOSUITE:-}" ]; then suite=skipped; else
(cd "$tmp/repo" && go test -vet=off -count=1 ./... >/dev/null 2>&1) || { (cd "$tmp/repo" && go test -vet=off -count=1 ./... >/dev/null 2>&1) || suite=FAIL; }
fi
noisy=""
for p in "$@"; do
  out=$(GOFLAGS=-mod=vendor "${KX_BIN:-$here/bin/kxcheck}" -prop "$p" -repo "$tmp/repo" -verif "$tmp/verif" 2>&1)
  rc=$?
  if [ $rc != 0 ]; then
    noisy="$noisy $p"
    echo "$out" | grep -v '^   \|^==\|^KNOWN' | sed "s#$tmp/repo/##g" | head -${EQ_LINES:-4}
  fi
done
echo "RESULT $(basename $(dirname $d))/$(basename $d) suite=$suite noisy:[$noisy ]"
