#!/usr/bin/env python3
"""usage: mkmut.py <name> <file-relative-to-repo> <old> <new> [count]
Writes /verif/mutants/<name>.diff: the unified diff that replaces the (unique, unless count given) occurrence of <old> by <new>."""
import sys, difflib, os
name, rel, old, new = sys.argv[1:5]
src = open(os.path.join('/repo', rel)).read()
n = src.count(old)
which = int(sys.argv[5]) if len(sys.argv) > 5 else None
if which is None and n != 1:
    sys.exit("%s: %d occurrences of the old text in %s" % (name, n, rel))
if which is None:
    dst = src.replace(old, new)
else:
    parts = src.split(old)
    dst = old.join(parts[:which+1]) + new + old.join(parts[which+1:])
d = difflib.unified_diff(src.splitlines(True), dst.splitlines(True), 'a/'+rel, 'b/'+rel)
out = os.path.join('/verif/mutants', name + '.diff')
mode = 'a' if os.environ.get('APPEND') else 'w'
open(out, mode).write(''.join(d))
print(out)
