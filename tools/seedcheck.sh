#!/bin/sh
# usage: tools/seedcheck.sh <dir-with patch.diff, meta.json, demo> [Cnn ...]
# Confirms a seeded defect in a scratch worktree of /repo (outside /repo and /verif):
#   1. the patch applies and builds, 2. the unedited suite passes with it,
#   3. the demonstration fails with it, 4. the demonstration passes without it,
# then runs the named checks (default: the property in meta.json) against the patched tree.
# Prints one RESULT line.  Removes the worktree and its build output.
set -u
here=$(cd "$(dirname "$0")/.." && pwd)
d=$(readlink -f "$1"); shift
export GOFLAGS=-mod=mod GOPROXY=off GOSUMDB=off GOTOOLCHAIN=local GOWORK=off
prop=$(python3 -c "import json,sys;print(json.load(open('$d/meta.json'))['property'])")
file=$(python3 -c "import json,sys;print(json.load(open('$d/meta.json'))['demo']['file'])")
dest=$(python3 -c "import json,sys;print(json.load(open('$d/meta.json'))['demo']['copy_to'])")
run=$(python3 -c "import json,sys;print(json.load(open('$d/meta.json'))['demo']['run'])")
[ $# -eq 0 ] && set -- "$prop"
wt=$(mktemp -d /tmp/kxseed.XXXXXX)
rmdir "$wt"
git -C /repo worktree add -q --detach "$wt" HEAD || exit 3
trap 'git -C /repo worktree remove --force "$wt" 2>/dev/null; rm -rf "$wt"' EXIT
cd "$wt"
git apply "$d/patch.diff" || { echo "RESULT $d patch-does-not-apply"; exit 3; }
go build ./... || { echo "RESULT $d does-not-compile"; exit 3; }
suite=pass
go test -vet=off -count=1 ./... > "$wt/.suite.log" 2>&1 || suite=FAIL
[ "$suite" = FAIL ] && { go test -vet=off -count=1 ./... > "$wt/.suite.log" 2>&1 && suite="pass(2nd run)"; }
mkdir -p "$wt/$dest"
cp "$d/$file" "$wt/$dest/"
with=pass
(timeout 180 sh -c "$run") > "$wt/.demo_with.log" 2>&1 || with=FAIL
# checks against the patched tree (demo file removed first: it is not part of the change)
rm -f "$wt/$dest/$file"
mkdir -p "$wt/.verif"; cp "$here/known_findings.json" "$wt/.verif/"
verdicts=""
for p in "$@"; do
  out=$(GOFLAGS=-mod=vendor "${KX_BIN:-$here/bin/kxcheck}" -prop "$p" -repo "$wt" -verif "$wt/.verif" 2>&1)
  rc=$?
  verdicts="$verdicts $p=exit$rc"
  echo "$out" | grep -v '^   \|^==' | sed "s#$wt/##g" | head -${SEED_LINES:-8}
done
git checkout -q -- .
cp "$d/$file" "$wt/$dest/"
without=pass
(timeout 180 sh -c "$run") > "$wt/.demo_without.log" 2>&1 || without=FAIL
[ "$suite" != pass ] && tail -5 "$wt/.suite.log"
echo "RESULT $(basename $(dirname $d))/$(basename $d) suite=$suite demo_with_change=$with demo_without_change=$without checks:$verdicts"
