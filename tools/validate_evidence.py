#!/usr/bin/env python3
"""Validates /verif/evidence/*.json against the evidence schema and MANIFEST.json against its schema."""
import json, glob, sys, os
import jsonschema
here = os.path.dirname(os.path.dirname(os.path.abspath(__file__)))
sch = json.load(open('/root/.vp/EVIDENCE.schema.json'))
bad = 0
man = json.load(open(os.path.join(here, 'MANIFEST.json')))
jsonschema.validate(man, json.load(open('/root/.vp/MANIFEST.schema.json')))
levels = {c['property_id']: c['level_claimed']['category'] for c in man['checks']}
for f in sorted(glob.glob(os.path.join(here, 'evidence', 'C*.json'))):
    ev = json.load(open(f))
    try:
        jsonschema.validate(ev, sch)
        pid = ev['property_id']
        if pid in levels and levels[pid] != ev['level']:
            raise Exception('level %s in evidence, %s in manifest' % (ev['level'], levels[pid]))
        print('ok  ', os.path.basename(f), ev['level'], ev['coverage'].get('obligations'), ev['coverage'].get('discharged'))
    except Exception as e:
        bad += 1
        print('BAD ', os.path.basename(f), str(e)[:200])
for pid in levels:
    if not os.path.exists(os.path.join(here, 'evidence', pid + '.json')):
        print('MISSING evidence for', pid); bad += 1
sys.exit(1 if bad else 0)
