#!/bin/sh
# usage: tools/mut.sh <patch.diff | -r <commit>> <Cnn> [Cnn...]
# Applies a patch to (or reverts a commit in) a scratch copy of /repo's working tree and runs the
# named checks against the copy.  /repo and /verif/evidence are not touched.
set -u
here=$(cd "$(dirname "$0")/.." && pwd)
export GOFLAGS=-mod=mod GOPROXY=off GOSUMDB=off GOTOOLCHAIN=local GOWORK=off
tmp=$(mktemp -d /tmp/kxmut.XXXXXX)
trap 'rm -rf "$tmp"' EXIT
mkdir -p "$tmp/repo" "$tmp/verif"
(cd /repo && git ls-files -z | xargs -0 cp --parents -t "$tmp/repo")
# include uncommitted edits of tracked files
cp "$here/known_findings.json" "$tmp/verif/"
if [ "$1" = "-r" ]; then
  (cd /repo && git show "$2") | (cd "$tmp/repo" && patch -R -p1 -s) || { echo "revert failed"; exit 3; }
  shift 2
else
  pf=$(readlink -f "$1")
  (cd "$tmp/repo" && patch -p1 -s < "$pf") || { echo "patch failed"; exit 3; }
  shift
fi
(cd "$tmp/repo" && go build ./... ) || { echo "MUTANT DOES NOT COMPILE"; exit 4; }
if [ "${MUT_TEST:-0}" = 1 ]; then
  t=$(cd "$tmp/repo" && go test -vet=off -count=1 ./... 2>&1 | grep -v '^ok\|no test files')
  [ -n "$t" ] && { echo "$t" | head -4; echo "MUTANT FAILS TESTS"; }
fi
rc=0
for p in "$@"; do
  GOFLAGS=-mod=vendor "$here/bin/kxcheck" -prop "$p" -repo "$tmp/repo" -verif "$tmp/verif" | grep -v '^   ' | sed "s#$tmp/repo/##g" | head -${MUT_LINES:-12}
done
