package main

import (
	"bufio"
	"bytes"
	"encoding/json"
	"fmt"
	"os"
	"os/exec"
	"path/filepath"
	"regexp"
	"strconv"
	"strings"
)

// E3 - the Go compiler's own verdict on bounds checks.  The module is built
// with `-l -S -d=ssa/check_bce/debug=1`; the assembly listing tells, per
// source line, which runtime panic calls survive.  An index or slice
// expression is compiler-proved in range iff NO bounds-panic call is
// attributed to its source line (the residue list alone is not sound: a check
// that always fails disappears from it but keeps its panic call).

type PanicListing struct {
	// file (repo-relative) -> line -> runtime panic function names
	ByLine map[string]map[int][]string
	// residue: file:line:col of checks the prove pass could not decide
	Residue map[string]bool
	Lines   int
}

var (
	rePanicCall = regexp.MustCompile(`\(([^()]+\.go):(\d+)\)\s+CALL\s+runtime\.(panic[A-Za-z0-9]*|gopanic|goPanic[A-Za-z0-9]*)\(SB\)`)
	reResidue   = regexp.MustCompile(`^([^\s:]+\.go):(\d+):(\d+): Found Is(Slice)?InBounds`)
)

func (p *Program) compilerListing() (*PanicListing, error) {
	if p.listing != nil {
		return p.listing, nil
	}
	args := []string{"build", "-gcflags=" + modPath + "/...=-l -S -d=ssa/check_bce/debug=1"}
	if len(p.Overlay) > 0 {
		// compile the same helper-inlined sources that are analysed
		dir, err := os.MkdirTemp("", "kxoverlay.")
		if err != nil {
			return nil, err
		}
		defer os.RemoveAll(dir)
		repl := map[string]string{}
		i := 0
		for fn, b := range p.Overlay {
			i++
			dst := filepath.Join(dir, fmt.Sprintf("f%d.go", i))
			if err := os.WriteFile(dst, b, 0o644); err != nil {
				return nil, err
			}
			repl[fn] = dst
		}
		js, _ := json.Marshal(map[string]interface{}{"Replace": repl})
		ov := filepath.Join(dir, "overlay.json")
		if err := os.WriteFile(ov, js, 0o644); err != nil {
			return nil, err
		}
		args = append(args, "-overlay="+ov)
	}
	args = append(args, "./...")
	cmd := exec.Command("go", args...)
	cmd.Dir = p.RepoDir
	arch := p.Arch
	cmd.Env = loadEnv(arch)
	var out bytes.Buffer
	cmd.Stdout = &out
	cmd.Stderr = &out
	if err := cmd.Run(); err != nil {
		tail := out.String()
		if len(tail) > 600 {
			tail = tail[len(tail)-600:]
		}
		return nil, fmt.Errorf("go build for the compiler listing failed: %v\n%s", err, tail)
	}
	pl := &PanicListing{ByLine: map[string]map[int][]string{}, Residue: map[string]bool{}}
	sc := bufio.NewScanner(&out)
	sc.Buffer(make([]byte, 1<<20), 1<<24)
	for sc.Scan() {
		line := sc.Text()
		pl.Lines++
		if m := rePanicCall.FindStringSubmatch(line); m != nil {
			f := strings.TrimPrefix(m[1], p.RepoDir+"/")
			n, _ := strconv.Atoi(m[2])
			if pl.ByLine[f] == nil {
				pl.ByLine[f] = map[int][]string{}
			}
			pl.ByLine[f][n] = append(pl.ByLine[f][n], m[3])
			continue
		}
		if m := reResidue.FindStringSubmatch(line); m != nil {
			f := strings.TrimPrefix(m[1], p.RepoDir+"/")
			pl.Residue[f+":"+m[2]+":"+m[3]] = true
		}
	}
	if pl.Lines < 1000 {
		return nil, fmt.Errorf("compiler listing is implausibly short (%d lines): -S output missing", pl.Lines)
	}
	p.listing = pl
	return pl, nil
}

// BoundsPanicsAt lists the bounds-check panic calls attributed to file:line.
func (pl *PanicListing) BoundsPanicsAt(file string, line int) []string {
	var out []string
	for _, k := range pl.ByLine[file][line] {
		if strings.HasPrefix(k, "panicIndex") || strings.HasPrefix(k, "panicSlice") {
			out = append(out, k)
		}
	}
	return out
}

// PanicsAt lists all runtime panic calls attributed to file:line.
func (pl *PanicListing) PanicsAt(file string, line int) []string {
	return pl.ByLine[file][line]
}

// IndexPanicsAt / SlicePanicsAt: the bounds-panic calls of one kind on a line.
// An index expression compiles to runtime.panicIndex*, a slice expression to
// runtime.panicSlice*; a line that carries both kinds is judged per kind.
func (pl *PanicListing) IndexPanicsAt(file string, line int) []string {
	var out []string
	for _, k := range pl.ByLine[file][line] {
		if strings.HasPrefix(k, "panicIndex") {
			out = append(out, k)
		}
	}
	return out
}

func (pl *PanicListing) SlicePanicsAt(file string, line int) []string {
	var out []string
	for _, k := range pl.ByLine[file][line] {
		if strings.HasPrefix(k, "panicSlice") {
			out = append(out, k)
		}
	}
	return out
}
