// kxcheck decides structural clauses of the knx-go properties C01..C20 from
// the type-checked SSA form of /repo.  Nothing in /repo is executed.
package main

import (
	"flag"
	"fmt"
	"os"
	"runtime/debug"
	"sort"
	"strconv"
	"strings"
)

type checkFn func(c *Check, p *Program)

type checkDef struct {
	level string
	run   checkFn
}

var checks = map[string]checkDef{}

func register(prop, level string, fn checkFn) { checks[prop] = checkDef{level, fn} }

func main() {
	prop := flag.String("prop", "", "property id (C01..C20) or 'all'")
	tier := flag.String("tier", "quick", "quick | thorough")
	repo := flag.String("repo", "/repo", "repository root")
	verif := flag.String("verif", "/verif", "verification directory (evidence, known findings)")
	arch := flag.String("arch", "", "GOARCH to analyse (default amd64; thorough adds 386)")
	dump := flag.String("dump", "", "debug: dump SSA of function (substring match)")
	interp := flag.String("interp", "", "debug: run the layout interpreter on a function (substring match) and print its paths")
	shownorm := flag.String("shownorm", "", "debug: write the helper-inlined files into this directory and print the normalisation log")
	flag.Parse()
	if *shownorm != "" {
		ov, lg := normalizeRepo(*repo, *arch)
		for _, l := range lg {
			fmt.Println(l)
		}
		os.MkdirAll(*shownorm, 0o755)
		for fn, b := range ov {
			os.WriteFile(*shownorm+"/"+strings.ReplaceAll(strings.TrimPrefix(fn, *repo+"/"), "/", "_"), b, 0o644)
		}
		fmt.Printf("%d file(s) rewritten\n", len(ov))
		return
	}

	if env := os.Getenv("VERIF_TIER"); env != "" && !flagSet("tier") {
		*tier = env
	}
	seed, _ := strconv.ParseInt(os.Getenv("VERIF_SEED"), 10, 64)

	if *interp != "" {
		p, err := LoadProgram(*repo, *arch)
		if err != nil {
			fmt.Println(err)
			os.Exit(2)
		}
		for _, fn := range p.AllFuncs {
			if strings.Contains(fn.String(), *interp) && fn.Blocks != nil {
				fmt.Println("==", fn.String())
				for _, pp := range runEncoder(p, fn) {
					fmt.Println("  path:", pathLabel(pp), " env:", pp.env.String())
					fmt.Println("    ret:", dumpAV(pp.ret, pp, 0))
					if sl, ok := pp.ret.(avSlice); ok {
						li := &layoutInterp{p: p}
						if bs, ok := li.sliceBytes(pp, sl); ok {
							for i, b := range bs {
								fmt.Printf("    byte %d: %s\n", i, b)
							}
						}
					}
					for _, n := range pp.notes {
						fmt.Println("    note:", n)
					}
					for _, n := range pp.effect {
						fmt.Println("    effect:", n)
					}
				}
			}
		}
		return
	}
	if *dump != "" {
		p, err := LoadProgram(*repo, *arch)
		if err != nil {
			fmt.Println(err)
			os.Exit(2)
		}
		for _, fn := range p.AllFuncs {
			if strings.Contains(fn.String(), *dump) {
				fn.WriteTo(os.Stdout)
			}
		}
		return
	}

	var props []string
	if *prop == "all" {
		for k := range checks {
			props = append(props, k)
		}
		sort.Strings(props)
	} else {
		props = strings.Split(*prop, ",")
	}
	if len(props) == 0 || props[0] == "" {
		fmt.Println("usage: kxcheck -prop Cnn [-tier quick|thorough]")
		os.Exit(2)
	}

	worst := 0
	var cache = map[string]*Program{}
	load := func(a string) (*Program, error) {
		if p, ok := cache[a]; ok {
			return p, nil
		}
		p, err := LoadProgram(*repo, a)
		if err == nil {
			cache[a] = p
		}
		return p, err
	}
	for _, id := range props {
		def, ok := checks[id]
		if !ok {
			fmt.Printf("unknown property %q\n", id)
			os.Exit(2)
		}
		archs := []string{"amd64"}
		if *arch != "" {
			archs = []string{*arch}
		} else if *tier == "thorough" {
			archs = []string{"amd64", "386"}
		}
		c := NewCheck(id, *tier)
		c.Level = def.level
		c.Extra("archs", strings.Join(archs, "+"))
		cmdline := fmt.Sprintf("./bin/kxcheck -prop %s -tier %s", id, *tier)
		code := func() (code int) {
			defer func() {
				if r := recover(); r != nil {
					fmt.Printf("INTERNAL: panic in checker for %s: %v\n%s\n", id, r, debug.Stack())
					code = 2
				}
			}()
			for i, a := range archs {
				p, err := load(a)
				if err != nil {
					// A tree that does not type-check is a broken tree, not a verdict.
					fmt.Printf("INTERNAL: cannot load %s (GOARCH=%s): %v\n", *repo, a, err)
					c.Internal("load failed for GOARCH=%s: %v", a, err)
					break
				}
				c.P = p
				if i == 0 && len(p.NormLog) > 0 {
					for _, l := range p.NormLog {
						c.Note("normalisation: %s", l)
					}
					if len(p.Overlay) > 0 {
						c.Note("positions in files touched by the normalisation refer to the helper-inlined form of the file, not to the file on disk")
					}
				}
				if i == 0 {
					def.run(c, p)
				} else {
					// secondary architecture: run into a shadow check and merge
					// only the failures that are new under this configuration.
					sc := NewCheck(id, *tier)
					sc.Level = def.level
					sc.P = p
					def.run(sc, p)
					primary := map[string]bool{}
					for _, o := range c.obls {
						primary[o.ID()] = o.OK
					}
					nNew, nFail := 0, 0
					for _, o := range sc.obls {
						ok, exists := primary[o.ID()]
						if !exists {
							nNew++
						}
						if !o.OK && !(exists && !ok) {
							// fails only under this configuration
							nFail++
							o.Key = o.Key + " [GOARCH=" + a + "]"
							c.add(o)
						}
					}
					c.OK("ARCH", "re-run under GOARCH="+a, "", fmt.Sprintf("%d obligations re-evaluated, %d exist only there, %d fail only there", len(sc.obls), nNew, nFail))
					c.internal = append(c.internal, sc.internal...)
				}
			}
			return c.Finish(*verif, cmdline, seed)
		}()
		if code > worst {
			worst = code
		}
	}
	os.Exit(worst)
}

func flagSet(name string) bool {
	set := false
	flag.Visit(func(f *flag.Flag) {
		if f.Name == name {
			set = true
		}
	})
	return set
}
