package main

import (
	"fmt"
	"go/constant"
	"go/token"
	"go/types"
	"sort"
	"strings"

	"golang.org/x/tools/go/ssa"
	"golang.org/x/tools/go/ssa/ssautil"
)

// ---------------------------------------------------------------------------
// small predicates

func deref(t types.Type) types.Type {
	if p, ok := t.Underlying().(*types.Pointer); ok {
		return p.Elem()
	}
	return t
}

func isNamed(t types.Type, pkgPath, name string) bool {
	n, ok := types.Unalias(t).(*types.Named)
	if !ok {
		return false
	}
	o := n.Obj()
	return o.Name() == name && o.Pkg() != nil && o.Pkg().Path() == pkgPath
}

func isPtrToNamed(t types.Type, pkgPath, name string) bool {
	p, ok := types.Unalias(t).(*types.Pointer)
	return ok && isNamed(p.Elem(), pkgPath, name)
}

func constInt(v ssa.Value) (int64, bool) {
	c, ok := v.(*ssa.Const)
	if !ok {
		// arithmetic over constants that go/ssa does not fold (operands that were variables
		// in the source: inlined helper parameters bound to literals)
		switch v.(type) {
		case *ssa.BinOp, *ssa.Convert, *ssa.ChangeType, *ssa.UnOp, *ssa.Call:
			if cv, okf := finExpr(v, nil, 0, nil, 0); okf && cv.Kind() == constant.Int {
				if i, exact := constant.Int64Val(cv); exact {
					return i, true
				}
			}
		}
		return 0, false
	}
	if c.Value == nil {
		return 0, false
	}
	if c.Value.Kind() != constant.Int {
		return 0, false
	}
	i, exact := constant.Int64Val(c.Value)
	if !exact {
		u, ok := constant.Uint64Val(c.Value)
		if !ok {
			return 0, false
		}
		return int64(u), true
	}
	return i, true
}

func isNilConst(v ssa.Value) bool {
	c, ok := v.(*ssa.Const)
	return ok && c.Value == nil
}

// calleeFunc returns the statically called function, if any.
func calleeFunc(c ssa.CallInstruction) *ssa.Function {
	return c.Common().StaticCallee()
}

// calleeObj returns the *types.Func being called: the static callee's object
// or the interface method for invoke-mode calls.
func calleeObj(c ssa.CallInstruction) *types.Func {
	cc := c.Common()
	if cc.IsInvoke() {
		return cc.Method
	}
	if f := cc.StaticCallee(); f != nil {
		if o, ok := f.Object().(*types.Func); ok {
			return o
		}
		// bound method closure / wrapper: try origin by name
	}
	return nil
}

// funcIs reports whether fn is pkgPath.recv.name (recv "" for package-level).
func funcIs(fn *types.Func, pkgPath, recv, name string) bool {
	if fn == nil || fn.Name() != name || fn.Pkg() == nil || fn.Pkg().Path() != pkgPath {
		return false
	}
	sig := fn.Type().(*types.Signature)
	if recv == "" {
		return sig.Recv() == nil
	}
	if sig.Recv() == nil {
		return false
	}
	n := namedOf(sig.Recv().Type())
	return n != nil && n.Obj().Name() == recv
}

// callIs reports whether the call goes to pkgPath.recv.name (static or invoke).
func callIs(c ssa.CallInstruction, pkgPath, recv, name string) bool {
	return funcIs(calleeObj(c), pkgPath, recv, name)
}

func builtinName(c ssa.CallInstruction) string {
	if b, ok := c.Common().Value.(*ssa.Builtin); ok {
		return b.Name()
	}
	return ""
}

// callArgs returns the arguments without the receiver for static method calls.
func callArgs(c ssa.CallInstruction) []ssa.Value {
	cc := c.Common()
	if cc.IsInvoke() {
		return cc.Args
	}
	if f := cc.StaticCallee(); f != nil && f.Signature.Recv() != nil && len(cc.Args) > 0 {
		return cc.Args[1:]
	}
	return cc.Args
}

// callRecv returns the receiver value of a method call (invoke or static).
func callRecv(c ssa.CallInstruction) ssa.Value {
	cc := c.Common()
	if cc.IsInvoke() {
		return cc.Value
	}
	if f := cc.StaticCallee(); f != nil && f.Signature.Recv() != nil && len(cc.Args) > 0 {
		return cc.Args[0]
	}
	return nil
}

// ---------------------------------------------------------------------------
// closures, spills

// closureBinding finds the value bound to a free variable at the (unique)
// MakeClosure of its function.
func closureBinding(fv *ssa.FreeVar) ssa.Value {
	fn := fv.Parent()
	par := fn.Parent()
	if par == nil {
		return nil
	}
	idx := -1
	for i, f := range fn.FreeVars {
		if f == fv {
			idx = i
		}
	}
	if idx < 0 {
		return nil
	}
	var found ssa.Value
	n := 0
	for _, b := range par.Blocks {
		for _, in := range b.Instrs {
			if mc, ok := in.(*ssa.MakeClosure); ok && mc.Fn == fn {
				n++
				if idx < len(mc.Bindings) {
					found = mc.Bindings[idx]
				}
			}
		}
	}
	if n != 1 {
		return nil
	}
	return found
}

// makeClosureOf returns the MakeClosure instruction(s) creating fn in its parent.
func makeClosuresOf(fn *ssa.Function) []*ssa.MakeClosure {
	par := fn.Parent()
	if par == nil {
		return nil
	}
	var out []*ssa.MakeClosure
	for _, b := range par.Blocks {
		for _, in := range b.Instrs {
			if mc, ok := in.(*ssa.MakeClosure); ok && mc.Fn == fn {
				out = append(out, mc)
			}
		}
	}
	return out
}

// cellOf canonicalises an address that denotes a local variable cell: an
// Alloc, or a FreeVar bound to an Alloc of an enclosing function.
func cellOf(addr ssa.Value) *ssa.Alloc {
	for i := 0; i < 8; i++ {
		switch a := addr.(type) {
		case *ssa.Alloc:
			return a
		case *ssa.FreeVar:
			b := closureBinding(a)
			if b == nil {
				return nil
			}
			addr = b
		default:
			return nil
		}
	}
	return nil
}

// cellStores lists every Store whose address is the cell, in the allocating
// function and in closures that capture it (transitively).
func cellStores(cell *ssa.Alloc) []*ssa.Store {
	var out []*ssa.Store
	var visit func(fn *ssa.Function, addr ssa.Value)
	visit = func(fn *ssa.Function, addr ssa.Value) {
		for _, b := range fn.Blocks {
			for _, in := range b.Instrs {
				switch x := in.(type) {
				case *ssa.Store:
					if x.Addr == addr {
						out = append(out, x)
					}
				case *ssa.MakeClosure:
					cf := x.Fn.(*ssa.Function)
					for i, bd := range x.Bindings {
						if bd == addr && i < len(cf.FreeVars) {
							visit(cf, cf.FreeVars[i])
						}
					}
				}
			}
		}
	}
	visit(cell.Parent(), cell)
	return out
}

// cellLoads lists every load of the cell, in the allocating function and in
// closures that capture it (transitively).
func cellLoads(cell *ssa.Alloc) []*ssa.UnOp {
	var out []*ssa.UnOp
	var visit func(fn *ssa.Function, addr ssa.Value)
	visit = func(fn *ssa.Function, addr ssa.Value) {
		for _, b := range fn.Blocks {
			for _, in := range b.Instrs {
				switch x := in.(type) {
				case *ssa.UnOp:
					if x.Op == token.MUL && x.X == addr {
						out = append(out, x)
					}
				case *ssa.MakeClosure:
					cf := x.Fn.(*ssa.Function)
					for i, bd := range x.Bindings {
						if bd == addr && i < len(cf.FreeVars) {
							visit(cf, cf.FreeVars[i])
						}
					}
				}
			}
		}
	}
	visit(cell.Parent(), cell)
	return out
}

// cellEscapes reports whether the cell's address is used other than by loads,
// stores to it, and closure capture (e.g. passed to a call).
func cellEscapes(cell *ssa.Alloc) bool {
	esc := false
	var visit func(addr ssa.Value)
	visit = func(addr ssa.Value) {
		refs := addr.Referrers()
		if refs == nil {
			return
		}
		for _, r := range *refs {
			switch x := r.(type) {
			case *ssa.UnOp:
				if x.Op != token.MUL {
					esc = true
				}
			case *ssa.Store:
				if x.Addr != addr {
					esc = true
				}
			case *ssa.MakeClosure:
				cf := x.Fn.(*ssa.Function)
				for i, bd := range x.Bindings {
					if bd == addr && i < len(cf.FreeVars) {
						visit(cf.FreeVars[i])
					}
				}
			case *ssa.DebugRef:
			default:
				esc = true
			}
		}
	}
	visit(cell)
	return esc
}

// unspill replaces a load from a cell that is stored exactly once, in the
// entry block of its function, with a parameter (the shape go/ssa produces
// when a closure captures a parameter or receiver) by that parameter.
func unspill(v ssa.Value) ssa.Value {
	for i := 0; i < 8; i++ {
		u, ok := v.(*ssa.UnOp)
		if !ok || u.Op != token.MUL {
			return v
		}
		cell := cellOf(u.X)
		if cell == nil {
			return v
		}
		st := cellStores(cell)
		if len(st) != 1 || cellEscapes(cell) {
			return v
		}
		s := st[0]
		if s.Block() != cell.Parent().Blocks[0] {
			return v
		}
		switch s.Val.(type) {
		case *ssa.Parameter:
			v = s.Val
		default:
			return v
		}
	}
	return v
}

// ---------------------------------------------------------------------------
// access paths

type sel struct {
	Field *types.Var
	Index int64
	IsIdx bool
}

// Path is Root followed by field / constant-index selectors (pointer
// dereferences are implicit).
type Path struct {
	Root ssa.Value
	Sels []sel
}

func (p *Path) String() string {
	if p == nil {
		return "<nopath>"
	}
	var sb strings.Builder
	sb.WriteString(rootName(p.Root))
	for _, s := range p.Sels {
		if s.IsIdx {
			fmt.Fprintf(&sb, "[%d]", s.Index)
		} else {
			sb.WriteString("." + s.Field.Name())
		}
	}
	return sb.String()
}

func rootName(v ssa.Value) string {
	switch x := v.(type) {
	case *ssa.Parameter:
		return x.Name()
	case *ssa.Global:
		return x.Name()
	case *ssa.Alloc:
		if x.Comment != "" {
			return x.Comment
		}
		return x.Name()
	case *ssa.FreeVar:
		return x.Name()
	}
	if v == nil {
		return "<nil>"
	}
	return v.Name()
}

func (p *Path) Equal(q *Path) bool {
	if p == nil || q == nil || p.Root != q.Root || len(p.Sels) != len(q.Sels) {
		return false
	}
	for i := range p.Sels {
		if p.Sels[i] != q.Sels[i] {
			return false
		}
	}
	return true
}

// LastField returns the final field selector or nil.
func (p *Path) LastField() *types.Var {
	if p == nil || len(p.Sels) == 0 || p.Sels[len(p.Sels)-1].IsIdx {
		return nil
	}
	return p.Sels[len(p.Sels)-1].Field
}

func (p *Path) with(s sel) *Path {
	q := &Path{Root: p.Root, Sels: make([]sel, len(p.Sels)+1)}
	copy(q.Sels, p.Sels)
	q.Sels[len(p.Sels)] = s
	return q
}

func structField(t types.Type, i int) *types.Var {
	st, ok := deref(t).Underlying().(*types.Struct)
	if !ok || i >= st.NumFields() {
		return nil
	}
	return st.Field(i)
}

// valuePath gives the access path a value was loaded from (or the value
// itself as a root).
func valuePath(v ssa.Value) *Path {
	v = unspill(v)
	switch x := v.(type) {
	case *ssa.UnOp:
		if x.Op == token.MUL {
			return addrPath(x.X)
		}
	case *ssa.Field:
		if f := structField(x.X.Type(), x.Field); f != nil {
			return valuePath(x.X).with(sel{Field: f})
		}
	case *ssa.ChangeType:
		return valuePath(x.X)
	case *ssa.Convert:
		// width-preserving conversions between named integer types are transparent
		if sameBasicSize(x.X.Type(), x.Type()) {
			return valuePath(x.X)
		}
	}
	return &Path{Root: v}
}

func sameBasicSize(a, b types.Type) bool {
	ba, ok1 := a.Underlying().(*types.Basic)
	bb, ok2 := b.Underlying().(*types.Basic)
	if !ok1 || !ok2 {
		return false
	}
	return ba.Kind() == bb.Kind()
}

// addrPath gives the access path denoted by an address.
func addrPath(a ssa.Value) *Path {
	switch x := a.(type) {
	case *ssa.FieldAddr:
		if f := structField(x.X.Type(), x.Field); f != nil {
			switch x.X.(type) {
			case *ssa.FieldAddr, *ssa.IndexAddr:
				// address of a nested struct: continue along the address chain
				return addrPath(x.X).with(sel{Field: f})
			}
			return valuePath(x.X).with(sel{Field: f})
		}
	case *ssa.IndexAddr:
		if k, ok := constInt(x.Index); ok {
			base := x.X
			// &arr[k] where arr is *[N]T, or slice[k]
			switch base.(type) {
			case *ssa.FieldAddr, *ssa.IndexAddr:
				return addrPath(base).with(sel{IsIdx: true, Index: k})
			}
			return valuePath(base).with(sel{IsIdx: true, Index: k})
		}
	case *ssa.ChangeType:
		return addrPath(x.X)
	case *ssa.FreeVar:
		if c := cellOf(x); c != nil {
			return &Path{Root: c}
		}
	case *ssa.Alloc, *ssa.Global:
		return &Path{Root: a}
	}
	return valuePath(a)
}

// fieldOfAddr returns the struct field an address denotes (last selector).
func fieldOfAddr(a ssa.Value) *types.Var {
	for {
		switch x := a.(type) {
		case *ssa.FieldAddr:
			return structField(x.X.Type(), x.Field)
		case *ssa.ChangeType:
			a = x.X
		default:
			return nil
		}
	}
}

// loadedField returns the struct field a value was loaded from, following
// transparent conversions.
func loadedField(v ssa.Value) *types.Var {
	for i := 0; i < 6; i++ {
		switch x := v.(type) {
		case *ssa.UnOp:
			if x.Op == token.MUL {
				if f := fieldOfAddr(x.X); f != nil {
					return f
				}
				// a local assigned exactly once (possibly captured by a closure): the value assigned
				if cell := cellOf(x.X); cell != nil && !cellEscapes(cell) {
					if sts := cellStores(cell); len(sts) == 1 {
						v = sts[0].Val
						continue
					}
				}
			}
			return nil
		case *ssa.Field:
			return structField(x.X.Type(), x.Field)
		case *ssa.ChangeType:
			v = x.X
		case *ssa.Convert:
			if !sameBasicSize(x.X.Type(), x.Type()) {
				return nil
			}
			v = x.X
		default:
			return nil
		}
	}
	return nil
}

// ---------------------------------------------------------------------------
// dominance, edges, reachability

// An Edge is a taken branch: the If at the end of From, Pol=true for the
// "then" successor.
type Edge struct {
	From *ssa.BasicBlock
	Cond ssa.Value
	Pol  bool
}

func ifOf(b *ssa.BasicBlock) *ssa.If {
	if len(b.Instrs) == 0 {
		return nil
	}
	i, _ := b.Instrs[len(b.Instrs)-1].(*ssa.If)
	return i
}

// edgeDominates reports whether every path from the entry to b passes the
// edge from→succ.
func edgeDominates(from, succ, b *ssa.BasicBlock) bool {
	if !succ.Dominates(b) {
		return false
	}
	for _, p := range succ.Preds {
		if p == from {
			continue
		}
		if !succ.Dominates(p) {
			return false
		}
	}
	// both successors identical: no information
	if len(from.Succs) == 2 && from.Succs[0] == from.Succs[1] {
		return false
	}
	return true
}

// domEdges lists the branch edges that dominate block b (innermost last).
func domEdges(b *ssa.BasicBlock) []Edge {
	var out []Edge
	for x := b; x != nil; x = x.Idom() {
		par := x.Idom()
		if par == nil {
			break
		}
		_ = par
	}
	// walk all dominators of b
	for d := b.Idom(); d != nil; d = d.Idom() {
		iff := ifOf(d)
		if iff == nil {
			continue
		}
		for i, s := range d.Succs {
			if edgeDominates(d, s, b) {
				out = append(out, Edge{From: d, Cond: iff.Cond, Pol: i == 0})
			}
		}
	}
	// b itself may be a successor with single pred handled above through Idom
	// reverse: outermost first
	for i, j := 0, len(out)-1; i < j; i, j = i+1, j-1 {
		out[i], out[j] = out[j], out[i]
	}
	return out
}

// A Cmp is a normalised comparison X op Y known to hold.
type Cmp struct {
	Op   token.Token
	X, Y ssa.Value
}

func negOp(op token.Token) token.Token {
	switch op {
	case token.EQL:
		return token.NEQ
	case token.NEQ:
		return token.EQL
	case token.LSS:
		return token.GEQ
	case token.GEQ:
		return token.LSS
	case token.GTR:
		return token.LEQ
	case token.LEQ:
		return token.GTR
	}
	return token.ILLEGAL
}

func swapOp(op token.Token) token.Token {
	switch op {
	case token.LSS:
		return token.GTR
	case token.GTR:
		return token.LSS
	case token.LEQ:
		return token.GEQ
	case token.GEQ:
		return token.LEQ
	}
	return op
}

// cmpOf normalises a boolean SSA value under a polarity into comparisons.
// A bare boolean b yields (b == true/false).
func cmpOf(cond ssa.Value, pol bool) (Cmp, bool) {
	for {
		u, ok := cond.(*ssa.UnOp)
		if ok && u.Op == token.NOT {
			cond = u.X
			pol = !pol
			continue
		}
		// a boolean handed to a function literal at its single call site: the value computed there
		if prm, isP := cond.(*ssa.Parameter); isP {
			if a := litParamBinding(prm); a != nil {
				cond = a
				continue
			}
		}
		break
	}
	if b, ok := cond.(*ssa.BinOp); ok {
		switch b.Op {
		case token.EQL, token.NEQ, token.LSS, token.LEQ, token.GTR, token.GEQ:
			op := b.Op
			if !pol {
				op = negOp(op)
			}
			return Cmp{Op: op, X: b.X, Y: b.Y}, true
		}
	}
	// bare boolean
	t := ssa.NewConst(constant.MakeBool(true), types.Typ[types.Bool])
	op := token.EQL
	if !pol {
		op = token.NEQ
	}
	return Cmp{Op: op, X: cond, Y: t}, true
}

// factsAt lists the comparisons known at the start of block b: the branch
// edges that dominate b, plus what phi threading adds (threadedFacts).
func factsAt(b *ssa.BasicBlock) []Cmp {
	return factsAtDepth(b, 0)
}

func directFacts(b *ssa.BasicBlock) []Cmp {
	var out []Cmp
	for _, e := range domEdges(b) {
		if c, ok := cmpOf(e.Cond, e.Pol); ok {
			out = append(out, c)
		}
	}
	return out
}

var factsCache = map[*ssa.BasicBlock][]Cmp{}

func factsAtDepth(b *ssa.BasicBlock, depth int) []Cmp {
	if depth == 0 {
		if f, ok := factsCache[b]; ok {
			return f
		}
	}
	out := directFacts(b)
	if depth < 6 {
		for _, j := range threadJoins(b, out) {
			feas := feasiblePreds(j, out)
			if len(feas) == 0 || len(feas) == len(j.Preds) {
				continue
			}
			// facts common to every feasible way into the join
			var common []Cmp
			for n, i := range feas {
				p := j.Preds[i]
				fs := append(append([]Cmp{}, factsAtDepth(p, depth+1)...), edgeFactsOf(p, j)...)
				if n == 0 {
					common = fs
					continue
				}
				keys := map[string]bool{}
				for _, f := range fs {
					keys[cmpKey(f)] = true
				}
				var keep []Cmp
				for _, f := range common {
					if keys[cmpKey(f)] {
						keep = append(keep, f)
					}
				}
				common = keep
			}
			out = append(out, common...)
			if len(feas) == 1 {
				// the other phis of the join have the value of that edge
				for _, in := range j.Instrs {
					phi, ok := in.(*ssa.Phi)
					if !ok {
						break
					}
					out = append(out, Cmp{Op: token.EQL, X: phi, Y: phi.Edges[feas[0]]})
				}
			}
		}
	}
	if depth == 0 {
		factsCache[b] = out
	}
	return out
}

func edgeFactsOf(from, to *ssa.BasicBlock) []Cmp {
	iff := ifOf(from)
	if iff == nil || len(from.Succs) != 2 || from.Succs[0] == from.Succs[1] {
		return nil
	}
	if c, ok := cmpOf(iff.Cond, from.Succs[0] == to); ok {
		return []Cmp{c}
	}
	return nil
}

func valKey(v ssa.Value) string {
	if c, ok := v.(*ssa.Const); ok {
		return "const:" + c.String()
	}
	return fmt.Sprintf("%p", v)
}

func cmpKey(c Cmp) string { return c.Op.String() + "|" + valKey(c.X) + "|" + valKey(c.Y) }

// threadJoins: the join blocks (not loop headers) that define a phi compared
// in one of the facts and dominate b.
func threadJoins(b *ssa.BasicBlock, facts []Cmp) []*ssa.BasicBlock {
	var out []*ssa.BasicBlock
	seen := map[*ssa.BasicBlock]bool{}
	add := func(v ssa.Value) {
		phi, ok := v.(*ssa.Phi)
		if !ok {
			return
		}
		j := phi.Block()
		if seen[j] || j.Parent() != b.Parent() || !(j == b || j.Dominates(b)) {
			return
		}
		for _, p := range j.Preds {
			if j.Dominates(p) {
				return // loop header: the phi mixes iterations
			}
		}
		seen[j] = true
		out = append(out, j)
	}
	for _, f := range facts {
		add(f.X)
		add(f.Y)
	}
	return out
}

// feasiblePreds: the predecessors through which join j can have been entered
// given the facts (comparisons over phis of j that are constant on some
// edges).  A predecessor is infeasible when some fact evaluates to false
// with the phis replaced by that edge's values.
func feasiblePreds(j *ssa.BasicBlock, facts []Cmp) []int {
	var out []int
	for i := range j.Preds {
		ok := true
		for _, f := range facts {
			x, y := f.X, f.Y
			sub := false
			if phi, isPhi := x.(*ssa.Phi); isPhi && phi.Block() == j {
				x, sub = phi.Edges[i], true
			}
			if phi, isPhi := y.(*ssa.Phi); isPhi && phi.Block() == j {
				y, sub = phi.Edges[i], true
			}
			if !sub {
				continue
			}
			if holds, known := evalCmpConst(f.Op, x, y); known && !holds {
				ok = false
				break
			}
		}
		if ok {
			out = append(out, i)
		}
	}
	return out
}

// evalCmpConst decides x op y when both sides are constants (booleans,
// integers, nil) or one is nil and the other a value known to be non-nil.
func evalCmpConst(op token.Token, x, y ssa.Value) (holds, known bool) {
	cx, okx := x.(*ssa.Const)
	cy, oky := y.(*ssa.Const)
	nonNil := func(v ssa.Value) bool {
		switch x := v.(type) {
		case *ssa.MakeInterface, *ssa.Alloc, *ssa.MakeClosure, *ssa.MakeChan, *ssa.MakeMap, *ssa.MakeSlice, *ssa.Function:
			return true
		case *ssa.Call:
			o := calleeObj(x)
			return funcIs(o, "errors", "", "New") || funcIs(o, "fmt", "", "Errorf")
		}
		return false
	}
	if okx && oky {
		if cx.Value == nil || cy.Value == nil {
			eq := cx.Value == nil && cy.Value == nil
			switch op {
			case token.EQL:
				return eq, true
			case token.NEQ:
				return !eq, true
			}
			return false, false
		}
		if cx.Value.Kind() == constant.Bool && cy.Value.Kind() == constant.Bool {
			eq := constant.BoolVal(cx.Value) == constant.BoolVal(cy.Value)
			switch op {
			case token.EQL:
				return eq, true
			case token.NEQ:
				return !eq, true
			}
			return false, false
		}
		if (cx.Value.Kind() == constant.Int || cx.Value.Kind() == constant.Float) && (cy.Value.Kind() == constant.Int || cy.Value.Kind() == constant.Float) {
			return constant.Compare(cx.Value, op, cy.Value), true
		}
		return false, false
	}
	if okx && cx.Value == nil && nonNil(y) || oky && cy.Value == nil && nonNil(x) {
		switch op {
		case token.EQL:
			return false, true
		case token.NEQ:
			return true, true
		}
	}
	return false, false
}

// resolvePhiAt: the value a phi must have at block b given the facts there
// (the join was entered through a single feasible predecessor).
func resolvePhiAt(v ssa.Value, b *ssa.BasicBlock) ssa.Value {
	for n := 0; n < 6; n++ {
		phi, ok := v.(*ssa.Phi)
		if !ok {
			return v
		}
		found := false
		for _, f := range factsAt(b) {
			if f.Op == token.EQL && f.X == ssa.Value(phi) {
				for _, e := range phi.Edges {
					if e == f.Y {
						v, found = f.Y, true
					}
				}
			}
			if found {
				break
			}
		}
		if !found {
			return v
		}
	}
	return v
}

// reachable computes the blocks reachable from b (b included) optionally
// skipping some blocks / edges.
func reachableFrom(b *ssa.BasicBlock, skip func(from, to *ssa.BasicBlock) bool) map[*ssa.BasicBlock]bool {
	seen := map[*ssa.BasicBlock]bool{b: true}
	work := []*ssa.BasicBlock{b}
	for len(work) > 0 {
		x := work[len(work)-1]
		work = work[:len(work)-1]
		for _, s := range x.Succs {
			if skip != nil && skip(x, s) {
				continue
			}
			if !seen[s] {
				seen[s] = true
				work = append(work, s)
			}
		}
	}
	return seen
}

func isBackEdge(from, to *ssa.BasicBlock) bool { return to.Dominates(from) }

// instrIndex returns the index of in within its block.
func instrIndex(in ssa.Instruction) int {
	for i, x := range in.Block().Instrs {
		if x == in {
			return i
		}
	}
	return -1
}

// instrDominates: a executes before b on every path reaching b.
func instrDominates(a, b ssa.Instruction) bool {
	if a.Block() == b.Block() {
		return instrIndex(a) < instrIndex(b)
	}
	return a.Block().Dominates(b.Block())
}

// instrReaches: there is a CFG path from just after a to b.
func instrReaches(a, b ssa.Instruction) bool {
	if a.Block() == b.Block() && instrIndex(a) < instrIndex(b) {
		return true
	}
	for _, s := range a.Block().Succs {
		if reachableFrom(s, nil)[b.Block()] {
			return true
		}
	}
	return false
}

// loops: natural loop headers (targets of back edges) and loop membership.
func loopHeaders(fn *ssa.Function) map[*ssa.BasicBlock][]*ssa.BasicBlock {
	out := map[*ssa.BasicBlock][]*ssa.BasicBlock{}
	for _, b := range fn.Blocks {
		for _, s := range b.Succs {
			if isBackEdge(b, s) {
				out[s] = append(out[s], b)
			}
		}
	}
	return out
}

// loopBody returns the blocks of the natural loop of header h.
func loopBody(h *ssa.BasicBlock, latches []*ssa.BasicBlock) map[*ssa.BasicBlock]bool {
	body := map[*ssa.BasicBlock]bool{h: true}
	var work []*ssa.BasicBlock
	for _, l := range latches {
		if !body[l] {
			body[l] = true
			work = append(work, l)
		}
	}
	for len(work) > 0 {
		x := work[len(work)-1]
		work = work[:len(work)-1]
		for _, p := range x.Preds {
			if !body[p] {
				body[p] = true
				work = append(work, p)
			}
		}
	}
	return body
}

// inAnyLoop reports whether block b lies in a natural loop of its function.
func inAnyLoop(b *ssa.BasicBlock) bool {
	fn := b.Parent()
	for h, l := range loopHeaders(fn) {
		if loopBody(h, l)[b] {
			return true
		}
	}
	return false
}

// pathCount counts, over all acyclic paths (back edges cut) from the start of
// block `from` to any block satisfying stop (or a function exit), the minimum
// and maximum number of instructions satisfying match.  Blocks satisfying
// stop are not scanned.
func pathCount(from *ssa.BasicBlock, match func(ssa.Instruction) bool, stop func(*ssa.BasicBlock) bool) (min, max int) {
	if hasThreadableBranch(from.Parent()) {
		if mn, mx, ok := pathCountThreaded(from, match, stop); ok {
			return mn, mx
		}
	}
	type res struct {
		min, max int
		ok       bool // some path from here reaches an exit or a stop block
	}
	memo := map[*ssa.BasicBlock]res{}
	onstack := map[*ssa.BasicBlock]bool{}
	var walk func(b *ssa.BasicBlock) res
	walk = func(b *ssa.BasicBlock) res {
		if stop != nil && stop(b) && b != from {
			return res{0, 0, true}
		}
		if r, ok := memo[b]; ok {
			return r
		}
		onstack[b] = true
		n := 0
		for _, in := range b.Instrs {
			if match(in) {
				n++
			}
		}
		r := res{-1, -1, false}
		if len(b.Succs) == 0 {
			r = res{0, 0, true}
		}
		for _, s := range b.Succs {
			if isBackEdge(b, s) || onstack[s] {
				// a path cut at a back edge is a prefix of paths that leave
				// the loop through its exits; it is not an exit itself -
				// unless the loop header is the stop block
				if stop != nil && stop(s) {
					if !r.ok || 0 < r.min {
						r.min = 0
					}
					if !r.ok || r.max < 0 {
						r.max = 0
					}
					r.ok = true
				}
				continue
			}
			sr := walk(s)
			if !sr.ok {
				continue
			}
			if !r.ok || sr.min < r.min {
				r.min = sr.min
			}
			if !r.ok || sr.max > r.max {
				r.max = sr.max
			}
			r.ok = true
		}
		if r.ok {
			r.min += n
			r.max += n
		}
		onstack[b] = false
		memo[b] = r
		return r
	}
	r := walk(from)
	if !r.ok {
		return 0, 0
	}
	return r.min, r.max
}

// ---------------------------------------------------------------------------
// select decoding

type SelCase struct {
	Index int
	State *ssa.SelectState
	Body  *ssa.BasicBlock // first block of the case body (nil if not found)
}

// selectCases maps each state of a Select to the block its case body starts
// in, by following the if-chain on the selected index.  Default (for
// non-blocking selects) is returned separately.
func selectCases(s *ssa.Select) (cases []SelCase, deflt *ssa.BasicBlock) {
	cases = make([]SelCase, len(s.States))
	for i := range s.States {
		cases[i] = SelCase{Index: i, State: s.States[i]}
	}
	var idx *ssa.Extract
	if refs := s.Referrers(); refs != nil {
		for _, r := range *refs {
			if e, ok := r.(*ssa.Extract); ok && e.Index == 0 {
				idx = e
			}
		}
	}
	if idx == nil {
		// single-state select whose index is unused: body follows directly
		if len(s.States) == 1 && len(s.Block().Succs) == 0 {
			return
		}
		if len(s.States) == 1 {
			cases[0].Body = s.Block()
		}
		return
	}
	var lastElse *ssa.BasicBlock
	if refs := idx.Referrers(); refs != nil {
		for _, r := range *refs {
			b, ok := r.(*ssa.BinOp)
			if !ok || b.Op != token.EQL {
				continue
			}
			k, ok := constInt(b.Y)
			if !ok {
				continue
			}
			if brefs := b.Referrers(); brefs != nil {
				for _, br := range *brefs {
					if iff, ok := br.(*ssa.If); ok {
						if int(k) < len(cases) {
							cases[k].Body = iff.Block().Succs[0]
						}
						if int(k) == len(cases)-1 {
							lastElse = iff.Block().Succs[1]
						}
					}
				}
			}
		}
	}
	if !s.Blocking {
		deflt = lastElse
	}
	return
}

// ---------------------------------------------------------------------------
// indexes over the module

type ChanOp struct {
	Kind   string // "send", "recv", "close", "sel-send", "sel-recv", "range"
	Chan   ssa.Value
	Field  *types.Var // struct field the channel was loaded from (nil if local)
	Instr  ssa.Instruction
	Select *ssa.Select
	State  int
	Fn     *ssa.Function
	// ViaParam: the channel is a parameter of a (shared) helper; Field is what one of its call sites binds it to
	ViaParam *ssa.Parameter
}

type SendSite struct {
	Call    ssa.CallInstruction
	Payload types.Type // static type inside the MakeInterface (nil if not a MakeInterface)
	PayVal  ssa.Value  // operand of the MakeInterface
	Fn      *ssa.Function
}

type indexes struct {
	chanOps   []ChanOp
	sockSends []SendSite
	stores    map[*types.Var][]*ssa.Store
	goSites   []*ssa.Go
}

func chanField(ch ssa.Value) *types.Var {
	for i := 0; i < 6; i++ {
		switch x := ch.(type) {
		case *ssa.ChangeType:
			ch = x.X
		case *ssa.MakeInterface:
			ch = x.X
		case *ssa.Convert:
			ch = x.X
		default:
			return loadedField(ch)
		}
	}
	return nil
}

// chanParamFields: for a channel-typed parameter of a top-level module function that is only ever called
// statically (its address is never taken), the struct fields the argument is loaded from at the call sites
// of the module - a helper `deliver(inbound chan<- T, msg T)` shared by two clients operates on the channel
// field of whichever client calls it.  A site whose argument is not a field load makes the parameter unknown.
var chanParamFields = map[*ssa.Parameter][]*types.Var{}

func (p *Program) computeChanParamFields() {
	chanParamFields = map[*ssa.Parameter][]*types.Var{}
	type key struct {
		fn *ssa.Function
		i  int
	}
	cand := map[key]*ssa.Parameter{}
	for _, fn := range p.SrcFuncs() {
		if fn.Parent() != nil {
			continue
		}
		for i, prm := range fn.Params {
			if _, ok := prm.Type().Underlying().(*types.Chan); ok {
				cand[key{fn, i}] = prm
			}
		}
	}
	if len(cand) == 0 {
		return
	}
	unknown := map[*ssa.Function]bool{}
	sites := map[key][]ssa.Value{}
	for _, fn := range p.SrcFuncs() {
		for _, b := range fn.Blocks {
			for _, in := range b.Instrs {
				var callee *ssa.Function
				if ci, ok := in.(ssa.CallInstruction); ok {
					callee = ci.Common().StaticCallee()
					if callee != nil {
						for i, a := range ci.Common().Args {
							if _, ok := cand[key{callee, i}]; ok {
								sites[key{callee, i}] = append(sites[key{callee, i}], a)
							}
						}
					}
				}
				for _, op := range in.Operands(nil) {
					if f, ok := (*op).(*ssa.Function); ok && f != callee {
						unknown[f] = true
					} else if ok {
						// the callee operand itself is fine; the same function among the arguments is not
						if ci, isCall := in.(ssa.CallInstruction); isCall {
							for _, a := range ci.Common().Args {
								if a == ssa.Value(f) {
									unknown[f] = true
								}
							}
						}
					}
				}
			}
		}
	}
	for k, prm := range cand {
		if unknown[k.fn] || len(sites[k]) == 0 {
			continue
		}
		var fs []*types.Var
		ok := true
		for _, a := range sites[k] {
			f := chanField(a)
			if f == nil {
				ok = false
				break
			}
			dup := false
			for _, g := range fs {
				dup = dup || g == f
			}
			if !dup {
				fs = append(fs, f)
			}
		}
		if ok {
			chanParamFields[prm] = fs
		}
	}
}

func stripChanConv(v ssa.Value) ssa.Value {
	for i := 0; i < 6; i++ {
		switch x := v.(type) {
		case *ssa.ChangeType:
			v = x.X
		case *ssa.Convert:
			v = x.X
		case *ssa.MakeInterface:
			v = x.X
		default:
			return v
		}
	}
	return v
}

// chanFieldsOf: the field(s) a channel value is loaded from - one for a field load, the call sites' fields for
// a channel parameter (also when captured by a closure of the function).
func chanFieldsOf(ch ssa.Value) []*types.Var {
	if f := chanField(ch); f != nil {
		return []*types.Var{f}
	}
	v := ch
	for i := 0; i < 6; i++ {
		switch x := v.(type) {
		case *ssa.ChangeType:
			v = x.X
			continue
		case *ssa.Convert:
			v = x.X
			continue
		case *ssa.MakeInterface:
			v = x.X
			continue
		}
		break
	}
	v = unspill(resolveFree(v))
	if prm, ok := v.(*ssa.Parameter); ok {
		return chanParamFields[prm]
	}
	return nil
}

// chanIs: ch is (on every call path) loaded from f, or a channel parameter that some call site binds to f.
func chanIs(ch ssa.Value, f *types.Var) bool {
	if f == nil {
		return false
	}
	for _, g := range chanFieldsOf(ch) {
		if g == f {
			return true
		}
	}
	return false
}

func (p *Program) index() *indexes {
	if p.idx != nil {
		return p.idx
	}
	ix := &indexes{stores: map[*types.Var][]*ssa.Store{}}
	knxnet := modPath + "/knx/knxnet"
	p.computeChanParamFields()
	addOp := func(o ChanOp) {
		fs := chanFieldsOf(o.Chan)
		if len(fs) == 0 {
			ix.chanOps = append(ix.chanOps, o)
			return
		}
		if chanField(o.Chan) == nil {
			if prm, ok := unspill(resolveFree(stripChanConv(o.Chan))).(*ssa.Parameter); ok {
				o.ViaParam = prm
			}
		}
		for _, f := range fs {
			o.Field = f
			ix.chanOps = append(ix.chanOps, o)
		}
	}
	for _, fn := range p.SrcFuncs() {
		for _, b := range fn.Blocks {
			for _, in := range b.Instrs {
				switch x := in.(type) {
				case *ssa.Send:
					addOp(ChanOp{Kind: "send", Chan: x.Chan, Instr: x, Fn: fn})
				case *ssa.UnOp:
					if x.Op == token.ARROW {
						addOp(ChanOp{Kind: "recv", Chan: x.X, Instr: x, Fn: fn})
					}
				case *ssa.Select:
					for i, st := range x.States {
						k := "sel-recv"
						if st.Dir == types.SendOnly {
							k = "sel-send"
						}
						addOp(ChanOp{Kind: k, Chan: st.Chan, Instr: x, Select: x, State: i, Fn: fn})
					}
				case *ssa.Range:
					if _, ok := x.X.Type().Underlying().(*types.Chan); ok {
						addOp(ChanOp{Kind: "range", Chan: x.X, Instr: x, Fn: fn})
					}
				case *ssa.Next:
					// channel range loops are lowered to UnOp ARROW with CommaOk, not Next
				case *ssa.Store:
					if f := fieldOfAddr(x.Addr); f != nil {
						ix.stores[f] = append(ix.stores[f], x)
					}
				case *ssa.Go:
					ix.goSites = append(ix.goSites, x)
				}
				if c, ok := in.(ssa.CallInstruction); ok {
					if builtinName(c) == "close" && len(c.Common().Args) == 1 {
						ch := c.Common().Args[0]
						addOp(ChanOp{Kind: "close", Chan: ch, Instr: in, Fn: fn})
					}
					if isSocketSend(c, knxnet) {
						ss := SendSite{Call: c, Fn: fn}
						args := callArgs(c)
						if len(args) == 1 {
							if mi, ok := args[0].(*ssa.MakeInterface); ok {
								ss.Payload = mi.X.Type()
								ss.PayVal = mi.X
							} else if ct, ok := args[0].(*ssa.ChangeInterface); ok {
								if mi, ok := ct.X.(*ssa.MakeInterface); ok {
									ss.Payload = mi.X.Type()
									ss.PayVal = mi.X
								}
							}
						}
						ix.sockSends = append(ix.sockSends, ss)
					}
				}
			}
		}
	}
	p.idx = ix
	return ix
}

// isSocketSend: a call of method Send on knxnet.Socket (invoke) or on a
// concrete socket type of package knxnet or on a local interface embedding it.
func isSocketSend(c ssa.CallInstruction, knxnet string) bool {
	o := calleeObj(c)
	if o == nil || o.Name() != "Send" {
		return false
	}
	sig := o.Type().(*types.Signature)
	if sig.Params().Len() != 1 || sig.Results().Len() != 1 {
		return false
	}
	return isNamed(sig.Params().At(0).Type(), knxnet, "ServicePackable")
}

// payloadIs reports whether the send site transmits *knxnet.<name>.
func (s SendSite) payloadIs(name string) bool {
	return s.Payload != nil && isPtrToNamed(s.Payload, modPath+"/knx/knxnet", name)
}

// opsOnField returns the channel operations on channels loaded from field f.
func (ix *indexes) opsOnField(f *types.Var, kinds ...string) []ChanOp {
	var out []ChanOp
	for _, o := range ix.chanOps {
		if o.Field != f {
			continue
		}
		if len(kinds) == 0 {
			out = append(out, o)
			continue
		}
		for _, k := range kinds {
			if o.Kind == k {
				out = append(out, o)
			}
		}
	}
	return out
}

// goCallees returns the module functions a go statement may start.
func goCallee(g *ssa.Go) *ssa.Function {
	cc := g.Common()
	if f := cc.StaticCallee(); f != nil {
		return f
	}
	if mc, ok := cc.Value.(*ssa.MakeClosure); ok {
		return mc.Fn.(*ssa.Function)
	}
	return nil
}

// deferCallee returns the function run by a defer instruction.
func deferCallee(d *ssa.Defer) *ssa.Function {
	cc := d.Common()
	if f := cc.StaticCallee(); f != nil {
		return f
	}
	if mc, ok := cc.Value.(*ssa.MakeClosure); ok {
		return mc.Fn.(*ssa.Function)
	}
	return nil
}

// ---------------------------------------------------------------------------
// locksets

// lockKey identifies a mutex by the struct field that holds it.
func lockKey(addr ssa.Value) string {
	p := addrPath(addr)
	if f := p.LastField(); f != nil {
		return fieldKey(f)
	}
	return p.String()
}

func fieldKey(f *types.Var) string {
	// find owning struct name through the package scope
	if f.Pkg() != nil {
		sc := f.Pkg().Scope()
		for _, n := range sc.Names() {
			if tn, ok := sc.Lookup(n).(*types.TypeName); ok {
				if st, ok := tn.Type().Underlying().(*types.Struct); ok {
					for i := 0; i < st.NumFields(); i++ {
						if st.Field(i) == f {
							return tn.Name() + "." + f.Name()
						}
					}
				}
			}
		}
	}
	return f.Name()
}

type lockOp struct {
	kind string // "lock" | "unlock"
	key  string
}

func mutexOp(c ssa.CallInstruction) (lockOp, bool) {
	o := calleeObj(c)
	if o == nil || o.Pkg() == nil || o.Pkg().Path() != "sync" {
		return lockOp{}, false
	}
	sig := o.Type().(*types.Signature)
	if sig.Recv() == nil {
		return lockOp{}, false
	}
	rn := namedOf(sig.Recv().Type())
	if rn == nil || (rn.Obj().Name() != "Mutex" && rn.Obj().Name() != "RWMutex") {
		return lockOp{}, false
	}
	recv := callRecv(c)
	if recv == nil {
		return lockOp{}, false
	}
	switch o.Name() {
	case "Lock":
		return lockOp{"lock", lockKey(recv)}, true
	case "Unlock":
		return lockOp{"unlock", lockKey(recv)}, true
	}
	return lockOp{}, false
}

// LockInfo is the must-hold lockset before every instruction of a function.
type LockInfo struct {
	before map[ssa.Instruction]map[string]bool
}

func (li *LockInfo) Held(in ssa.Instruction, key string) bool {
	return li.before[in][key]
}

func (li *LockInfo) HeldSet(in ssa.Instruction) []string {
	var out []string
	for k := range li.before[in] {
		out = append(out, k)
	}
	sort.Strings(out)
	return out
}

func copySet(m map[string]bool) map[string]bool {
	o := make(map[string]bool, len(m))
	for k, v := range m {
		if v {
			o[k] = true
		}
	}
	return o
}

// computeLocks runs the forward must-lockset dataflow.  entry is the set held
// on entry (normally empty).  Deferred Unlock calls (direct `defer mu.Unlock()`)
// release at RunDefers.
func computeLocks(fn *ssa.Function, entry map[string]bool) *LockInfo {
	li := &LockInfo{before: map[ssa.Instruction]map[string]bool{}}
	if len(fn.Blocks) == 0 {
		return li
	}
	in := map[*ssa.BasicBlock]map[string]bool{}
	out := map[*ssa.BasicBlock]map[string]bool{}
	// deferred unlock keys registered so far are tracked as "defer:<key>" members
	transfer := func(b *ssa.BasicBlock, s map[string]bool, record bool) map[string]bool {
		s = copySet(s)
		for _, ins := range b.Instrs {
			if record {
				li.before[ins] = copySet(s)
			}
			switch x := ins.(type) {
			case *ssa.Call:
				if op, ok := mutexOp(x); ok {
					if op.kind == "lock" {
						s[op.key] = true
					} else {
						delete(s, op.key)
					}
				}
			case *ssa.Defer:
				if op, ok := mutexOp(x); ok && op.kind == "unlock" {
					s["defer:"+op.key] = true
				}
			case *ssa.RunDefers:
				for k := range s {
					if strings.HasPrefix(k, "defer:") {
						delete(s, strings.TrimPrefix(k, "defer:"))
						delete(s, k)
					}
				}
			}
		}
		return s
	}
	in[fn.Blocks[0]] = copySet(entry)
	changed := true
	for iter := 0; changed && iter < 100; iter++ {
		changed = false
		for _, b := range fn.Blocks {
			var s map[string]bool
			if b == fn.Blocks[0] {
				s = copySet(entry)
			} else {
				first := true
				for _, p := range b.Preds {
					po, ok := out[p]
					if !ok {
						continue // not yet computed: optimistic (top)
					}
					if first {
						s = copySet(po)
						first = false
					} else {
						for k := range s {
							if !po[k] {
								delete(s, k)
							}
						}
					}
				}
				if s == nil {
					s = map[string]bool{}
					if first {
						// unreachable so far
						continue
					}
				}
			}
			in[b] = s
			o := transfer(b, s, false)
			if !sameSet(o, out[b]) || out[b] == nil {
				out[b] = o
				changed = true
			}
		}
	}
	for _, b := range fn.Blocks {
		if s, ok := in[b]; ok {
			transfer(b, s, true)
		}
	}
	return li
}

func sameSet(a, b map[string]bool) bool {
	if len(a) != len(b) {
		return false
	}
	for k := range a {
		if !b[k] {
			return false
		}
	}
	return true
}

// ---------------------------------------------------------------------------
// misc

// returnsOf lists the Return instructions of fn.
func returnsOf(fn *ssa.Function) []*ssa.Return {
	var out []*ssa.Return
	skipRecover := fn.Recover != nil && !defersRecover(fn)
	for _, b := range fn.Blocks {
		if skipRecover && b == fn.Recover {
			// the synthetic recover block only runs after a deferred call
			// recovered a panic; no deferred call of fn does
			continue
		}
		for _, in := range b.Instrs {
			if r, ok := in.(*ssa.Return); ok {
				out = append(out, r)
			}
		}
	}
	return out
}

// resultValue resolves the i-th operand of a Return through the
// defer-spill shape (`*t0 = v; rundefers; t = *t0; return t`): it returns the
// set of values that may be returned at this Return.
func resultValues(r *ssa.Return, i int) []ssa.Value {
	return loadValues(r.Results[i])
}

// loadValues: for a load from a function-local cell, the values that may
// reach it (last store on each path; stores made by closures included as
// unknown alternatives); any other value is returned as is.
func loadValues(v ssa.Value) []ssa.Value {
	u, ok := v.(*ssa.UnOp)
	if !ok || u.Op != token.MUL {
		return []ssa.Value{v}
	}
	cell, ok := u.X.(*ssa.Alloc)
	if !ok {
		return []ssa.Value{v}
	}
	// find reaching stores: walk backwards from the load within the block,
	// then through predecessors.
	// calls that receive the cell's address write it with an unknown value; an address that
	// goes anywhere else makes every load unknown
	callWriter := map[ssa.Instruction]bool{}
	{
		escapes := false
		var collect func(addr ssa.Value)
		collect = func(addr ssa.Value) {
			for _, use := range usesOf(addr) {
				switch x := use.(type) {
				case *ssa.Store:
					if x.Addr == addr {
						continue
					}
					// boxed into a varargs array: the calls that receive the array
					if ia, ok := x.Addr.(*ssa.IndexAddr); ok && isVarargsArray(ia.X) {
						found := false
						for _, su := range usesOf(ia.X) {
							if sl, ok := su.(*ssa.Slice); ok {
								for _, cu := range usesOf(sl) {
									if ci, ok := cu.(ssa.CallInstruction); ok {
										callWriter[ci] = true
										found = true
									}
								}
							}
						}
						if !found {
							escapes = true
						}
					} else {
						escapes = true
					}
				case *ssa.UnOp, *ssa.DebugRef, *ssa.MakeClosure:
				case ssa.CallInstruction:
					callWriter[x] = true
				case *ssa.MakeInterface, *ssa.ChangeType, *ssa.Convert:
					collect(x.(ssa.Value))
				default:
					escapes = true
				}
			}
		}
		collect(cell)
		if escapes {
			return []ssa.Value{v}
		}
	}
	seen := map[*ssa.BasicBlock]bool{}
	var out []ssa.Value
	var back func(b *ssa.BasicBlock, from int)
	back = func(b *ssa.BasicBlock, from int) {
		for j := from; j >= 0; j-- {
			if st, ok := b.Instrs[j].(*ssa.Store); ok && st.Addr == cell {
				out = append(out, st.Val)
				return
			}
			if callWriter[b.Instrs[j]] {
				// written through its address by this call: unknown, represented by the load itself
				out = append(out, v)
				return
			}
		}
		if seen[b] {
			return
		}
		seen[b] = true
		if len(b.Preds) == 0 {
			// zero value of the named result
			out = append(out, ssa.NewConst(nil, deref(cell.Type())))
			return
		}
		for _, p := range b.Preds {
			back(p, len(p.Instrs)-1)
		}
	}
	back(u.Block(), instrIndex(u)-1)
	// stores made by deferred closures make the result unknown
	for _, st := range cellStores(cell) {
		if st.Parent() != cell.Parent() {
			out = append(out, st.Val)
		}
	}
	return out
}

// isNonNilError: the value is certainly a non-nil error: result of
// errors.New / fmt.Errorf, a load of a package-level error variable that is
// initialised by errors.New and never reassigned, or a MakeInterface.
func (p *Program) isNonNilError(v ssa.Value) bool {
	switch x := v.(type) {
	case *ssa.Call:
		o := calleeObj(x)
		if funcIs(o, "errors", "", "New") || funcIs(o, "fmt", "", "Errorf") {
			return true
		}
	case *ssa.MakeInterface:
		return true
	case *ssa.UnOp:
		if x.Op == token.MUL {
			if g, ok := x.X.(*ssa.Global); ok {
				return p.globalIsConstError(g)
			}
		}
	case *ssa.Phi:
		for _, e := range x.Edges {
			if !p.isNonNilError(e) {
				return false
			}
		}
		return len(x.Edges) > 0
	}
	return false
}

// globalIsConstError: g is assigned exactly once (in its package init) with
// errors.New/fmt.Errorf, or it is a well-known sentinel of the standard library.
func (p *Program) globalIsConstError(g *ssa.Global) bool {
	if g.Pkg != nil && !strings.HasPrefix(g.Pkg.Pkg.Path(), modPath) {
		switch g.Pkg.Pkg.Path() + "." + g.Name() {
		case "io.ErrUnexpectedEOF", "io.EOF", "io.ErrShortBuffer", "io.ErrShortWrite", "io.ErrNoProgress", "io.ErrClosedPipe",
			"os.ErrInvalid", "os.ErrClosed", "os.ErrDeadlineExceeded", "net.ErrClosed", "bufio.ErrBufferFull",
			"strconv.ErrRange", "strconv.ErrSyntax", "context.Canceled", "context.DeadlineExceeded":
			return true
		}
		return false
	}
	n := 0
	okInit := false
	for _, fn := range p.AllFuncs {
		for _, b := range fn.Blocks {
			for _, in := range b.Instrs {
				if st, ok := in.(*ssa.Store); ok && st.Addr == g {
					n++
					if c, ok := st.Val.(*ssa.Call); ok {
						o := calleeObj(c)
						if funcIs(o, "errors", "", "New") || funcIs(o, "fmt", "", "Errorf") {
							okInit = fn.Name() == "init"
						}
					}
				}
			}
		}
	}
	return n == 1 && okInit
}

// usesOf lists instructions referring to v.
func usesOf(v ssa.Value) []ssa.Instruction {
	if g, ok := v.(*ssa.Global); ok {
		// go/ssa keeps no referrer lists for package-level variables: scan the program once
		return globalUses(g)
	}
	if r := v.Referrers(); r != nil {
		return *r
	}
	return nil
}

var globalUseIndex = map[*ssa.Program]map[*ssa.Global][]ssa.Instruction{}

func globalUses(g *ssa.Global) []ssa.Instruction {
	prog := g.Pkg.Prog
	idx, ok := globalUseIndex[prog]
	if !ok {
		idx = map[*ssa.Global][]ssa.Instruction{}
		for fn := range ssautil.AllFunctions(prog) {
			for _, b := range fn.Blocks {
				for _, in := range b.Instrs {
					var ops []*ssa.Value
					for _, op := range in.Operands(ops) {
						if op == nil || *op == nil {
							continue
						}
						if gg, isG := (*op).(*ssa.Global); isG {
							idx[gg] = append(idx[gg], in)
						}
					}
				}
			}
		}
		globalUseIndex[prog] = idx
	}
	return idx[g]
}

// defersRecover reports whether some deferred function of fn calls recover().
func defersRecover(fn *ssa.Function) bool {
	found := false
	instrsOf(fn, func(in ssa.Instruction) {
		d, ok := in.(*ssa.Defer)
		if !ok {
			return
		}
		callee := deferCallee(d)
		if _, isBuiltin := d.Common().Value.(*ssa.Builtin); isBuiltin {
			return // close(...), print...: never recovers
		}
		if d.Common().IsInvoke() {
			return // interface method (Close, Stop): library or module method, judged not to recover for its caller
		}
		if callee == nil {
			found = true // unknown deferred function: assume it may recover
			return
		}
		if callee.Blocks == nil {
			return // library function (Unlock, Stop, Close...): does not recover for its caller
		}
		instrsOf(callee, func(x ssa.Instruction) {
			if c, ok := x.(ssa.CallInstruction); ok && builtinName(c) == "recover" {
				found = true
			}
		})
	})
	return found
}

// canonLoad replaces a load from a local cell by the single value that
// reaches it, if there is exactly one.
func canonLoad(v ssa.Value) ssa.Value {
	for i := 0; i < 4; i++ {
		vs := loadValues(v)
		if len(vs) != 1 || vs[0] == v {
			return v
		}
		v = vs[0]
	}
	return v
}

// ---------------------------------------------------------------------------
// phi threading in path enumeration: a branch on a phi that is constant on the
// edge through which its join was entered on this very path has one feasible
// successor (the `ok` / `err` results of an inlined helper).

var threadableCache = map[*ssa.Function]bool{}

func hasThreadableBranch(fn *ssa.Function) bool {
	if fn == nil {
		return false
	}
	if v, ok := threadableCache[fn]; ok {
		return v
	}
	found := false
	for _, b := range fn.Blocks {
		iff := ifOf(b)
		if iff == nil {
			continue
		}
		c, _ := cmpOf(iff.Cond, true)
		for _, v := range []ssa.Value{c.X, c.Y} {
			if u, ok := v.(*ssa.UnOp); ok && u.Op == token.MUL {
				if _, isAl := u.X.(*ssa.Alloc); isAl {
					found = true
				}
			}
			if phi, ok := v.(*ssa.Phi); ok {
				for _, e := range phi.Edges {
					if _, isC := e.(*ssa.Const); isC {
						found = true
					}
				}
			}
		}
	}
	threadableCache[fn] = found
	return found
}

// feasibleSuccs: the successors of b that can be taken given through which
// predecessor each join on the current path was entered.
func feasibleSuccs(b *ssa.BasicBlock, taken map[*ssa.BasicBlock]int) []*ssa.BasicBlock {
	return feasibleSuccsWith(b, taken, nil)
}

// feasibleSuccsWith: as feasibleSuccs, with the values loads of tracked local
// variables have on this path.
func feasibleSuccsWith(b *ssa.BasicBlock, taken map[*ssa.BasicBlock]int, loads map[ssa.Value]ssa.Value) []*ssa.BasicBlock {
	iff := ifOf(b)
	if iff == nil || len(b.Succs) != 2 {
		return b.Succs
	}
	c, _ := cmpOf(iff.Cond, true)
	res := func(v ssa.Value) ssa.Value {
		for n := 0; n < 4; n++ {
			if lv, has := loads[v]; has {
				v = lv
				continue
			}
			phi, ok := v.(*ssa.Phi)
			if !ok {
				return v
			}
			i, have := taken[phi.Block()]
			if !have {
				return v
			}
			v = phi.Edges[i]
		}
		return v
	}
	x, y := res(c.X), res(c.Y)
	if x == c.X && y == c.Y {
		return b.Succs
	}
	holds, known := evalCmpConst(c.Op, x, y)
	if !known {
		return b.Succs
	}
	if holds {
		return b.Succs[:1]
	}
	return b.Succs[1:]
}

func pathCountThreaded(from *ssa.BasicBlock, match func(ssa.Instruction) bool, stop func(*ssa.BasicBlock) bool) (min, max int, ok bool) {
	return pathEnum(from, nil, match, stop)
}

// pathEnum enumerates the acyclic paths from `from` to a function exit / a
// stop block (to == nil) or to block `to` (other ends do not count), pruning
// branches whose condition is decided by what the path itself established:
// the predecessor through which a join was entered (phis), and the last value
// the path stored into a local variable whose address does not escape (named
// results such as err).  It returns the minimum and maximum number of
// matching instructions over those paths; ok=false when the enumeration was
// cut off.
func pathEnum(from, to *ssa.BasicBlock, match func(ssa.Instruction) bool, stop func(*ssa.BasicBlock) bool) (min, max int, ok bool) {
	steps := 0
	any := false
	onstack := map[*ssa.BasicBlock]bool{}
	taken := map[*ssa.BasicBlock]int{}
	cells := map[*ssa.Alloc]ssa.Value{}
	loads := map[ssa.Value]ssa.Value{}
	trackable := map[*ssa.Alloc]bool{}
	for _, b := range from.Parent().Blocks {
		for _, in := range b.Instrs {
			if al, isAl := in.(*ssa.Alloc); isAl {
				if ws, esc := cellWriters(al); !esc {
					okW := true
					for _, w := range ws {
						if st, isSt := w.(*ssa.Store); !isSt || st.Parent() != al.Parent() {
							okW = false
						}
					}
					trackable[al] = okW
				}
			}
		}
	}
	overflow := false
	exit := func(acc int) {
		if !any || acc < min {
			min = acc
		}
		if !any || acc > max {
			max = acc
		}
		any = true
	}
	var walk func(b *ssa.BasicBlock, acc int)
	walk = func(b *ssa.BasicBlock, acc int) {
		steps++
		if steps > 200000 {
			overflow = true
			return
		}
		if to == nil && stop != nil && stop(b) && b != from {
			exit(acc)
			return
		}
		// what this block does to tracked variables (undone when the walk backs out)
		type undo struct {
			cell *ssa.Alloc
			old  ssa.Value
			had  bool
		}
		var undos []undo
		var loaded []ssa.Value
		defer func() {
			for i := len(undos) - 1; i >= 0; i-- {
				if undos[i].had {
					cells[undos[i].cell] = undos[i].old
				} else {
					delete(cells, undos[i].cell)
				}
			}
			for _, l := range loaded {
				delete(loads, l)
			}
		}()
		for _, in := range b.Instrs {
			if match(in) {
				acc++
			}
			switch x := in.(type) {
			case *ssa.Store:
				if al, isAl := x.Addr.(*ssa.Alloc); isAl && trackable[al] {
					old, had := cells[al]
					undos = append(undos, undo{al, old, had})
					cells[al] = x.Val
				}
			case *ssa.UnOp:
				if al, isAl := x.X.(*ssa.Alloc); isAl && x.Op == token.MUL && trackable[al] {
					if v, has := cells[al]; has {
						loads[x] = v
						loaded = append(loaded, x)
					}
				}
			}
		}
		if to != nil && b == to {
			exit(acc)
			return
		}
		if len(b.Succs) == 0 {
			if to == nil {
				exit(acc)
			}
			return
		}
		onstack[b] = true
		for _, s := range feasibleSuccsWith(b, taken, loads) {
			if isBackEdge(b, s) || onstack[s] {
				if to == nil && stop != nil && stop(s) {
					exit(acc)
				}
				continue
			}
			idx, n := -1, 0
			for i, p := range s.Preds {
				if p == b {
					idx = i
					n++
				}
			}
			old, had := taken[s]
			if n == 1 {
				taken[s] = idx
			} else {
				delete(taken, s)
			}
			walk(s, acc)
			if had {
				taken[s] = old
			} else {
				delete(taken, s)
			}
			if overflow {
				break
			}
		}
		onstack[b] = false
	}
	walk(from, 0)
	if overflow {
		return 0, 0, false
	}
	if !any {
		return 0, 0, true
	}
	return min, max, true
}

// A valAt is one alternative of a merged value: the value V flows in over the
// edge At -> Succ (Succ nil: V is used directly in block At).
type valAt struct {
	V    ssa.Value
	At   *ssa.BasicBlock
	Succ *ssa.BasicBlock
}

// facts known where the alternative is chosen.
func (a valAt) facts() []Cmp {
	fs := factsAt(a.At)
	if a.Succ != nil {
		fs = append(append([]Cmp{}, fs...), edgeFactsOf(a.At, a.Succ)...)
	}
	return fs
}

// alternativesAt expands phis (recursively, loop headers excluded) into the
// values that can flow into v as used in block b, each with the edge on which
// it is selected.
func alternativesAt(v ssa.Value, b *ssa.BasicBlock) []valAt {
	var out []valAt
	var rec func(v ssa.Value, at, succ *ssa.BasicBlock, depth int)
	rec = func(v ssa.Value, at, succ *ssa.BasicBlock, depth int) {
		phi, ok := v.(*ssa.Phi)
		if ok && depth < 6 {
			header := false
			for _, p := range phi.Block().Preds {
				if phi.Block().Dominates(p) {
					header = true
				}
			}
			if !header {
				for i, e := range phi.Edges {
					rec(e, phi.Block().Preds[i], phi.Block(), depth+1)
				}
				return
			}
		}
		out = append(out, valAt{v, at, succ})
	}
	rec(v, b, nil, 0)
	return out
}
