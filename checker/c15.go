package main

import (
	"fmt"
	"go/token"
	"go/types"
	"sort"
	"strings"

	"golang.org/x/tools/go/ssa"
)

func init() { register("C15", "proof", checkC15) }

type packType struct {
	nt         *types.Named
	pack, size *ssa.Function
}

// declaredPackTypes lists the named types of knxnet and cemi that declare
// (not inherit) both Pack(buffer []byte) and Size() uint.
func declaredPackTypes(p *Program) []packType {
	var out []packType
	for _, nt := range p.allNamedTypes() {
		path := nt.Obj().Pkg().Path()
		if path != knxnetPath && path != cemiPath {
			continue
		}
		var pk, sz *ssa.Function
		for i := 0; i < nt.NumMethods(); i++ {
			m := nt.Method(i)
			f := p.SSA.FuncValue(m)
			if f == nil || len(f.Blocks) == 0 {
				continue
			}
			switch m.Name() {
			case "Pack":
				if len(f.Params) == 2 && isByteSlice(f.Params[1].Type()) {
					pk = f
				}
			case "Size":
				if len(f.Params) == 1 && f.Signature.Results().Len() == 1 {
					sz = f
				}
			}
		}
		if pk != nil && sz != nil {
			out = append(out, packType{nt, pk, sz})
		}
	}
	sort.Slice(out, func(i, j int) bool { return out[i].nt.String() < out[j].nt.String() })
	return out
}

func pathLabel(s *lpath) string {
	var parts []string
	parts = append(parts, s.conds...)
	if len(parts) == 0 {
		return "always"
	}
	return strings.Join(parts, " & ")
}

// runEncoder interprets fn with receiver "r" (or named parameters) and the
// output buffer as the []byte parameter.
func runEncoder(p *Program, fn *ssa.Function) []*lpath {
	li := &layoutInterp{p: p}
	var args []AV
	nOther := 0
	for i, prm := range fn.Params {
		switch {
		case isByteSlice(prm.Type()) && prm.Name() != "" && (prm.Name() == "buffer" || prm.Name() == "data" || i > 0):
			args = append(args, avSlice{region: "buf", off: linConst(0), len: nil, name: "buffer"})
		case i == 0 && fn.Signature.Recv() != nil:
			args = append(args, li.valueOfPath("r", prm.Type()))
		default:
			args = append(args, li.valueOfPath(fmt.Sprintf("a%d", nOther), prm.Type()))
			nOther++
		}
	}
	return li.run(fn, args, nil)
}

// judgePair checks one encoder path against one size path.
func judgePair(c *Check, p *Program, rule, key, pos string, pp, sp *lpath) {
	env, ok := pp.env.meet(sp.env)
	if !ok || !condsCompatible(pp.conds, sp.conds) {
		return
	}
	szv, _ := sp.ret.(avInt)
	if szv.lin == nil {
		c.Fail(rule, key+" size is linear", pos, "Size() does not evaluate to a linear expression over lengths on the path ["+pathLabel(sp)+"]")
		return
	}
	label := "[" + pathLabel(pp)
	if len(sp.conds) > 0 {
		label += " | size: " + pathLabel(sp)
	}
	label += "]"
	if len(pp.notes) > 0 {
		c.Fail(rule, key+" "+label+" understood", pos, "the encoder contains a construct the layout analysis does not model: "+strings.Join(pp.notes, "; "))
		return
	}
	if len(pp.effect) > 0 {
		c.Fail(rule, key+" "+label+" has no side effect", pos, "the encoder writes something other than the buffer: "+strings.Join(pp.effect, "; "))
	}
	cov := coverage(env, pp.writes, szv.lin)
	c.Decide(cov.ok, rule, key+" "+label+" writes exactly [0, Size())", pos, fmt.Sprintf("Size() = %s; %d write(s) tile [0, %s) with no gap and nothing beyond", szv.lin, len(pp.writes), szv.lin), cov.reason)
	st := staleBytes(env, pp.writes)
	c.Decide(len(st) == 0, rule, key+" "+label+" determines every byte", pos, "no byte depends on the previous buffer content", strings.Join(st, "; "))
}

func checkC15(c *Check, p *Program) {
	c.Technique = "path-sensitive abstract interpretation of every Size()/Pack() pair over an abstract output buffer with symbolic (linear) offsets and bit-provenance contents; interval constraints per path; inductive use of the Size/Pack contract for nested packables; targeted structural rules for the generic packer"
	c.Explanation = "For every type that declares Pack and Size (the other packable types inherit them by embedding) and for knxnet.Pack/Size and cemi.Pack/Size: Size() is evaluated per path to a linear expression over len(field) and nested Size() symbols; Pack is executed on an abstract buffer; for every compatible pair of paths the writes must tile exactly [0, Size()) - no gap (stale bytes), nothing at or beyond Size() for any buffer at least that long (overrun; also the in-bounds argument for a buffer of exactly Size() bytes) - and no byte's final content may depend on the previous buffer content (read-modify-write before a plain store) or be undetermined. Nested Pack calls and boxed items contribute exactly their own Size() (the contract being proved, applied inductively over the acyclic nesting graph); oversize variable parts are just more paths (len > 255). The header writer is compared with the KNXnet/IP header layout, the generic packer util.Pack/PackSome/AllocAndPack/PackString by structural rules; the socket Send implementations are checked under C16.T3 (fresh buffer of Size(payload), one write of it). 'Proof' means every obligation of this analysis was discharged."
	c.Trusted = []string{"go/types, go/ssa", "kxcheck layout interpreter (layout.go, lin.go, bitvec.go)", "copy() semantics", "the x/text encoder returns either an error or the encoded bytes"}
	c.Assumptions = []string{"payloads never reach 65530 bytes (uint16(Size()+6) would truncate; the largest encodable frame is 527 bytes)", "len(buffer) >= Size() as the property states"}
	c.NotDecided = []string{}

	pts := declaredPackTypes(p)
	c.Floor("C15.size-pack", "types declaring Pack and Size", len(pts), 23)
	nPairs := 0
	for _, pt := range pts {
		tn := typeName(pt.nt)
		c.Analysed("pack/size pairs", tn)
		pos := p.Pos(pt.pack.Pos())
		sps := runEncoder(p, pt.size)
		pps := runEncoder(p, pt.pack)
		if len(sps) == 0 || len(pps) == 0 {
			c.Fail("C15.size-pack", tn+" interpretable", pos, "no complete path through Size() or Pack()")
			continue
		}
		for _, sp := range sps {
			if len(sp.notes) > 0 {
				c.Fail("C15.size-pack", tn+" Size() understood", p.Pos(pt.size.Pos()), strings.Join(sp.notes, "; "))
			}
		}
		for _, pp := range pps {
			matched := 0
			for _, sp := range sps {
				if _, ok := pp.env.meet(sp.env); ok && condsCompatible(pp.conds, sp.conds) {
					matched++
					nPairs++
					judgePair(c, p, "C15.size-pack", tn, pos, pp, sp)
				}
			}
			if matched == 0 {
				c.Fail("C15.size-pack", tn+" ["+pathLabel(pp)+"] has a matching Size() path", pos, "no path of Size() is compatible with this path of Pack()")
			}
		}
	}
	c.Extra("path_pairs", nPairs)

	// ---- package-level frame writers
	for _, w := range []struct {
		rel  string
		spec func(pp *lpath) []string
	}{
		{"knx/knxnet", headerSpec},
		{"knx/cemi", cemiSpec},
	} {
		pk, sz := p.Func(w.rel, "Pack"), p.Func(w.rel, "Size")
		if pk == nil || sz == nil {
			c.Fail("C15.frame", w.rel+".Pack/Size", "", "not found")
			continue
		}
		name := strings.TrimPrefix(w.rel, "knx/")
		c.Analysed("frame writers", name+".Pack")
		pps, sps := runEncoder(p, pk), runEncoder(p, sz)
		c.Decide(len(pps) == 1 && len(sps) == 1, "C15.frame", name+".Pack/Size are single-path", p.Pos(pk.Pos()), "one path each", fmt.Sprintf("%d/%d paths", len(pps), len(sps)))
		for _, pp := range pps {
			for _, sp := range sps {
				judgePair(c, p, "C15.frame", name+".Pack", p.Pos(pk.Pos()), pp, sp)
			}
			bad := w.spec(pp)
			c.Decide(len(bad) == 0, "C15.frame", name+".Pack header layout", p.Pos(pk.Pos()), "bytes match the specification table", strings.Join(bad, "; "))
		}
	}
	// AllocAndPack allocates Size bytes and packs into them
	if f := p.Func("knx/knxnet", "AllocAndPack"); f != nil {
		sizeFn, packFn := p.Func("knx/knxnet", "Size"), p.Func("knx/knxnet", "Pack")
		var mk *ssa.MakeSlice
		okA := false
		instrsOf(f, func(in ssa.Instruction) {
			if m, ok := in.(*ssa.MakeSlice); ok {
				mk = m
			}
		})
		if mk != nil {
			l := mk.Len
			if cv, ok := l.(*ssa.Convert); ok {
				l = cv.X
			}
			if call, ok := l.(*ssa.Call); ok && call.Common().StaticCallee() == sizeFn {
				instrsOf(f, func(in ssa.Instruction) {
					if staticCallTo(in, packFn) && in.(*ssa.Call).Common().Args[0] == ssa.Value(mk) {
						okA = true
					}
				})
			}
		}
		c.Decide(okA, "C15.frame", "knxnet.AllocAndPack allocates Size() and packs into it", p.Pos(f.Pos()), "make([]byte, Size(srv)); Pack(buffer, srv)", "AllocAndPack does not allocate exactly Size(srv) bytes for Pack")
	}

	checkGenericPacker(c, p)
	// the datagram handed to the network is exactly the packed buffer of Size() bytes
	checkSocketSend(c, p, "C15.send")
}

// fixedByte returns the final content of the byte at constant offset k.
func fixedByte(pp *lpath, k int64) (BV, bool) {
	var bv BV
	found := false
	for _, w := range pp.writes {
		if w.kind == "byte" && w.off != nil {
			if o, ok := w.off.IsConst(); ok && o == k {
				bv, found = w.bv, true
			}
		}
	}
	return bv, found
}

func headerSpec(pp *lpath) []string {
	var bad []string
	want := map[int64]BV{0: bvConst(6, 8), 1: bvConst(0x10, 8)}
	for k, w := range want {
		b, ok := fixedByte(pp, k)
		if !ok || !b.Equal(w) {
			bad = append(bad, fmt.Sprintf("header byte %d is [%s], specification says %s", k, b, w))
		}
	}
	chk := func(k int64, srcPrefix string, hi bool, what string) {
		b, ok := fixedByte(pp, k)
		good := ok && len(b) == 8
		if good {
			for i := 0; i < 8; i++ {
				wantIdx := i
				if hi {
					wantIdx = i + 8
				}
				if b[i].K != bsrc || !(b[i].Src == srcPrefix || (strings.HasSuffix(srcPrefix, "()") && strings.HasSuffix(b[i].Src, srcPrefix))) || b[i].Idx != wantIdx {
					good = false
				}
			}
		}
		if !good {
			bad = append(bad, fmt.Sprintf("header byte %d is [%s], expected the %s", k, b, what))
		}
	}
	chk(2, "Service()", true, "high byte of the service identifier")
	chk(3, "Service()", false, "low byte of the service identifier")
	chk(4, "6+Size(a0)", true, "high byte of Size()+6")
	chk(5, "6+Size(a0)", false, "low byte of Size()+6")
	// payload at 6
	okP := false
	for _, w := range pp.writes {
		if w.kind == "nested" && w.off != nil {
			if o, ok := w.off.IsConst(); ok && o == 6 {
				okP = true
			}
		}
	}
	if !okP {
		bad = append(bad, "the service payload is not packed at offset 6")
	}
	return bad
}

func cemiSpec(pp *lpath) []string {
	var bad []string
	b, ok := fixedByte(pp, 0)
	good := ok
	if good {
		for i := 0; i < 8; i++ {
			if b[i].K != bsrc || !strings.Contains(b[i].Src, "MessageCode()") || b[i].Idx != i {
				good = false
			}
		}
	}
	if !good {
		bad = append(bad, fmt.Sprintf("byte 0 is [%s], expected the message code", b))
	}
	okP := false
	for _, w := range pp.writes {
		if w.kind == "nested" && w.off != nil {
			if o, ok := w.off.IsConst(); ok && o == 1 {
				okP = true
			}
		}
	}
	if !okP {
		bad = append(bad, "the message body is not packed at offset 1")
	}
	return bad
}

// checkGenericPacker: util.Pack / PackSome / AllocAndPack / PackString.
func checkGenericPacker(c *Check, p *Program) {
	pack := p.Func("knx/util", "Pack")
	if pack == nil {
		c.Fail("C15.generic", "util.Pack", "", "not found")
		return
	}
	buf := pack.Params[0]
	nArms := 0
	delegated := map[string][]string{} // arm type -> arms that hand their value to it
	isDelegating := map[string]bool{}
	instrsOf(pack, func(in ssa.Instruction) {
		ta, ok := in.(*ssa.TypeAssert)
		if !ok || !ta.CommaOk || ta.X != ssa.Value(pack.Params[1]) {
			return
		}
		w := primWidth(ta.AssertedType)
		var val, okv ssa.Value
		for _, u := range usesOf(ta) {
			if e, ok := u.(*ssa.Extract); ok {
				if e.Index == 0 {
					val = e
				} else {
					okv = e
				}
			}
		}
		// the arm: blocks dominated by the ok edge
		var arm *ssa.BasicBlock
		for _, b := range pack.Blocks {
			for _, s := range b.Succs {
				if f, has := edgeFact(b, s); has && cmpIsBool(f, true, func(v ssa.Value) bool { return v == okv }) {
					arm = s
				}
			}
		}
		if arm == nil {
			return
		}
		nArms++
		tname := typeName(ta.AssertedType)
		pos := p.InstrPos(ta)
		inArm := func(b *ssa.BasicBlock) bool { return arm.Dominates(b) }
		// returns in the arm
		var retK int64 = -1
		var retV ssa.Value
		for _, r := range returnsOf(pack) {
			if inArm(r.Block()) {
				retV = r.Results[0]
				if k, ok := constInt(r.Results[0]); ok {
					retK = k
				}
			}
		}
		_ = retK
		switch {
		case w > 0:
			// the arm is evaluated: Pack(buffer, <boxed T>) on an abstract buffer
			_, signedT, _ := typeWidth(ta.AssertedType, p.Arch)
			li := &layoutInterp{p: p}
			paths := li.run(pack, []AV{avSlice{region: "buf", off: linConst(0), len: nil, name: "buffer"}, avIface{inner: avInt{bv: bvSrc("v", int(w*8)), signed: signedT}, typ: ta.AssertedType}}, nil)
			okArm := len(paths) == 1
			detail := fmt.Sprintf("%d paths", len(paths))
			if okArm {
				pp := paths[0]
				detail = ""
				if len(pp.notes) > 0 || len(pp.effect) > 0 {
					okArm, detail = false, strings.Join(append(append([]string{}, pp.notes...), pp.effect...), "; ")
				}
				rv, _ := pp.ret.(avInt)
				if k, isK := rv.bv.Const(); !(isK && int64(k) == w) && !(rv.lin != nil && rv.lin.String() == fmt.Sprint(w)) {
					okArm, detail = false, "returns "+describeAV(pp.ret)+", not "+fmt.Sprint(w)
				}
				got := map[int64]BV{}
				for _, wr := range pp.writes {
					k, isK := int64(-1), false
					if wr.off != nil {
						k, isK = wr.off.IsConst()
					}
					n, isN := int64(0), false
					if wr.n != nil {
						n, isN = wr.n.IsConst()
					}
					if !isK || !isN || n != 1 || wr.kind != "byte" || wr.rmw {
						okArm, detail = false, "a write that is not one plain byte at a constant offset"
						continue
					}
					if _, dup := got[k]; dup {
						okArm, detail = false, fmt.Sprintf("byte %d is written twice", k)
					}
					got[k] = wr.bv
				}
				if okArm && int64(len(got)) != w {
					okArm, detail = false, fmt.Sprintf("%d bytes written", len(got))
				}
				for k := int64(0); k < w && okArm; k++ {
					want := make(BV, 8)
					for i := 0; i < 8; i++ {
						want[i] = bit{K: bsrc, Src: "v", Idx: int(8*(w-1-k)) + i}
					}
					if !got[k].Equal(want) {
						okArm = false
						detail = fmt.Sprintf("byte %d is [%s], big-endian layout wants [%s]", k, got[k], want)
					}
				}
			}
			// an arm may hand the value to another arm of the packer (int16 -> uint16), not to itself and not in a chain
			instrsOf(pack, func(x ssa.Instruction) {
				call, ok := x.(*ssa.Call)
				if !ok || !inArm(call.Block()) || call.Common().StaticCallee() != pack {
					return
				}
				mi, isMI := call.Common().Args[1].(*ssa.MakeInterface)
				if !isMI || types.Identical(mi.X.Type(), ta.AssertedType) || primWidth(mi.X.Type()) != w {
					okArm, detail = false, "the arm calls the packer again with an item that is not a same-width value of another primitive type"
					return
				}
				delegated[typeName(mi.X.Type())] = append(delegated[typeName(mi.X.Type())], tname)
				isDelegating[tname] = true
			})
			c.Decide(okArm, "C15.generic", "util.Pack arm "+tname, pos, fmt.Sprintf("writes bytes 0..%d big-endian and returns %d", w-1, w), "the "+tname+" case does not write exactly its "+fmt.Sprint(w)+" bytes big-endian and return that width: "+detail)
		case isByteSlice(ta.AssertedType):
			okArm := false
			if cv, ok := retV.(*ssa.Convert); ok {
				if call, ok := cv.X.(*ssa.Call); ok && builtinName(call) == "copy" && call.Common().Args[0] == ssa.Value(buf) && call.Common().Args[1] == val {
					okArm = true
				}
			}
			c.Decide(okArm, "C15.generic", "util.Pack arm []byte", pos, "returns uint(copy(buffer, input))", "the []byte case does not copy the input and return the copied length")
		default:
			// Packable: input.Pack(buffer); return input.Size()
			okPack, okSize := false, false
			instrsOf(pack, func(x ssa.Instruction) {
				call, ok := x.(*ssa.Call)
				if !ok || !inArm(call.Block()) || !call.Common().IsInvoke() || call.Common().Value != val {
					return
				}
				if call.Common().Method.Name() == "Pack" && call.Common().Args[0] == ssa.Value(buf) {
					okPack = true
				}
				if call.Common().Method.Name() == "Size" && retV == ssa.Value(call) {
					okSize = true
				}
			})
			c.Decide(okPack && okSize, "C15.generic", "util.Pack arm Packable", pos, "input.Pack(buffer); return input.Size()", "the Packable case does not pack into the buffer start and return the item's Size()")
		}
	})
	c.Floor("C15.generic", "arms of util.Pack", nArms, 10)
	for target, from := range delegated {
		c.Decide(!isDelegating[target], "C15.generic", "util.Pack arm "+target+" is written out", p.Pos(pack.Pos()), "arms "+strings.Join(from, ", ")+" hand over to an arm that writes the bytes itself", "arm "+target+" receives values from "+strings.Join(from, ", ")+" and hands them on again: the evaluation of those arms assumed what it should show")
	}

	// PackSome: offset += Pack(buffer[offset:], item) over all items
	if f := p.Func("knx/util", "PackSome"); f != nil {
		ok := false
		n := 0
		instrsOf(f, func(in ssa.Instruction) {
			if !staticCallTo(in, pack) {
				return
			}
			n++
			call := in.(*ssa.Call)
			sl, isSl := call.Common().Args[0].(*ssa.Slice)
			if !isSl || sl.X != ssa.Value(f.Params[0]) || sl.High != nil {
				return
			}
			ph, isPhi := sl.Low.(*ssa.Phi)
			if !isPhi {
				return
			}
			zeroInit, acc := false, false
			for _, e := range ph.Edges {
				if k, isK := constInt(e); isK && k == 0 {
					zeroInit = true
				}
				if bo, isB := e.(*ssa.BinOp); isB && bo.Op == token.ADD && bo.X == ssa.Value(ph) && bo.Y == ssa.Value(call) {
					acc = true
				}
			}
			ok = zeroInit && acc && inAnyLoop(call.Block())
		})
		c.Decide(ok && n == 1, "C15.generic", "util.PackSome packs items back to back", p.Pos(f.Pos()), "offset starts at 0 and advances by what Pack returns", "PackSome does not place each item at the running offset")
	}
	// PackString: success path writes exactly maxLen bytes
	if f := p.Func("knx/util", "PackString"); f != nil {
		checkPackString(c, p, f)
	}
}

func checkPackString(c *Check, p *Program, f *ssa.Function) {
	pos := p.Pos(f.Pos())
	buf, maxLen := f.Params[0], f.Params[1]
	pl, err := p.compilerListing()
	if err != nil {
		c.Internal("%v", err)
		return
	}
	// (1) no index/slice of `encoded` can panic: compiler-proved
	instrsOf(f, func(in ssa.Instruction) {
		switch x := in.(type) {
		case *ssa.Slice:
			if x.X == ssa.Value(buf) {
				return
			}
			file, line := posFileLine(p, x.Pos())
			c.Decide(len(pl.BoundsPanicsAt(file, line)) == 0, "C15.string", "util.PackString truncation in range", p.InstrPos(x), "compiler-proved slice", "the truncation of the encoded name can be out of range (a name that fills or exceeds the field panics)")
		case *ssa.IndexAddr:
			if x.X != ssa.Value(buf) {
				file, line := posFileLine(p, x.Pos())
				c.Decide(len(pl.BoundsPanicsAt(file, line)) == 0, "C15.string", "util.PackString index in range", p.InstrPos(x), "compiler-proved index", "indexing the encoded name can be out of range")
			}
		}
	})
	// (2) copy(buffer, encoded) with len(encoded) <= maxLen, then zero fill [len(encoded), maxLen)
	var cp *ssa.Call
	instrsOf(f, func(in ssa.Instruction) {
		if call, ok := in.(*ssa.Call); ok && builtinName(call) == "copy" && call.Common().Args[0] == ssa.Value(buf) {
			cp = call
		}
	})
	if cp == nil {
		c.Fail("C15.string", "util.PackString copies the encoded bytes", pos, "no copy(buffer, encoded)")
		return
	}
	src := cp.Common().Args[1]
	// src is phi(encoded, encoded[:maxLen]) with the truncation on the edge len(encoded) > maxLen
	bounded := false
	if ph, ok := src.(*ssa.Phi); ok {
		bounded = true
		for i, e := range ph.Edges {
			pred := ph.Block().Preds[i]
			if sl, ok := e.(*ssa.Slice); ok && sl.High == ssa.Value(maxLen) && sl.Low == nil {
				continue
			}
			// untruncated edge must carry len(e) <= maxLen
			fs := append(factsAt(pred), edgeFacts(pred, ph.Block())...)
			okE := anyFact(fs, func(fc Cmp) bool {
				x, y, op := fc.X, fc.Y, fc.Op
				if y != ssa.Value(maxLen) {
					x, y, op = y, x, swapOp(op)
				}
				if y != ssa.Value(maxLen) || (op != token.LEQ && op != token.LSS) {
					return false
				}
				call, ok := stripAllConv(x).(*ssa.Call)
				return ok && builtinName(call) == "len" && call.Common().Args[0] == e
			})
			if !okE {
				bounded = false
			}
		}
	}
	c.Decide(bounded, "C15.string", "util.PackString copies at most maxLen bytes", p.InstrPos(cp), "the copied slice is truncated to maxLen on the edge len(encoded) > maxLen", "more than maxLen bytes of the encoded name can be copied: the neighbouring field is overwritten")
	// zero fill loop
	okFill := false
	for _, lp := range loopsOf(f) {
		for b := range lp.Body {
			for _, in := range b.Instrs {
				st, ok := in.(*ssa.Store)
				if !ok {
					continue
				}
				ia, ok := st.Addr.(*ssa.IndexAddr)
				if !ok || ia.X != ssa.Value(buf) {
					continue
				}
				k, isK := constInt(st.Val)
				ph, isPhi := ia.Index.(*ssa.Phi)
				if !isK || k != 0 || !isPhi {
					continue
				}
				// i starts at len(src), steps by 1, runs while i < int(maxLen)
				start, step := false, false
				for _, e := range ph.Edges {
					if call, ok := e.(*ssa.Call); ok && builtinName(call) == "len" && call.Common().Args[0] == src {
						start = true
					}
					if bo, ok := e.(*ssa.BinOp); ok && bo.Op == token.ADD && bo.X == ssa.Value(ph) {
						if kk, ok := constInt(bo.Y); ok && kk == 1 {
							step = true
						}
					}
				}
				bound := anyFact(factsAt(st.Block()), func(fc Cmp) bool {
					isMax := func(v ssa.Value) bool { return stripAllConv(v) == ssa.Value(maxLen) }
					return (fc.Op == token.LSS && fc.X == ssa.Value(ph) && isMax(fc.Y)) || (fc.Op == token.GTR && fc.Y == ssa.Value(ph) && isMax(fc.X))
				})
				if start && step && bound {
					okFill = true
				}
			}
		}
	}
	c.Decide(okFill, "C15.string", "util.PackString zero-fills the rest of the field", pos, "buffer[i] = 0 for i from len(copied) up to maxLen", "the bytes after the encoded name up to maxLen are not all set to zero (stale bytes stay in the field)")
	// success return is maxLen; error return writes nothing before
	for _, r := range returnsOf(f) {
		if p.returnMayBeNil(r, 1) {
			c.Decide(r.Results[0] == ssa.Value(maxLen), "C15.string", "util.PackString reports maxLen", p.InstrPos(r), "returns maxLen", "the success return does not report the field width")
		} else {
			c.Decide(!instrReaches(cp, r) && !(cp.Block().Dominates(r.Block())), "C15.string", "util.PackString error path writes nothing", p.InstrPos(r), "returns before touching the buffer", "the error path returns after a partial write")
		}
	}
}
