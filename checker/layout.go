package main

import (
	"fmt"
	"go/constant"
	"go/token"
	"go/types"
	"sort"
	"strings"

	"golang.org/x/tools/go/ssa"
)

// E6 - wire layout extraction: a path-sensitive abstract interpretation of the
// encoders.  Integers carry a linear value over symbolic lengths (Lin) and a
// bit-provenance vector (BV); the output buffer is an ordered list of writes
// with symbolic offsets.

type AV interface{}

type avInt struct {
	lin    *Lin
	bv     BV
	signed bool
}

type avF struct { // float32 value: its IEEE bits when they are a plain copy of a source
	bv   BV
	name string
}

type avBool struct {
	known bool
	val   bool
	bitv  *bit // the boolean equals this source bit
	// when unknown: either a linear relation (a op b) or an opaque condition text
	a, b *Lin
	op   string
	cond string
}

type avSlice struct {
	region string // "buf", "f:<path>", "fresh#n", "arr:<key>"
	off    *Lin   // offset inside the region
	len    *Lin   // nil: up to the end of the output buffer
	name   string // description of the content source
}

type avIface struct {
	inner AV
	typ   types.Type // static type of the boxed value (nil if opaque)
	path  string
}

type avPath struct { // an opaque value or pointer identified by its access path
	path string
	typ  types.Type
}

type avAddr struct { // address of a cell or of a field reachable from a path
	cell string // non-empty: local cell key
	path string // non-empty: field path from a parameter
	typ  types.Type
}

type avElem struct { // address of slice element
	s   avSlice
	idx *Lin
}

type avAgg struct { // a whole array or struct value: its elements by selector suffix ("[0]", ".F")
	elems map[string]AV
}

type avTuple []AV

type avOpaque struct{ desc string }

type bufWrite struct {
	off  *Lin
	n    *Lin
	kind string // "byte", "seg", "nested", "repeat"
	bv   BV     // kind byte
	lin  *Lin   // kind byte: numeric value of the stored byte when known
	src  string // content description
	pos  token.Pos
	rmw  bool
}

type lpath struct {
	env    Env
	conds  []string // opaque branch conditions taken, "+text" / "-text"
	vals   map[ssa.Value]AV
	mem    map[string]AV
	writes []bufWrite
	ret    AV
	assume map[string]bool // source bits pinned by the branches taken ("src#idx" -> value)
	notes  []string // things the interpreter could not model (make the path undecided)
	effect []string // stores through the receiver etc.
	nfresh int
	havoc  map[*ssa.BasicBlock]bool // loop headers whose phis were replaced by unknowns on this path
}

func (s *lpath) clone() *lpath {
	o := &lpath{env: s.env.clone(), conds: append([]string{}, s.conds...), vals: map[ssa.Value]AV{}, mem: map[string]AV{}, writes: append([]bufWrite{}, s.writes...), notes: append([]string{}, s.notes...), effect: append([]string{}, s.effect...), nfresh: s.nfresh, assume: map[string]bool{}}
	for k, v := range s.assume {
		o.assume[k] = v
	}
	for k, v := range s.vals {
		o.vals[k] = v
	}
	for k, v := range s.mem {
		o.mem[k] = v
	}
	if s.havoc != nil {
		o.havoc = map[*ssa.BasicBlock]bool{}
		for k, v := range s.havoc {
			o.havoc[k] = v
		}
	}
	return o
}

type layoutInterp struct {
	p        *Program
	maxPaths int
	depth    int
	// rootName: name used for the receiver (parameter 0) in access paths
	results []*lpath
	act     int // activation id: local cells of different calls of one function are distinct
	// names given to loop-header phis that were replaced by unknowns
	havocNames map[*ssa.Phi]string
}

const staleSrc = "STALE"

func pathString(root string, sels []string) string { return root + strings.Join(sels, "") }

// widthOfType: byte width the generic packer writes for a boxed value of type t (0 if not primitive).
func primWidth(t types.Type) int64 {
	if b, ok := t.Underlying().(*types.Basic); ok {
		switch b.Kind() {
		case types.Uint8, types.Int8:
			return 1
		case types.Uint16, types.Int16:
			return 2
		case types.Uint32, types.Int32:
			return 4
		case types.Uint64, types.Int64:
			return 8
		}
	}
	return 0
}

// constSize: the Size() method of named type nt returns the same constant on every path.
func constSize(p *Program, nt *types.Named) (int64, bool) {
	m := methodOf(p, nt, "Size")
	if m == nil || len(m.Blocks) == 0 {
		return 0, false
	}
	val := int64(-1)
	for _, r := range returnsOf(m) {
		if len(r.Results) != 1 {
			return 0, false
		}
		k, ok := constInt(r.Results[0])
		if !ok || (val >= 0 && k != val) {
			return 0, false
		}
		val = k
	}
	return val, val >= 0
}

func (li *layoutInterp) sizeOfValue(v AV, st types.Type) *Lin {
	// static named type with a constant Size
	if st != nil {
		if nt := namedOf(st); nt != nil {
			if _, isI := nt.Underlying().(*types.Interface); !isI {
				if k, ok := constSize(li.p, nt); ok {
					return linConst(k)
				}
			}
		}
	}
	switch x := v.(type) {
	case avPath:
		return linSym("Size(" + x.path + ")")
	case avAddr:
		if x.path != "" {
			return linSym("Size(" + x.path + ")")
		}
	case avIface:
		if x.inner != nil {
			return li.sizeOfValue(x.inner, x.typ)
		}
		return linSym("Size(" + x.path + ")")
	case avSlice:
		// named slice types (Info, LRaw) passed by value
		if strings.HasPrefix(x.region, "f:") {
			return linSym("Size(" + strings.TrimPrefix(x.region, "f:") + ")")
		}
	}
	return nil
}

// nestedName: the name under which a nested Packable is recorded - a value that is a whole field (a named
// byte-slice type such as cemi.Info) is named by its field path, however the call reached it.
func nestedName(recv AV) string {
	if sl, ok := recv.(avSlice); ok && strings.HasPrefix(sl.region, "f:") && sl.off != nil && sl.off.String() == "0" {
		return strings.TrimPrefix(sl.region, "f:")
	}
	return describeAV(recv)
}

func describeAV(v AV) string {
	switch x := v.(type) {
	case avInt:
		if x.lin != nil {
			return x.lin.String()
		}
		return x.bv.String()
	case avSlice:
		return fmt.Sprintf("%s[%s:+%s]", x.region, x.off, x.len)
	case avPath:
		return x.path
	case avAddr:
		return "&" + x.cell + x.path
	case avIface:
		return "iface(" + x.path + ")"
	case avBool:
		if x.known {
			return fmt.Sprint(x.val)
		}
		return x.cond
	case avOpaque:
		return x.desc
	case avF:
		if x.bv != nil {
			return "float(" + x.bv.String() + ")"
		}
		return "float " + x.name
	}
	return fmt.Sprintf("%T", v)
}

// newInt builds an integer value from a linear form, deriving constant bits.
func newInt(lin *Lin, w int, signed bool, name string) avInt {
	if k, ok := lin.IsConst(); ok {
		return avInt{lin: lin, bv: bvConst(uint64(k), w), signed: signed}
	}
	return avInt{lin: lin, bv: bvSrc(name, w), signed: signed}
}

// run interprets fn with the given arguments; every complete path is returned.
func (li *layoutInterp) run(fn *ssa.Function, args []AV, base *lpath) []*lpath {
	st := base
	if st == nil {
		st = &lpath{env: Env{}, vals: map[ssa.Value]AV{}, mem: map[string]AV{}, assume: map[string]bool{}}
	}
	for i, prm := range fn.Params {
		if i < len(args) {
			st.vals[prm] = args[i]
		}
	}
	var out []*lpath
	li.walk(fn, fn.Blocks[0], nil, st, map[*ssa.BasicBlock]int{}, &out)
	return out
}

// paramValue builds the abstract argument for parameter prm rooted at name.
func (li *layoutInterp) paramValue(prm *ssa.Parameter, name string) AV {
	return li.valueOfPath(name, prm.Type())
}

func (li *layoutInterp) valueOfPath(path string, t types.Type) AV {
	switch u := t.Underlying().(type) {
	case *types.Basic:
		if u.Info()&types.IsBoolean != 0 {
			return avBool{cond: path}
		}
		if w, signed, ok := typeWidth(t, li.p.Arch); ok {
			return avInt{bv: bvSrc(path, w), signed: signed}
		}
		if u.Kind() == types.Float32 {
			return avF{bv: bvSrc(path, 32), name: path}
		}
		return avOpaque{path}
	case *types.Slice:
		return avSlice{region: "f:" + path, off: linConst(0), len: linSym("len(" + path + ")"), name: path}
	case *types.Interface:
		return avIface{path: path}
	case *types.Pointer:
		return avPath{path: path, typ: t}
	case *types.Struct, *types.Array:
		return avPath{path: path, typ: t}
	}
	return avPath{path: path, typ: t}
}

var activationCounter int

func (li *layoutInterp) cellKey(a *ssa.Alloc) string {
	if li.act == 0 {
		activationCounter++
		li.act = activationCounter
	}
	return fmt.Sprintf("c%p@%d", a, li.act)
}

func (li *layoutInterp) walk(fn *ssa.Function, b, from *ssa.BasicBlock, st *lpath, visits map[*ssa.BasicBlock]int, out *[]*lpath) {
	if len(*out) >= 64 {
		return
	}
	if visits[b] > 0 {
		if st.havoc[b] {
			// the header's phis already stand for the state of any iteration: this path adds nothing
			return
		}
		st.notes = append(st.notes, fmt.Sprintf("loop at block %d of %s not summarised", b.Index, FuncName(fn)))
		*out = append(*out, st)
		return
	}
	// loop header with a recognisable accumulation pattern
	havocHere := false
	if lp := headerLoop(b); lp != nil && from != nil && !lp.Body[from] {
		if exit, ok := li.summariseLoop(fn, lp, from, st); ok {
			nv := map[*ssa.BasicBlock]int{}
			for k, v := range visits {
				nv[k] = v
			}
			li.walk(fn, exit, lp.Header, st, nv, out)
			return
		}
		// a loop that only computes (no store, call, send): its header phis become unknowns of their type
		// ("the state of some iteration"), the exit condition then constrains them
		if pureLoop(lp) {
			havocHere = true
			if st.havoc == nil {
				st.havoc = map[*ssa.BasicBlock]bool{}
			}
			st.havoc[b] = true
		}
	}
	visits[b]++
	defer func() { visits[b]-- }()
	for _, in := range b.Instrs {
		switch x := in.(type) {
		case *ssa.Phi:
			if havocHere {
				name := li.havocName(x)
				if w, signed, ok := typeWidth(x.Type(), li.p.Arch); ok {
					st.vals[x] = avInt{lin: linSym(name), bv: bvSrc(name, w), signed: signed}
					lo, hi := int64(0), int64(1)<<62
					if signed {
						lo = -(int64(1) << 62)
					}
					if w < 62 {
						if signed {
							lo, hi = -(int64(1) << uint(w-1)), int64(1)<<uint(w-1)-1
						} else {
							hi = int64(1)<<uint(w) - 1
						}
					}
					st.env[name] = iv{lo, hi}
				} else {
					st.vals[x] = avOpaque{name}
				}
				continue
			}
			for i, pr := range b.Preds {
				if pr == from {
					st.vals[x] = li.eval(st, x.Edges[i])
				}
			}
		case *ssa.If:
			c, _ := li.eval(st, x.Cond).(avBool)
			if c.known {
				if c.val {
					li.walk(fn, b.Succs[0], b, st, visits, out)
				} else {
					li.walk(fn, b.Succs[1], b, st, visits, out)
				}
				return
			}
			for pol := 0; pol < 2; pol++ {
				ns := st.clone()
				if c.a != nil && c.b != nil {
					op := c.op
					if pol == 1 {
						op = negRel(op)
					}
					sat, _ := ns.env.refine(c.a, op, c.b)
					if !sat {
						continue
					}
					ns.conds = append(ns.conds, fmt.Sprintf("%s %s %s", c.a, op, c.b))
				} else {
					sign := "+"
					if pol == 1 {
						sign = "-"
					}
					if c.bitv != nil {
						// the condition is one source bit: pin it
						key := fmt.Sprintf("%s#%d", c.bitv.Src, c.bitv.Idx)
						want := (pol == 0) == (c.bitv.K == bsrc)
						if prev, has := ns.assume[key]; has && prev != want {
							continue
						}
						ns.assume[key] = want
					}
					// contradiction with an earlier choice on the same condition
					contra := false
					cs := canonCond(sign, c.cond)
					for _, prev := range ns.conds {
						if len(prev) > 1 && prev[1:] == cs[1:] && prev[:1] != cs[:1] && (prev[0] == '+' || prev[0] == '-') {
							contra = true
						}
					}
					if contra {
						continue
					}
					ns.conds = append(ns.conds, cs)
				}
				li.walk(fn, b.Succs[pol], b, ns, visits, out)
			}
			return
		case *ssa.Jump:
			li.walk(fn, b.Succs[0], b, st, visits, out)
			return
		case *ssa.Return:
			switch len(x.Results) {
			case 0:
			case 1:
				st.ret = li.eval(st, x.Results[0])
			default:
				var t avTuple
				for _, r := range x.Results {
					t = append(t, li.eval(st, r))
				}
				st.ret = t
			}
			*out = append(*out, st)
			return
		case *ssa.Panic:
			st.notes = append(st.notes, "panic at "+li.p.InstrPos(x))
			*out = append(*out, st)
			return
		default:
			forks := li.exec(fn, st, in)
			if len(forks) > 0 {
				// the instruction forked the path (PackString success/failure): continue each in the rest of the block
				idx := instrIndex(in)
				for _, ns := range forks {
					li.resume(fn, b, idx+1, from, ns, visits, out)
				}
				return
			}
		}
	}
}

// resume continues interpreting block b from instruction index i.
func (li *layoutInterp) resume(fn *ssa.Function, b *ssa.BasicBlock, i int, from *ssa.BasicBlock, st *lpath, visits map[*ssa.BasicBlock]int, out *[]*lpath) {
	// interpret the tail by building a pseudo walk: reuse walk's switch through a small loop
	for _, in := range b.Instrs[i:] {
		switch x := in.(type) {
		case *ssa.If:
			c, _ := li.eval(st, x.Cond).(avBool)
			if c.known {
				if c.val {
					li.walk(fn, b.Succs[0], b, st, visits, out)
				} else {
					li.walk(fn, b.Succs[1], b, st, visits, out)
				}
				return
			}
			for pol := 0; pol < 2; pol++ {
				ns := st.clone()
				sign := "+"
				if pol == 1 {
					sign = "-"
				}
				ns.conds = append(ns.conds, canonCond(sign, c.cond))
				li.walk(fn, b.Succs[pol], b, ns, visits, out)
			}
			return
		case *ssa.Jump:
			li.walk(fn, b.Succs[0], b, st, visits, out)
			return
		case *ssa.Return:
			switch len(x.Results) {
			case 0:
			case 1:
				st.ret = li.eval(st, x.Results[0])
			default:
				var t avTuple
				for _, r := range x.Results {
					t = append(t, li.eval(st, r))
				}
				st.ret = t
			}
			*out = append(*out, st)
			return
		default:
			if forks := li.exec(fn, st, in); len(forks) > 0 {
				idx := instrIndex(in)
				for _, ns := range forks {
					li.resume(fn, b, idx+1, from, ns, visits, out)
				}
				return
			}
		}
	}
}

func negRel(op string) string {
	switch op {
	case "<":
		return ">="
	case "<=":
		return ">"
	case ">":
		return "<="
	case ">=":
		return "<"
	case "==":
		return "!="
	case "!=":
		return "=="
	}
	return op
}

func headerLoop(b *ssa.BasicBlock) *loopInfo {
	for _, lp := range loopsOf(b.Parent()) {
		if lp.Header == b {
			return lp
		}
	}
	return nil
}

// eval returns the abstract value of an SSA value on the current path.
func (li *layoutInterp) eval(st *lpath, v ssa.Value) AV {
	if av, ok := st.vals[v]; ok {
		return av
	}
	switch x := v.(type) {
	case *ssa.Const:
		if x.Value == nil {
			return avOpaque{"nil"}
		}
		switch x.Value.Kind() {
		case constant.Bool:
			return avBool{known: true, val: constant.BoolVal(x.Value)}
		case constant.Int:
			w, signed, ok := typeWidth(x.Type(), li.p.Arch)
			if !ok {
				w = 64
			}
			k, _ := constInt(x)
			return avInt{lin: linConst(k), bv: bvConst(uint64(k), w), signed: signed}
		}
		return avOpaque{x.String()}
	case *ssa.Global:
		return avAddr{path: "global:" + x.Name(), typ: x.Type()}
	case *ssa.Function:
		return avOpaque{"func " + x.Name()}
	case *ssa.Parameter:
		return li.valueOfPath(x.Name(), x.Type())
	case *ssa.FreeVar:
		return avOpaque{"freevar " + x.Name()}
	}
	return avOpaque{v.Name()}
}

// exec interprets one non-control instruction; a non-nil result means the
// path forked (the returned states already contain the instruction's effect).
func (li *layoutInterp) exec(fn *ssa.Function, st *lpath, in ssa.Instruction) []*lpath {
	switch x := in.(type) {
	case *ssa.Alloc:
		st.vals[x] = avAddr{cell: li.cellKey(x), typ: deref(x.Type())}
	case *ssa.DebugRef:
	case *ssa.FieldAddr:
		base := li.eval(st, x.X)
		f := structField(x.X.Type(), x.Field)
		switch a := base.(type) {
		case avAddr:
			if a.cell != "" {
				st.vals[x] = avAddr{cell: a.cell + "." + f.Name(), typ: f.Type()}
			} else {
				st.vals[x] = avAddr{path: a.path + "." + f.Name(), typ: f.Type()}
			}
		case avPath:
			st.vals[x] = avAddr{path: a.path + "." + f.Name(), typ: f.Type()}
		default:
			st.vals[x] = avAddr{path: describeAV(base) + "." + f.Name(), typ: f.Type()}
		}
	case *ssa.Field:
		base := li.eval(st, x.X)
		f := structField(x.X.Type(), x.Field)
		if a, ok := base.(avPath); ok {
			if v, ok := st.mem["out:"+a.path+"."+f.Name()]; ok {
				st.vals[x] = v
			} else {
				st.vals[x] = li.valueOfPath(a.path+"."+f.Name(), f.Type())
			}
		} else {
			st.vals[x] = li.valueOfPath(describeAV(base)+"."+f.Name(), f.Type())
		}
	case *ssa.IndexAddr:
		base := li.eval(st, x.X)
		idx, _ := li.eval(st, x.Index).(avInt)
		switch a := base.(type) {
		case avSlice:
			st.vals[x] = avElem{s: a, idx: idx.lin}
		case avAddr:
			k := "?"
			if idx.lin != nil {
				k = idx.lin.String()
			}
			elemT := types.Type(nil)
			if at, ok := a.typ.Underlying().(*types.Array); ok {
				elemT = at.Elem()
			}
			if a.cell != "" {
				st.vals[x] = avAddr{cell: a.cell + "[" + k + "]", typ: elemT}
			} else {
				st.vals[x] = avAddr{path: a.path + "[" + k + "]", typ: elemT}
			}
		default:
			st.vals[x] = avAddr{path: describeAV(base) + "[?]"}
		}
	case *ssa.UnOp:
		li.execUnOp(st, x)
	case *ssa.Store:
		addr := li.eval(st, x.Addr)
		val := li.eval(st, x.Val)
		if ag, isAgg := val.(avAgg); isAgg {
			switch a := addr.(type) {
			case avAddr:
				base := a.cell
				if base == "" {
					base = "out:" + a.path
					st.effect = append(st.effect, "store to "+a.path+" at "+li.p.InstrPos(x))
				}
				for sfx, v := range ag.elems {
					st.mem[base+sfx] = v
				}
			case avPath:
				st.effect = append(st.effect, "store to "+a.path+" at "+li.p.InstrPos(x))
				for sfx, v := range ag.elems {
					st.mem["out:"+a.path+sfx] = v
				}
			}
			break
		}
		switch a := addr.(type) {
		case avAddr:
			if a.cell != "" {
				// a whole value replaces what was stored field by field before
				for k := range st.mem {
					if strings.HasPrefix(k, a.cell+".") || strings.HasPrefix(k, a.cell+"[") {
						delete(st.mem, k)
					}
				}
				st.mem[a.cell] = val
			} else {
				st.effect = append(st.effect, "store to "+a.path+" at "+li.p.InstrPos(x))
				st.mem["out:"+a.path] = val
			}
		case avPath:
			st.effect = append(st.effect, "store to "+a.path+" at "+li.p.InstrPos(x))
			st.mem["out:"+a.path] = val
		case avElem:
			if a.s.region == "buf" {
				iv, _ := val.(avInt)
				bv := iv.bv
				if bv == nil {
					bv = bvTop(8)
				}
				off := a.s.off.Add(a.idx)
				if off == nil {
					st.notes = append(st.notes, "buffer store at a non-linear offset, "+li.p.InstrPos(x))
				}
				var blin *Lin
				if iv.lin != nil {
					if lo, hi := st.env.bounds(iv.lin); lo >= 0 && hi <= 255 {
						blin = iv.lin
					}
				}
				st.writes = append(st.writes, bufWrite{off: off, n: linConst(1), kind: "byte", bv: bv.resize(8, false), lin: blin, pos: x.Pos()})
			} else if strings.HasPrefix(a.s.region, "f:") {
				st.effect = append(st.effect, "store into "+a.s.region+" at "+li.p.InstrPos(x))
			} else if key, ok := elemKey(a.s, a.idx); ok {
				st.mem[key] = val
			} else {
				st.notes = append(st.notes, "store into a temporary at a non-constant index, "+li.p.InstrPos(x))
			}
		}
	case *ssa.Convert:
		v := li.eval(st, x.X)
		w, signed, ok := typeWidth(x.Type(), li.p.Arch)
		iv, isInt := v.(avInt)
		if fv, isF := v.(avF); isF {
			if b, isB := x.Type().Underlying().(*types.Basic); isB && b.Kind() == types.Float32 {
				st.vals[x] = fv // float32 <-> named float32
			} else if ok {
				st.vals[x] = avInt{bv: bvTop(w), signed: signed} // float -> integer: numeric, not a bit copy
			} else {
				st.vals[x] = avF{name: "converted"}
			}
			break
		}
		if isInt && !ok {
			if b, isB := x.Type().Underlying().(*types.Basic); isB && b.Info()&types.IsFloat != 0 {
				st.vals[x] = avF{name: "from integer"}
				break
			}
		}
		if !ok || !isInt {
			if isInt && !ok {
				st.vals[x] = avOpaque{"convert"}
			} else {
				st.vals[x] = v // e.g. []byte(x), named slice conversions
			}
			break
		}
		res := avInt{bv: li.refineBits(st, iv).resize(w, iv.signed), signed: signed}
		if iv.lin != nil {
			lo, hi := st.env.bounds(iv.lin)
			max := int64(1)<<uint(minInt(w, 62)) - 1
			// lengths and sizes never approach 2^31: conversions between
			// machine-word integers keep the value when it is non-negative
			if lo >= 0 && (hi <= max || w >= 32) {
				res.lin = iv.lin
				if k, ok := iv.lin.IsConst(); ok {
					res.bv = bvConst(uint64(k), w)
				}
			}
		}
		st.vals[x] = res
	case *ssa.ChangeType:
		st.vals[x] = li.eval(st, x.X)
	case *ssa.ChangeInterface:
		st.vals[x] = li.eval(st, x.X)
	case *ssa.MakeInterface:
		st.vals[x] = avIface{inner: li.eval(st, x.X), typ: x.X.Type()}
	case *ssa.MakeSlice:
		ln, _ := li.eval(st, x.Len).(avInt)
		st.nfresh++
		st.vals[x] = avSlice{region: fmt.Sprintf("fresh#%d", st.nfresh), off: linConst(0), len: ln.lin, name: "zero"}
	case *ssa.Slice:
		li.execSlice(st, x)
	case *ssa.BinOp:
		li.execBinOp(st, x)
	case *ssa.Extract:
		if t, ok := li.eval(st, x.Tuple).(avTuple); ok && x.Index < len(t) {
			st.vals[x] = t[x.Index]
		} else {
			st.vals[x] = avOpaque{"extract"}
		}
	case *ssa.TypeAssert:
		// a boxed value whose dynamic type is known decides the assertion
		if ifc, ok := li.eval(st, x.X).(avIface); ok && ifc.typ != nil {
			match := false
			var val AV = avOpaque{"typeassert"}
			if _, toIface := x.AssertedType.Underlying().(*types.Interface); toIface {
				if it, isI := x.AssertedType.Underlying().(*types.Interface); isI && types.Implements(ifc.typ, it) {
					match, val = true, ifc
				}
			} else if types.Identical(ifc.typ, x.AssertedType) {
				match, val = true, ifc.inner
			}
			if x.CommaOk {
				if !match {
					val = li.zeroOf(x.AssertedType, "")
				}
				st.vals[x] = avTuple{val, avBool{known: true, val: match}}
				break
			}
			if match {
				st.vals[x] = val
				break
			}
		}
		st.vals[x] = avOpaque{"typeassert"}
	case *ssa.Call:
		return li.execCall(fn, st, x)
	case *ssa.Defer, *ssa.Go, *ssa.RunDefers:
		st.notes = append(st.notes, fmt.Sprintf("%T in an encoder at %s", in, li.p.InstrPos(in)))
	case *ssa.Index:
		st.vals[x] = avOpaque{"index"}
	default:
		if v, ok := in.(ssa.Value); ok {
			st.vals[v] = avOpaque{fmt.Sprintf("%T", in)}
		}
	}
	return nil
}

func minInt(a, b int) int {
	if a < b {
		return a
	}
	return b
}

func (li *layoutInterp) execUnOp(st *lpath, x *ssa.UnOp) {
	switch x.Op {
	case token.MUL:
		addr := li.eval(st, x.X)
		switch a := addr.(type) {
		case avAddr:
			if a.cell != "" {
				if v, ok := st.mem[a.cell]; ok {
					// a struct stored as a whole and then changed field by field: compose
					if stT, isSt := x.Type().Underlying().(*types.Struct); isSt {
						over := false
						for k := range st.mem {
							if strings.HasPrefix(k, a.cell+".") {
								over = true
							}
						}
						if over {
							ag := avAgg{elems: map[string]AV{}}
							for i := 0; i < stT.NumFields(); i++ {
								f := stT.Field(i)
								if ov, has := st.mem[a.cell+"."+f.Name()]; has {
									ag.elems["."+f.Name()] = ov
									continue
								}
								switch b := v.(type) {
								case avPath:
									if o, has := st.mem["out:"+b.path+"."+f.Name()]; has {
										ag.elems["."+f.Name()] = o
									} else {
										ag.elems["."+f.Name()] = li.valueOfPath(b.path+"."+f.Name(), f.Type())
									}
								case avAgg:
									if e, has := b.elems["."+f.Name()]; has {
										ag.elems["."+f.Name()] = e
									}
								}
							}
							st.vals[x] = ag
							return
						}
					}
					st.vals[x] = v
					return
				}
				// a field of a struct value that was stored into the cell as a whole
				key := a.cell
				for {
					i := strings.LastIndexAny(key, ".[")
					if i <= 0 {
						break
					}
					rest := a.cell[i:]
					key = key[:i]
					if base, ok := st.mem[key].(avPath); ok {
						if v, has := st.mem["out:"+base.path+rest]; has {
							st.vals[x] = v
						} else {
							st.vals[x] = li.valueOfPath(base.path+rest, x.Type())
						}
						return
					}
				}
				// a whole array / struct built element by element in this cell
				switch x.Type().Underlying().(type) {
				case *types.Array, *types.Struct:
					ag := avAgg{elems: map[string]AV{}}
					for k, v := range st.mem {
						if strings.HasPrefix(k, a.cell) && len(k) > len(a.cell) && (k[len(a.cell)] == '[' || k[len(a.cell)] == '.') {
							ag.elems[k[len(a.cell):]] = v
						}
					}
					if len(ag.elems) > 0 {
						st.vals[x] = ag
						return
					}
				}
				// zero value of the cell
				st.vals[x] = li.zeroOf(x.Type(), a.cell)
				return
			}
			if strings.HasPrefix(a.path, "global:") {
				if g, ok := x.X.(*ssa.Global); ok {
					if k, ok := li.globalConst(g); ok {
						w, signed, _ := typeWidth(x.Type(), li.p.Arch)
						st.vals[x] = avInt{lin: linConst(k), bv: bvConst(uint64(k), w), signed: signed}
						return
					}
					if v, ok := li.globalStruct(g, nil, x.Type()); ok {
						st.vals[x] = v
						return
					}
				}
				// a field of a package-level struct variable
				if fa, ok := x.X.(*ssa.FieldAddr); ok {
					if g, ok := fa.X.(*ssa.Global); ok {
						if v, ok := li.globalStruct(g, []int{fa.Field}, x.Type()); ok {
							st.vals[x] = v
							return
						}
					}
				}
			}
			if v, ok := st.mem["out:"+a.path]; ok {
				st.vals[x] = v
				return
			}
			st.vals[x] = li.valueOfPath(a.path, x.Type())
		case avElem:
			if a.s.region == "buf" {
				off := a.s.off.Add(a.idx)
				bv, lin := li.readByte(st, off)
				st.vals[x] = avInt{bv: bv, lin: lin}
				return
			}
			if key, ok := elemKey(a.s, a.idx); ok {
				if v, has := st.mem[key]; has {
					st.vals[x] = v
					return
				}
				if strings.HasPrefix(a.s.region, "fresh#") || (strings.HasPrefix(a.s.region, "arr:c") && !strings.Contains(a.s.region, "r.")) {
					st.vals[x] = avInt{lin: linConst(0), bv: bvConst(0, 8)}
					return
				}
			}
			nm := a.s.name
			if nm == "" {
				nm = a.s.region
			}
			idx := "?"
			if a.idx != nil {
				idx = a.s.off.Add(a.idx).String()
			}
			res := avInt{bv: bvSrc(nm+"["+idx+"]", 8)}
			if a.s.region == "in" && a.idx != nil {
				// an input byte is also a number in 0..255
				sym := nm + "[" + idx + "]"
				if _, has := st.env[sym]; !has {
					st.env[sym] = iv{0, 255}
				}
				res.lin = linSym(sym)
			}
			st.vals[x] = res
		case avPath:
			if v, ok := st.mem["out:"+a.path]; ok {
				st.vals[x] = v
				return
			}
			st.vals[x] = li.valueOfPath(a.path, x.Type())
		default:
			st.vals[x] = avOpaque{"load"}
		}
	case token.NOT:
		b, _ := li.eval(st, x.X).(avBool)
		if b.known {
			st.vals[x] = avBool{known: true, val: !b.val}
		} else if b.bitv != nil {
			nb := bitNot(*b.bitv)
			st.vals[x] = avBool{bitv: &nb, cond: nb.String()}
		} else if b.a != nil {
			st.vals[x] = avBool{a: b.a, b: b.b, op: negRel(b.op)}
		} else {
			st.vals[x] = avBool{cond: "!(" + b.cond + ")"}
		}
	case token.XOR:
		iv, _ := li.eval(st, x.X).(avInt)
		out := make(BV, len(iv.bv))
		for i := range iv.bv {
			out[i] = bitNot(iv.bv[i])
		}
		st.vals[x] = avInt{bv: out, signed: iv.signed}
	default:
		st.vals[x] = avOpaque{"unop"}
	}
}

func (li *layoutInterp) zeroOf(t types.Type, key string) AV {
	switch u := t.Underlying().(type) {
	case *types.Basic:
		if u.Info()&types.IsBoolean != 0 {
			return avBool{known: true}
		}
		if w, signed, ok := typeWidth(t, li.p.Arch); ok {
			return avInt{lin: linConst(0), bv: bvConst(0, w), signed: signed}
		}
	case *types.Slice:
		return avSlice{region: "nil", off: linConst(0), len: linConst(0)}
	}
	return avAddr{cell: key, typ: t}
}

// readByte returns the content (and numeric value, if known) of the buffer
// byte at offset off: the latest write that covers it, or STALE bits.
func (li *layoutInterp) readByte(st *lpath, off *Lin) (BV, *Lin) {
	if off == nil {
		return bvTop(8), nil
	}
	for i := len(st.writes) - 1; i >= 0; i-- {
		w := st.writes[i]
		if w.off == nil || w.n == nil {
			return bvTop(8), nil
		}
		end := w.off.Add(w.n)
		if st.env.lt(off, w.off) || st.env.le(end, off) {
			continue
		}
		if !(st.env.le(w.off, off) && st.env.lt(off, end)) {
			return bvTop(8), nil // cannot decide whether this write covers the byte
		}
		if w.kind == "byte" {
			lin := w.lin
			if k, ok := w.bv.Const(); ok {
				lin = linConst(int64(k))
			}
			return w.bv, lin
		}
		return bvSrc(fmt.Sprintf("%s[%s]", w.src, off.Sub(w.off)), 8), nil
	}
	return bvSrc(staleSrc, 8), nil
}

func (li *layoutInterp) execSlice(st *lpath, x *ssa.Slice) {
	base := li.eval(st, x.X)
	var lo, hi *Lin
	lo = linConst(0)
	if x.Low != nil {
		iv, _ := li.eval(st, x.Low).(avInt)
		lo = iv.lin
	}
	hasHi := x.High != nil
	if hasHi {
		iv, _ := li.eval(st, x.High).(avInt)
		hi = iv.lin
		if hi == nil {
			st.notes = append(st.notes, "slice with a non-linear high bound at "+li.p.InstrPos(x))
		}
	}
	switch a := base.(type) {
	case avSlice:
		ns := avSlice{region: a.region, off: a.off.Add(lo), name: a.name}
		switch {
		case hasHi:
			ns.len = hi.Sub(lo)
		case a.len != nil:
			ns.len = a.len.Sub(lo)
		}
		st.vals[x] = ns
	case avAddr:
		// slicing an array cell or an array field
		n := int64(-1)
		if at, ok := a.typ.Underlying().(*types.Array); ok {
			n = at.Len()
		}
		ln := linConst(n)
		if hasHi {
			ln = hi.Sub(lo)
		} else if n >= 0 {
			ln = linConst(n).Sub(lo)
		}
		name := a.path
		if name == "" {
			name = "local array"
		}
		st.vals[x] = avSlice{region: "arr:" + a.cell + a.path, off: lo, len: ln, name: name}
	default:
		st.vals[x] = avOpaque{"slice"}
	}
}

func relOf(op token.Token) string {
	switch op {
	case token.LSS:
		return "<"
	case token.LEQ:
		return "<="
	case token.GTR:
		return ">"
	case token.GEQ:
		return ">="
	case token.EQL:
		return "=="
	case token.NEQ:
		return "!="
	}
	return ""
}

func (li *layoutInterp) execBinOp(st *lpath, x *ssa.BinOp) {
	l, r := li.eval(st, x.X), li.eval(st, x.Y)
	li1, ok1 := l.(avInt)
	ri1, ok2 := r.(avInt)
	if rel := relOf(x.Op); rel != "" {
		if rel == "==" || rel == "!=" {
			nl, nr := nilness(l), nilness(r)
			if nl >= 0 && nr >= 0 && (nl == 1 || nr == 1) {
				eq := nl == 1 && nr == 1
				st.vals[x] = avBool{known: true, val: eq == (rel == "==")}
				return
			}
		}
		if ok1 && ok2 && li1.lin != nil && ri1.lin != nil {
			c := st.env.cmp3(li1.lin, ri1.lin)
			if c != 2 {
				var val bool
				switch rel {
				case "<":
					val = c < 0
				case "<=":
					val = c <= 0
				case ">":
					val = c > 0
				case ">=":
					val = c >= 0
				case "==":
					val = c == 0
				case "!=":
					val = c != 0
				}
				st.vals[x] = avBool{known: true, val: val}
				return
			}
			// partial decisions for <= / >= when only one direction is excluded
			switch rel {
			case "<=":
				if st.env.le(li1.lin, ri1.lin) {
					st.vals[x] = avBool{known: true, val: true}
					return
				}
			case ">=":
				if st.env.le(ri1.lin, li1.lin) {
					st.vals[x] = avBool{known: true, val: true}
					return
				}
			case "<":
				if st.env.le(ri1.lin, li1.lin) {
					st.vals[x] = avBool{known: true, val: false}
					return
				}
			case ">":
				if st.env.le(li1.lin, ri1.lin) {
					st.vals[x] = avBool{known: true, val: false}
					return
				}
			}
			st.vals[x] = avBool{a: li1.lin, b: ri1.lin, op: rel, cond: fmt.Sprintf("%s %s %s", li1.lin, rel, ri1.lin)}
			return
		}
		if ok1 && ok2 {
			ka, oka := li1.bv.Const()
			kb, okb := ri1.bv.Const()
			if oka && okb && (rel == "==" || rel == "!=") {
				st.vals[x] = avBool{known: true, val: (ka == kb) == (rel == "==")}
				return
			}
			if (rel == "==" || rel == "!=") && len(li1.bv) > 0 && len(ri1.bv) > 0 {
				op := token.EQL
				if rel == "!=" {
					op = token.NEQ
				}
				w := len(li1.bv)
				if len(ri1.bv) > w {
					w = len(ri1.bv)
				}
				// reuse the bit-provenance comparison: (x & m) == m for a one-bit mask is that bit
				ev := &BitEval{P: li.p, Env: map[ssa.Value]BV{x.X: li1.bv.resize(w, false), x.Y: ri1.bv.resize(w, false)}}
				_ = op
				if alts := ev.binop(x, 1, false); len(alts) == 1 && len(alts[0].V) == 1 {
					rb := alts[0].V[0]
					switch rb.K {
					case b0:
						st.vals[x] = avBool{known: true, val: false}
						return
					case b1:
						st.vals[x] = avBool{known: true, val: true}
						return
					case bsrc, bnot:
						// apply what earlier branches pinned
						if v, has := st.assume[fmt.Sprintf("%s#%d", rb.Src, rb.Idx)]; has {
							st.vals[x] = avBool{known: true, val: v == (rb.K == bsrc)}
							return
						}
						st.vals[x] = avBool{bitv: &rb, cond: rb.String()}
						return
					}
				}
			}
			st.vals[x] = avBool{cond: fmt.Sprintf("%s %s %s", li1.bv, rel, ri1.bv)}
			return
		}
		st.vals[x] = avBool{cond: fmt.Sprintf("%s %s %s", describeAV(l), rel, describeAV(r))}
		return
	}
	if !ok1 || !ok2 {
		if b, isB := x.Type().Underlying().(*types.Basic); isB && b.Info()&types.IsFloat != 0 {
			st.vals[x] = avF{name: "arith"}
			return
		}
		st.vals[x] = avOpaque{"binop"}
		return
	}
	w, signed, _ := typeWidth(x.Type(), li.p.Arch)
	res := avInt{signed: signed, bv: bvApply(x.Op, li.refineBits(st, li1), li.refineBits(st, ri1), w, signed)}
	if x.Op == token.SUB && w > 0 {
		// x - k is x + (-k) (modulo the width): the addition has the more precise bit transfer (bits below the
		// lowest set bit of the constant pass through), so `m -= -2048` is judged like `m += 2048`
		if k, isK := li.refineBits(st, ri1).Const(); isK {
			res.bv = bvApply(token.ADD, li.refineBits(st, li1), bvConst(uint64(-int64(k)), w), w, signed)
		}
	}
	switch x.Op {
	case token.ADD:
		res.lin = li1.lin.Add(ri1.lin)
	case token.SUB:
		res.lin = li1.lin.Sub(ri1.lin)
	case token.MUL:
		if k, ok := ri1.lin.IsConst(); ok {
			res.lin = li1.lin.Scale(k)
		} else if k, ok := li1.lin.IsConst(); ok {
			res.lin = ri1.lin.Scale(k)
		}
	}
	if res.lin != nil && w > 0 && w < 32 {
		// arithmetic in a narrow type wraps: the linear form stands for the
		// result only when the path bounds keep it inside the type
		lo, hi := st.env.bounds(res.lin)
		min, max := int64(0), int64(1)<<uint(w)-1
		if signed {
			min, max = -(int64(1) << uint(w-1)), int64(1)<<uint(w-1)-1
		}
		if lo < min || hi > max {
			res.lin = nil
		}
	}
	if res.lin != nil {
		if k, ok := res.lin.IsConst(); ok {
			res.bv = bvConst(uint64(k), w)
		} else if res.bv.HasTop() {
			res.bv = bvSrc(res.lin.String(), w)
		}
	}
	st.vals[x] = res
}

// addWrite appends a write of n bytes at off.
func (li *layoutInterp) addWrite(st *lpath, off, n *Lin, kind, src string, pos token.Pos) {
	if off == nil || n == nil {
		st.notes = append(st.notes, "write with a non-linear offset or length at "+li.p.Pos(pos))
	}
	st.writes = append(st.writes, bufWrite{off: off, n: n, kind: kind, src: src, pos: pos})
}

// packItem writes one boxed item the way util.Pack does; returns its width.
func (li *layoutInterp) packItem(st *lpath, dst avSlice, off *Lin, item AV, pos token.Pos) *Lin {
	it, ok := item.(avIface)
	if !ok {
		st.notes = append(st.notes, "item of the generic packer is not a boxed value at "+li.p.Pos(pos))
		return nil
	}
	inBuf := dst.region == "buf"
	if it.typ != nil {
		if w := primWidth(it.typ); w > 0 {
			iv, _ := it.inner.(avInt)
			bv := iv.bv
			if bv == nil {
				bv = bvTop(int(w * 8))
			}
			bv = bv.resize(int(w*8), false)
			if inBuf {
				for i := int64(0); i < w; i++ {
					// big endian: byte i carries bits 8(w-1-i)+7 .. 8(w-1-i)
					lo := int(8 * (w - 1 - i))
					st.writes = append(st.writes, bufWrite{off: off.Add(linConst(i)), n: linConst(1), kind: "byte", bv: bv[lo : lo+8], pos: pos})
				}
			}
			return linConst(w)
		}
		if _, named := it.typ.(*types.Named); !named && isByteSlice(it.typ) {
			sl, _ := it.inner.(avSlice)
			if sl.len == nil {
				st.notes = append(st.notes, "byte-slice item of unknown length at "+li.p.Pos(pos))
				return nil
			}
			if inBuf {
				nm := sl.name
				if o, ok := st.mem["name:"+sl.region].(avOpaque); ok {
					nm = o.desc
				}
				li.addWrite(st, off, sl.len, "seg", nm, pos)
			}
			return sl.len
		}
	}
	// Packable
	sz := li.sizeOfValue(it, it.typ)
	if sz == nil {
		st.notes = append(st.notes, "cannot determine Size() of a packed item at "+li.p.Pos(pos))
		return nil
	}
	name := describeAV(it.inner)
	if it.inner == nil {
		name = it.path
	}
	if sl, ok := it.inner.(avSlice); ok && strings.HasPrefix(sl.region, "f:") {
		name = strings.TrimPrefix(sl.region, "f:")
	}
	if inBuf {
		li.addWrite(st, off, sz, "nested", name, pos)
	}
	return sz
}

func (li *layoutInterp) varargs(st *lpath, v ssa.Value) ([]AV, bool) {
	items := orderedVarargs(v)
	if items == nil {
		if c, ok := v.(*ssa.Const); ok && c.Value == nil {
			return nil, true
		}
		return nil, false
	}
	var out []AV
	for _, it := range items {
		out = append(out, li.eval(st, it))
	}
	return out, true
}

func (li *layoutInterp) execCall(fn *ssa.Function, st *lpath, call *ssa.Call) []*lpath {
	cc := call.Common()
	pos := call.Pos()
	if bn := builtinName(call); bn != "" {
		switch bn {
		case "len":
			switch a := li.eval(st, cc.Args[0]).(type) {
			case avSlice:
				w, _, _ := typeWidth(call.Type(), li.p.Arch)
				if a.len != nil {
					name := "len(" + a.name + ")"
					st.vals[call] = newInt(a.len, w, true, name)
				} else {
					st.vals[call] = avInt{bv: bvSrc("len(buffer)", w)}
				}
			default:
				w, _, _ := typeWidth(call.Type(), li.p.Arch)
				st.vals[call] = avInt{bv: bvSrc("len(?)", w)}
			}
		case "copy":
			dst, okd := li.eval(st, cc.Args[0]).(avSlice)
			src, oks := li.eval(st, cc.Args[1]).(avSlice)
			w, _, _ := typeWidth(call.Type(), li.p.Arch)
			if !okd || !oks || src.len == nil {
				st.notes = append(st.notes, "copy with operands that are not understood at "+li.p.InstrPos(call))
				st.vals[call] = avInt{bv: bvTop(w)}
				return nil
			}
			if dst.region != "buf" && src.region == "in" && dst.len != nil {
				// decoding: octets of the input land in a local array or an array field of the decoded value
				if n, isK := dst.len.IsConst(); isK && n >= 0 && n <= 64 && li.envLE(st, dst.len, src.len) {
					for i := int64(0); i < n; i++ {
						b := li.readElem(st, src, linConst(i)).resize(8, false)
						li.storeElem(st, dst, linConst(i), avInt{bv: b})
					}
					st.vals[call] = newInt(dst.len, w, true, "copied")
					return nil
				}
			}
			if dst.region != "buf" && src.region == "in" && strings.HasPrefix(dst.region, "fresh#") {
				// decoding: the temporary receives a segment of the input
				st.mem["seg:"+dst.region] = src
				if dst.len != nil && src.len != nil && (dst.len.Equal(src.len) || st.env.le(dst.len, src.len)) {
					st.vals[call] = newInt(dst.len, w, true, "copied")
					return nil
				}
			}
			if dst.region != "buf" {
				// remember what the temporary holds
				if strings.HasPrefix(src.region, "f:") {
					st.mem["name:"+dst.region] = avOpaque{strings.TrimPrefix(src.region, "f:")}
				}
				st.vals[call] = avInt{bv: bvSrc("copied", w)}
				return nil
			}
			n := src.len
			if dst.len != nil {
				switch c := st.env.cmp3(dst.len, src.len); {
				case c <= 0 && c != 2:
					n = dst.len
				case c == 1:
					n = src.len
				default:
					if st.env.le(dst.len, src.len) {
						n = dst.len
					} else if st.env.le(src.len, dst.len) {
						n = src.len
					} else {
						// fork on dst.len <= src.len
						var forks []*lpath
						for pol := 0; pol < 2; pol++ {
							ns := st.clone()
							op := "<="
							nn := dst.len
							if pol == 1 {
								op, nn = ">", src.len
							}
							if sat, _ := ns.env.refine(dst.len, op, src.len); !sat {
								continue
							}
							ns.conds = append(ns.conds, fmt.Sprintf("%s %s %s", dst.len, op, src.len))
							if dst.region == "buf" {
								li.addWrite(ns, dst.off, nn, "seg", src.name, pos)
							}
							ns.vals[call] = newInt(nn, w, true, "copied")
							forks = append(forks, ns)
						}
						return forks
					}
				}
			}
			if dst.region == "buf" {
				li.addWrite(st, dst.off, n, "seg", src.name, pos)
			}
			st.vals[call] = newInt(n, w, true, "copied")
		case "append":
			// append(small tracked slice, items...) -> a fresh slice with known content
			base, okb := li.eval(st, cc.Args[0]).(avSlice)
			items, oki := li.varargs(st, cc.Args[1])
			n0, okn := int64(0), false
			if okb && base.len != nil {
				n0, okn = base.len.IsConst()
			}
			if !okb || !oki || !okn || n0 > 32 || base.region == "buf" {
				st.vals[call] = avOpaque{bn}
				break
			}
			st.nfresh++
			res := avSlice{region: fmt.Sprintf("fresh#%d", st.nfresh), off: linConst(0), len: linConst(n0 + int64(len(items))), name: "appended"}
			for i := int64(0); i < n0; i++ {
				bv := li.readElem(st, base, linConst(i))
				st.mem[fmt.Sprintf("%s[%d]", res.region, i)] = avInt{bv: bv}
			}
			for i, it := range items {
				st.mem[fmt.Sprintf("%s[%d]", res.region, n0+int64(i))] = it
			}
			st.vals[call] = res
		case "cap":
			st.vals[call] = avOpaque{bn}
		default:
			st.vals[call] = avOpaque{bn}
		}
		return nil
	}
	// interface invokes
	if cc.IsInvoke() {
		recv := li.eval(st, cc.Value)
		switch cc.Method.Name() {
		case "Size":
			w, _, _ := typeWidth(call.Type(), li.p.Arch)
			sz := li.sizeOfValue(recv, nil)
			if sz == nil {
				st.notes = append(st.notes, "Size() of an unknown value at "+li.p.InstrPos(call))
				st.vals[call] = avInt{bv: bvTop(w)}
			} else {
				st.vals[call] = newInt(sz, w, false, sz.String())
			}
		case "Pack":
			dst, ok := li.eval(st, cc.Args[0]).(avSlice)
			sz := li.sizeOfValue(recv, nil)
			if ok && dst.region == "buf" && sz != nil {
				li.addWrite(st, dst.off, sz, "nested", nestedName(recv), pos)
			} else {
				st.notes = append(st.notes, "nested Pack not understood at "+li.p.InstrPos(call))
			}
		default:
			if w, _, ok := typeWidth(call.Type(), li.p.Arch); ok {
				st.vals[call] = avInt{bv: bvSrc(describeAV(recv)+"."+cc.Method.Name()+"()", w)}
			} else {
				st.vals[call] = avOpaque{cc.Method.Name()}
			}
		}
		return nil
	}
	callee := cc.StaticCallee()
	if callee == nil {
		st.notes = append(st.notes, "dynamic call at "+li.p.InstrPos(call))
		return nil
	}
	if callee.Pkg != nil && callee.Pkg.Pkg.Path() == modPath+"/knx/util" && callee.Name() == "Log" && callee.Signature.Recv() == nil && callee.Signature.Results().Len() == 0 {
		// the logging sink: returns nothing, touches neither buffer nor value (its own bookkeeping is not the encoder's)
		return nil
	}
	switch callee.String() {
	case "(encoding/binary.bigEndian).PutUint16", "(encoding/binary.bigEndian).PutUint32", "(encoding/binary.bigEndian).PutUint64":
		n := 2
		if strings.HasSuffix(callee.String(), "32") {
			n = 4
		}
		if strings.HasSuffix(callee.String(), "64") {
			n = 8
		}
		dst, okd := li.eval(st, cc.Args[len(cc.Args)-2]).(avSlice)
		v, _ := li.eval(st, cc.Args[len(cc.Args)-1]).(avInt)
		bv := v.bv
		if bv == nil {
			bv = bvTop(8 * n)
		}
		bv = bv.resize(8*n, false)
		if !okd {
			st.notes = append(st.notes, "big-endian store into an unknown slice at "+li.p.InstrPos(call))
			return nil
		}
		for i := 0; i < n; i++ {
			lo := 8 * (n - 1 - i)
			b := avInt{bv: bv[lo : lo+8]}
			if dst.region == "buf" {
				st.writes = append(st.writes, bufWrite{off: dst.off.Add(linConst(int64(i))), n: linConst(1), kind: "byte", bv: b.bv, pos: pos})
			} else if key, ok := elemKey(dst, linConst(int64(i))); ok {
				st.mem[key] = b
			}
		}
		return nil
	case "(encoding/binary.bigEndian).Uint16", "(encoding/binary.bigEndian).Uint32", "(encoding/binary.bigEndian).Uint64":
		n := 2
		if strings.HasSuffix(callee.String(), "32") {
			n = 4
		}
		if strings.HasSuffix(callee.String(), "64") {
			n = 8
		}
		src, oks := li.eval(st, cc.Args[len(cc.Args)-1]).(avSlice)
		out := make(BV, 8*n)
		for i := 0; i < n && oks; i++ {
			b := li.readElem(st, src, linConst(int64(i)))
			lo := 8 * (n - 1 - i)
			copy(out[lo:lo+8], b.resize(8, false))
		}
		if !oks {
			out = bvTop(8 * n)
		}
		st.vals[call] = avInt{bv: out}
		return nil
	case "math.Float32bits":
		if f, ok := li.eval(st, cc.Args[0]).(avF); ok && f.bv != nil {
			st.vals[call] = avInt{bv: f.bv}
		} else {
			st.vals[call] = avInt{bv: bvTop(32)}
		}
		return nil
	case "math.Float32frombits":
		if u, ok := li.eval(st, cc.Args[0]).(avInt); ok {
			st.vals[call] = avF{bv: u.bv.resize(32, false), name: "frombits"}
		} else {
			st.vals[call] = avF{name: "frombits"}
		}
		return nil
	}
	if !li.p.InModule(callee) {
		if b, isB := call.Type().Underlying().(*types.Basic); isB && b.Info()&types.IsFloat != 0 {
			st.vals[call] = avF{name: callee.Name() + "()"}
			return nil
		}
		if w, _, ok := typeWidth(call.Type(), li.p.Arch); ok {
			st.vals[call] = avInt{bv: bvSrc(callee.Name()+"()", w)}
		} else {
			st.vals[call] = avOpaque{callee.String()}
		}
		return nil
	}
	pk := fnPkg(callee).Pkg.Path()
	name := callee.Name()
	switch {
	case pk == utilPath && (name == "UnpackSome" || name == "Unpack"):
		if src, isSl := li.eval(st, cc.Args[0]).(avSlice); isSl && src.region == "in" {
			return li.execUnpackGeneric(fn, st, call, name == "UnpackSome")
		}
	case pk == utilPath && name == "PackSome":
		dst, ok := li.eval(st, cc.Args[0]).(avSlice)
		items, ok2 := li.varargs(st, cc.Args[1])
		if !ok || !ok2 {
			st.notes = append(st.notes, "PackSome with operands that are not understood at "+li.p.InstrPos(call))
			return nil
		}
		off := dst.off
		for _, it := range items {
			w := li.packItem(st, dst, off, it, pos)
			if w == nil {
				return nil
			}
			off = off.Add(w)
		}
		return nil
	case pk == utilPath && name == "Pack":
		dst, ok := li.eval(st, cc.Args[0]).(avSlice)
		if !ok {
			st.notes = append(st.notes, "util.Pack destination not understood at "+li.p.InstrPos(call))
			return nil
		}
		w := li.packItem(st, dst, dst.off, li.eval(st, cc.Args[1]), pos)
		wd, _, _ := typeWidth(call.Type(), li.p.Arch)
		if w != nil {
			st.vals[call] = newInt(w, wd, false, "packed")
		}
		return nil
	case pk == utilPath && name == "PackString":
		dst, ok := li.eval(st, cc.Args[0]).(avSlice)
		mx, _ := li.eval(st, cc.Args[1]).(avInt)
		if !ok || mx.lin == nil {
			st.notes = append(st.notes, "PackString operands not understood at "+li.p.InstrPos(call))
			return nil
		}
		wd := 64
		okS, fail := st.clone(), st.clone()
		okS.conds = append(okS.conds, "+string encodable")
		fail.conds = append(fail.conds, "-string encodable")
		if dst.region == "buf" {
			li.addWrite(okS, dst.off, mx.lin, "seg", "encoded "+describeAV(li.eval(st, cc.Args[2])), pos)
		} else {
			// remember what the temporary holds
			okS.mem["name:"+dst.region] = avOpaque{"encoded " + describeAV(li.eval(st, cc.Args[2]))}
			fail.mem["name:"+dst.region] = avOpaque{"encoded " + describeAV(li.eval(st, cc.Args[2]))}
		}
		okS.vals[call] = avTuple{newInt(mx.lin, wd, false, "n"), avOpaque{"nil"}}
		fail.vals[call] = avTuple{newInt(linConst(0), wd, false, "n"), avOpaque{"err"}}
		return []*lpath{okS, fail}
	case name == "Size" && callee.Signature.Recv() != nil && callee.Signature.Params().Len() == 0:
		recv := li.eval(st, cc.Args[0])
		w, _, _ := typeWidth(call.Type(), li.p.Arch)
		sz := li.sizeOfValue(recv, callee.Signature.Recv().Type())
		if sz == nil {
			st.notes = append(st.notes, "Size() receiver not understood at "+li.p.InstrPos(call))
			st.vals[call] = avInt{bv: bvTop(w)}
		} else {
			st.vals[call] = newInt(sz, w, false, sz.String())
		}
		return nil
	case name == "Pack" && callee.Signature.Recv() != nil && callee.Signature.Params().Len() == 1:
		recv := li.eval(st, cc.Args[0])
		dst, ok := li.eval(st, cc.Args[1]).(avSlice)
		sz := li.sizeOfValue(recv, callee.Signature.Recv().Type())
		if ok && dst.region == "buf" && sz != nil {
			li.addWrite(st, dst.off, sz, "nested", nestedName(recv), pos)
		} else if ok && dst.region != "buf" {
			// packing into a temporary: not tracked
		} else {
			st.notes = append(st.notes, "nested Pack not understood at "+li.p.InstrPos(call))
		}
		return nil
	}
	// other module functions: inline when small and loop-free
	if li.depth < 4 && len(callee.Blocks) > 0 && len(loopHeaders(callee)) == 0 {
		var args []AV
		for _, a := range cc.Args {
			args = append(args, li.eval(st, a))
		}
		sub := &layoutInterp{p: li.p, depth: li.depth + 1}
		baseMem := map[string]AV{}
		for k, v := range st.mem {
			baseMem[k] = v
		}
		baseAssume := map[string]bool{}
		for k, v := range st.assume {
			baseAssume[k] = v
		}
		base := &lpath{assume: baseAssume, env: st.env.clone(), conds: append([]string{}, st.conds...), vals: map[ssa.Value]AV{}, mem: baseMem, writes: append([]bufWrite{}, st.writes...), notes: append([]string{}, st.notes...), effect: append([]string{}, st.effect...), nfresh: st.nfresh}
		res := sub.run(callee, args, base)
		if len(res) == 1 {
			r := res[0]
			st.env, st.conds, st.writes, st.notes, st.effect, st.nfresh = r.env, r.conds, r.writes, r.notes, r.effect, r.nfresh
			st.mem, st.assume = r.mem, r.assume
			if r.ret != nil {
				st.vals[call] = r.ret
			}
			return nil
		}
		if len(res) > 1 {
			var forks []*lpath
			for _, r := range res {
				ns := st.clone()
				ns.env, ns.conds, ns.writes, ns.notes, ns.effect, ns.nfresh = r.env, r.conds, r.writes, r.notes, r.effect, r.nfresh
				ns.mem, ns.assume = r.mem, r.assume
				if r.ret != nil {
					ns.vals[call] = r.ret
				}
				forks = append(forks, ns)
			}
			return forks
		}
	}
	if w, _, ok := typeWidth(call.Type(), li.p.Arch); ok {
		st.vals[call] = avInt{bv: bvSrc(FuncName(callee)+"()", w)}
	} else {
		st.vals[call] = avOpaque{FuncName(callee)}
	}
	return nil
}

// summariseLoop handles `for _, x := range S { ... acc += c ... }` where every
// accumulator advances by a constant per iteration and the body's buffer
// writes tile [acc, acc+c).  It returns the loop's exit block with the
// accumulators set to init + c*len(S).
func (li *layoutInterp) summariseLoop(fn *ssa.Function, lp *loopInfo, from *ssa.BasicBlock, st *lpath) (*ssa.BasicBlock, bool) {
	h := lp.Header
	// the ranged slice: the header (or its body) tests index+1 < len(S)
	var ranged avSlice
	found := false
	var exit *ssa.BasicBlock
	for b := range lp.Body {
		for _, s := range b.Succs {
			if !lp.Body[s] {
				if exit != nil && exit != s {
					return nil, false
				}
				exit = s
			}
		}
	}
	if exit == nil {
		return nil, false
	}
	// evaluate non-phi, non-branch header instructions before the loop to find len(S)
	for _, in := range fn.Blocks[from.Index].Instrs {
		_ = in
	}
	for _, b := range fn.Blocks {
		if !b.Dominates(h) {
			continue
		}
		for _, in := range b.Instrs {
			if call, ok := in.(*ssa.Call); ok && builtinName(call) == "len" {
				if sl, ok := st.vals[call.Common().Args[0]].(avSlice); ok {
					// is this len used by the loop's exit test?
					for _, u := range usesOf(call) {
						if bo, ok := u.(*ssa.BinOp); ok && lp.Body[bo.Block()] {
							ranged, found = sl, true
						}
					}
				}
			}
		}
	}
	if !found || ranged.len == nil {
		return nil, false
	}
	// bind header phis
	trial := st.clone()
	type acc struct {
		phi  *ssa.Phi
		init *Lin
		sym  string
	}
	var accs []acc
	for _, in := range h.Instrs {
		ph, ok := in.(*ssa.Phi)
		if !ok {
			continue
		}
		var initV AV
		for i, pr := range h.Preds {
			if pr == from {
				initV = li.eval(st, ph.Edges[i])
			}
		}
		iv, isInt := initV.(avInt)
		w, signed, okw := typeWidth(ph.Type(), li.p.Arch)
		if !isInt || !okw || iv.lin == nil {
			return nil, false
		}
		sym := fmt.Sprintf("acc%d", len(accs))
		accs = append(accs, acc{ph, iv.lin, sym})
		trial.vals[ph] = avInt{lin: linSym(sym), bv: bvSrc(sym, w), signed: signed}
	}
	nW := len(trial.writes)
	// run one iteration: walk from the header until a back edge to it
	var ends []*lpath
	var iter func(b, frm *ssa.BasicBlock, s *lpath, depth int)
	iter = func(b, frm *ssa.BasicBlock, s *lpath, depth int) {
		if depth > 40 {
			return
		}
		start := 0
		if b == h {
			for start < len(b.Instrs) {
				if _, ok := b.Instrs[start].(*ssa.Phi); !ok {
					break
				}
				start++
			}
		}
		for _, in := range b.Instrs[start:] {
			switch x := in.(type) {
			case *ssa.Phi:
				for i, pr := range b.Preds {
					if pr == frm {
						s.vals[x] = li.eval(s, x.Edges[i])
					}
				}
			case *ssa.If:
				// the range test: take the edge that stays in the loop
				for _, sc := range b.Succs {
					if lp.Body[sc] {
						if sc == h {
							ends = append(ends, s)
						} else {
							iter(sc, b, s, depth+1)
						}
						return
					}
				}
				return
			case *ssa.Jump:
				if b.Succs[0] == h {
					s.mem["#latch"] = avOpaque{fmt.Sprint(b.Index)}
					ends = append(ends, s)
				} else if lp.Body[b.Succs[0]] {
					iter(b.Succs[0], b, s, depth+1)
				}
				return
			case *ssa.Return, *ssa.Panic:
				s.notes = append(s.notes, "exit inside loop")
				ends = append(ends, s)
				return
			default:
				if forks := li.exec(fn, s, in); len(forks) > 0 {
					s.notes = append(s.notes, "fork inside loop")
				}
			}
		}
	}
	iter(h, from, trial, 0)
	if len(ends) != 1 || len(ends[0].notes) != len(st.notes) {
		return nil, false
	}
	e := ends[0]
	// the latch block: the predecessor of h inside the loop
	var latch *ssa.BasicBlock
	for _, pr := range h.Preds {
		if lp.Body[pr] {
			if latch != nil {
				return nil, false
			}
			latch = pr
		}
	}
	N := ranged.len
	for _, a := range accs {
		var back AV
		for i, pr := range h.Preds {
			if pr == latch {
				back = li.eval(e, a.phi.Edges[i])
			}
		}
		bi, ok := back.(avInt)
		if !ok || bi.lin == nil {
			return nil, false
		}
		d := bi.lin.Sub(linSym(a.sym))
		c, isC := d.IsConst()
		if !isC {
			return nil, false
		}
		// index phi: starts at -1, +1 per iteration: final value unused after the loop
		w, signed, _ := typeWidth(a.phi.Type(), li.p.Arch)
		var final *Lin
		if k, ok := N.IsConst(); ok {
			final = a.init.Add(linConst(c * k))
		} else {
			final = a.init.Add(N.Scale(c))
		}
		st.vals[a.phi] = newInt(final, w, signed, final.String())
		// body writes relative to this accumulator
		var lo, hi *Lin
		for _, wr := range e.writes[nW:] {
			if wr.off == nil || wr.n == nil {
				return nil, false
			}
			rel := wr.off.Sub(linSym(a.sym))
			if _, ok := rel.IsConst(); !ok {
				continue
			}
			end := rel.Add(wr.n)
			if lo == nil {
				lo, hi = rel, end
				continue
			}
			if st.env.cmp3(rel, hi) != 0 {
				return nil, false // not contiguous
			}
			hi = end
		}
		if lo != nil {
			k0, ok0 := lo.IsConst()
			k1, ok1 := hi.IsConst()
			if !ok0 || !ok1 || k0 != 0 || k1 != c {
				st.notes = append(st.notes, fmt.Sprintf("loop body writes [%s,%s) of an element of stride %d", lo, hi, c))
			}
			li.addWrite(st, a.init, N.Scale(c), "repeat", ranged.name, e.writes[nW].pos)
		}
	}
	// any write not relative to an accumulator?
	for _, wr := range e.writes[nW:] {
		relOK := false
		for _, a := range accs {
			if _, ok := wr.off.Sub(linSym(a.sym)).IsConst(); ok {
				relOK = true
			}
		}
		if !relOK {
			return nil, false
		}
	}
	return exit, true
}

// ---------------------------------------------------------------------------
// coverage

type coverResult struct {
	ok      bool
	reason  string
	written *Lin
}

// coverage decides whether the writes of a path tile exactly [0, size).
func coverage(env Env, writes []bufWrite, size *Lin) coverResult {
	var ws []bufWrite
	for _, w := range writes {
		if w.off == nil || w.n == nil {
			return coverResult{false, "a write has a non-linear offset or length", nil}
		}
		if k, ok := w.n.IsConst(); ok && k == 0 {
			continue
		}
		if env.le(w.n, linConst(0)) {
			continue // zero-length on this path
		}
		ws = append(ws, w)
	}
	// every write ends at or below size
	for _, w := range ws {
		end := w.off.Add(w.n)
		if !env.le(end, size) {
			lo, hi := env.bounds(end.Sub(size))
			_ = lo
			return coverResult{false, fmt.Sprintf("the write of %s byte(s) at offset %s (%s) can end beyond Size() = %s (by up to %s)", w.n, w.off, w.kind+" "+w.src, size, ival(hi)), nil}
		}
	}
	// order by offset: a write goes before another when its offset is
	// certainly not greater (ties in any order)
	for i := 1; i < len(ws); i++ {
		for j := i; j > 0; j-- {
			a, b := ws[j-1], ws[j]
			if env.le(a.off, b.off) {
				break
			}
			if !env.le(b.off, a.off) {
				return coverResult{false, fmt.Sprintf("the offsets %s and %s cannot be ordered under the path condition", a.off, b.off), nil}
			}
			ws[j-1], ws[j] = b, a
		}
	}
	cur := linConst(0)
	for _, w := range ws {
		if !env.le(w.off, cur) {
			return coverResult{false, fmt.Sprintf("bytes [%s, %s) are never written (left as they were in the buffer)", cur, w.off), cur}
		}
		end := w.off.Add(w.n)
		if env.le(cur, end) {
			cur = end
		} else if !env.le(end, cur) {
			return coverResult{false, "overlapping writes whose extents cannot be compared", cur}
		}
	}
	switch c := env.cmp3(cur, size); c {
	case 0:
		return coverResult{true, "", cur}
	case -1:
		return coverResult{false, fmt.Sprintf("only [0, %s) is written but Size() = %s: the tail keeps stale buffer content", cur, size), cur}
	case 1:
		return coverResult{false, fmt.Sprintf("[0, %s) is written but Size() = %s: the encoder writes beyond its reported size", cur, size), cur}
	}
	if env.le(cur, size) && !env.le(size, cur) {
		return coverResult{false, fmt.Sprintf("written extent %s can be smaller than Size() = %s", cur, size), cur}
	}
	return coverResult{false, fmt.Sprintf("written extent %s and Size() = %s cannot be shown equal under %s", cur, size, env), cur}
}

// staleBytes lists fixed bytes whose FINAL content still depends on the
// previous buffer content or is undetermined.
func staleBytes(env Env, writes []bufWrite) []string {
	var out []string
	for i, w := range writes {
		if w.kind != "byte" || w.off == nil {
			continue
		}
		// overwritten later by a write that certainly covers it?
		over := false
		for _, l := range writes[i+1:] {
			if l.off == nil || l.n == nil {
				continue
			}
			if env.le(l.off, w.off) && env.lt(w.off, l.off.Add(l.n)) {
				over = true
			}
		}
		if over {
			continue
		}
		for _, b := range w.bv {
			if (b.K == bsrc || b.K == bnot) && b.Src == staleSrc {
				out = append(out, fmt.Sprintf("byte %s keeps bits of the previous buffer content (read-modify-write without a prior plain store)", w.off))
				break
			}
			if b.K == btop {
				out = append(out, fmt.Sprintf("byte %s has content the analysis cannot determine", w.off))
				break
			}
		}
	}
	return out
}

func condsCompatible(a, b []string) bool {
	for _, x := range a {
		for _, y := range b {
			if len(x) > 1 && len(y) > 1 && x[1:] == y[1:] && x[0] != y[0] && (x[0] == '+' || x[0] == '-') && (y[0] == '+' || y[0] == '-') {
				return false
			}
		}
	}
	return true
}

// globalConst: the package-level variable is stored exactly once, in its
// package initialiser, with a constant or with the constant Size() of a type.
func (li *layoutInterp) globalConst(g *ssa.Global) (int64, bool) {
	var val ssa.Value
	n := 0
	for _, fn := range li.p.AllFuncs {
		instrsOf(fn, func(in ssa.Instruction) {
			if st, ok := in.(*ssa.Store); ok && st.Addr == ssa.Value(g) {
				n++
				if fn.Name() == "init" {
					val = st.Val
				}
			}
		})
	}
	if n != 1 || val == nil {
		return 0, false
	}
	if k, ok := constInt(val); ok {
		return k, true
	}
	if call, ok := val.(*ssa.Call); ok {
		if f := call.Common().StaticCallee(); f != nil && f.Name() == "Size" && f.Signature.Recv() != nil {
			if nt := namedOf(f.Signature.Recv().Type()); nt != nil {
				return constSize(li.p, nt)
			}
		}
	}
	return 0, false
}

// elemKey: memory key of element idx of a tracked temporary (fresh slice or
// local array); ok=false when the index is not constant.
func elemKey(sl avSlice, idx *Lin) (string, bool) {
	if idx == nil || sl.off == nil {
		return "", false
	}
	k, ok := sl.off.Add(idx).IsConst()
	if !ok {
		return "", false
	}
	switch {
	case strings.HasPrefix(sl.region, "arr:"):
		return strings.TrimPrefix(sl.region, "arr:") + fmt.Sprintf("[%d]", k), true
	case strings.HasPrefix(sl.region, "fresh#"):
		return sl.region + fmt.Sprintf("[%d]", k), true
	}
	return "", false
}

// readElem returns the bits of element idx of a slice value.
func (li *layoutInterp) readElem(st *lpath, sl avSlice, idx *Lin) BV {
	if sl.region == "buf" {
		bv, _ := li.readByte(st, sl.off.Add(idx))
		return bv
	}
	if key, ok := elemKey(sl, idx); ok {
		if v, has := st.mem[key].(avInt); has {
			return v.bv
		}
		if strings.HasPrefix(sl.region, "fresh#") || (strings.HasPrefix(sl.region, "arr:c") && !strings.Contains(sl.region, "r.")) {
			// make / new of a local array: elements never written are zero
			return bvConst(0, 8)
		}
	}
	nm := sl.name
	if nm == "" {
		nm = sl.region
	}
	o := "?"
	if sl.off != nil && idx != nil {
		o = sl.off.Add(idx).String()
	}
	return bvSrc(nm+"["+o+"]", 8)
}

// sliceBytes returns the final content of a returned temporary slice of
// constant length.
func (li *layoutInterp) sliceBytes(st *lpath, sl avSlice) ([]BV, bool) {
	n, ok := sl.len.IsConst()
	if !ok || n < 0 || n > 64 {
		return nil, false
	}
	var out []BV
	for i := int64(0); i < n; i++ {
		out = append(out, li.readElem(st, sl, linConst(i)).resize(8, false))
	}
	return out, true
}

// nilness: 1 the value is nil, 0 it is certainly not nil, -1 unknown.
func nilness(v AV) int {
	switch x := v.(type) {
	case avOpaque:
		if x.desc == "nil" {
			return 1
		}
		if strings.HasPrefix(x.desc, "errors.New") || strings.HasPrefix(x.desc, "fmt.Errorf") || x.desc == "err" {
			return 0
		}
	case avIface:
		if x.inner != nil {
			return 0
		}
		if strings.HasPrefix(x.path, "global:Err") || strings.HasPrefix(x.path, "global:err") {
			return 0 // package-level error values (initialised once with errors.New; C19 checks nobody writes them)
		}
	}
	return -1
}

// dumpAV renders an abstract value with its aggregate elements and, for
// addresses of local cells, the cell content (debugging, evidence texts).
func dumpAV(v AV, st *lpath, depth int) string {
	if depth > 4 {
		return "..."
	}
	switch x := v.(type) {
	case avAgg:
		var ks []string
		for k := range x.elems {
			ks = append(ks, k)
		}
		sort.Strings(ks)
		var parts []string
		for _, k := range ks {
			parts = append(parts, k+"="+dumpAV(x.elems[k], st, depth+1))
		}
		return "{" + strings.Join(parts, ", ") + "}"
	case avAddr:
		if x.cell != "" {
			if m, ok := st.mem[x.cell]; ok {
				return "&" + x.cell + "->" + dumpAV(m, st, depth+1)
			}
			// field cells
			var ks []string
			for k := range st.mem {
				if strings.HasPrefix(k, x.cell+".") {
					ks = append(ks, k)
				}
			}
			sort.Strings(ks)
			var parts []string
			for _, k := range ks {
				parts = append(parts, k[len(x.cell):]+"="+dumpAV(st.mem[k], st, depth+1))
			}
			return "&" + x.cell + "{" + strings.Join(parts, ", ") + "}"
		}
	case avTuple:
		var parts []string
		for _, e := range x {
			parts = append(parts, dumpAV(e, st, depth+1))
		}
		return "(" + strings.Join(parts, ", ") + ")"
	case avIface:
		return "iface[" + fmt.Sprint(x.typ) + "](" + dumpAV(x.inner, st, depth+1) + ")"
	case avInt:
		s := ""
		if x.lin != nil {
			s = x.lin.String()
		}
		if x.bv != nil {
			s += " bits:" + x.bv.String()
		}
		return s
	}
	return describeAV(v)
}

// globalStruct: the value of (a field of) a package-level struct variable
// that only its package initialiser writes, field by field, with values that
// evaluate to constants; fields never stored are zero.  sel: at most one field
// index (nil: the whole struct).
func (li *layoutInterp) globalStruct(g *ssa.Global, sel []int, t types.Type) (AV, bool) {
	stT, ok := deref(g.Type()).Underlying().(*types.Struct)
	if !ok {
		return nil, false
	}
	stores := map[int][]*ssa.Store{}
	bad := false
	for _, fn := range li.p.AllFuncs {
		instrsOf(fn, func(in ssa.Instruction) {
			switch y := in.(type) {
			case *ssa.Store:
				if y.Addr == ssa.Value(g) {
					bad = true
				}
				if fa, ok := y.Addr.(*ssa.FieldAddr); ok && fa.X == ssa.Value(g) {
					if fn.Name() != "init" || fn.Parent() != nil {
						bad = true
					}
					stores[fa.Field] = append(stores[fa.Field], y)
				}
			case *ssa.FieldAddr:
				// the address of a field escapes (anything but a load or a store through it)
				if y.X == ssa.Value(g) {
					for _, r := range *y.Referrers() {
						switch u := r.(type) {
						case *ssa.Store:
							if u.Addr != ssa.Value(y) {
								bad = true
							}
						case *ssa.UnOp:
						case *ssa.DebugRef:
						default:
							bad = true
						}
					}
				}
			}
		})
	}
	if bad {
		return nil, false
	}
	field := func(i int) (AV, bool) {
		f := stT.Field(i)
		switch len(stores[i]) {
		case 0:
			z := li.zeroOf(f.Type(), "")
			if _, isOp := z.(avOpaque); isOp {
				if _, isIf := f.Type().Underlying().(*types.Interface); isIf {
					return avOpaque{"nil"}, true
				}
				return nil, false
			}
			return z, true
		case 1:
			if k, ok := constInt(stores[i][0].Val); ok {
				if w, signed, okw := typeWidth(f.Type(), li.p.Arch); okw {
					return avInt{lin: linConst(k), bv: bvConst(uint64(k), w), signed: signed}, true
				}
			}
			ev := &BitEval{P: li.p, Env: map[ssa.Value]BV{}}
			alts := ev.Eval(stores[i][0].Val)
			if len(alts) == 1 && alts[0].V != nil {
				if k, ok := alts[0].V.Const(); ok {
					w, signed, okw := typeWidth(f.Type(), li.p.Arch)
					if okw {
						return avInt{lin: linConst(int64(k)), bv: bvConst(k, w), signed: signed}, true
					}
				}
			}
		}
		return nil, false
	}
	if len(sel) == 1 {
		return field(sel[0])
	}
	ag := avAgg{elems: map[string]AV{}}
	for i := 0; i < stT.NumFields(); i++ {
		v, ok := field(i)
		if !ok {
			return nil, false
		}
		ag.elems["."+stT.Field(i).Name()] = v
	}
	return ag, true
}

// pureLoop: the loop's blocks contain nothing but arithmetic, comparisons,
// phis and branches (no store, call, send, allocation).
func pureLoop(lp *loopInfo) bool {
	for b := range lp.Body {
		for _, in := range b.Instrs {
			switch x := in.(type) {
			case *ssa.BinOp, *ssa.Phi, *ssa.If, *ssa.Jump, *ssa.Convert, *ssa.ChangeType, *ssa.DebugRef:
			case *ssa.UnOp:
				if x.Op == token.MUL || x.Op == token.ARROW {
					return false
				}
			default:
				return false
			}
		}
	}
	return true
}

func (li *layoutInterp) havocName(phi *ssa.Phi) string {
	if li.havocNames == nil {
		li.havocNames = map[*ssa.Phi]string{}
	}
	if n, ok := li.havocNames[phi]; ok {
		return n
	}
	n := fmt.Sprintf("loop%d.v%d", phi.Block().Index, len(li.havocNames))
	li.havocNames[phi] = n
	return n
}

// refineBits uses the interval of a value's linear form to fix its high bits:
// a value in [0, 2^k) has zero bits from k up, a value in [-2^k, 0) has one
// bits from k up (two's complement).
func (li *layoutInterp) refineBits(st *lpath, v avInt) BV {
	if v.lin == nil || len(v.bv) == 0 {
		return v.bv
	}
	if _, isK := v.lin.IsConst(); isK {
		return v.bv
	}
	lo, hi := st.env.bounds(v.lin)
	w := len(v.bv)
	fill := func(k int, b bit) BV {
		out := make(BV, w)
		copy(out, v.bv)
		for i := k; i < w; i++ {
			out[i] = b
		}
		return out
	}
	switch {
	case lo >= 0 && hi >= 0 && hi < int64(1)<<40:
		k := 0
		for int64(1)<<uint(k) <= hi {
			k++
		}
		if k < w {
			return fill(k, bit{K: b0})
		}
	case hi < 0 && lo > -(int64(1)<<40):
		k := 0
		for -(int64(1) << uint(k)) > lo {
			k++
		}
		if k < w {
			return fill(k, bit{K: b1})
		}
	}
	return v.bv
}

func (li *layoutInterp) envLE(st *lpath, a, b *Lin) bool {
	if b == nil {
		return false
	}
	return st.env.le(a, b)
}

// canonCond: a taken branch as signed text; `x != bits` is written as the
// opposite sign of `x == bits`, so that a decoder or encoder that tests the
// negated condition yields the same path conditions.
func canonCond(sign, cond string) string {
	if i := strings.LastIndex(cond, " != "); i > 0 {
		rhs := cond[i+4:]
		bits := rhs != ""
		for _, ch := range rhs {
			if ch != '0' && ch != '1' && ch != ' ' {
				bits = false
			}
		}
		if bits {
			if sign == "+" {
				sign = "-"
			} else {
				sign = "+"
			}
			return sign + cond[:i] + " == " + rhs
		}
	}
	return sign + cond
}
