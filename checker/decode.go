package main

import (
	"fmt"
	"go/token"
	"go/types"
	"math"
	"os"

	"golang.org/x/tools/go/ssa"
)

// E2 - bounded offsets.  For a decode function with input slice `data` the
// prover decides  LE(v): v <= len(data)  and  LT(k): k < len(data)  at a
// program point from dominating guards, the summary H ("a decode function
// returns n <= len(its input) whenever its error may be nil"), copy(), and
// structural equality of guard and use expressions.

type leKey struct {
	v ssa.Value
	b *ssa.BasicBlock
}

type decodeCtx struct {
	p     *Program
	fn    *ssa.Function
	data  ssa.Value
	shape func(*ssa.Function) bool // callee obeys H
	memo  map[leKey]int            // 0 unknown, 1 in progress (assumed), 2 true, 3 false
	// retErr is set while judging a Return: facts "err == nil" of the call
	// whose error is returned alongside may be assumed.
	retErrCalls map[ssa.Value]bool
	extra       []Cmp // facts of the edge currently being judged
}

// facts: comparisons that hold at block b, plus the facts of the edge under judgement.
func (d *decodeCtx) facts(b *ssa.BasicBlock) []Cmp {
	if len(d.extra) == 0 {
		return factsAt(b)
	}
	return append(append([]Cmp{}, factsAt(b)...), d.extra...)
}

func isByteSlice(t types.Type) bool {
	s, ok := t.Underlying().(*types.Slice)
	if !ok {
		return false
	}
	b, ok := s.Elem().Underlying().(*types.Basic)
	return ok && b.Kind() == types.Uint8
}

// isDecodeShape: func(..., data []byte, ...) (uint, error)
func isDecodeShape(fn *ssa.Function) bool {
	if fn == nil || fn.Signature.Results().Len() != 2 {
		return false
	}
	r0, ok := fn.Signature.Results().At(0).Type().Underlying().(*types.Basic)
	if !ok || r0.Kind() != types.Uint {
		return false
	}
	if !types.Identical(fn.Signature.Results().At(1).Type(), types.Universe.Lookup("error").Type()) {
		return false
	}
	return inputParam(fn) != nil
}

func inputParam(fn *ssa.Function) *ssa.Parameter {
	for _, p := range fn.Params {
		if isByteSlice(p.Type()) {
			return p
		}
	}
	return nil
}

func newDecodeCtx(p *Program, fn *ssa.Function, shape func(*ssa.Function) bool) *decodeCtx {
	d := &decodeCtx{p: p, fn: fn, shape: shape, memo: map[leKey]int{}}
	if ip := inputParam(fn); ip != nil {
		d.data = unspillKeep(ip)
	}
	return d
}

func unspillKeep(v ssa.Value) ssa.Value { return v }

// isData: v denotes the input slice (parameter, or a load of the cell the
// parameter was spilled into).
func (d *decodeCtx) isData(v ssa.Value) bool {
	if v == d.data {
		return true
	}
	return unspill(v) == d.data
}

// base returns the offset of slice t inside data: t == data[off:...].
func (d *decodeCtx) base(t ssa.Value) (off ssa.Value, ok bool) {
	if d.isData(t) {
		return nil, true
	}
	if sl, isSl := t.(*ssa.Slice); isSl {
		b, okb := d.base(sl.X)
		if !okb {
			return nil, false
		}
		if b == nil {
			return sl.Low, true
		}
		if sl.Low == nil {
			return b, true
		}
		return nil, false
	}
	return nil, false
}

func (d *decodeCtx) isLenData(v ssa.Value) bool {
	v = stripIntConv(v)
	call, ok := v.(*ssa.Call)
	return ok && builtinName(call) == "len" && d.isData(call.Common().Args[0])
}

// stripIntConv strips integer conversions that preserve a non-negative value.
func stripIntConv(v ssa.Value) ssa.Value {
	for i := 0; i < 6; i++ {
		cv, ok := v.(*ssa.Convert)
		if !ok {
			if ct, ok := v.(*ssa.ChangeType); ok {
				v = ct.X
				continue
			}
			return v
		}
		if !nonNeg(cv.X) {
			return v
		}
		// narrowing conversions change the value
		wf, _, ok1 := typeWidth(cv.X.Type(), "386")
		wt, _, ok2 := typeWidth(cv.Type(), "386")
		if !ok1 || !ok2 || wt < wf && !(wf >= 32 && wt >= 32) {
			return v
		}
		v = cv.X
	}
	return v
}

func nonNeg(v ssa.Value) bool {
	if b, ok := v.Type().Underlying().(*types.Basic); ok && b.Info()&types.IsUnsigned != 0 {
		return true
	}
	switch x := v.(type) {
	case *ssa.Const:
		k, ok := constInt(x)
		return ok && k >= 0
	case *ssa.Call:
		n := builtinName(x)
		return n == "len" || n == "copy" || n == "cap"
	case *ssa.Convert:
		return nonNeg(x.X)
	case *ssa.BinOp:
		if x.Op == token.ADD {
			return nonNeg(x.X) && nonNeg(x.Y)
		}
	}
	return false
}

// exprEq: structural equality of pure integer expressions.
func (d *decodeCtx) exprEq(a, b ssa.Value) bool {
	if a == b {
		return true
	}
	a, b = stripIntConv(a), stripIntConv(b)
	if a == b {
		return true
	}
	switch x := a.(type) {
	case *ssa.Const:
		ka, ok1 := constInt(x)
		kb, ok2 := constInt(b)
		return ok1 && ok2 && ka == kb
	case *ssa.BinOp:
		y, ok := b.(*ssa.BinOp)
		if !ok || x.Op != y.Op {
			return false
		}
		// arithmetic in a narrow type wraps: uint8(a)+2 and uint(a)+2 differ for a >= 254.  Two
		// operations denote the same number when they are carried out in the same type, or both in
		// a type at least 32 bits wide (lengths stay far below 2^31: stated assumption)
		if !types.Identical(x.Type(), y.Type()) && !(wideInt(x.Type()) && wideInt(y.Type())) {
			return false
		}
		if d.exprEq(x.X, y.X) && d.exprEq(x.Y, y.Y) {
			return true
		}
		return x.Op == token.ADD && d.exprEq(x.X, y.Y) && d.exprEq(x.Y, y.X)
	case *ssa.UnOp:
		y, ok := b.(*ssa.UnOp)
		if !ok || x.Op != token.MUL || y.Op != token.MUL {
			return false
		}
		// loads of the same local cell with no write in between
		ca, okA := x.X.(*ssa.Alloc)
		cb, okB := y.X.(*ssa.Alloc)
		if okA && okB && ca == cb {
			return noWriteBetween(ca, x, y) || noWriteBetween(ca, y, x)
		}
		// loads of the same element of the input (data[k]): the input is never written in D
		if ia, ok := x.X.(*ssa.IndexAddr); ok {
			if ib, ok := y.X.(*ssa.IndexAddr); ok && d.isData(ia.X) && d.isData(ib.X) {
				return d.exprEq(ia.Index, ib.Index)
			}
		}
	case *ssa.Call:
		y, ok := b.(*ssa.Call)
		if ok && builtinName(x) == "len" && builtinName(y) == "len" {
			return x.Common().Args[0] == y.Common().Args[0] || (d.isData(x.Common().Args[0]) && d.isData(y.Common().Args[0]))
		}
	}
	return false
}

// noWriteBetween: l1 executes before l2 on every path to l2 and nothing can
// write the cell after the latest execution of l1 before l2.
func noWriteBetween(cell *ssa.Alloc, l1, l2 ssa.Instruction) bool {
	if !instrDominates(l1, l2) && l1 != l2 {
		return false
	}
	var writers []ssa.Instruction
	var collect func(addr ssa.Value, fn *ssa.Function)
	escapes := false
	collect = func(addr ssa.Value, fn *ssa.Function) {
		for _, u := range usesOf(addr) {
			switch x := u.(type) {
			case *ssa.Store:
				if x.Addr == addr {
					writers = append(writers, x)
				} else if ia, ok := x.Addr.(*ssa.IndexAddr); ok && isVarargsArray(ia.X) {
					// the (boxed) pointer goes into a varargs array: the call that
					// receives the array is the only possible writer
					found := false
					for _, su := range usesOf(ia.X) {
						if sl, ok := su.(*ssa.Slice); ok {
							for _, cu := range usesOf(sl) {
								if ci, ok := cu.(ssa.CallInstruction); ok {
									writers = append(writers, ci)
									found = true
								}
							}
						}
					}
					if !found {
						escapes = true
					}
				} else {
					escapes = true
				}
			case *ssa.UnOp, *ssa.DebugRef:
			case ssa.CallInstruction:
				writers = append(writers, x) // the callee may write through the pointer, during the call only
			case *ssa.MakeInterface, *ssa.ChangeType, *ssa.Convert:
				// &length boxed into interface{} for UnpackSome(...): follow to the call
				collect(x.(ssa.Value), fn)
			case *ssa.IndexAddr, *ssa.FieldAddr, *ssa.Slice:
				collect(x.(ssa.Value), fn)
			default:
				escapes = true
			}
		}
	}
	collect(cell, cell.Parent())
	if escapes {
		return false
	}
	// the varargs array holding the boxed pointer is consumed by one call; the
	// stores into that array are not writes of the cell
	l1b := l1.Block()
	for _, w := range writers {
		if w.Parent() != l1.Parent() {
			return false
		}
		if st, ok := w.(*ssa.Store); ok {
			if _, isCell := st.Addr.(*ssa.Alloc); !isCell {
				continue // store of the boxed pointer into the varargs array
			}
		}
		// is w on a path l1 -> w -> l2 that does not re-execute l1?
		afterL1 := false
		if w.Block() == l1b {
			afterL1 = instrIndex(w) > instrIndex(l1)
		}
		if !afterL1 {
			for _, s := range l1b.Succs {
				if s == l1b {
					continue
				}
				if reachableFrom(s, func(from, to *ssa.BasicBlock) bool { return to == l1b })[w.Block()] {
					afterL1 = true
				}
			}
		}
		if !afterL1 {
			continue
		}
		// w after l1: does it precede l2 (without passing l1 again)?
		before := false
		if w.Block() == l2.Block() && instrIndex(w) < instrIndex(l2) {
			before = true
		}
		if !before {
			for _, s := range w.Block().Succs {
				if s == l1b {
					continue
				}
				if reachableFrom(s, func(from, to *ssa.BasicBlock) bool { return to == l1b })[l2.Block()] {
					before = true
				}
			}
		}
		if before {
			return false
		}
	}
	return true
}

// lb: a lower bound of integer value v at block b (math.MinInt64 if unknown).
func (d *decodeCtx) lb(v ssa.Value, b *ssa.BasicBlock, depth int) int64 {
	best := int64(math.MinInt64)
	if nonNeg(v) {
		best = 0
	}
	if depth > 6 {
		return best
	}
	if k, ok := constInt(v); ok {
		return k
	}
	up := func(k int64) {
		if k > best {
			best = k
		}
	}
	for _, f := range d.facts(b) {
		x, y, op := f.X, f.Y, f.Op
		if _, isK := constInt(x); isK {
			x, y, op = y, x, swapOp(op)
		}
		k, isK := constInt(y)
		if !isK || !d.exprEq(x, v) {
			continue
		}
		switch op {
		case token.GEQ, token.EQL:
			up(k)
		case token.GTR:
			up(k + 1)
		}
	}
	switch x := stripIntConv(v).(type) {
	case *ssa.BinOp:
		if x.Op == token.ADD && wideInt(x.Type()) {
			// (a sum in an 8- or 16-bit type can wrap below its operands)
			l, r := d.lb(x.X, b, depth+1), d.lb(x.Y, b, depth+1)
			if l > math.MinInt64 && r > math.MinInt64 {
				up(l + r)
			}
		}
	case *ssa.Convert:
		if nonNeg(x.X) {
			up(d.lb(x.X, b, depth+1))
		}
	default:
		if x != v {
			up(d.lb(x, b, depth+1))
		}
	}
	return best
}

// lenLB: a lower bound of len(data) at block b.
func (d *decodeCtx) lenLB(b *ssa.BasicBlock, extra []Cmp) int64 {
	best := int64(0)
	up := func(k int64) {
		if k > best {
			best = k
		}
	}
	for _, f := range append(d.facts(b), extra...) {
		x, y, op := f.X, f.Y, f.Op
		if !d.isLenData(x) {
			x, y, op = y, x, swapOp(op)
		}
		if !d.isLenData(x) {
			continue
		}
		// len(data) op y
		switch op {
		case token.GEQ, token.EQL:
			if l := d.lb(y, b, 0); l > math.MinInt64 {
				up(l)
			}
		case token.GTR:
			if l := d.lb(y, b, 0); l > math.MinInt64 {
				up(l + 1)
			}
		}
	}
	return best
}

// errNilAt: the error result of call is known to be nil at block b.
func (d *decodeCtx) errNilAt(call ssa.Value, b *ssa.BasicBlock) bool {
	if d.retErrCalls[call] {
		return true
	}
	var errv ssa.Value
	for _, u := range usesOf(call) {
		if e, ok := u.(*ssa.Extract); ok && e.Index == 1 {
			errv = e
		}
	}
	if errv == nil {
		return false
	}
	return anyFact(d.facts(b), func(f Cmp) bool {
		if f.Op != token.EQL {
			return false
		}
		x, y := f.X, f.Y
		if isNilConst(x) {
			x, y = y, x
		}
		if !isNilConst(y) {
			return false
		}
		return x == errv || canonLoad(x) == errv
	})
}

// consumed: v is the byte count a decode call / copy reports for a slice that
// starts at offset `off` of data; returns that offset.
func (d *decodeCtx) consumed(v ssa.Value, b *ssa.BasicBlock) (off ssa.Value, ok bool) {
	v = stripIntConv(v)
	switch x := v.(type) {
	case *ssa.Extract:
		call, isCall := x.Tuple.(*ssa.Call)
		if !isCall || x.Index != 0 {
			return nil, false
		}
		var in ssa.Value
		cc := call.Common()
		if cc.IsInvoke() {
			if cc.Method.Name() != "Unpack" || len(cc.Args) != 1 {
				return nil, false
			}
			in = cc.Args[0]
		} else {
			f := cc.StaticCallee()
			if f == nil || !d.shape(f) {
				return nil, false
			}
			ip := inputParam(f)
			for i, prm := range f.Params {
				if prm == ip {
					in = cc.Args[i]
				}
			}
		}
		o, okb := d.base(in)
		if !okb || !d.errNilAt(call, b) {
			return nil, false
		}
		return o, true
	case *ssa.Call:
		if builtinName(x) == "copy" {
			if o, okb := d.base(x.Common().Args[1]); okb {
				return o, true
			}
			// copy(dst, data) bounded by len(dst) is handled by guards
		}
	}
	return nil, false
}

// LE decides v <= len(data) at (the start of) block b.  extra are facts of an
// edge that ends in b's use.
func (d *decodeCtx) LE(v ssa.Value, b *ssa.BasicBlock) bool {
	if v == nil {
		return true
	}
	key := leKey{v, b}
	switch d.memo[key] {
	case 1, 2:
		return true // in progress: co-inductive assumption for loop phis
	case 3:
		return false
	}
	d.memo[key] = 1
	ok := d.le(v, b)
	if os.Getenv("KX_DEBUG_LE") != "" {
		fmt.Fprintf(os.Stderr, "LE %s %T %v @b%d of %s => %v\n", v.Name(), v, v, b.Index, b.Parent().Name(), ok)
	}
	if ok {
		d.memo[key] = 2
	} else {
		d.memo[key] = 3
	}
	return ok
}

func (d *decodeCtx) le(v ssa.Value, b *ssa.BasicBlock) bool {
	if k, ok := constInt(v); ok {
		return k <= d.lenLB(b, nil)
	}
	if d.isLenData(v) {
		return true
	}
	// a guard says so
	for _, f := range d.facts(b) {
		x, y, op := f.X, f.Y, f.Op
		if d.isLenData(x) {
			x, y, op = y, x, swapOp(op)
		}
		if !d.isLenData(y) {
			continue
		}
		if (op == token.LEQ || op == token.LSS || op == token.EQL) && d.exprEq(x, v) {
			return true
		}
	}
	sv := stripIntConv(v)
	if sv != v && d.LE(sv, b) {
		return true
	}
	// consumed count of a call on data itself
	if off, ok := d.consumed(sv, b); ok && off == nil {
		return true
	}
	switch x := sv.(type) {
	case *ssa.BinOp:
		if x.Op == token.ADD && wideInt(x.Type()) {
			for _, pr := range [][2]ssa.Value{{x.X, x.Y}, {x.Y, x.X}} {
				a, r := pr[0], pr[1]
				if off, ok := d.consumed(r, b); ok && off != nil && d.exprEq(off, a) && d.LE(a, b) {
					return true
				}
			}
			// a + k with a guard on (a' + k') ... handled by exprEq above
		}
	case *ssa.Phi:
		for i, e := range x.Edges {
			pred := x.Block().Preds[i]
			if !d.leOnEdge(e, pred, x.Block()) {
				return false
			}
		}
		return true
	case *ssa.UnOp:
		if x.Op == token.MUL {
			vals := loadValues(x)
			if os.Getenv("KX_DEBUG_LE") != "" {
				for _, lv := range vals {
					fmt.Fprintf(os.Stderr, "  loadValues(%s) -> %T %v\n", x.Name(), lv, lv)
				}
			}
			if len(vals) >= 1 && !(len(vals) == 1 && vals[0] == ssa.Value(x)) {
				for _, lv := range vals {
					if !d.LE(lv, b) {
						return false
					}
				}
				return true
			}
		}
	}
	return false
}

// leOnEdge decides LE(v) with the facts of block pred plus the edge pred->to.
func (d *decodeCtx) leOnEdge(v ssa.Value, pred, to *ssa.BasicBlock) bool {
	if d.LE(v, pred) {
		return true
	}
	f, ok := edgeFact(pred, to)
	if !ok {
		return false
	}
	// judge again with the edge's own fact; results under an extra fact are
	// not memoised
	saveMemo, saveExtra := d.memo, d.extra
	d.memo = map[leKey]int{}
	for k, v := range saveMemo {
		if v == 1 || v == 2 {
			d.memo[k] = v
		}
	}
	d.extra = append(append([]Cmp{}, saveExtra...), f)
	res := d.LE(v, pred)
	d.memo, d.extra = saveMemo, saveExtra
	return res
}

// LT decides idx < len(data) at block b.
func (d *decodeCtx) LT(idx ssa.Value, b *ssa.BasicBlock) bool {
	if k, ok := constInt(idx); ok {
		return k >= 0 && k < d.lenLB(b, nil)
	}
	for _, f := range d.facts(b) {
		x, y, op := f.X, f.Y, f.Op
		if d.isLenData(x) {
			x, y, op = y, x, swapOp(op)
		}
		if d.isLenData(y) && op == token.LSS && d.exprEq(x, idx) && nonNeg(idx) {
			return true
		}
	}
	return false
}

// LEQ decides a <= b' (both offsets) at block blk.
func (d *decodeCtx) LEQ(a, bb ssa.Value, blk *ssa.BasicBlock) bool {
	if a == nil {
		return true
	}
	if d.exprEq(a, bb) {
		return true
	}
	sb := stripIntConv(bb)
	if bo, ok := sb.(*ssa.BinOp); ok && bo.Op == token.ADD && wideInt(bo.Type()) {
		for _, pr := range [][2]ssa.Value{{bo.X, bo.Y}, {bo.Y, bo.X}} {
			x, y := pr[0], pr[1]
			if d.exprEq(a, x) && nonNeg(y) {
				return true
			}
			if ao, ok := stripIntConv(a).(*ssa.BinOp); ok && ao.Op == token.ADD {
				if k, isK := constInt(ao.Y); isK && d.exprEq(ao.X, x) && d.lb(y, blk, 0) >= k {
					return true
				}
			}
		}
	}
	if ka, ok := constInt(a); ok {
		return d.lb(bb, blk, 0) >= ka
	}
	return false
}

// cellWriters lists the instructions that can write a local cell: direct
// stores and calls that receive its address (also boxed into a varargs array).
// escapes is true when the address is used in a way that is not understood.
func cellWriters(cell *ssa.Alloc) (writers []ssa.Instruction, escapes bool) {
	var collect func(addr ssa.Value)
	collect = func(addr ssa.Value) {
		for _, u := range usesOf(addr) {
			switch x := u.(type) {
			case *ssa.Store:
				if x.Addr == addr {
					writers = append(writers, x)
				} else if ia, ok := x.Addr.(*ssa.IndexAddr); ok && isVarargsArray(ia.X) {
					found := false
					for _, su := range usesOf(ia.X) {
						if sl, ok := su.(*ssa.Slice); ok {
							for _, cu := range usesOf(sl) {
								if ci, ok := cu.(ssa.CallInstruction); ok {
									writers = append(writers, ci)
									found = true
								}
							}
						}
					}
					if !found {
						escapes = true
					}
				} else {
					escapes = true
				}
			case *ssa.UnOp, *ssa.DebugRef:
			case ssa.CallInstruction:
				writers = append(writers, x)
			case *ssa.MakeInterface, *ssa.ChangeType, *ssa.Convert:
				collect(x.(ssa.Value))
			default:
				escapes = true
			}
		}
	}
	collect(cell)
	return
}

// loadsAfterAllWrites: both loads of the cell happen after every possible
// write of it, so they yield the same value.
func loadsAfterAllWrites(cell *ssa.Alloc, l1, l2 ssa.Instruction) bool {
	ws, esc := cellWriters(cell)
	if esc {
		return false
	}
	for _, w := range ws {
		if w.Parent() != l1.Parent() {
			return false
		}
		for _, l := range []ssa.Instruction{l1, l2} {
			if !instrDominates(w, l) || instrReaches(l, w) {
				return false
			}
		}
	}
	return true
}

// wideInt: an integer type of at least 32 bits (arithmetic on lengths and
// offsets in such a type is assumed not to overflow).
func wideInt(t types.Type) bool {
	w, _, ok := typeWidth(t, "386")
	return ok && w >= 32
}
