package main

import (
	"fmt"
	"go/token"
	"go/types"

	"golang.org/x/tools/go/ssa"
)

func init() { register("C05", "other", checkC05) }

// C05 - exactly-once over a lossy link.  The property is a statement about
// the product of client, network and gateway; no per-function shape implies
// it.  What is decided here are structural NECESSARY conditions that belong to
// C05 alone (the per-exchange mechanics are C03 and C04):
//
//	X1  a Send that gives up after its request may have reached the gateway
//	    (response timeout, or a failing retransmission) must not leave the
//	    connection usable with the same sequence number - it consumes the
//	    number or ends the connection epoch.  Otherwise the next telegram is
//	    acknowledged as a repetition of the lost one and reported as sent.
//	X2  both directions count modulo 256 in one unsigned octet, and the
//	    duplicate rule compares with expected-1 computed in that octet.
//	X3  an acknowledgement handed to the sender side is dropped after one
//	    resend interval at the latest (it cannot satisfy a later request).
func checkC05(c *Check, p *Program) {
	c.Technique = "path rules on the SSA control-flow graph of the tunnel sender (exits of the reply select by case, dominating stores), type rules on the sequence counters, select/timer decoding of the acknowledgement relay"
	c.Explanation = "Exactly-once delivery over a lossy link quantifies over loss patterns and interleavings of client, network and gateway; that is not decidable from the client's source, and no model is run here. Decided are three necessary conditions specific to this property: X1 every exit of the sender that gives up after at least one transmission (the response-timeout case and the failing-retransmission case of the reply select) either advances Tunnel.seqNumber or ends the connection epoch, so that a request the gateway may already have consumed is never followed by a different telegram under the same number; X2 Tunnel.seqNumber and the inbound counter are uint8 and the duplicate test subtracts in uint8 (wrap at 256 on both sides); X3 the goroutine that relays an acknowledgement to the sender gives up on time.After(config.ResendInterval) or Tunnel.done. The per-exchange rules (one outstanding request, identical retransmissions, counter advanced by matching acknowledgements only, acknowledge-then-deliver with duplicate suppression) are decided under C03 and C04 and are not repeated. On the present tree X1 does not hold: recorded known finding with a demonstration (findings/c05_lost_ack_test.go)."
	c.Trusted = []string{"go/types, go/ssa", "kxcheck select/timer decoding and dominance"}
	c.NotDecided = []string{"exactly-once and ordering under every loss/duplication/reordering pattern (product of client, network and gateway)", "the symmetric inbound clause beyond C04's per-request decision procedure"}

	a := resolveTunnel(c, p, "C05.anchor")
	if !a.complete() {
		return
	}
	ix := p.index()
	var sender *ssa.Function
	for _, s := range ix.sockSends {
		if s.payloadIs("TunnelReq") && fnPkg(s.Fn).Pkg.Path() == knxPath {
			sender = s.Fn
		}
	}
	if sender == nil {
		c.Fail("C05.anchor", "tunnel request sender", "", "no function transmits a *knxnet.TunnelReq")
		return
	}
	sn := FuncName(sender)
	c.Analysed("functions", sn)

	// the reply select: receives on Tunnel.ack
	var sel *ssa.Select
	instrsOf(sender, func(in ssa.Instruction) {
		if s, ok := in.(*ssa.Select); ok {
			for _, st := range s.States {
				if st.Dir == types.RecvOnly && chanIs(st.Chan, a.ack) {
					sel = s
				}
			}
		}
	})
	if sel == nil {
		c.Fail("C05.X1", sn+" reply select", p.Pos(sender.Pos()), "no select receiving from Tunnel.ack in the sender")
		return
	}
	// ---- X1: exits that give up after a transmission
	incs := ix.stores[a.seqNumber]
	consumes := func(r *ssa.Return) (bool, string) {
		for _, st := range incs {
			if st.Parent() == sender && instrDominates(st, r) {
				if _, isK := constInt(st.Val); !isK {
					return true, "the sequence number is advanced before this exit"
				}
			}
		}
		// ending the epoch: the socket is closed or the done channel is closed on the way
		ended := false
		for _, b := range sender.Blocks {
			if !b.Dominates(r.Block()) {
				continue
			}
			for _, in := range b.Instrs {
				if call, ok := in.(ssa.CallInstruction); ok {
					if o := calleeObj(call); o != nil && o.Name() == "Close" && callRecv(call) != nil && loadedField(callRecv(call)) == a.sock {
						ended = true
					}
					if builtinName(call) == "close" && chanIs(call.Common().Args[0], a.done) {
						ended = true
					}
				}
			}
		}
		if ended {
			return true, "the connection is torn down before this exit"
		}
		return false, ""
	}
	cases, _ := selectCases(sel)
	nGiveUp := 0
	for i, st := range sel.States {
		if st.Dir != types.RecvOnly || cases[i].Body == nil {
			continue
		}
		kind := ""
		if t := timerOf(st.Chan); t != nil {
			switch {
			case t.Kind == "after" && t.Field == a.respTimeout:
				kind = "response timeout"
			case t.Kind == "ticker" && t.Field == a.resend:
				kind = "failed retransmission"
			}
		}
		if kind == "" {
			continue
		}
		// returns reachable from the case body without passing the select again
		reach := reachableFrom(cases[i].Body, func(from, to *ssa.BasicBlock) bool { return to == sel.Block() })
		for _, r := range returnsOf(sender) {
			if !reach[r.Block()] || !cases[i].Body.Dominates(r.Block()) {
				continue
			}
			nGiveUp++
			ok, how := consumes(r)
			c.Decide(ok, "C05.X1", fmt.Sprintf("%s %s exit", sn, kind), p.InstrPos(r), how, "the sender gives up ("+kind+") after its request may have reached the gateway, keeps the sequence number and leaves the connection open: the next telegram is sent under the number the gateway has already consumed, is acknowledged as a repetition and reported as delivered although it never reaches the bus")
		}
	}
	c.Floor("C05.X1", "give-up exits of the sender (timeout / failed retransmission)", nGiveUp, 1)

	// ---- X2: modulus
	isU8 := func(t types.Type) bool {
		b, ok := t.Underlying().(*types.Basic)
		return ok && b.Kind() == types.Uint8
	}
	c.Decide(isU8(a.seqNumber.Type()), "C05.X2", "Tunnel.seqNumber is one unsigned octet", p.Pos(a.seqNumber.Pos()), "uint8: wraps at 256 like the protocol field", "the outbound counter is "+a.seqNumber.Type().String()+": after 256 requests it no longer matches the octet on the wire")
	reqSeq := p.Field("knx/knxnet", "TunnelReq", "SeqNumber")
	nDup := 0
	for _, fn := range p.FuncsIn("knx") {
		if !recvTypeIs(fn, knxPath, "Tunnel") {
			continue
		}
		instrsOf(fn, func(in ssa.Instruction) {
			bo, ok := in.(*ssa.BinOp)
			if !ok || (bo.Op != token.EQL && bo.Op != token.NEQ) {
				return
			}
			for _, pr := range [][2]ssa.Value{{bo.X, bo.Y}, {bo.Y, bo.X}} {
				// req.SeqNumber == expected-1   or   req.SeqNumber+1 == expected
				var ar *ssa.BinOp
				if isLoadOf(pr[0], reqSeq) {
					if sub, ok := pr[1].(*ssa.BinOp); ok && sub.Op == token.SUB {
						ar = sub
					}
				}
				if add, ok := pr[0].(*ssa.BinOp); ok && add.Op == token.ADD && isLoadOf(add.X, reqSeq) {
					ar = add
				}
				if ar == nil {
					continue
				}
				if k, isK := constInt(ar.Y); !isK || k != 1 {
					continue
				}
				nDup++
				c.Decide(isU8(ar.Type()) && isU8(ar.X.Type()), "C05.X2", FuncName(fn)+" duplicate test computes in one octet", p.InstrPos(bo), "expected-1 (or received+1) computed in uint8 (0-1 = 255)", "the repetition test computes the neighbouring number in "+ar.Type().String()+": after the wrap from 255 to 0 a repeated request 255 is not recognised")
			}
		})
	}
	c.Floor("C05.X2", "duplicate tests (req.SeqNumber == expected-1)", nDup, 1)

	// ---- X3: relayed acknowledgements expire
	nRelay := 0
	for _, op := range ix.opsOnField(a.ack, "sel-send", "send") {
		if !recvTypeIs(op.Fn, knxPath, "Tunnel") {
			continue
		}
		nRelay++
		pos := p.InstrPos(op.Instr)
		if op.Select == nil {
			c.Fail("C05.X3", FuncName(op.Fn)+" relayed acknowledgement expires", pos, "the acknowledgement is handed over by a plain blocking send: it stays available for a later, unrelated request")
			continue
		}
		expires := false
		for _, st := range op.Select.States {
			if st.Dir != types.RecvOnly {
				continue
			}
			if t := timerOf(st.Chan); t != nil && t.Kind == "after" && t.Field == a.resend {
				expires = true
			}
		}
		// a non-blocking offer (select with default) on the unbuffered channel (obligation below) is taken by a sender
		// that waits at this very moment or is gone at once: it expires immediately
		instant := !op.Select.Blocking && len(op.Select.States) == 1
		c.Decide((expires && op.Select.Blocking) || instant, "C05.X3", FuncName(op.Fn)+" relayed acknowledgement expires", pos, "select {ack <- res, <-time.After(config.ResendInterval), ...} or a non-blocking offer", "the relayed acknowledgement does not expire after one resend interval: a stale acknowledgement can satisfy a later request that reuses the number")
	}
	c.Floor("C05.X3", "relays onto Tunnel.ack", nRelay, 1)
	// the hand-over channel itself holds nothing: a buffered channel would keep an acknowledgement that nobody
	// waited for beyond its expiry
	nMk := 0
	for _, st := range ix.stores[a.ack] {
		mc, ok := stripConv(st.Val).(*ssa.MakeChan)
		if !ok {
			c.Fail("C05.X3", FuncName(st.Parent())+" Tunnel.ack is a fresh unbuffered channel", p.InstrPos(st), "Tunnel.ack is assigned "+describe(st.Val))
			continue
		}
		nMk++
		k, isK := constInt(mc.Size)
		c.Decide(isK && k == 0, "C05.X3", FuncName(st.Parent())+" Tunnel.ack is unbuffered", p.InstrPos(mc), "make(chan *TunnelRes): an acknowledgement exists only while a sender waits or its relay has not expired", "Tunnel.ack is buffered: an acknowledgement that arrives while no Send waits is kept without expiry and satisfies a later request that reuses the number (after a reconnect, or 256 requests later)")
	}
	c.Floor("C05.X3", "constructions of Tunnel.ack", nMk, 1)
}
