package main

import (
	"bytes"
	_ "embed"
	"fmt"
	"go/ast"
	"go/format"
	"go/token"
	"go/types"
	"os"
	"path/filepath"
	"sort"
	"strings"

	"go/parser"

	"golang.org/x/tools/go/packages"
)

func parserParse(fset *token.FileSet, src []byte) (*ast.File, error) {
	return parser.ParseFile(fset, "x.go", src, parser.ParseComments)
}

// Normalisation: helper functions the rule tables do not know (functions that
// do not exist in the decomposition the rules were written against) are
// inlined into their callers at the syntax level before the program is
// analysed.  Inlining preserves behaviour, so a verdict about the normalised
// program is a verdict about the program; which helpers are inlined only
// steers precision.  When anything goes wrong (a construct the inliner does
// not handle, a type error in the result) the original program is analysed.

//go:embed known_funcs.txt
var knownFuncsTxt string

func knownFuncs() map[string]bool {
	m := map[string]bool{}
	for k := range knownSigs() {
		m[k] = true
	}
	return m
}

// knownSigs: function key -> signature text ("" when the table has none).
func knownSigs() map[string]string {
	m := map[string]string{}
	for _, l := range strings.Split(knownFuncsTxt, "\n") {
		l = strings.TrimRight(l, "\r ")
		if l == "" || strings.HasPrefix(l, "#") {
			continue
		}
		parts := strings.SplitN(l, "\t", 2)
		sig := ""
		if len(parts) == 2 {
			sig = parts[1]
		}
		m[strings.TrimSpace(parts[0])] = sig
	}
	return m
}

//go:embed known_fields.txt
var knownFieldsTxt string

// knownFields: "<pkg path>.<Struct>.<field>" -> type text.
func knownFields() map[string]string {
	m := map[string]string{}
	for _, l := range strings.Split(knownFieldsTxt, "\n") {
		l = strings.TrimRight(l, "\r ")
		if l == "" || strings.HasPrefix(l, "#") {
			continue
		}
		parts := strings.SplitN(l, "\t", 2)
		if len(parts) == 2 {
			m[strings.TrimSpace(parts[0])] = parts[1]
		}
	}
	return m
}

func typeText(t types.Type) string {
	return types.TypeString(t, func(p *types.Package) string { return p.Path() })
}

// genKnown prints the two reference tables for the library packages of repoDir.
func genKnown(repoDir, arch string) (funcs, fields string, err error) {
	cfg := &packages.Config{Mode: packages.LoadSyntax, Dir: repoDir, Env: loadEnv(arch)}
	pkgs, err := packages.Load(cfg, "./...")
	if err != nil {
		return "", "", err
	}
	var fl, dl []string
	for _, pk := range pkgs {
		for _, f := range pk.Syntax {
			for _, d := range f.Decls {
				switch x := d.(type) {
				case *ast.FuncDecl:
					if x.Body == nil || x.Name.Name == "init" {
						continue
					}
					sig := ""
					if obj, ok := pk.TypesInfo.Defs[x.Name].(*types.Func); ok {
						sg := obj.Type().(*types.Signature)
						sig = typeText(types.NewSignatureType(nil, nil, nil, sg.Params(), sg.Results(), sg.Variadic()))
					}
					fl = append(fl, funcKey(pk.PkgPath, x)+"\t"+sig)
				case *ast.GenDecl:
					for _, sp := range x.Specs {
						ts, ok := sp.(*ast.TypeSpec)
						if !ok {
							continue
						}
						st, ok := ts.Type.(*ast.StructType)
						if !ok {
							continue
						}
						for _, fld := range st.Fields.List {
							for _, n := range fld.Names {
								if v, ok := pk.TypesInfo.Defs[n].(*types.Var); ok {
									dl = append(dl, pk.PkgPath+"."+ts.Name.Name+"."+n.Name+"\t"+typeText(v.Type()))
								}
							}
						}
					}
				}
			}
		}
	}
	sort.Strings(fl)
	sort.Strings(dl)
	return strings.Join(fl, "\n") + "\n", strings.Join(dl, "\n") + "\n", nil
}

// renameBack undoes pure renamings of unexported (or any) functions, methods and
// struct fields: a declaration the tables do not know whose signature (type)
// and owner coincide with exactly one known declaration that has disappeared
// is given the known name again.  Alpha-renaming preserves behaviour; it lets
// the rule tables keep addressing anchors by the names of the reference tree.
func renameBack(pkgs []*packages.Package, isLib func(*packages.Package) bool, srcOf func(string) []byte) (map[string][]byte, []string) {
	sigs, flds := knownSigs(), knownFields()
	out := map[string][]byte{}
	var log []string
	for _, pk := range pkgs {
		if !isLib(pk) {
			continue
		}
		ren := map[types.Object]string{}
		// ---- functions and methods
		type cur struct {
			obj        types.Object
			group, sig string
			name       string
		}
		var unknown []cur
		present := map[string]bool{}
		for _, f := range pk.Syntax {
			for _, d := range f.Decls {
				fd, ok := d.(*ast.FuncDecl)
				if !ok || fd.Body == nil || fd.Name.Name == "init" {
					continue
				}
				key := funcKey(pk.PkgPath, fd)
				present[key] = true
				if _, known := sigs[key]; known {
					continue
				}
				obj, ok := pk.TypesInfo.Defs[fd.Name].(*types.Func)
				if !ok {
					continue
				}
				sg := obj.Type().(*types.Signature)
				unknown = append(unknown, cur{obj, strings.TrimSuffix(key, "."+fd.Name.Name), typeText(types.NewSignatureType(nil, nil, nil, sg.Params(), sg.Results(), sg.Variadic())), fd.Name.Name})
			}
		}
		for _, u := range unknown {
			var cands []string
			for key, sig := range sigs {
				if present[key] || sig == "" || sig != u.sig {
					continue
				}
				i := strings.LastIndex(key, ".")
				if i < 0 || key[:i] != u.group {
					continue
				}
				cands = append(cands, key[i+1:])
			}
			rivals := 0
			for _, v := range unknown {
				if v.group == u.group && v.sig == u.sig {
					rivals++
				}
			}
			if len(cands) == 1 && rivals == 1 {
				// the known name must be free: neither declared in the package scope (functions) nor
				// reachable as a field or (promoted) method of the receiver type (methods)
				free := true
				fobj := u.obj.(*types.Func)
				if recv := fobj.Type().(*types.Signature).Recv(); recv != nil {
					if o, _, _ := types.LookupFieldOrMethod(recv.Type(), true, pk.Types, cands[0]); o != nil {
						free = false
					}
				} else if pk.Types.Scope().Lookup(cands[0]) != nil {
					free = false
				}
				if !free {
					log = append(log, fmt.Sprintf("%s: %s looks like the known %s but that name is taken: left alone", pk.PkgPath, u.name, cands[0]))
					continue
				}
				ren[u.obj] = cands[0]
				log = append(log, fmt.Sprintf("%s: %s is the known %s under another name: renamed back", pk.PkgPath, u.name, cands[0]))
			}
		}
		// ---- struct fields
		for _, f := range pk.Syntax {
			for _, d := range f.Decls {
				gd, ok := d.(*ast.GenDecl)
				if !ok {
					continue
				}
				for _, sp := range gd.Specs {
					ts, ok := sp.(*ast.TypeSpec)
					if !ok {
						continue
					}
					st, ok := ts.Type.(*ast.StructType)
					if !ok {
						continue
					}
					prefix := pk.PkgPath + "." + ts.Name.Name + "."
					have := map[string]bool{}
					type fcur struct {
						obj       types.Object
						name, typ string
					}
					var unk []fcur
					for _, fld := range st.Fields.List {
						for _, n := range fld.Names {
							have[n.Name] = true
							if _, known := flds[prefix+n.Name]; known {
								continue
							}
							if v, ok := pk.TypesInfo.Defs[n].(*types.Var); ok {
								unk = append(unk, fcur{v, n.Name, typeText(v.Type())})
							}
						}
					}
					for _, u := range unk {
						var cands []string
						for key, typ := range flds {
							if strings.HasPrefix(key, prefix) && !have[key[len(prefix):]] && typ == u.typ {
								cands = append(cands, key[len(prefix):])
							}
						}
						rivals := 0
						for _, v := range unk {
							if v.typ == u.typ {
								rivals++
							}
						}
						if len(cands) == 1 && rivals == 1 {
							if tn, ok := pk.TypesInfo.Defs[ts.Name].(*types.TypeName); ok {
								if o, _, _ := types.LookupFieldOrMethod(tn.Type(), true, pk.Types, cands[0]); o != nil {
									continue // the known name is a (promoted) field or method of the struct now
								}
							}
							ren[u.obj] = cands[0]
							log = append(log, fmt.Sprintf("%s: field %s.%s is the known %s under another name: renamed back", pk.PkgPath, ts.Name.Name, u.name, cands[0]))
						}
					}
				}
			}
		}
		if len(ren) == 0 {
			continue
		}
		// ---- apply, refusing a renaming that would be captured by another declaration
		type edit struct {
			from, to int
			text     string
		}
		bad := map[types.Object]bool{}
		perFile := map[string][]edit{}
		for _, f := range pk.Syntax {
			fname := pk.Fset.Position(f.Pos()).Filename
			ast.Inspect(f, func(n ast.Node) bool {
				id, ok := n.(*ast.Ident)
				if !ok {
					return true
				}
				obj := pk.TypesInfo.Uses[id]
				if obj == nil {
					obj = pk.TypesInfo.Defs[id]
				}
				nn, ok := ren[obj]
				if !ok {
					return true
				}
				// a bare identifier (not a selector) must not resolve to something else under the new name
				if fobj, isF := obj.(*types.Func); isF && fobj.Type().(*types.Signature).Recv() == nil {
					if sc := pk.Types.Scope().Innermost(id.Pos()); sc != nil {
						if _, at := sc.LookupParent(nn, id.Pos()); at != nil {
							bad[obj] = true
						}
					}
				}
				perFile[fname] = append(perFile[fname], edit{pk.Fset.Position(id.Pos()).Offset, pk.Fset.Position(id.End()).Offset, nn})
				return true
			})
		}
		for fname, eds := range perFile {
			src := srcOf(fname)
			if src == nil {
				continue
			}
			sort.Slice(eds, func(i, j int) bool { return eds[i].from > eds[j].from })
			res := string(src)
			for _, e := range eds {
				// skip edits of refused objects: find by text position is enough (the object is looked up again below)
				res = res[:e.from] + e.text + res[e.to:]
			}
			out[fname] = []byte(res)
		}
		if len(bad) > 0 {
			// conservative: give up all renamings of this package
			for fname := range perFile {
				delete(out, fname)
			}
			log = append(log, pk.PkgPath+": renaming back abandoned (a known name is shadowed at a use site)")
		}
	}
	return out, log
}

// funcKey: "<pkg path>.<Recv>.<name>" or "<pkg path>.<name>".
func funcKey(pkgPath string, fd *ast.FuncDecl) string {
	if fd.Recv != nil && len(fd.Recv.List) == 1 {
		t := fd.Recv.List[0].Type
		if st, ok := t.(*ast.StarExpr); ok {
			t = st.X
		}
		if id, ok := t.(*ast.Ident); ok {
			return pkgPath + "." + id.Name + "." + fd.Name.Name
		}
	}
	return pkgPath + "." + fd.Name.Name
}

type inliner struct {
	src     func(fname string) []byte // current content of a file (overlay first)
	pk      *packages.Package
	fset    *token.FileSet
	decls   map[types.Object]*ast.FuncDecl // candidate callees
	counter int
	log     []string
	changed map[*ast.File]bool
	// identifiers of type-switch guards in the helper being rendered -> unique name
	guardRen map[*ast.Ident]string
}

// hasDeferOrRecover reports defers / recover calls / labels-with-goto in a body (outside nested func literals).
func bodyHas(body *ast.BlockStmt, pred func(ast.Node) bool) bool {
	found := false
	ast.Inspect(body, func(n ast.Node) bool {
		if n == nil || found {
			return false
		}
		if _, ok := n.(*ast.FuncLit); ok {
			return false
		}
		if pred(n) {
			found = true
		}
		return true
	})
	return found
}

func isDefer(n ast.Node) bool { _, ok := n.(*ast.DeferStmt); return ok }

func (in *inliner) calleeOf(call *ast.CallExpr) (*ast.FuncDecl, types.Object, ast.Expr) {
	var id *ast.Ident
	var recv ast.Expr
	switch f := call.Fun.(type) {
	case *ast.Ident:
		id = f
	case *ast.SelectorExpr:
		id = f.Sel
		recv = f.X
	default:
		return nil, nil, nil
	}
	obj := in.pk.TypesInfo.Uses[id]
	fd := in.decls[obj]
	if fd == nil {
		return nil, nil, nil
	}
	if fd.Recv == nil {
		recv = nil
	} else if recv == nil {
		return nil, nil, nil
	}
	// promoted methods through embedded fields: the selection must be direct
	if recv != nil {
		if sel, ok := in.pk.TypesInfo.Selections[call.Fun.(*ast.SelectorExpr)]; ok && len(sel.Index()) != 1 {
			return nil, nil, nil
		}
	}
	// hygiene: a package-level or predeclared name the helper uses must mean the same at the call site
	if in.shadowedAt(fd, call.Pos()) {
		return nil, nil, nil
	}
	return fd, obj, recv
}

// shadowedAt: some identifier that is free in the helper's body (package-level
// object, predeclared name, imported package) is shadowed by a different
// object in the scope enclosing pos.
func (in *inliner) shadowedAt(fd *ast.FuncDecl, pos token.Pos) bool {
	pkgScope := in.pk.Types.Scope()
	inner := pkgScope.Innermost(pos)
	if inner == nil {
		// file scopes are children of the package scope: find through the files
		for i := 0; i < pkgScope.NumChildren(); i++ {
			if c := pkgScope.Child(i); c.Contains(pos) {
				inner = c.Innermost(pos)
			}
		}
	}
	if inner == nil {
		return true
	}
	bad := false
	ast.Inspect(fd.Body, func(n ast.Node) bool {
		id, ok := n.(*ast.Ident)
		if !ok || bad {
			return !bad
		}
		obj := in.pk.TypesInfo.Uses[id]
		if obj == nil {
			return true
		}
		// free in the helper: declared outside the helper's own extent
		if obj.Pos() != token.NoPos && fd.Pos() <= obj.Pos() && obj.Pos() < fd.End() {
			return true
		}
		if _, isField := obj.(*types.Var); isField && obj.(*types.Var).IsField() {
			return true
		}
		if f, isFn := obj.(*types.Func); isFn && f.Type().(*types.Signature).Recv() != nil {
			return true // methods are selected, not looked up by scope
		}
		_, at := inner.LookupParent(id.Name, pos)
		if at != nil && at != obj {
			bad = true
		}
		return true
	})
	return bad
}

// localRen adds a unique name for every object the helper's body declares
// (variables, constants, types), so that inlined locals can neither capture
// nor be captured by names of the caller.
func (in *inliner) localRen(fd *ast.FuncDecl, id int, ren map[types.Object]string) {
	ast.Inspect(fd.Body, func(n ast.Node) bool {
		idn, ok := n.(*ast.Ident)
		if !ok || idn.Name == "_" {
			return true
		}
		obj := in.pk.TypesInfo.Defs[idn]
		if obj == nil {
			// symbolic variable of a type switch: recorded under Implicits, all clauses share the name
			return true
		}
		switch obj.(type) {
		case *types.Var, *types.Const, *types.TypeName:
			if _, has := ren[obj]; !has {
				ren[obj] = fmt.Sprintf("%s_kx%d", idn.Name, id)
			}
		}
		return true
	})
	// type switch guards `switch x := y.(type)`: the per-clause implicit objects use the guard's identifier
	ast.Inspect(fd.Body, func(n ast.Node) bool {
		ts, ok := n.(*ast.TypeSwitchStmt)
		if !ok {
			return true
		}
		as, ok := ts.Assign.(*ast.AssignStmt)
		if !ok || len(as.Lhs) != 1 {
			return true
		}
		guard, ok := as.Lhs[0].(*ast.Ident)
		if !ok {
			return true
		}
		nn := fmt.Sprintf("%s_kx%d", guard.Name, id)
		in.guardRen[guard] = nn
		for _, cl := range ts.Body.List {
			if obj := in.pk.TypesInfo.Implicits[cl]; obj != nil {
				ren[obj] = nn
			}
		}
		return true
	})
}

// simpleExpr: evaluating the expression has no side effect and no dependence
// on evaluation order (identifiers, selectors, literals, conversions of those).
func simpleExpr(e ast.Expr) bool {
	switch x := e.(type) {
	case *ast.Ident, *ast.BasicLit:
		return true
	case *ast.SelectorExpr:
		return simpleExpr(x.X)
	case *ast.ParenExpr:
		return simpleExpr(x.X)
	case *ast.UnaryExpr:
		return x.Op != token.ARROW && simpleExpr(x.X)
	case *ast.StarExpr:
		return simpleExpr(x.X)
	}
	return false
}

func exprString(fset *token.FileSet, e ast.Node) string {
	var b bytes.Buffer
	format.Node(&b, fset, e)
	return b.String()
}

// rename replaces identifiers (by object) in a copied subtree.
type subst struct {
	info  *types.Info
	byObj map[types.Object]string
}

// renderBody prints the callee body with parameters renamed and top-level
// `return` statements rewritten by retFn (nil: keep).  Nested function
// literals keep their returns.
func (in *inliner) renderBody(fd *ast.FuncDecl, ren map[types.Object]string, retFn func(results []string) string, labelSfx string) string {
	src := exprString(in.fset, fd.Body)
	base := in.fset.Position(fd.Body.Pos()).Offset
	type edit struct {
		from, to int
		text     string
	}
	var edits []edit
	off := func(p token.Pos) int { return in.fset.Position(p).Offset - base }
	// the printed body may differ in layout from the file: work on the file's own bytes instead
	fileBytes := in.src(in.fset.Position(fd.Pos()).Filename)
	if fileBytes == nil || in.fset.Position(fd.Body.End()).Offset > len(fileBytes) {
		return ""
	}
	src = string(fileBytes[base : in.fset.Position(fd.Body.End()).Offset])
	var walk func(n ast.Node, inLit bool)
	walk = func(n ast.Node, inLit bool) {
		ast.Inspect(n, func(x ast.Node) bool {
			switch y := x.(type) {
			case *ast.FuncLit:
				if x != n {
					walk(y.Body, true)
					return false
				}
			case *ast.Ident:
				if nn, ok := in.guardRen[y]; ok {
					edits = append(edits, edit{off(y.Pos()), off(y.End()), nn})
				}
				if obj := in.pk.TypesInfo.Uses[y]; obj != nil {
					if nn, ok := ren[obj]; ok {
						edits = append(edits, edit{off(y.Pos()), off(y.End()), nn})
					}
				}
				if obj := in.pk.TypesInfo.Defs[y]; obj != nil {
					if nn, ok := ren[obj]; ok {
						edits = append(edits, edit{off(y.Pos()), off(y.End()), nn})
					}
				}
			case *ast.ReturnStmt:
				if !inLit && retFn != nil {
					var rs []string
					for _, r := range y.Results {
						rs = append(rs, "\x00"+fmt.Sprint(off(r.Pos()))+":"+fmt.Sprint(off(r.End())))
					}
					edits = append(edits, edit{off(y.Pos()), off(y.Pos()) + len("return"), "\x01" + fmt.Sprint(len(y.Results))})
					_ = rs
				}
			case *ast.LabeledStmt:
				edits = append(edits, edit{off(y.Label.Pos()), off(y.Label.End()), y.Label.Name + labelSfx})
			case *ast.BranchStmt:
				if y.Label != nil {
					edits = append(edits, edit{off(y.Label.Pos()), off(y.Label.End()), y.Label.Name + labelSfx})
				}
			}
			return true
		})
	}
	walk(fd.Body, false)
	sort.Slice(edits, func(i, j int) bool { return edits[i].from > edits[j].from })
	out := src
	for _, e := range edits {
		if e.from < 0 || e.to > len(out) || e.from > e.to {
			return ""
		}
		out = out[:e.from] + e.text + out[e.to:]
	}
	// rewrite the return markers: "\x01<n>" followed by the result list up to the end of the statement
	if retFn != nil {
		var sb strings.Builder
		i := 0
		for i < len(out) {
			if out[i] != '\x01' {
				sb.WriteByte(out[i])
				i++
				continue
			}
			j := i + 1
			for j < len(out) && out[j] >= '0' && out[j] <= '9' {
				j++
			}
			n := 0
			fmt.Sscanf(out[i+1:j], "%d", &n)
			// the result list extends to the end of the return statement: parse balanced text up to newline / '}' / ';' at depth 0
			k := j
			depth := 0
			inStr := byte(0)
			for k < len(out) {
				ch := out[k]
				if inStr != 0 {
					if ch == '\\' && inStr != '`' {
						k += 2
						continue
					}
					if ch == inStr {
						inStr = 0
					}
					k++
					continue
				}
				if ch == '"' || ch == '`' || ch == '\'' {
					inStr = ch
				} else if ch == '(' || ch == '[' || ch == '{' {
					depth++
				} else if ch == ')' || ch == ']' || ch == '}' {
					if depth == 0 {
						break
					}
					depth--
				} else if (ch == '\n' || ch == ';') && depth == 0 {
					// a result list may continue on the next line after a trailing operator/comma; Go's
					// own rule: newline ends the statement unless the line ends in an operator. Results
					// spanning lines inside brackets are handled by depth.
					t := strings.TrimRight(out[j:k], " \t")
					if ch == '\n' && len(t) > 0 && strings.ContainsRune(",+-*/&|^<>=!.", rune(t[len(t)-1])) {
						k++
						continue
					}
					break
				}
				k++
			}
			list := strings.TrimSpace(out[j:k])
			var parts []string
			if n > 0 {
				parts = splitTopLevel(list)
			}
			sb.WriteString(retFn(parts))
			i = k
		}
		out = sb.String()
	}
	return out
}

// splitTopLevel splits a comma separated expression list at depth 0.
func splitTopLevel(s string) []string {
	var out []string
	depth, start := 0, 0
	inStr := byte(0)
	for i := 0; i < len(s); i++ {
		ch := s[i]
		if inStr != 0 {
			if ch == '\\' && inStr != '`' {
				i++
				continue
			}
			if ch == inStr {
				inStr = 0
			}
			continue
		}
		switch ch {
		case '"', '`', '\'':
			inStr = ch
		case '(', '[', '{':
			depth++
		case ')', ']', '}':
			depth--
		case ',':
			if depth == 0 {
				out = append(out, strings.TrimSpace(s[start:i]))
				start = i + 1
			}
		}
	}
	out = append(out, strings.TrimSpace(s[start:]))
	return out
}

type paramInfo struct {
	name string
	obj  types.Object
	typ  string
}

func (in *inliner) params(fd *ast.FuncDecl) (ps []paramInfo, results []paramInfo, variadic bool) {
	add := func(fl *ast.FieldList, dst *[]paramInfo) {
		if fl == nil {
			return
		}
		for _, f := range fl.List {
			ts := exprString(in.fset, f.Type)
			if _, ok := f.Type.(*ast.Ellipsis); ok {
				variadic = true
			}
			if len(f.Names) == 0 {
				*dst = append(*dst, paramInfo{name: "_", typ: ts})
			}
			for _, n := range f.Names {
				*dst = append(*dst, paramInfo{name: n.Name, obj: in.pk.TypesInfo.Defs[n], typ: ts})
			}
		}
	}
	if fd.Recv != nil {
		add(fd.Recv, &ps)
	}
	add(fd.Type.Params, &ps)
	add(fd.Type.Results, &results)
	return
}

// inlineBlock builds the statement text that executes callee(args) and leaves
// its results in the variables resNames.  tail: the call is the operand of a
// return statement of a function with the same result arity.
func (in *inliner) inlineBlock(fd *ast.FuncDecl, recv ast.Expr, args []ast.Expr, resNames []string, tail bool) (string, bool) {
	ps, results, variadic := in.params(fd)
	if variadic {
		return "", false
	}
	var actual []ast.Expr
	if recv != nil {
		actual = append(actual, recv)
	}
	actual = append(actual, args...)
	if len(actual) != len(ps) {
		return "", false
	}
	in.counter++
	id := in.counter
	ren := map[types.Object]string{}
	var sb strings.Builder
	sb.WriteString("{\n")
	// bind arguments to fresh temporaries first (argument expressions see the caller's scope)
	for i, p := range ps {
		tmp := fmt.Sprintf("kxA%d_%d", id, i)
		a := exprString(in.fset, actual[i])
		if i == 0 && recv != nil {
			// receiver: pointer/value adjustment as the compiler would do
			declPtr := strings.HasPrefix(p.typ, "*")
			tv := in.pk.TypesInfo.Types[recv]
			_, argPtr := tv.Type.Underlying().(*types.Pointer)
			if declPtr && !argPtr {
				a = "&" + a
			} else if !declPtr && argPtr {
				a = "*" + a
			}
		}
		fmt.Fprintf(&sb, "var %s %s = %s\n", tmp, p.typ, a)
		if p.obj != nil && p.name != "_" {
			ren[p.obj] = fmt.Sprintf("kxP%d_%s", id, p.name)
		}
	}
	sb.WriteString("{\n")
	for i, p := range ps {
		if p.obj != nil && p.name != "_" {
			fmt.Fprintf(&sb, "var %s %s = kxA%d_%d\n_ = %s\n", ren[p.obj], p.typ, id, i, ren[p.obj])
		} else {
			fmt.Fprintf(&sb, "_ = kxA%d_%d\n", id, i)
		}
	}
	// named results are ordinary locals of the inlined body
	named := false
	for i, r := range results {
		if r.obj != nil && r.name != "_" {
			named = true
			ren[r.obj] = fmt.Sprintf("kxN%d_%s", id, r.name)
			fmt.Fprintf(&sb, "var %s %s\n_ = %s\n", ren[r.obj], r.typ, ren[r.obj])
		}
		_ = i
	}
	label := fmt.Sprintf("kxL%d", id)
	var retFn func([]string) string
	if tail {
		retFn = func(rs []string) string {
			if len(rs) == 0 && named {
				var ns []string
				for _, r := range results {
					ns = append(ns, ren[r.obj])
				}
				return "return " + strings.Join(ns, ", ")
			}
			return "return " + strings.Join(rs, ", ")
		}
	} else {
		retFn = func(rs []string) string {
			var sb2 strings.Builder
			switch {
			case len(results) == 0:
			case len(rs) == 0 && named:
				var ns []string
				for _, r := range results {
					ns = append(ns, ren[r.obj])
				}
				fmt.Fprintf(&sb2, "%s = %s; ", strings.Join(resNames, ", "), strings.Join(ns, ", "))
			case len(rs) == len(resNames):
				fmt.Fprintf(&sb2, "%s = %s; ", strings.Join(resNames, ", "), strings.Join(rs, ", "))
			case len(rs) == 1 && len(resNames) > 1:
				// return g() with a multi-valued g
				fmt.Fprintf(&sb2, "%s = %s; ", strings.Join(resNames, ", "), rs[0])
			default:
				return "kxINLINE_ERROR"
			}
			sb2.WriteString("break " + label)
			return sb2.String()
		}
	}
	in.localRen(fd, id, ren)
	body := in.renderBody(fd, ren, retFn, fmt.Sprintf("_kx%d", id))
	if body == "" || strings.Contains(body, "kxINLINE_ERROR") {
		return "", false
	}
	if tail {
		sb.WriteString(body + "\n")
	} else if !strings.Contains(body, "break "+label) {
		// no return statement inside: the body simply runs to its end
		sb.WriteString(body + "\n")
		if named {
			var ns []string
			for _, r := range results {
				ns = append(ns, ren[r.obj])
			}
			if len(resNames) == len(ns) {
				fmt.Fprintf(&sb, "%s = %s\n", strings.Join(resNames, ", "), strings.Join(ns, ", "))
			}
		}
	} else {
		fmt.Fprintf(&sb, "%s:\nswitch {\ndefault:\n%s\n", label, body)
		// falling off the end of a function with named results
		if named {
			var ns []string
			for _, r := range results {
				ns = append(ns, ren[r.obj])
			}
			if len(resNames) == len(ns) {
				fmt.Fprintf(&sb, "%s = %s\n", strings.Join(resNames, ", "), strings.Join(ns, ", "))
			}
		}
		sb.WriteString("}\n")
	}
	sb.WriteString("}\n}\n")
	return sb.String(), true
}

// funcLitFor renders the callee as a function literal (for go / defer /
// method values).
func (in *inliner) funcLitFor(fd *ast.FuncDecl, recv ast.Expr) (string, bool) {
	ps, _, _ := in.params(fd)
	ren := map[types.Object]string{}
	pre := ""
	if recv != nil {
		if !simpleExpr(recv) {
			return "", false
		}
		in.counter++
		p := ps[0]
		a := exprString(in.fset, recv)
		declPtr := strings.HasPrefix(p.typ, "*")
		tv := in.pk.TypesInfo.Types[recv]
		_, argPtr := tv.Type.Underlying().(*types.Pointer)
		if declPtr && !argPtr {
			a = "&" + a
		} else if !declPtr && argPtr {
			a = "*" + a
		}
		if p.obj != nil && p.name != "_" {
			nn := fmt.Sprintf("kxR%d_%s", in.counter, p.name)
			ren[p.obj] = nn
			pre = fmt.Sprintf("var %s %s = %s\n_ = %s\n", nn, p.typ, a, nn)
		}
	}
	in.counter++
	in.localRen(fd, in.counter, ren)
	body := in.renderBody(fd, ren, nil, fmt.Sprintf("_kx%d", in.counter))
	if body == "" {
		return "", false
	}
	sig := exprString(in.fset, fd.Type)
	if pre != "" {
		// the receiver is captured: evaluate it inside the literal (receivers here are plain variables)
		body = "{\n" + pre + body[1:]
	}
	return sig + " " + body, true
}

// eligible: the function may be inlined at ordinary call sites.
func (in *inliner) eligibleCallee(fd *ast.FuncDecl) bool {
	if fd.Body == nil || fd.Type.TypeParams != nil {
		return false
	}
	if bodyHas(fd.Body, func(n ast.Node) bool {
		if c, ok := n.(*ast.CallExpr); ok {
			if id, ok := c.Fun.(*ast.Ident); ok && id.Name == "recover" {
				return true
			}
		}
		if b, ok := n.(*ast.BranchStmt); ok && b.Tok == token.GOTO {
			return true
		}
		return false
	}) {
		return false
	}
	return true
}

// normalizePackage rewrites the files of one package; returns new contents by file name.
func normalizePackage(pk *packages.Package, known map[string]bool, srcOf func(string) []byte) (map[string][]byte, []string) {
	in := &inliner{src: srcOf, pk: pk, fset: pk.Fset, decls: map[types.Object]*ast.FuncDecl{}, changed: map[*ast.File]bool{}, guardRen: map[*ast.Ident]string{}}
	// a helper that is handed a channel *field* of its caller's client (one deliver function shared by tunnel and
	// router: pushInbound(conn.inbound, msg)) stays a function: the channel-operation index resolves the parameter
	// through its call sites (chanParamFields).  Helpers that pass a local or a parameter on are inlined as before.
	fieldChanCallee := map[types.Object]bool{}
	for _, f := range pk.Syntax {
		ast.Inspect(f, func(n ast.Node) bool {
			call, ok := n.(*ast.CallExpr)
			if !ok {
				return true
			}
			var obj types.Object
			switch fun := call.Fun.(type) {
			case *ast.Ident:
				obj = pk.TypesInfo.Uses[fun]
			case *ast.SelectorExpr:
				obj = pk.TypesInfo.Uses[fun.Sel]
			}
			if _, isFn := obj.(*types.Func); !isFn {
				return true
			}
			for _, a := range call.Args {
				if sel, isSel := a.(*ast.SelectorExpr); isSel {
					if tv, has := pk.TypesInfo.Types[sel]; has && tv.Type != nil {
						if _, isCh := tv.Type.Underlying().(*types.Chan); isCh {
							if s := pk.TypesInfo.Selections[sel]; s != nil && s.Kind() == types.FieldVal {
								fieldChanCallee[obj] = true
							}
						}
					}
				}
			}
			return true
		})
	}
	for _, f := range pk.Syntax {
		for _, d := range f.Decls {
			fd, ok := d.(*ast.FuncDecl)
			if !ok || fd.Body == nil {
				continue
			}
			if known[funcKey(pk.PkgPath, fd)] || fd.Name.Name == "init" || fd.Name.Name == "main" {
				continue
			}
			if !in.eligibleCallee(fd) {
				continue
			}
			if obj := pk.TypesInfo.Defs[fd.Name]; obj != nil && fieldChanCallee[obj] {
				continue
			}
			if obj := pk.TypesInfo.Defs[fd.Name]; obj != nil {
				// methods that satisfy an interface of the module must stay (they are called through it)
				in.decls[obj] = fd
			}
		}
	}
	if len(in.decls) == 0 {
		return nil, nil
	}
	// recursion among candidates: drop any candidate that (transitively) calls itself
	calls := map[types.Object]map[types.Object]bool{}
	for obj, fd := range in.decls {
		calls[obj] = map[types.Object]bool{}
		ast.Inspect(fd.Body, func(n ast.Node) bool {
			if id, ok := n.(*ast.Ident); ok {
				if o := pk.TypesInfo.Uses[id]; o != nil && in.decls[o] != nil {
					calls[obj][o] = true
				}
			}
			return true
		})
	}
	for obj := range in.decls {
		seen := map[types.Object]bool{}
		var reach func(o types.Object) bool
		reach = func(o types.Object) bool {
			for c := range calls[o] {
				if c == obj {
					return true
				}
				if !seen[c] {
					seen[c] = true
					if reach(c) {
						return true
					}
				}
			}
			return false
		}
		if reach(obj) {
			delete(in.decls, obj)
		}
	}
	out := map[string][]byte{}
	// one rewriting pass per file; nested helper calls are handled by repeating the whole normalisation (caller loops)
	for _, f := range pk.Syntax {
		fname := pk.Fset.Position(f.Pos()).Filename
		src := srcOf(fname)
		if src == nil {
			continue
		}
		type edit struct {
			from, to int
			text     string
		}
		var edits []edit
		off := func(p token.Pos) int { return pk.Fset.Position(p).Offset }
		covered := func(a, b int) bool {
			for _, e := range edits {
				if a < e.to && e.from < b {
					return true
				}
			}
			return false
		}
		resultArity := func(fd *ast.FuncDecl) int {
			_, rs, _ := in.params(fd)
			return len(rs)
		}
		for _, d := range f.Decls {
			caller, ok := d.(*ast.FuncDecl)
			if !ok || caller.Body == nil {
				continue
			}
			if obj := pk.TypesInfo.Defs[caller.Name]; obj != nil && in.decls[obj] != nil {
				continue // helper bodies are rewritten when they land in their callers (next round)
			}
			callerResults := 0
			if caller.Type.Results != nil {
				for _, fl := range caller.Type.Results.List {
					if len(fl.Names) == 0 {
						callerResults++
					}
					callerResults += len(fl.Names)
				}
			}
			var visitStmts func(list []ast.Stmt, inLit bool)
			var visitStmt func(s ast.Stmt, inLit bool)
			hoist := func(s ast.Stmt, exprs []ast.Expr) {
				// calls of helpers nested in the expressions of statement s: evaluate them into temporaries first
				var pre strings.Builder
				type rep struct {
					from, to int
					text     string
				}
				var reps []rep
				okAll := true
				for _, e := range exprs {
					ast.Inspect(e, func(n ast.Node) bool {
						if _, isLit := n.(*ast.FuncLit); isLit {
							return false
						}
						call, isCall := n.(*ast.CallExpr)
						if !isCall {
							return true
						}
						fd, _, recv := in.calleeOf(call)
						if fd == nil {
							return true
						}
						if bodyHas(fd.Body, isDefer) || resultArity(fd) != 1 {
							okAll = false
							return false
						}
						_, rs, _ := in.params(fd)
						in.counter++
						tmp := fmt.Sprintf("kxT%d", in.counter)
						blk, ok := in.inlineBlock(fd, recv, call.Args, []string{tmp}, false)
						if !ok {
							okAll = false
							return false
						}
						fmt.Fprintf(&pre, "var %s %s\n%s", tmp, rs[0].typ, blk)
						reps = append(reps, rep{off(call.Pos()), off(call.End()), tmp})
						in.log = append(in.log, fmt.Sprintf("%s: inlined %s into %s (expression)", filepath.Base(fname), fd.Name.Name, caller.Name.Name))
						return false
					})
				}
				if !okAll || len(reps) == 0 || covered(off(s.Pos()), off(s.End())) {
					return
				}
				text := string(src[off(s.Pos()):off(s.End())])
				sort.Slice(reps, func(i, j int) bool { return reps[i].from > reps[j].from })
				for _, r := range reps {
					a, b := r.from-off(s.Pos()), r.to-off(s.Pos())
					text = text[:a] + r.text + text[b:]
				}
				switch d := s.(type) {
				case *ast.DeclStmt:
					// declarations stay in the enclosing scope (the temporaries have unique names)
					edits = append(edits, edit{off(s.Pos()), off(s.End()), pre.String() + text + "\n"})
					return
				case *ast.AssignStmt:
					if d.Tok == token.DEFINE {
						edits = append(edits, edit{off(s.Pos()), off(s.End()), pre.String() + text + "\n"})
						return
					}
				}
				edits = append(edits, edit{off(s.Pos()), off(s.End()), "{\n" + pre.String() + text + "\n}"})
			}
			visitStmt = func(s ast.Stmt, inLit bool) {
				switch x := s.(type) {
				case *ast.ExprStmt:
					if call, ok := x.X.(*ast.CallExpr); ok {
						if fd, _, recv := in.calleeOf(call); fd != nil && !bodyHas(fd.Body, isDefer) {
							n := resultArity(fd)
							var names []string
							var pre strings.Builder
							_, rs, _ := in.params(fd)
							for i := 0; i < n; i++ {
								in.counter++
								names = append(names, fmt.Sprintf("kxT%d", in.counter))
								fmt.Fprintf(&pre, "var %s %s\n_ = %s\n", names[i], rs[i].typ, names[i])
							}
							if blk, ok := in.inlineBlock(fd, recv, call.Args, names, false); ok && !covered(off(s.Pos()), off(s.End())) {
								edits = append(edits, edit{off(s.Pos()), off(s.End()), "{\n" + pre.String() + blk + "}"})
								in.log = append(in.log, fmt.Sprintf("%s: inlined %s into %s (statement)", filepath.Base(fname), fd.Name.Name, caller.Name.Name))
								return
							}
						}
					}
					hoist(s, []ast.Expr{x.X})
				case *ast.ReturnStmt:
					if len(x.Results) == 1 && !inLit {
						if call, ok := x.Results[0].(*ast.CallExpr); ok {
							if fd, _, recv := in.calleeOf(call); fd != nil && resultArity(fd) == callerResults {
								// the caller's own named results must not be shadowed by the callee's: results are returned explicitly
								if blk, ok := in.inlineBlock(fd, recv, call.Args, nil, true); ok && !covered(off(s.Pos()), off(s.End())) {
									edits = append(edits, edit{off(s.Pos()), off(s.End()), blk})
									in.log = append(in.log, fmt.Sprintf("%s: inlined %s into %s (tail call)", filepath.Base(fname), fd.Name.Name, caller.Name.Name))
									return
								}
							}
						}
					}
					hoist(s, x.Results)
				case *ast.AssignStmt:
					if len(x.Rhs) == 1 {
						if call, ok := x.Rhs[0].(*ast.CallExpr); ok {
							if fd, _, recv := in.calleeOf(call); fd != nil && !bodyHas(fd.Body, isDefer) && resultArity(fd) == len(x.Lhs) {
								var names []string
								var pre strings.Builder
								_, rs, _ := in.params(fd)
								for i := range x.Lhs {
									in.counter++
									names = append(names, fmt.Sprintf("kxT%d", in.counter))
									fmt.Fprintf(&pre, "var %s %s\n", names[i], rs[i].typ)
								}
								if blk, ok := in.inlineBlock(fd, recv, call.Args, names, false); ok && !covered(off(s.Pos()), off(s.End())) {
									var lhs []string
									for _, l := range x.Lhs {
										lhs = append(lhs, exprString(in.fset, l))
									}
									// `:=` must stay in the enclosing scope: declare the temporaries and the block before, assign after
									text := pre.String() + blk + strings.Join(lhs, ", ") + " " + x.Tok.String() + " " + strings.Join(names, ", ")
									edits = append(edits, edit{off(s.Pos()), off(s.End()), text})
									in.log = append(in.log, fmt.Sprintf("%s: inlined %s into %s (assignment)", filepath.Base(fname), fd.Name.Name, caller.Name.Name))
									return
								}
							}
						}
					}
					hoist(s, x.Rhs)
				case *ast.SendStmt:
					// the channel operand is evaluated first: only hoist when it cannot be affected
					if id, isId := x.Chan.(*ast.Ident); isId {
						if v, isVar := in.pk.TypesInfo.Uses[id].(*types.Var); isVar && v.Parent() != in.pk.Types.Scope() {
							hoist(s, []ast.Expr{x.Value})
						}
					}
				case *ast.DeclStmt:
					if gd, ok := x.Decl.(*ast.GenDecl); ok && gd.Tok == token.VAR && len(gd.Specs) == 1 {
						if vs, ok := gd.Specs[0].(*ast.ValueSpec); ok && len(vs.Values) > 0 {
							hoist(s, vs.Values)
						}
					}
				case *ast.IncDecStmt:
				case *ast.GoStmt:
					// arguments are evaluated by the go statement itself: helper calls among them come first
					hoist(s, x.Call.Args)
					in.rewriteFuncValueCall(x.Call, fname, caller, &edits2{add: func(a, b int, t string) {
						if !covered(a, b) {
							edits = append(edits, edit{a, b, t})
						}
					}})
				case *ast.DeferStmt:
					hoist(s, x.Call.Args)
					in.rewriteFuncValueCall(x.Call, fname, caller, &edits2{add: func(a, b int, t string) {
						if !covered(a, b) {
							edits = append(edits, edit{a, b, t})
						}
					}})
				case *ast.IfStmt:
					if x.Init == nil {
						if txt, ok := in.inlineIfCond(x, src, off); ok && !covered(off(x.Pos()), off(x.End())) {
							edits = append(edits, edit{off(x.Pos()), off(x.End()), txt})
							in.log = append(in.log, fmt.Sprintf("%s: inlined a predicate call into the branches of an if in %s", filepath.Base(fname), caller.Name.Name))
							return
						}
					}
					if x.Init == nil {
						// if cond: hoist helper calls in the condition in front of the statement (evaluated once, as before)
						var pre strings.Builder
						cond := x.Cond
						type rep struct {
							from, to int
							text     string
						}
						var reps []rep
						okAll := true
						ast.Inspect(cond, func(n ast.Node) bool {
							if _, isLit := n.(*ast.FuncLit); isLit {
								return false
							}
							if be, isB := n.(*ast.BinaryExpr); isB && (be.Op == token.LAND || be.Op == token.LOR) {
								// only the left-most operand is evaluated unconditionally
								okLeft := true
								ast.Inspect(be.Y, func(m ast.Node) bool {
									if c, ok := m.(*ast.CallExpr); ok {
										if fd, _, _ := in.calleeOf(c); fd != nil {
											okLeft = false
										}
									}
									return true
								})
								if !okLeft {
									okAll = false
								}
							}
							call, isCall := n.(*ast.CallExpr)
							if !isCall {
								return true
							}
							fd, _, recv := in.calleeOf(call)
							if fd == nil {
								return true
							}
							if bodyHas(fd.Body, isDefer) || resultArity(fd) != 1 {
								okAll = false
								return false
							}
							_, rs, _ := in.params(fd)
							in.counter++
							tmp := fmt.Sprintf("kxT%d", in.counter)
							blk, ok := in.inlineBlock(fd, recv, call.Args, []string{tmp}, false)
							if !ok {
								okAll = false
								return false
							}
							fmt.Fprintf(&pre, "var %s %s\n%s", tmp, rs[0].typ, blk)
							reps = append(reps, rep{off(call.Pos()), off(call.End()), tmp})
							in.log = append(in.log, fmt.Sprintf("%s: inlined %s into %s (condition)", filepath.Base(fname), fd.Name.Name, caller.Name.Name))
							return false
						})
						if okAll && len(reps) > 0 && !covered(off(x.Pos()), off(x.Cond.End())) {
							ctext := string(src[off(cond.Pos()):off(cond.End())])
							sort.Slice(reps, func(i, j int) bool { return reps[i].from > reps[j].from })
							for _, r := range reps {
								a, b := r.from-off(cond.Pos()), r.to-off(cond.Pos())
								ctext = ctext[:a] + r.text + ctext[b:]
							}
							// `if` may be the else-branch of another if: wrap in a block only when it is a plain statement
							edits = append(edits, edit{off(x.Pos()), off(x.Cond.End()), "kxIFPRE" + pre.String() + "kxIFEND if " + ctext})
						}
					}
					visitStmts(x.Body.List, inLit)
					if x.Else != nil {
						visitStmt(x.Else, inLit)
					}
				case *ast.BlockStmt:
					visitStmts(x.List, inLit)
				case *ast.ForStmt:
					visitStmts(x.Body.List, inLit)
				case *ast.RangeStmt:
					visitStmts(x.Body.List, inLit)
				case *ast.SwitchStmt:
					visitStmts(x.Body.List, inLit)
				case *ast.TypeSwitchStmt:
					visitStmts(x.Body.List, inLit)
				case *ast.SelectStmt:
					visitStmts(x.Body.List, inLit)
				case *ast.CaseClause:
					visitStmts(x.Body, inLit)
				case *ast.CommClause:
					visitStmts(x.Body, inLit)
				case *ast.LabeledStmt:
					visitStmt(x.Stmt, inLit)
				}
				// function literals and method values inside the statement
				ast.Inspect(s, func(n ast.Node) bool {
					switch y := n.(type) {
					case *ast.FuncLit:
						visitStmts(y.Body.List, true)
						return false
					case *ast.CallExpr:
						// method values / function values passed as arguments: once.Do(conn.shutdown), AfterFunc(d, r.unlockSend)
						for _, a := range y.Args {
							in.rewriteFuncValue(a, fname, caller, &edits2{add: func(aa, bb int, t string) {
								if !covered(aa, bb) {
									edits = append(edits, edit{aa, bb, t})
								}
							}})
						}
					}
					return true
				})
			}
			visitStmts = func(list []ast.Stmt, inLit bool) {
				for i := 0; i < len(list); i++ {
					s := list[i]
					// `x, ok := helper(...)` directly followed by `if !ok {A}` (or err != nil, ...): the decision
					// is spliced in at every return of the helper
					if i+1 < len(list) {
						if as, isAs := s.(*ast.AssignStmt); isAs {
							if iff, isIf := list[i+1].(*ast.IfStmt); isIf {
								if txt, ok := in.inlineAssignIf(as, iff, src, off); ok && !covered(off(as.Pos()), off(iff.End())) {
									edits = append(edits, edit{off(as.Pos()), off(iff.End()), txt})
									in.log = append(in.log, fmt.Sprintf("%s: inlined a helper with its status test in %s", filepath.Base(fname), caller.Name.Name))
									i++
									continue
								}
							}
						}
					}
					visitStmt(s, inLit)
				}
			}
			visitStmts(caller.Body.List, false)
		}
		if len(edits) == 0 {
			continue
		}
		// nested edits: keep outermost only
		sort.Slice(edits, func(i, j int) bool {
			if edits[i].from != edits[j].from {
				return edits[i].from < edits[j].from
			}
			return edits[i].to > edits[j].to
		})
		var kept []edit
		for _, e := range edits {
			if len(kept) > 0 && e.from < kept[len(kept)-1].to {
				continue
			}
			kept = append(kept, e)
		}
		res := string(src)
		for i := len(kept) - 1; i >= 0; i-- {
			e := kept[i]
			text := e.text
			if strings.HasPrefix(text, "kxIFPRE") {
				// an if statement: is it an `else if`?
				j := e.from - 1
				for j >= 0 && (res[j] == ' ' || res[j] == '\t' || res[j] == '\n') {
					j--
				}
				isElse := j >= 3 && res[j-3:j+1] == "else"
				pre := text[len("kxIFPRE"):strings.Index(text, "kxIFEND")]
				rest := text[strings.Index(text, "kxIFEND")+len("kxIFEND"):]
				if isElse {
					// else { pre; if ... }  - the if statement extends to the end of its chain: find it by the AST later; fall back: skip
					continue
				}
				text = pre + rest
			}
			res = res[:e.from] + text + res[e.to:]
		}
		out[fname] = []byte(res)
	}
	return out, in.log
}

type edits2 struct{ add func(from, to int, text string) }

// rewriteFuncValueCall: `go f(args)` / `defer f(args)` with an inlinable f
// becomes `go func(params){body}(args)` (receiver captured).
func (in *inliner) rewriteFuncValueCall(call *ast.CallExpr, fname string, caller *ast.FuncDecl, ed *edits2) {
	fd, _, recv := in.calleeOf(call)
	if fd == nil {
		return
	}
	lit, ok := in.funcLitFor(fd, recv)
	if !ok {
		return
	}
	off := func(p token.Pos) int { return in.fset.Position(p).Offset }
	ed.add(off(call.Fun.Pos()), off(call.Fun.End()), lit)
	in.log = append(in.log, fmt.Sprintf("%s: %s started from %s became a function literal", filepath.Base(fname), fd.Name.Name, caller.Name.Name))
}

// rewriteFuncValue: a method / function value of an inlinable helper used as
// an argument becomes a function literal.
func (in *inliner) rewriteFuncValue(e ast.Expr, fname string, caller *ast.FuncDecl, ed *edits2) {
	var id *ast.Ident
	var recv ast.Expr
	switch f := e.(type) {
	case *ast.Ident:
		id = f
	case *ast.SelectorExpr:
		id, recv = f.Sel, f.X
	default:
		return
	}
	obj := in.pk.TypesInfo.Uses[id]
	fd := in.decls[obj]
	if fd == nil {
		return
	}
	if fd.Recv == nil {
		recv = nil
	}
	lit, ok := in.funcLitFor(fd, recv)
	if !ok {
		return
	}
	off := func(p token.Pos) int { return in.fset.Position(p).Offset }
	ed.add(off(e.Pos()), off(e.End()), lit)
	in.log = append(in.log, fmt.Sprintf("%s: value of %s used in %s became a function literal", filepath.Base(fname), fd.Name.Name, caller.Name.Name))
}

// removeUnused deletes declarations of helper functions that are no longer referenced.
func removeUnusedHelpers(pk *packages.Package, known map[string]bool, srcOf func(string) []byte) map[string][]byte {
	// liveness: a removable helper is live when referenced from outside the removable helpers or from a live one
	cand := map[types.Object]*ast.FuncDecl{}
	for _, f := range pk.Syntax {
		for _, d := range f.Decls {
			fd, ok := d.(*ast.FuncDecl)
			if !ok || known[funcKey(pk.PkgPath, fd)] || fd.Name.Name == "init" || fd.Name.Name == "main" || fd.Name.IsExported() {
				continue
			}
			if obj := pk.TypesInfo.Defs[fd.Name]; obj != nil {
				cand[obj] = fd
			}
		}
	}
	inCand := func(pos token.Pos) types.Object {
		for o, fd := range cand {
			if fd.Pos() <= pos && pos < fd.End() {
				return o
			}
		}
		return nil
	}
	used := map[types.Object]bool{}
	refs := map[types.Object][]types.Object{}
	for id, obj := range pk.TypesInfo.Uses {
		if o := inCand(id.Pos()); o != nil {
			refs[o] = append(refs[o], obj)
		} else {
			used[obj] = true
		}
	}
	for changed := true; changed; {
		changed = false
		for o := range cand {
			if !used[o] {
				continue
			}
			for _, r := range refs[o] {
				if !used[r] {
					used[r] = true
					changed = true
				}
			}
		}
	}
	out := map[string][]byte{}
	for _, f := range pk.Syntax {
		fname := pk.Fset.Position(f.Pos()).Filename
		src := srcOf(fname)
		if src == nil {
			continue
		}
		type span struct{ from, to int }
		var cut []span
		for _, d := range f.Decls {
			fd, ok := d.(*ast.FuncDecl)
			if !ok || known[funcKey(pk.PkgPath, fd)] || fd.Name.Name == "init" || fd.Name.Name == "main" {
				continue
			}
			obj := pk.TypesInfo.Defs[fd.Name]
			if obj == nil || used[obj] || fd.Name.IsExported() {
				continue
			}
			from := pk.Fset.Position(fd.Pos()).Offset
			if fd.Doc != nil {
				from = pk.Fset.Position(fd.Doc.Pos()).Offset
			}
			cut = append(cut, span{from, pk.Fset.Position(fd.End()).Offset})
		}
		if len(cut) == 0 {
			continue
		}
		res := string(src)
		for i := len(cut) - 1; i >= 0; i-- {
			res = res[:cut[i].from] + res[cut[i].to:]
		}
		out[fname] = []byte(res)
	}
	return out
}

// fixImports makes the import block of a rewritten file consistent: imports
// used by inlined bodies are added (taken from the other files of the
// package), imports that became unused are dropped.
func fixImports(fset *token.FileSet, src []byte, pkgImports map[string]string) []byte {
	f, err := parserParse(fset, src)
	if err != nil {
		return src
	}
	usedNames := map[string]bool{}
	ast.Inspect(f, func(n ast.Node) bool {
		if se, ok := n.(*ast.SelectorExpr); ok {
			if id, ok := se.X.(*ast.Ident); ok {
				usedNames[id.Name] = true
			}
		}
		return true
	})
	have := map[string]string{} // local name -> path
	for _, im := range f.Imports {
		path := strings.Trim(im.Path.Value, "\"")
		name := pathBase(path)
		if im.Name != nil {
			name = im.Name.Name
		}
		have[name] = path
	}
	var lines []string
	for name, path := range have {
		if name == "_" || name == "." || usedNames[name] {
			lines = append(lines, importLine(name, path))
		}
	}
	for name, path := range pkgImports {
		if _, ok := have[name]; !ok && usedNames[name] {
			lines = append(lines, importLine(name, path))
		}
	}
	sort.Strings(lines)
	// replace all import declarations by one block
	var spans [][2]int
	for _, d := range f.Decls {
		if gd, ok := d.(*ast.GenDecl); ok && gd.Tok == token.IMPORT {
			spans = append(spans, [2]int{fset.Position(gd.Pos()).Offset, fset.Position(gd.End()).Offset})
		}
	}
	res := string(src)
	for i := len(spans) - 1; i >= 0; i-- {
		res = res[:spans[i][0]] + res[spans[i][1]:]
	}
	// insert after the package clause
	pos := fset.Position(f.Name.End()).Offset
	block := "\n\nimport (\n" + strings.Join(lines, "\n") + "\n)\n"
	if len(lines) == 0 {
		block = "\n"
	}
	res = res[:pos] + block + res[pos:]
	return []byte(res)
}

func importLine(name, path string) string {
	if name == pathBase(path) {
		return "\t\"" + path + "\""
	}
	return "\t" + name + " \"" + path + "\""
}

func pathBase(p string) string {
	if i := strings.LastIndex(p, "/"); i >= 0 {
		p = p[i+1:]
	}
	// golang.org/x/net/ipv4 -> ipv4 ; gopkg-style version suffixes are not used in this module
	return p
}

// normalizeRepo computes the overlay (file name -> content) of the
// helper-inlined program, or nil when there is nothing to do / it failed.
func normalizeRepo(repoDir, arch string) (map[string][]byte, []string) {
	known := knownFuncs()
	overlay := map[string][]byte{}
	var log []string
	srcOf := func(fname string) []byte {
		if b, ok := overlay[fname]; ok {
			return b
		}
		b, err := os.ReadFile(fname)
		if err != nil {
			return nil
		}
		return b
	}
	// fast path: every function of the library is one the rules know
	if !hasUnknownFuncs(repoDir, known) {
		return nil, nil
	}
	load := func() ([]*packages.Package, bool) {
		// dependencies come from export data (build cache): about a second when warm
		cfg := &packages.Config{Mode: packages.LoadSyntax, Dir: repoDir, Env: loadEnv(arch), Overlay: overlay}
		pkgs, err := packages.Load(cfg, "./...")
		if err != nil {
			return nil, false
		}
		ok := true
		packages.Visit(pkgs, nil, func(p *packages.Package) {
			if len(p.Errors) > 0 {
				ok = false
				for _, e := range p.Errors {
					log = append(log, "type error after normalisation: "+e.Error())
				}
			}
		})
		return pkgs, ok
	}
	isLib := func(pk *packages.Package) bool {
		return pk.PkgPath == modPath+"/knx" || strings.HasPrefix(pk.PkgPath, modPath+"/knx/")
	}
	changedAny := false
	// names first: declarations that only changed their name get the reference name back
	if pkgs, ok := load(); ok {
		files, lg := renameBack(pkgs, isLib, srcOf)
		log = append(log, lg...)
		for fn, b := range files {
			overlay[fn] = b
			changedAny = true
		}
		if len(files) > 0 {
			if _, ok := load(); !ok {
				log = append(log, "renaming back abandoned: the renamed program does not type-check")
				for fn := range files {
					delete(overlay, fn)
				}
				changedAny = false
			}
		}
	}
	for round := 0; round < 5; round++ {
		pkgs, ok := load()
		if !ok {
			if changedAny {
				log = append(log, "normalisation abandoned: the rewritten program does not type-check")
			}
			return nil, log
		}
		progress := false
		for _, pk := range pkgs {
			if !isLib(pk) {
				continue
			}
			files, lg := normalizePackage(pk, known, srcOf)
			log = append(log, lg...)
			if len(files) == 0 {
				continue
			}
			// imports available in the package
			imps := map[string]string{}
			for _, f := range pk.Syntax {
				for _, im := range f.Imports {
					path := strings.Trim(im.Path.Value, "\"")
					name := pathBase(path)
					if im.Name != nil {
						name = im.Name.Name
					}
					imps[name] = path
				}
			}
			for fn, b := range files {
				fb, err := format.Source(b)
				if err != nil {
					log = append(log, "normalisation abandoned: rewritten "+filepath.Base(fn)+" does not parse: "+err.Error())
					return nil, log
				}
				overlay[fn] = fixImports(token.NewFileSet(), fb, imps)
				progress, changedAny = true, true
			}
		}
		if !progress {
			break
		}
	}
	if !changedAny {
		return nil, log
	}
	// drop helpers that are no longer referenced
	pkgs, ok := load()
	if !ok {
		log = append(log, "normalisation abandoned: the rewritten program does not type-check")
		return nil, log
	}
	for _, pk := range pkgs {
		if !isLib(pk) {
			continue
		}
		imps := map[string]string{}
		for _, f := range pk.Syntax {
			for _, im := range f.Imports {
				path := strings.Trim(im.Path.Value, "\"")
				name := pathBase(path)
				if im.Name != nil {
					name = im.Name.Name
				}
				imps[name] = path
			}
		}
		for fn, b := range removeUnusedHelpers(pk, known, srcOf) {
			if fb, err := format.Source(b); err == nil {
				overlay[fn] = fixImports(token.NewFileSet(), fb, imps)
			}
		}
	}
	if _, ok := load(); !ok {
		log = append(log, "normalisation abandoned: the rewritten program does not type-check")
		return nil, log
	}
	return overlay, log
}

// hasUnknownFuncs parses the library's non-test files (syntax only) and
// reports whether some function declaration is not in the known table.
func hasUnknownFuncs(repoDir string, known map[string]bool) bool {
	found := false
	kf := knownFields()
	root := filepath.Join(repoDir, "knx")
	filepath.Walk(root, func(path string, info os.FileInfo, err error) error {
		if err != nil || found {
			return nil
		}
		if info.IsDir() || !strings.HasSuffix(path, ".go") || strings.HasSuffix(path, "_test.go") {
			return nil
		}
		fset := token.NewFileSet()
		f, perr := parser.ParseFile(fset, path, nil, parser.SkipObjectResolution)
		if perr != nil {
			return nil
		}
		rel, _ := filepath.Rel(repoDir, filepath.Dir(path))
		pkgPath := modPath + "/" + filepath.ToSlash(rel)
		for _, d := range f.Decls {
			if fd, ok := d.(*ast.FuncDecl); ok && fd.Body != nil && fd.Name.Name != "init" {
				if !known[funcKey(pkgPath, fd)] {
					found = true
				}
			}
			if gd, ok := d.(*ast.GenDecl); ok {
				for _, sp := range gd.Specs {
					ts, ok := sp.(*ast.TypeSpec)
					if !ok {
						continue
					}
					if st, ok := ts.Type.(*ast.StructType); ok {
						for _, fld := range st.Fields.List {
							for _, n := range fld.Names {
								if _, has := kf[pkgPath+"."+ts.Name.Name+"."+n.Name]; !has {
									found = true
								}
							}
						}
					}
				}
			}
		}
		return nil
	})
	return found
}

func isElseBranch(src []byte, pos int) bool {
	j := pos - 1
	for j >= 0 && (src[j] == ' ' || src[j] == '\t' || src[j] == '\n') {
		j--
	}
	return j >= 3 && string(src[j-3:j+1]) == "else"
}

// hasUnlabeledBreak: the statement list contains a `break` without label that
// would bind to an enclosing statement of the caller.
func hasUnlabeledBreak(list []ast.Stmt) bool {
	found := false
	var visit func(n ast.Node)
	visit = func(n ast.Node) {
		ast.Inspect(n, func(m ast.Node) bool {
			switch y := m.(type) {
			case *ast.FuncLit, *ast.ForStmt, *ast.RangeStmt, *ast.SwitchStmt, *ast.TypeSwitchStmt, *ast.SelectStmt:
				return false
			case *ast.BranchStmt:
				if y.Tok == token.BREAK && y.Label == nil {
					found = true
				}
			}
			return true
		})
	}
	for _, s := range list {
		visit(s)
	}
	return found
}

// Lowering of conditions that contain helper predicates.  `if C {T} else {E}`
// becomes pure control flow,
//
//	{ kxEnd: switch { default:
//	      kxF: switch { default:
//	          <C evaluated by jumps: false -> break kxF>
//	          T
//	          break kxEnd }
//	      E } }
//
// where &&, || and ! are lowered structurally (short-circuit order kept) and a
// call of a helper predicate is replaced by its body with every `return e`
// lowered in turn.  No boolean temporary is introduced, so the comparisons
// inside the helper dominate the branch bodies exactly as if they had been
// written in the condition.

type condJump struct {
	fall  bool
	label string
}

func (j condJump) stmt() string { return "break " + j.label }

func (in *inliner) newLabel(prefix string) string {
	in.counter++
	return fmt.Sprintf("%s%d", prefix, in.counter)
}

// hasHelperCall: e contains a call of an inlinable helper.
func (in *inliner) hasHelperCall(e ast.Expr) bool {
	found := false
	ast.Inspect(e, func(n ast.Node) bool {
		if _, isLit := n.(*ast.FuncLit); isLit {
			return false
		}
		if c, ok := n.(*ast.CallExpr); ok {
			if fd, _, _ := in.calleeOf(c); fd != nil {
				found = true
			}
		}
		return true
	})
	return found
}

// genCond emits statements that evaluate e and leave through t (true) or f
// (false); typed: e belongs to the type-checked package (helper calls are
// recognised), otherwise only the boolean structure is lowered.
func (in *inliner) genCond(e ast.Expr, t, f condJump, typed bool, text func(ast.Node) string) (string, bool) {
	switch x := e.(type) {
	case *ast.ParenExpr:
		return in.genCond(x.X, t, f, typed, text)
	case *ast.UnaryExpr:
		if x.Op == token.NOT {
			return in.genCond(x.X, f, t, typed, text)
		}
	case *ast.BinaryExpr:
		switch x.Op {
		case token.LAND:
			if f.fall {
				s := in.newLabel("kxS")
				a, ok1 := in.genCond(x.X, condJump{fall: true}, condJump{label: s}, typed, text)
				b, ok2 := in.genCond(x.Y, t, condJump{label: s}, typed, text)
				if !ok1 || !ok2 {
					return "", false
				}
				return s + ":\nswitch {\ndefault:\n" + a + b + "}\n", true
			}
			a, ok1 := in.genCond(x.X, condJump{fall: true}, f, typed, text)
			b, ok2 := in.genCond(x.Y, t, f, typed, text)
			return a + b, ok1 && ok2
		case token.LOR:
			if t.fall {
				s := in.newLabel("kxS")
				a, ok1 := in.genCond(x.X, condJump{label: s}, condJump{fall: true}, typed, text)
				b, ok2 := in.genCond(x.Y, condJump{label: s}, f, typed, text)
				if !ok1 || !ok2 {
					return "", false
				}
				return s + ":\nswitch {\ndefault:\n" + a + b + "}\n", true
			}
			a, ok1 := in.genCond(x.X, t, condJump{fall: true}, typed, text)
			b, ok2 := in.genCond(x.Y, t, f, typed, text)
			return a + b, ok1 && ok2
		}
	case *ast.CallExpr:
		if typed {
			if fd, _, recv := in.calleeOf(x); fd != nil {
				if bodyHas(fd.Body, isDefer) {
					return "", false
				}
				_, results, _ := in.params(fd)
				if len(results) != 1 || results[0].typ != "bool" {
					return "", false
				}
				okAll := true
				blk, ok := in.inlineBlockWith(fd, recv, x.Args, func(label string, named []string) func([]string) string {
					tt, ff := t, f
					if tt.fall {
						tt = condJump{label: label}
					}
					if ff.fall {
						ff = condJump{label: label}
					}
					return func(rs []string) string {
						if len(rs) != 1 {
							okAll = false
							return "kxINLINE_ERROR"
						}
						re, err := parser.ParseExpr(rs[0])
						if err != nil {
							okAll = false
							return "kxINLINE_ERROR"
						}
						fs := token.NewFileSet()
						out, ok := in.genCond(re, tt, ff, false, func(n ast.Node) string { return exprString(fs, n) })
						if !ok {
							okAll = false
							return "kxINLINE_ERROR"
						}
						return out
					}
				})
				if !ok || !okAll {
					return "", false
				}
				return blk, true
			}
		}
	}
	// atom
	if typed && in.hasHelperCall(e) {
		return "", false // a helper call in a non-boolean position of the condition: left to the hoisting rule
	}
	txt := text(e)
	// literal results of a predicate: the jump is unconditional
	switch strings.TrimSpace(txt) {
	case "true":
		if t.fall {
			return "", true
		}
		return t.stmt() + "\n", true
	case "false":
		if f.fall {
			return "", true
		}
		return f.stmt() + "\n", true
	}
	switch {
	case t.fall && f.fall:
		return "", false
	case t.fall:
		return "if !(" + txt + ") {\n" + f.stmt() + "\n}\n", true
	case f.fall:
		return "if " + txt + " {\n" + t.stmt() + "\n}\n", true
	}
	return "if " + txt + " {\n" + t.stmt() + "\n}\n" + f.stmt() + "\n", true
}

// inlineIfCond lowers an if statement whose condition calls helper predicates.
func (in *inliner) inlineIfCond(x *ast.IfStmt, src []byte, off func(token.Pos) int) (string, bool) {
	if !in.hasHelperCall(x.Cond) {
		return "", false
	}
	if hasUnlabeledBreak(x.Body.List) {
		return "", false
	}
	thenTxt := string(src[off(x.Body.Lbrace)+1 : off(x.Body.Rbrace)])
	elseTxt := ""
	if x.Else != nil {
		switch e := x.Else.(type) {
		case *ast.BlockStmt:
			if hasUnlabeledBreak(e.List) {
				return "", false
			}
			elseTxt = string(src[off(e.Lbrace)+1 : off(e.Rbrace)])
		default:
			if hasUnlabeledBreak([]ast.Stmt{e}) {
				return "", false
			}
			elseTxt = string(src[off(e.Pos()):off(e.End())])
		}
	}
	end, fl := in.newLabel("kxE"), in.newLabel("kxF")
	cond, ok := in.genCond(x.Cond, condJump{fall: true}, condJump{label: fl}, true, func(n ast.Node) string { return string(src[off(n.Pos()):off(n.End())]) })
	if !ok {
		return "", false
	}
	var sb strings.Builder
	fmt.Fprintf(&sb, "{\n%s:\nswitch {\ndefault:\n%s:\nswitch {\ndefault:\n%s{\n%s\n}\nbreak %s\n}\n{\n%s\n}\n}\n", end, fl, cond, thenTxt, end, elseTxt)
	if x.Else != nil && terminates(x.Body.List) && terminates([]ast.Stmt{x.Else}) {
		// both branches leave the function: keep the statement terminating for the compiler (unreachable)
		sb.WriteString("panic(\"unreachable\")\n")
	}
	sb.WriteString("}")
	return sb.String(), true
}

// terminates: the statement list ends in a statement after which control
// cannot continue (return, panic, or an if/else or block made of such).
func terminates(list []ast.Stmt) bool {
	if len(list) == 0 {
		return false
	}
	switch x := list[len(list)-1].(type) {
	case *ast.ReturnStmt:
		return true
	case *ast.ExprStmt:
		if c, ok := x.X.(*ast.CallExpr); ok {
			if id, ok := c.Fun.(*ast.Ident); ok && id.Name == "panic" {
				return true
			}
		}
	case *ast.BlockStmt:
		return terminates(x.List)
	case *ast.IfStmt:
		return x.Else != nil && terminates(x.Body.List) && terminates([]ast.Stmt{x.Else})
	}
	return false
}

// inlineBlockWith is inlineBlock with a caller-supplied treatment of returns;
// the body is always wrapped in a labelled switch.
func (in *inliner) inlineBlockWith(fd *ast.FuncDecl, recv ast.Expr, args []ast.Expr, mk func(label string, named []string) func([]string) string) (string, bool) {
	ps, results, variadic := in.params(fd)
	if variadic {
		return "", false
	}
	var actual []ast.Expr
	if recv != nil {
		actual = append(actual, recv)
	}
	actual = append(actual, args...)
	if len(actual) != len(ps) {
		return "", false
	}
	in.counter++
	id := in.counter
	ren := map[types.Object]string{}
	var sb strings.Builder
	sb.WriteString("{\n")
	for i, p := range ps {
		tmp := fmt.Sprintf("kxA%d_%d", id, i)
		a := exprString(in.fset, actual[i])
		if i == 0 && recv != nil {
			declPtr := strings.HasPrefix(p.typ, "*")
			tv := in.pk.TypesInfo.Types[recv]
			_, argPtr := tv.Type.Underlying().(*types.Pointer)
			if declPtr && !argPtr {
				a = "&" + a
			} else if !declPtr && argPtr {
				a = "*" + a
			}
		}
		fmt.Fprintf(&sb, "var %s %s = %s\n_ = %s\n", tmp, p.typ, a, tmp)
		if p.obj != nil && p.name != "_" {
			ren[p.obj] = fmt.Sprintf("kxP%d_%s", id, p.name)
		}
	}
	sb.WriteString("{\n")
	for i, p := range ps {
		if p.obj != nil && p.name != "_" {
			fmt.Fprintf(&sb, "var %s %s = kxA%d_%d\n_ = %s\n", ren[p.obj], p.typ, id, i, ren[p.obj])
		}
	}
	var named []string
	for _, r := range results {
		if r.obj != nil && r.name != "_" {
			ren[r.obj] = fmt.Sprintf("kxN%d_%s", id, r.name)
			named = append(named, ren[r.obj])
			fmt.Fprintf(&sb, "var %s %s\n_ = %s\n", ren[r.obj], r.typ, ren[r.obj])
		}
	}
	label := fmt.Sprintf("kxL%d", id)
	in.localRen(fd, id, ren)
	body := in.renderBody(fd, ren, mk(label, named), fmt.Sprintf("_kx%d", id))
	if body == "" || strings.Contains(body, "kxINLINE_ERROR") {
		return "", false
	}
	if !strings.Contains(body, "break "+label+"\n") {
		// every return jumps elsewhere: no label needed (an unused label does not compile)
		fmt.Fprintf(&sb, "%s\n}\n}\n", body)
		return sb.String(), true
	}
	fmt.Fprintf(&sb, "%s:\nswitch {\ndefault:\n%s\n}\n}\n}\n", label, body)
	return sb.String(), true
}

// hasLabels: the statements declare labels (they cannot be duplicated).
func hasLabels(list []ast.Stmt) bool {
	found := false
	for _, s := range list {
		ast.Inspect(s, func(n ast.Node) bool {
			if _, ok := n.(*ast.LabeledStmt); ok {
				found = true
			}
			if _, ok := n.(*ast.FuncLit); ok {
				return false
			}
			return true
		})
	}
	return found
}

// inlineAssignIf handles
//
//	lhs... := helper(args)       (or =)
//	if <test of one lhs variable> {A} else {B}
//
// where the test is `v`, `!v`, `v == nil`, `v != nil`, `v == true/false`.  The helper's body is
// spliced in; every `return e...` becomes the assignment followed by the branch the test selects
// when the returned expression is a literal true/false/nil, and by the whole if statement
// otherwise.  No status temporary has to be merged and re-tested.
func (in *inliner) inlineAssignIf(as *ast.AssignStmt, iff *ast.IfStmt, src []byte, off func(token.Pos) int) (string, bool) {
	if len(as.Rhs) != 1 || iff.Init != nil || (as.Tok != token.DEFINE && as.Tok != token.ASSIGN) {
		return "", false
	}
	call, ok := as.Rhs[0].(*ast.CallExpr)
	if !ok {
		return "", false
	}
	fd, _, recv := in.calleeOf(call)
	if fd == nil || bodyHas(fd.Body, isDefer) {
		return "", false
	}
	_, results, _ := in.params(fd)
	if len(results) != len(as.Lhs) || len(results) < 1 {
		return "", false
	}
	var lhs []string
	for _, l := range as.Lhs {
		id, ok := l.(*ast.Ident)
		if !ok {
			return "", false
		}
		lhs = append(lhs, id.Name)
	}
	// the tested variable
	cond := iff.Cond
	neg := false
	for {
		if pe, ok := cond.(*ast.ParenExpr); ok {
			cond = pe.X
			continue
		}
		if ue, ok := cond.(*ast.UnaryExpr); ok && ue.Op == token.NOT {
			cond, neg = ue.X, !neg
			continue
		}
		break
	}
	varName, cmpLit := "", ""
	switch c := cond.(type) {
	case *ast.Ident:
		varName, cmpLit = c.Name, "true"
	case *ast.BinaryExpr:
		if c.Op != token.EQL && c.Op != token.NEQ {
			return "", false
		}
		x, okx := c.X.(*ast.Ident)
		y, oky := c.Y.(*ast.Ident)
		if !okx || !oky {
			return "", false
		}
		if x.Name == "nil" || x.Name == "true" || x.Name == "false" {
			x, y = y, x
		}
		if y.Name != "nil" && y.Name != "true" && y.Name != "false" {
			return "", false
		}
		varName, cmpLit = x.Name, y.Name
		if c.Op == token.NEQ {
			neg = !neg
		}
	default:
		return "", false
	}
	idx := -1
	for i, l := range lhs {
		if l == varName && l != "_" {
			idx = i
		}
	}
	if idx < 0 {
		return "", false
	}
	var elseList []ast.Stmt
	elseTxt := ""
	if iff.Else != nil {
		switch e := iff.Else.(type) {
		case *ast.BlockStmt:
			elseList = e.List
			elseTxt = string(src[off(e.Lbrace)+1 : off(e.Rbrace)])
		default:
			elseList = []ast.Stmt{e}
			elseTxt = string(src[off(e.Pos()):off(e.End())])
		}
	}
	if hasUnlabeledBreak(iff.Body.List) || hasUnlabeledBreak(elseList) || hasLabels(iff.Body.List) || hasLabels(elseList) {
		return "", false
	}
	// helper calls inside the branches would be duplicated before being inlined themselves: fine (next round)
	thenTxt := string(src[off(iff.Body.Lbrace)+1 : off(iff.Body.Rbrace)])
	ifTxt := string(src[off(iff.Pos()):off(iff.End())])
	var pre strings.Builder
	if as.Tok == token.DEFINE {
		for i, l := range as.Lhs {
			id := l.(*ast.Ident)
			if id.Name == "_" {
				continue
			}
			if in.pk.TypesInfo.Defs[id] != nil {
				fmt.Fprintf(&pre, "var %s %s\n_ = %s\n", id.Name, results[i].typ, id.Name)
			}
		}
	}
	okAll := true
	blk, ok := in.inlineBlockWith(fd, recv, call.Args, func(label string, named []string) func([]string) string {
		return func(rs []string) string {
			if len(rs) == 0 && len(named) == len(lhs) {
				rs = named
			}
			if len(rs) != len(lhs) {
				okAll = false
				return "kxINLINE_ERROR"
			}
			var sb strings.Builder
			// evaluate all results first (they may mention the assigned variables), then assign
			var tmps []string
			for i, r := range rs {
				in.counter++
				t := fmt.Sprintf("kxR%d", in.counter)
				tmps = append(tmps, t)
				fmt.Fprintf(&sb, "var %s %s = %s\n_ = %s\n", t, results[i].typ, r, t)
			}
			for i, l := range lhs {
				if l != "_" {
					fmt.Fprintf(&sb, "%s = %s\n", l, tmps[i])
				}
			}
			lit := strings.TrimSpace(rs[idx])
			decided, val := false, false
			switch {
			case (lit == "true" || lit == "false") && (cmpLit == "true" || cmpLit == "false"):
				decided, val = true, lit == cmpLit
			case lit == "nil" && cmpLit == "nil":
				decided, val = true, true
			}
			if decided {
				if val != neg {
					sb.WriteString("{\n" + thenTxt + "\n}\n")
				} else if elseTxt != "" {
					sb.WriteString("{\n" + elseTxt + "\n}\n")
				}
			} else {
				sb.WriteString(ifTxt + "\n")
			}
			sb.WriteString("break " + label + "\n")
			return "{\n" + sb.String() + "}"
		}
	})
	if !ok || !okAll {
		return "", false
	}
	return pre.String() + blk, true
}
