package main

import (
	"fmt"
	"go/constant"
	"go/token"
	"go/types"
	"math"

	"golang.org/x/tools/go/ssa"
)

func init() { register("C18", "other", checkC18) }

// pathInterval derives [lo, hi] for the integer value at access path `key`
// from the comparisons against constants in fs.
func pathInterval(fs []Cmp, match func(ssa.Value) bool) (lo, hi int64, n int) {
	lo, hi = math.MinInt64, math.MaxInt64
	var excluded []int64
	defer func() {
		// x != k at an end of the interval shrinks it (x >= 0 && x != 0 is x >= 1)
		for changed := true; changed; {
			changed = false
			for _, k := range excluded {
				if k == lo && lo < hi {
					lo++
					changed = true
				}
				if k == hi && lo < hi {
					hi--
					changed = true
				}
			}
		}
	}()
	for _, f := range fs {
		x, y, op := f.X, f.Y, f.Op
		if _, isK := constInt(x); isK {
			x, y, op = y, x, swapOp(op)
		}
		k, isK := constInt(y)
		if !isK || !match(x) {
			continue
		}
		n++
		switch op {
		case token.GEQ:
			if k > lo {
				lo = k
			}
		case token.GTR:
			if k+1 > lo {
				lo = k + 1
			}
		case token.LEQ:
			if k < hi {
				hi = k
			}
		case token.LSS:
			if k-1 < hi {
				hi = k - 1
			}
		case token.EQL:
			if k > lo {
				lo = k
			}
			if k < hi {
				hi = k
			}
		case token.NEQ:
			excluded = append(excluded, k)
			n--
		}
	}
	return
}

type addrCtorSpec struct {
	name   string
	bits   string    // expected result, msb first, over parameter names a, b, c
	ranges [][2]int64 // documented range per argument
}

func checkC18(c *Check, p *Program) {
	c.Technique = "bit-provenance evaluation of the constructors and String operands against the documented bit fields; interval extraction from dominating comparison edges at every accepting exit of the parsers; edge-disjunction guard for the zero address; def-use of the parsed components"
	c.Explanation = "Decides: (1) the component constructors place every component in its documented field and drop bits outside the component's width (bit vectors equal the table 5/3/8, 5/11, 4/4/8, 8/8), the String methods print exactly those fields with the documented separators, so constructor(String operands(a)) is the identity on all 16 bits; (2) in both parsers every accepting exit (nil error) is a constructor call or raw conversion whose arguments are the parsed components in order, behind len(nums) == number of arguments, with the interval of every component - from the comparison edges that dominate the exit - EQUAL to the documented range (so a widened and a narrowed bound are both caught), the all-zero combination excluded on every incoming edge, conversions not truncating inside the interval; components come only from strconv.Atoi results appended behind err == nil, split on the documented separator; every other exit returns a non-nil error; (3) each range's upper bound equals the mask of the constructor argument it feeds. Not decided: that Atoi(Sprintf(\"%d\")) is the identity and that strings.Split splits (library contracts)."
	c.Trusted = []string{"go/types, go/ssa", "kxcheck bit provenance (E5) and dominating-edge facts", "strconv.Atoi, strings.Split, fmt.Sprintf contracts"}
	c.NotDecided = []string{"Atoi∘Sprintf identity and Split behaviour (library contracts)", "the full grammar of malformed strings beyond Atoi-error and component-count edges"}

	ctors := []addrCtorSpec{
		{"NewGroupAddr3", "a[4..0] b[2..0] c[7..0]", [][2]int64{{0, 31}, {0, 7}, {0, 255}}},
		{"NewGroupAddr2", "a[4..0] b[10..0]", [][2]int64{{0, 31}, {0, 2047}}},
		{"NewIndividualAddr3", "a[3..0] b[3..0] c[7..0]", [][2]int64{{0, 15}, {0, 15}, {0, 255}}},
		{"NewIndividualAddr2", "a[7..0] b[7..0]", [][2]int64{{0, 255}, {0, 255}}},
	}
	specOf := map[*ssa.Function]addrCtorSpec{}
	for _, cs := range ctors {
		fn := p.Func("knx/cemi", cs.name)
		if fn == nil {
			c.Fail("C18.ctor", "cemi."+cs.name, "", "constructor not found")
			continue
		}
		specOf[fn] = cs
		c.Analysed("functions", FuncName(fn))
		names := map[int]string{}
		for i := range fn.Params {
			names[i] = string(rune('a' + i))
		}
		alts := evalFunc(p, fn, names)
		want := wantBits(cs.bits)
		ok := len(alts) == 1 && alts[0].V != nil && alts[0].V.Equal(want)
		got := "<no single value>"
		if len(alts) >= 1 && alts[0].V != nil {
			got = alts[0].V.String()
		}
		c.Decide(ok, "C18.ctor", "cemi."+cs.name+" bit layout", p.Pos(fn.Pos()), "result = "+want.String(), "constructor yields ["+got+"], documented layout is ["+want.String()+"]: a component is misplaced or bits outside its width are not dropped")
		// (3) range upper bound == mask of the argument
		for i, r := range cs.ranges {
			nbits := 0
			if len(alts) == 1 && alts[0].V != nil {
				for _, b := range alts[0].V {
					if b.K == bsrc && b.Src == names[i] {
						nbits++
					}
				}
			}
			c.Decide(int64(1)<<uint(nbits)-1 == r[1], "C18.ctor", fmt.Sprintf("cemi.%s argument %s width matches range 0..%d", cs.name, names[i], r[1]), p.Pos(fn.Pos()), fmt.Sprintf("%d bits survive", nbits), fmt.Sprintf("%d bits of argument %s survive, documented range is 0..%d", nbits, names[i], r[1]))
		}
	}

	// String methods
	for _, st := range []struct {
		typ, format string
		ops         []string
	}{
		{"GroupAddr", "%d/%d/%d", []string{"000 addr[15..11]", "00000 addr[10..8]", "addr[7..0]"}},
		{"IndividualAddr", "%d.%d.%d", []string{"0000 addr[15..12]", "0000 addr[11..8]", "addr[7..0]"}},
	} {
		fn := p.Method("knx/cemi", st.typ, "String")
		if fn == nil {
			c.Fail("C18.string", "cemi."+st.typ+".String", "", "method not found")
			continue
		}
		c.Analysed("functions", FuncName(fn))
		var sp *ssa.Call
		instrsOf(fn, func(in ssa.Instruction) {
			if call, ok := in.(*ssa.Call); ok && funcIs(calleeObj(call), "fmt", "", "Sprintf") {
				sp = call
			}
		})
		if sp == nil {
			c.Fail("C18.string", "cemi."+st.typ+".String uses Sprintf", p.Pos(fn.Pos()), "not found")
			continue
		}
		fm, _ := sp.Common().Args[0].(*ssa.Const)
		okF := fm != nil && fm.Value != nil && fm.Value.Kind() == constant.String && constant.StringVal(fm.Value) == st.format
		c.Decide(okF, "C18.string", "cemi."+st.typ+".String format", p.InstrPos(sp), st.format, "format string is not "+st.format)
		items, _ := varargItems(sp.Common().Args[1])
		// items come back in use order; sort by index through their IndexAddr
		ordered := orderedVarargs(sp.Common().Args[1])
		if ordered != nil {
			items = ordered
		}
		c.Decide(len(items) == 3, "C18.string", "cemi."+st.typ+".String prints three components", p.InstrPos(sp), "3 operands", fmt.Sprintf("%d operands", len(items)))
		ev := &BitEval{P: p, Env: map[ssa.Value]BV{fn.Params[0]: bvSrc("addr", 16)}}
		for i, it := range items {
			if i >= len(st.ops) {
				break
			}
			v := it
			if mi, ok := v.(*ssa.MakeInterface); ok {
				v = mi.X
			}
			alts := ev.Eval(v)
			want := wantBits(st.ops[i])
			ok := len(alts) == 1 && alts[0].V != nil && alts[0].V.Equal(want)
			got := "?"
			if len(alts) >= 1 && alts[0].V != nil {
				got = alts[0].V.String()
			}
			c.Decide(ok, "C18.string", fmt.Sprintf("cemi.%s.String operand %d", st.typ, i), p.InstrPos(sp), "= "+want.String(), "operand is ["+got+"], documented field is ["+want.String()+"]")
		}
	}

	// parsers
	for _, ps := range []struct {
		name, sep, typ string
		three, two     string
	}{
		{"NewGroupAddrString", "/", "GroupAddr", "NewGroupAddr3", "NewGroupAddr2"},
		{"NewIndividualAddrString", ".", "IndividualAddr", "NewIndividualAddr3", "NewIndividualAddr2"},
	} {
		fn := p.Func("knx/cemi", ps.name)
		if fn == nil {
			c.Fail("C18.parse", "cemi."+ps.name, "", "parser not found")
			continue
		}
		c.Analysed("functions", FuncName(fn))
		pn := "cemi." + ps.name
		// split
		var split, atoi *ssa.Call
		instrsOf(fn, func(in ssa.Instruction) {
			if call, ok := in.(*ssa.Call); ok {
				if funcIs(calleeObj(call), "strings", "", "Split") {
					split = call
				}
				if funcIs(calleeObj(call), "strconv", "", "Atoi") {
					atoi = call
				}
			}
		})
		okSplit := false
		if split != nil {
			if k, ok := split.Common().Args[1].(*ssa.Const); ok && k.Value != nil && constant.StringVal(k.Value) == ps.sep && split.Common().Args[0] == ssa.Value(fn.Params[0]) {
				okSplit = true
			}
		}
		c.Decide(okSplit, "C18.parse", pn+" splits on "+ps.sep, p.Pos(fn.Pos()), "strings.Split(addr, \""+ps.sep+"\")", "the text is not split on the documented separator")
		if atoi == nil {
			c.Fail("C18.parse", pn+" uses strconv.Atoi", p.Pos(fn.Pos()), "not found")
			continue
		}
		// Atoi's argument is an element of the split result
		okEl := false
		if u, ok := atoi.Common().Args[0].(*ssa.UnOp); ok {
			if ia, ok := u.X.(*ssa.IndexAddr); ok && split != nil && ia.X == ssa.Value(split) {
				okEl = true
			}
		}
		c.Decide(okEl, "C18.parse", pn+" converts every split element", p.InstrPos(atoi), "Atoi(numstrings[i]) in a range loop", "Atoi is not applied to the elements of the split result")
		// nums: appends of Atoi results behind err == nil
		aerr := errOfCall(atoi)
		var aval ssa.Value
		for _, u := range usesOf(atoi) {
			if e, ok := u.(*ssa.Extract); ok && e.Index == 0 {
				aval = e
			}
		}
		var appends []ssa.Value
		okApp := true
		instrsOf(fn, func(in ssa.Instruction) {
			call, ok := in.(*ssa.Call)
			if !ok || builtinName(call) != "append" {
				return
			}
			appends = append(appends, call)
			items, _ := varargItems(call.Common().Args[1])
			if len(items) != 1 || items[0] != aval {
				okApp = false
			}
			if !anyFact(factsAt(call.Block()), func(f Cmp) bool {
				return f.Op == token.EQL && ((f.X == aerr && isNilConst(f.Y)) || (f.Y == aerr && isNilConst(f.X)))
			}) {
				okApp = false
			}
		})
		c.Decide(okApp && len(appends) == 1, "C18.parse", pn+" components are Atoi results behind err == nil", p.InstrPos(atoi), "nums = append(nums, i) only when Atoi succeeded", "a component enters nums without a successful Atoi")
		// the Atoi error edge returns a non-nil error
		for _, b := range fn.Blocks {
			for _, s := range b.Succs {
				f, ok := edgeFact(b, s)
				if !ok || !(f.Op == token.NEQ && ((f.X == aerr && isNilConst(f.Y)) || (f.Y == aerr && isNilConst(f.X)))) {
					continue
				}
				okE := true
				for rb := range reachableFrom(s, nil) {
					for _, in := range rb.Instrs {
						if r, isR := in.(*ssa.Return); isR && s.Dominates(rb) && p.returnMayBeNil(r, 1) {
							okE = false
						}
					}
				}
				c.Decide(okE && !reachableFrom(s, nil)[atoi.Block()], "C18.parse", pn+" non-numeric component is rejected", p.InstrPos(ifOf(b)), "the Atoi error edge returns an error", "a component that does not parse as a number does not lead to an error")
			}
		}
		isNums := func(v ssa.Value) bool { return sliceFlowsFrom(v, appends, 0) }
		compIdx := func(v ssa.Value) (int64, bool) {
			v = stripAllConv(v)
			u, ok := v.(*ssa.UnOp)
			if !ok || u.Op != token.MUL {
				return 0, false
			}
			ia, ok := u.X.(*ssa.IndexAddr)
			if !ok || !isNums(ia.X) {
				return 0, false
			}
			return constInt(ia.Index)
		}
		isComp := func(i int64) func(ssa.Value) bool {
			return func(v ssa.Value) bool { k, ok := compIdx(v); return ok && k == i }
		}
		lenFact := func(fs []Cmp, n int64) bool {
			return anyFact(fs, func(f Cmp) bool {
				if f.Op != token.EQL {
					return false
				}
				k, ok := constInt(f.Y)
				if !ok || k != n {
					return false
				}
				call, ok := f.X.(*ssa.Call)
				return ok && builtinName(call) == "len" && isNums(call.Common().Args[0])
			})
		}
		// accepting exits
		nAccept := 0
		for _, r := range returnsOf(fn) {
			if !p.returnMayBeNil(r, 1) {
				continue
			}
			nAccept++
			pos := p.InstrPos(r)
			facts := factsAt(r.Block())
			v := r.Results[0]
			var args []ssa.Value
			var ranges [][2]int64
			what := ""
			if call, ok := v.(*ssa.Call); ok && call.Common().StaticCallee() != nil {
				cs, known := specOf[call.Common().StaticCallee()]
				if !known || (cs.name != ps.three && cs.name != ps.two) {
					c.Fail("C18.parse", pn+" accepting exit", pos, "accepting exit builds the address with "+FuncName(call.Common().StaticCallee())+", not a constructor of this address kind")
					continue
				}
				args, ranges, what = call.Common().Args, cs.ranges, cs.name
				facts = factsAt(call.Block())
			} else if cv, ok := v.(*ssa.Convert); ok && isNamed(cv.Type(), cemiPath, ps.typ) {
				args, ranges, what = []ssa.Value{cv.X}, [][2]int64{{1, 65535}}, "raw"
			} else {
				c.Fail("C18.parse", pn+" accepting exit", pos, "accepting exit returns "+describe(v)+": not a component constructor or raw conversion")
				continue
			}
			key := fmt.Sprintf("%s accept %s", pn, what)
			c.Decide(lenFact(facts, int64(len(args))), "C18.parse", key+" component count", pos, fmt.Sprintf("behind len(nums) == %d", len(args)), fmt.Sprintf("the %s form is accepted without len(nums) == %d", what, len(args)))
			for i, arg := range args {
				k, ok := compIdx(arg)
				c.Decide(ok && k == int64(i), "C18.parse", fmt.Sprintf("%s argument %d is component %d", key, i, i), pos, fmt.Sprintf("nums[%d]", i), "constructor argument is "+describe(arg)+": components are swapped or another value is used")
				lo, hi, n := pathInterval(facts, isComp(int64(i)))
				want := ranges[i]
				c.Decide(n > 0 && lo == want[0] && hi == want[1], "C18.parse", fmt.Sprintf("%s component %d range", key, i), pos, fmt.Sprintf("[%d,%d] from the dominating comparisons", lo, hi), fmt.Sprintf("accepted interval of component %d is [%s,%s], documented range is [%d,%d]", i, ival(lo), ival(hi), want[0], want[1]))
				// conversion cannot truncate inside the interval
				if cv, ok := arg.(*ssa.Convert); ok {
					w, _, okw := typeWidth(cv.Type(), p.Arch)
					c.Decide(okw && hi >= 0 && (w >= 63 || hi < int64(1)<<uint(w)), "C18.parse", fmt.Sprintf("%s component %d conversion", key, i), pos, fmt.Sprintf("fits %d bits", w), "the accepted interval does not fit the conversion's width (truncation)")
				}
			}
			// zero excluded
			if what != "raw" {
				isNZ := func(f Cmp) bool {
					for i := range args {
						x, y, op := f.X, f.Y, f.Op
						if _, isK := constInt(x); isK {
							x, y, op = y, x, swapOp(op)
						}
						k, isK := constInt(y)
						if !isK || !isComp(int64(i))(x) {
							continue
						}
						if (op == token.NEQ && k == 0) || (op == token.GTR && k == 0) || (op == token.GEQ && k == 1) {
							return true
						}
					}
					return false
				}
				blk := r.Block()
				if call, ok := v.(*ssa.Call); ok {
					blk = call.Block()
				}
				c.Decide(guardedBy(blk, isNZ), "C18.parse", key+" zero address rejected", pos, "every edge into the accepting exit carries component != 0 for some component", "the all-zero address is accepted (or a non-zero address with some zero components is rejected: the guard is not the conjunction of all components)")
				// and the zero guard is the conjunction over ALL components: each component has a != 0 edge
				for i := range args {
					found := false
					for _, b := range fn.Blocks {
						for _, s := range b.Succs {
							f, ok := edgeFact(b, s)
							if !ok {
								continue
							}
							x, y, op := f.X, f.Y, f.Op
							if _, isK := constInt(x); isK {
								x, y, op = y, x, swapOp(op)
							}
							k, isK := constInt(y)
							if isK && k == 0 && op == token.NEQ && isComp(int64(i))(x) && lenFact(factsAt(b), int64(len(args))) && reachableFrom(s, nil)[blk] {
								found = true
							}
						}
					}
					c.Decide(found, "C18.parse", fmt.Sprintf("%s zero guard examines component %d", key, i), pos, "a != 0 edge of this component leads to acceptance", fmt.Sprintf("the zero-address guard does not test component %d: addresses whose other components are zero are wrongly rejected", i))
				}
			}
		}
		c.Exact("C18.parse", pn+" accepting exits", nAccept, 3, p.Pos(fn.Pos()))
	}
}

func ival(v int64) string {
	if v == math.MinInt64 {
		return "-inf"
	}
	if v == math.MaxInt64 {
		return "+inf"
	}
	return fmt.Sprint(v)
}

func stripAllConv(v ssa.Value) ssa.Value {
	for i := 0; i < 6; i++ {
		switch x := v.(type) {
		case *ssa.Convert:
			v = x.X
		case *ssa.ChangeType:
			v = x.X
		default:
			return v
		}
	}
	return v
}

// orderedVarargs returns the varargs items in index order.
func orderedVarargs(v ssa.Value) []ssa.Value {
	sl, ok := v.(*ssa.Slice)
	if !ok {
		return nil
	}
	arr, ok := sl.X.(*ssa.Alloc)
	if !ok {
		return nil
	}
	at, ok := deref(arr.Type()).Underlying().(*types.Array)
	if !ok {
		return nil
	}
	out := make([]ssa.Value, at.Len())
	for _, u := range usesOf(arr) {
		ia, ok := u.(*ssa.IndexAddr)
		if !ok {
			continue
		}
		k, ok := constInt(ia.Index)
		if !ok || k < 0 || k >= at.Len() {
			return nil
		}
		for _, su := range usesOf(ia) {
			if st, ok := su.(*ssa.Store); ok && st.Addr == ia {
				out[k] = st.Val
			}
		}
	}
	for _, x := range out {
		if x == nil {
			return nil
		}
	}
	return out
}
