package main

import (
	"encoding/json"
	"fmt"
	"os"
	"path/filepath"
	"sort"
	"strings"
	"time"
)

// An Obligation is one (rule, construct) pair.  Key never contains a line number.
type Obligation struct {
	Rule   string `json:"rule"`
	Key    string `json:"key"`
	Pos    string `json:"pos,omitempty"`
	OK     bool   `json:"ok"`
	Detail string `json:"detail,omitempty"` // fact that discharged it, or the reason it failed
}

func (o Obligation) ID() string { return o.Rule + " " + o.Key }

// Check accumulates the obligations of one property run.
type Check struct {
	Prop        string
	Tier        string
	Level       string
	Explanation string
	Technique   string
	Trusted     []string
	Assumptions []string
	NotDecided  []string

	P *Program

	quiet bool // sub-check evaluated for an import: no trace output

	obls     []Obligation
	seen     map[string]int
	analysed map[string]map[string]bool // category -> names
	notes    []string
	extra    map[string]interface{}
	internal []string // checker breakage (exit 2)
	start    time.Time
}

func NewCheck(prop, tier string) *Check {
	return &Check{Prop: prop, Tier: tier, seen: map[string]int{}, analysed: map[string]map[string]bool{}, extra: map[string]interface{}{}, start: time.Now()}
}

func (c *Check) add(o Obligation) {
	id := o.ID()
	if n, dup := c.seen[id]; dup {
		// Keys must be unique; disambiguate deterministically.
		c.seen[id] = n + 1
		o.Key = fmt.Sprintf("%s #%d", o.Key, n+1)
	} else {
		c.seen[id] = 1
	}
	c.obls = append(c.obls, o)
	if !c.quiet && os.Getenv("KX_TRACE") != "" && strings.Contains(o.Key+o.Rule, os.Getenv("KX_TRACE")) {
		st := "ok  "
		if !o.OK {
			st = "FAIL"
		}
		fmt.Fprintf(os.Stderr, "trace %s %s %s [%s] %s\n", st, o.Rule, o.Key, o.Pos, o.Detail)
	}
}

// OK records a discharged obligation.
func (c *Check) OK(rule, key, pos, fact string) {
	c.add(Obligation{Rule: rule, Key: key, Pos: pos, OK: true, Detail: fact})
}

// Fail records an undischarged obligation.
func (c *Check) Fail(rule, key, pos, reason string) {
	c.add(Obligation{Rule: rule, Key: key, Pos: pos, OK: false, Detail: reason})
}

// Decide records ok or failure in one call.
func (c *Check) Decide(ok bool, rule, key, pos, fact, reason string) bool {
	if ok {
		c.OK(rule, key, pos, fact)
	} else {
		c.Fail(rule, key, pos, reason)
	}
	return ok
}

// Floor fails when a rule matched fewer instances than confirmed by hand.
func (c *Check) Floor(rule, what string, got, min int) {
	key := "floor:" + what
	if got >= min {
		c.OK(rule, key, "", fmt.Sprintf("%d instance(s) analysed, floor %d", got, min))
	} else {
		c.Fail(rule, key, "", fmt.Sprintf("only %d instance(s) of %s found, floor is %d: the rule would pass vacuously (anchor renamed or removed?)", got, what, min))
	}
}

// Exact fails when the instance count differs.
func (c *Check) Exact(rule, what string, got, want int, pos string) {
	key := "count:" + what
	if got == want {
		c.OK(rule, key, pos, fmt.Sprintf("exactly %d", got))
	} else {
		c.Fail(rule, key, pos, fmt.Sprintf("%d instance(s) of %s, expected exactly %d", got, what, want))
	}
}

func (c *Check) Analysed(cat, name string) {
	m := c.analysed[cat]
	if m == nil {
		m = map[string]bool{}
		c.analysed[cat] = m
	}
	m[name] = true
}

func (c *Check) Note(format string, a ...interface{}) {
	c.notes = append(c.notes, fmt.Sprintf(format, a...))
}

func (c *Check) Extra(k string, v interface{}) { c.extra[k] = v }

// Internal records checker breakage (not a verdict about /repo).
func (c *Check) Internal(format string, a ...interface{}) {
	c.internal = append(c.internal, fmt.Sprintf(format, a...))
}

// ---------------------------------------------------------------------------

type knownFinding struct {
	Property string `json:"property"`
	Status   string `json:"status"` // "known" | "fixed"
	Key      string `json:"key"`    // obligation id: "<rule> <key>"
	What     string `json:"what"`
	Commit   string `json:"commit,omitempty"`
	Witness  string `json:"witness,omitempty"`
}

type knownFile struct {
	Comment  string         `json:"comment"`
	Findings []knownFinding `json:"findings"`
}

func loadKnown(verifDir string) ([]knownFinding, error) {
	b, err := os.ReadFile(filepath.Join(verifDir, "known_findings.json"))
	if err != nil {
		if os.IsNotExist(err) {
			return nil, nil
		}
		return nil, err
	}
	var kf knownFile
	if err := json.Unmarshal(b, &kf); err != nil {
		return nil, fmt.Errorf("known_findings.json: %v", err)
	}
	return kf.Findings, nil
}

// Finish prints the report, writes evidence and the replay file and returns
// the process exit code.
func (c *Check) Finish(verifDir string, cmdline string, seed int64) int {
	known, kerr := loadKnown(verifDir)
	if kerr != nil {
		c.Internal("%v", kerr)
	}
	knownSet := map[string]knownFinding{}
	for _, k := range known {
		if k.Property == c.Prop && k.Status == "known" {
			knownSet[k.Key] = k
		}
	}

	perRule := map[string][2]int{}
	var fails, knownHits []Obligation
	discharged := 0
	for _, o := range c.obls {
		pr := perRule[o.Rule]
		pr[0]++
		if o.OK {
			pr[1]++
			discharged++
		} else if _, isKnown := knownSet[o.ID()]; isKnown {
			knownHits = append(knownHits, o)
		} else {
			fails = append(fails, o)
		}
		perRule[o.Rule] = pr
	}

	rules := make([]string, 0, len(perRule))
	for r := range perRule {
		rules = append(rules, r)
	}
	sort.Strings(rules)

	fmt.Printf("== %s tier=%s level=%s arch=%s\n", c.Prop, c.Tier, c.Level, c.archs())
	for _, r := range rules {
		fmt.Printf("   rule %-28s obligations=%-4d discharged=%d\n", r, perRule[r][0], perRule[r][1])
	}
	cats := make([]string, 0, len(c.analysed))
	for k := range c.analysed {
		cats = append(cats, k)
	}
	sort.Strings(cats)
	for _, k := range cats {
		fmt.Printf("   analysed %-24s %d\n", k, len(c.analysed[k]))
	}
	for _, n := range c.notes {
		fmt.Printf("   note: %s\n", n)
	}
	for _, o := range knownHits {
		k := knownSet[o.ID()]
		fmt.Printf("KNOWN-FINDING: property=%s %s — %s (%s)\n", c.Prop, o.ID(), k.What, o.Pos)
	}
	// A "known" entry that no longer fires is reported (not an error: the
	// defect may have been repaired).
	for id := range knownSet {
		hit := false
		for _, o := range knownHits {
			if o.ID() == id {
				hit = true
			}
		}
		if !hit {
			fmt.Printf("   note: known finding %q did not fire on this tree\n", id)
		}
	}
	sort.SliceStable(fails, func(i, j int) bool { return fails[i].Pos < fails[j].Pos })
	for _, o := range fails {
		fmt.Printf("%s: %s: %s: %s\n", o.Pos, o.Rule, o.Key, o.Detail)
	}

	code := 0
	replay := filepath.Join(verifDir, "evidence", c.Prop+".violation.txt")
	if len(fails) > 0 {
		var sb strings.Builder
		fmt.Fprintf(&sb, "property %s — %d undischarged obligation(s)\nreplay: cd /verif && %s\n\n", c.Prop, len(fails), cmdline)
		for _, o := range fails {
			fmt.Fprintf(&sb, "%s\n    rule: %s\n    construct: %s\n    reason: %s\n", o.Pos, o.Rule, o.Key, o.Detail)
		}
		os.MkdirAll(filepath.Dir(replay), 0o755)
		os.WriteFile(replay, []byte(sb.String()), 0o644)
		fmt.Printf("VIOLATION property=%s replay=%s\n", c.Prop, replay)
		code = 1
	} else {
		os.Remove(replay)
	}
	if len(c.internal) > 0 {
		for _, m := range c.internal {
			fmt.Printf("INTERNAL: %s\n", m)
		}
		if code == 0 {
			code = 2
		}
	}

	// ---- evidence
	samples := c.samples(14)
	analysed := map[string][]string{}
	for _, k := range cats {
		var names []string
		for n := range c.analysed[k] {
			names = append(names, n)
		}
		sort.Strings(names)
		analysed[k] = names
	}
	ruleCounts := map[string]map[string]int{}
	for _, r := range rules {
		ruleCounts[r] = map[string]int{"obligations": perRule[r][0], "discharged": perRule[r][1]}
	}
	var knownOut []string
	for _, o := range knownHits {
		knownOut = append(knownOut, o.ID())
	}
	var failOut []Obligation
	failOut = append(failOut, fails...)
	cov := map[string]interface{}{
		"obligations":       len(c.obls),
		"discharged":        discharged,
		"known_findings":    knownOut,
		"checker_cmd":       cmdline,
		"trusted_base":      c.Trusted,
		"explanation":       c.Explanation,
		"not_decided":       c.NotDecided,
		"rule":              "an obligation is one (rule, construct) pair enumerated from the type-checked SSA of /repo's working tree; distinct = distinct obligation key; every one is non-trivial (it names a construct of /repo or an instance floor)",
		"evaluations":       len(c.obls),
		"distinct_nontrivial": len(c.seen),
		"samples":           samples,
		"per_rule":          ruleCounts,
		"analysed":          analysed,
		"undischarged":      failOut,
		"notes":             c.notes,
		"exhaustive":        true,
		"technique":         c.Technique,
	}
	for k, v := range c.extra {
		cov[k] = v
	}
	ev := map[string]interface{}{
		"property_id": c.Prop,
		"tier":        c.Tier,
		"seed":        seed,
		"level":       c.Level,
		"coverage":    cov,
		"assumptions": c.Assumptions,
		"wall_s":      float64(int(time.Since(c.start).Seconds()*100)) / 100,
		"violations":  len(fails),
	}
	if c.Assumptions == nil {
		ev["assumptions"] = []string{"the analysed source is the working tree of /repo at the time of the run; standard-library contracts as named in coverage.trusted_base"}
	}
	if c.Trusted == nil {
		cov["trusted_base"] = []string{"go/types, go/ssa (x/tools v0.29.0)", "kxcheck rules"}
	}
	if c.NotDecided == nil {
		cov["not_decided"] = []string{}
	}
	if c.notes == nil {
		cov["notes"] = []string{}
	}
	if knownOut == nil {
		cov["known_findings"] = []string{}
	}
	if failOut == nil {
		cov["undischarged"] = []Obligation{}
	}
	b, _ := json.MarshalIndent(ev, "", " ")
	os.MkdirAll(filepath.Join(verifDir, "evidence"), 0o755)
	if err := os.WriteFile(filepath.Join(verifDir, "evidence", c.Prop+".json"), append(b, '\n'), 0o644); err != nil {
		fmt.Printf("INTERNAL: cannot write evidence: %v\n", err)
		if code == 0 {
			code = 2
		}
	}
	fmt.Printf("== %s: obligations=%d discharged=%d known=%d violations=%d exit=%d (%.1fs)\n", c.Prop, len(c.obls), discharged, len(knownHits), len(fails), code, time.Since(c.start).Seconds())
	return code
}

func (c *Check) archs() string {
	if v, ok := c.extra["archs"]; ok {
		return fmt.Sprint(v)
	}
	return "amd64"
}

// samples picks a spread of obligations (first of each rule, then round-robin).
func (c *Check) samples(max int) []map[string]string {
	byRule := map[string][]Obligation{}
	var order []string
	for _, o := range c.obls {
		if _, ok := byRule[o.Rule]; !ok {
			order = append(order, o.Rule)
		}
		byRule[o.Rule] = append(byRule[o.Rule], o)
	}
	var out []map[string]string
	for round := 0; len(out) < max; round++ {
		any := false
		for _, r := range order {
			l := byRule[r]
			// skip floor/count pseudo-constructs in the first round
			idx := round
			if idx < len(l) {
				any = true
				o := l[idx]
				st := "discharged"
				if !o.OK {
					st = "UNDISCHARGED"
				}
				out = append(out, map[string]string{"rule": o.Rule, "construct": o.Key, "pos": o.Pos, "status": st, "fact": o.Detail})
				if len(out) >= max {
					break
				}
			}
		}
		if !any {
			break
		}
	}
	return out
}
