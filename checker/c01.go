package main

import (
	"fmt"
	"go/token"
	"go/types"
	"sort"
	"strings"

	"golang.org/x/tools/go/ssa"
)

func init() { register("C01", "proof", checkC01) }

// decodeSet computes D: every module function (outside package dpt) that is
// reachable from the decoder entry points through static calls and through
// Unpack invokes resolved over the module's types.
func decodeSet(p *Program) (all []*ssa.Function, shape map[*ssa.Function]bool, roots []*ssa.Function) {
	shape = map[*ssa.Function]bool{}
	seen := map[*ssa.Function]bool{}
	var work []*ssa.Function
	add := func(f *ssa.Function) {
		if f == nil || seen[f] || len(f.Blocks) == 0 || !p.InModule(f) {
			return
		}
		pk := fnPkg(f)
		if pk == nil || strings.HasSuffix(pk.Pkg.Path(), "/dpt") || strings.Contains(pk.Pkg.Path(), "/cmd/") {
			return
		}
		seen[f] = true
		work = append(work, f)
	}
	for _, r := range [][2]string{{"knx/knxnet", "Unpack"}, {"knx/knxnet", "UnpackHeader"}, {"knx/cemi", "Unpack"}, {"knx/util", "Unpack"}, {"knx/util", "UnpackSome"}, {"knx/util", "UnpackString"}} {
		if f := p.Func(r[0], r[1]); f != nil {
			roots = append(roots, f)
			add(f)
		}
	}
	// every Unpackable implementation of the three codec packages
	uo := p.Pkg("knx/util").Scope().Lookup("Unpackable")
	var ui *types.Interface
	if uo != nil {
		ui, _ = uo.Type().Underlying().(*types.Interface)
	}
	for _, nt := range p.allNamedTypes() {
		path := nt.Obj().Pkg().Path()
		if strings.HasSuffix(path, "/dpt") || ui == nil {
			continue
		}
		if _, isI := nt.Underlying().(*types.Interface); isI {
			continue
		}
		for _, t := range []types.Type{nt, types.NewPointer(nt)} {
			if types.Implements(t, ui) {
				if m := methodOf(p, nt, "Unpack"); m != nil {
					add(m)
				}
			}
		}
	}
	cg := p.CallGraph()
	for len(work) > 0 {
		f := work[len(work)-1]
		work = work[:len(work)-1]
		for _, e := range cg.Out[f] {
			if e.Kind == "invoke" && e.Callee.Name() != "Unpack" {
				continue // other interface methods (Printf of the logger) resolve to nothing in the module anyway
			}
			add(e.Callee)
		}
	}
	for f := range seen {
		all = append(all, f)
		if isDecodeShape(f) {
			shape[f] = true
		}
	}
	sort.Slice(all, func(i, j int) bool { return all[i].String() < all[j].String() })
	return
}

// externalAllowed: calls leaving the module that decode code may make, with
// the contract relied upon.
var externalAllowed = map[string]string{
	"bytes.TrimRight":                                   "returns a sub-slice of its argument, never panics",
	"(*golang.org/x/text/encoding.Decoder).Bytes":       "stateless charmap decoder, returns an error on failure",
	"errors.New":                                        "total",
	"(time.Time).Weekday":                               "total",
	"(time.Time).Hour":                                  "total",
	"(time.Time).Minute":                                "total",
	"(time.Time).Second":                                "total",
	"(time.Time).Nanosecond":                            "total",
	"(time.Time).Date":                                  "total",
	"(time.Time).Year":                                  "total",
	"(time.Time).Month":                                 "total",
	"(time.Time).Day":                                   "total",
	"(time.Time).YearDay":                               "total",
	"(time.Time).Unix":                                  "total",
	"(time.Time).IsZero":                                "total",
	"(time.Time).Equal":                                 "total",
	"(time.Time).UTC":                                   "total",
	"(time.Month).String":                               "total",
	"(time.Weekday).String":                             "total",
	"(time.Duration).String":                            "total",
	"(time.Duration).Seconds":                           "total",
	"(time.Duration).Milliseconds":                      "total",
	"fmt.Errorf":                                        "total",
	"fmt.Sprintf":                                       "total",
	"reflect.TypeOf":                                    "total for a non-nil interface",
	"(reflect.Type).String":                             "total",
	"(golang.org/x/text/encoding.Encoding).NewDecoder":  "total",
	"(*golang.org/x/text/encoding/charmap.Charmap).NewDecoder": "total",
}

// byteOrderWidth: octets touched by a fixed-width accessor of encoding/binary's byte orders (0: not one).
func byteOrderWidth(f *ssa.Function) int64 {
	name := f.String()
	for _, ord := range []string{"bigEndian", "littleEndian"} {
		for _, m := range []string{"Uint", "PutUint"} {
			for _, w := range []int64{16, 32, 64} {
				if name == fmt.Sprintf("(encoding/binary.%s).%s%d", ord, m, w) {
					return w / 8
				}
			}
		}
	}
	return 0
}

// byteOrderArgOK: the slice argument of the accessor is the input, a constant-offset tail of it or a constant
// window of it, and the dominating length guard leaves the octets the accessor touches.
func byteOrderArgOK(d *decodeCtx, call *ssa.Call, need int64) bool {
	args := call.Common().Args
	if len(args) < 2 {
		return false
	}
	arg := args[1]
	lb := d.lenLB(call.Block(), nil)
	if sl, isSl := arg.(*ssa.Slice); isSl && d.isData(sl.X) && sl.Max == nil {
		lo, isK := int64(0), true
		if sl.Low != nil {
			lo, isK = constInt(sl.Low)
		}
		if !isK || lo < 0 {
			return false
		}
		if sl.High == nil {
			return lb >= lo+need
		}
		hi, isH := constInt(sl.High)
		return isH && hi-lo >= need && lb >= hi
	}
	return d.isData(arg) && lb >= need
}

func posFileLine(p *Program, pos token.Pos) (string, int) {
	ps := p.Fset.Position(pos)
	f := strings.TrimPrefix(ps.Filename, p.RepoDir+"/")
	return f, ps.Line
}

// makeSliceOrigin follows a slice value to the MakeSlice that produced it
// (directly, or through a field of a fresh composite stored exactly once).
func makeSliceOrigin(v ssa.Value) *ssa.MakeSlice {
	switch x := v.(type) {
	case *ssa.MakeSlice:
		return x
	case *ssa.UnOp:
		if x.Op != token.MUL {
			return nil
		}
		if fa, ok := x.X.(*ssa.FieldAddr); ok {
			if al, ok := fa.X.(*ssa.Alloc); ok {
				f := structField(fa.X.Type(), fa.Field)
				sts := fieldStores(al)[f]
				if len(sts) == 1 {
					if mk, ok := sts[0].Val.(*ssa.MakeSlice); ok {
						return mk
					}
				}
			}
		}
	}
	return nil
}

// checkPanicFree emits, for every instruction of fn that can panic, one
// obligation under `rule`, discharged by the compiler listing (E3), by the
// bounded-offset prover (E2) or by typing facts.  withInput selects whether
// the (c) clause (no read above len) is judged too.
func checkPanicFree(c *Check, p *Program, rule string, fn *ssa.Function, pl *PanicListing, shape func(*ssa.Function) bool, ruleC string) (nIdx, nE3, nE2 int) {
	d := newDecodeCtx(p, fn, shape)
	name := FuncName(fn)
	counter := map[string]int{}
	key := func(kind string) string {
		counter[kind]++
		return fmt.Sprintf("%s %s#%d", name, kind, counter[kind])
	}
	for _, b := range fn.Blocks {
		if b == fn.Recover {
			continue
		}
		for _, in := range b.Instrs {
			pos := p.InstrPos(in)
			switch x := in.(type) {
			case *ssa.IndexAddr, *ssa.Index:
				var base, idx ssa.Value
				if ia, ok := x.(*ssa.IndexAddr); ok {
					base, idx = ia.X, ia.Index
				} else {
					base, idx = x.(*ssa.Index).X, x.(*ssa.Index).Index
				}
				// arrays with a constant index are checked by the type checker
				if at, ok := deref(base.Type()).Underlying().(*types.Array); ok {
					if k, isK := constInt(idx); isK && k >= 0 && k < at.Len() {
						continue
					}
				}
				if _, isStr := base.Type().Underlying().(*types.Basic); isStr {
					// string indexing
				}
				nIdx++
				k := key("index")
				file, line := posFileLine(p, in.Pos())
				if in.Pos().IsValid() && len(pl.IndexPanicsAt(file, line)) == 0 {
					nE3++
					c.OK(rule, k, pos, "compiler prove pass eliminated the bounds check (no bounds-panic call on this line)")
					continue
				}
				ok, why := false, "index not provably below the length"
				if off, isIn := d.base(base); isIn && d.data != nil {
					if off == nil && d.LT(idx, b) {
						ok, why = true, "guard implies index < len(input)"
					}
				} else if mk := makeSliceOrigin(base); mk != nil {
					if kk, isK := constInt(idx); isK && kk >= 0 && d.lb(mk.Len, b, 0) > kk {
						ok, why = true, "constant index below the lower bound of the made slice's length"
					}
				} else if isVarargsArray(base) {
					ok, why = true, "varargs array with constant index"
				} else if rangeIndexOK(x, base, idx) {
					ok, why = true, "range loop index over the same slice"
				} else if guardedIndexOK(base, idx, b) {
					ok, why = true, "0 <= index (counts up from 0) and the guard index < len of the same slice dominates"
				}
				if !ok && d.data != nil && d.linIndex(base, idx, b) {
					ok, why = true, "linear facts (guards, sub-slice geometry, summary H) imply 0 <= index < length"
				}
				if ok {
					nE2++
				}
				c.Decide(ok, rule, k, pos, why, "index expression can be out of range for some input: "+why)
			case *ssa.Slice:
				if _, isArr := deref(x.X.Type()).Underlying().(*types.Array); isArr && x.Low == nil && x.High == nil {
					continue // arr[:] needs no check
				}
				nIdx++
				k := key("slice")
				file, line := posFileLine(p, x.Pos())
				e3 := x.Pos().IsValid() && len(pl.SlicePanicsAt(file, line)) == 0
				off, isIn := d.base(x.X)
				if x.Max != nil && isIn {
					c.Fail(ruleC, k+" three-index slice of the input", pos, "capacity of the input is manipulated")
				}
				// (a) no panic
				ok, why := e3, "compiler prove pass eliminated the bounds check"
				if !ok && isIn && d.data != nil && off == nil {
					switch {
					case x.High == nil:
						if d.LE(x.Low, b) {
							ok, why = true, "low bound <= len(input) by guard / summary H"
						} else {
							why = "low bound not provably <= len(input)"
						}
					default:
						if d.LE(x.High, b) && d.LEQ(x.Low, x.High, b) {
							ok, why = true, "low <= high <= len(input) by guards"
						} else {
							why = "high bound not provably <= len(input) or low not <= high"
						}
					}
				} else if !ok && isIn && d.data != nil && off != nil {
					// a slice of a slice of the input: s = data[a:b]; s[k:] needs k <= b-a
					if inner, isInner := x.X.(*ssa.Slice); isInner && d.isData(inner.X) && inner.High != nil && x.High == nil {
						if k, isK := constInt(x.Low); isK {
							if bo, isB := stripIntConv(inner.High).(*ssa.BinOp); isB && bo.Op == token.ADD {
								for _, pr := range [][2]ssa.Value{{bo.X, bo.Y}, {bo.Y, bo.X}} {
									if (inner.Low == nil && false) || (inner.Low != nil && d.exprEq(pr[0], inner.Low) && d.lb(pr[1], b, 0) >= k) {
										ok, why = true, "sub-slice of a guarded block: its length is at least the constant low bound"
									}
								}
							}
						}
					}
					if !ok {
						why = "nested slice of the input not provably in range"
					}
				} else if !ok && !isIn {
					if at, isArr := deref(x.X.Type()).Underlying().(*types.Array); isArr {
						lo, hi := int64(0), at.Len()
						okB := true
						if x.Low != nil {
							lo, okB = constIntOK(x.Low)
						}
						if x.High != nil && okB {
							hi, okB = constIntOK(x.High)
						}
						if okB && 0 <= lo && lo <= hi && hi <= at.Len() {
							ok, why = true, "constant bounds inside the array"
						}
					}
					if mk := makeSliceOrigin(x.X); mk != nil && x.High == nil {
						if kk, isK := constInt(x.Low); isK && d.lb(mk.Len, b, 0) >= kk {
							ok, why = true, "constant low bound within the made slice"
						}
					}
				}
				linIn, linWithin := false, false
				if isIn && d.data != nil && (!ok || (x.High != nil && ruleC != "")) {
					linIn, linWithin = d.linSlice(x, b)
				}
				if !ok && linIn {
					ok, why = true, "linear facts (guards, sub-slice geometry, summary H) imply low <= high <= length"
				}
				if ok && !e3 {
					nE2++
				}
				if e3 {
					nE3++
				}
				c.Decide(ok, rule, k, pos, why, "slice expression can be out of range for some input: "+why)
				// (c) bytes beyond len(input) are never exposed
				if isIn && x.High != nil && ruleC != "" {
					okC := (off == nil && d.LE(x.High, b)) || linWithin
					c.Decide(okC, ruleC, k+" high bound within the input", pos, "high bound <= len(input): no byte beyond the datagram is exposed", "the slice's high bound is not provably <= len(input): bytes beyond the input's length (remnants of an earlier datagram in the same buffer) can be read")
				}
			case *ssa.TypeAssert:
				if !x.CommaOk {
					c.Fail(rule, key("typeassert"), pos, "type assertion without comma-ok can panic")
				}
			case *ssa.Panic:
				c.Fail(rule, key("panic"), pos, "explicit panic reachable from the decoder")
			case *ssa.BinOp:
				if x.Op == token.QUO || x.Op == token.REM {
					if k, ok := constInt(x.Y); !ok || k == 0 {
						if _, isFloat := x.Type().Underlying().(*types.Basic); isFloat && x.Type().Underlying().(*types.Basic).Info()&types.IsFloat != 0 {
							continue
						}
						c.Fail(rule, key("division"), pos, "division by a non-constant value")
					}
				}
			case *ssa.MakeSlice:
				okM := nonNeg(x.Len) || d.lb(x.Len, b, 0) >= 0
				c.Decide(okM, rule, key("make"), pos, "length is non-negative", "make with a possibly negative length")
			case *ssa.SliceToArrayPointer:
				c.Fail(rule, key("slice-to-array"), pos, "conversion panics when the slice is too short")
			case *ssa.MapUpdate:
				c.Fail(rule, key("map-update"), pos, "map write in decode code (nil map panics)")
			case *ssa.Call:
				cc := x.Common()
				if bn := builtinName(x); bn != "" {
					if bn == "cap" && ruleC != "" {
						if _, isIn := d.base(cc.Args[0]); isIn {
							c.Fail(ruleC, key("cap"), pos, "cap() of the input: capacity beyond len influences the result")
						}
					}
					continue
				}
				if cc.IsInvoke() {
					continue // judged below (receiver non-nil)
				}
				f := cc.StaticCallee()
				if f == nil {
					c.Fail(rule, key("dynamic-call"), pos, "call through a function value")
					continue
				}
				if p.InModule(f) {
					continue
				}
				if f.Object() != nil && isSyncAtomic(f.Object().(*types.Func)) {
					// total on the address of a variable or field; the one hazard
					// (a 64-bit word misaligned on 32-bit platforms) is PLATFORM.atomic64
					continue
				}
				if n := byteOrderWidth(f); n > 0 {
					// encoding/binary's fixed-width accessors index their argument: in range iff it holds n octets
					c.Decide(byteOrderArgOK(d, x, n), rule, key("byte-order access "+f.Name()), pos, fmt.Sprintf("the slice handed over holds at least %d octets by the dominating length guard", n), fmt.Sprintf("encoding/binary %s on a slice that may hold fewer than %d octets: it panics for some input", f.Name(), n))
					continue
				}
				if _, ok := externalAllowed[f.String()]; !ok {
					c.Fail(rule, key("external-call "+f.String()), pos, "call leaves the module to a function whose behaviour on arbitrary input is not on the allow-list")
				}
			}
		}
	}
	return
}

func constIntOK(v ssa.Value) (int64, bool) { return constInt(v) }

func isVarargsArray(v ssa.Value) bool {
	al, ok := v.(*ssa.Alloc)
	return ok && strings.Contains(al.Comment, "varargs")
}

// rangeIndexOK: s[i] where i is the index of a `for i := range s` loop over
// the same slice value (go/ssa rangeindex shape: i = phi(-1, i+1), i+1 < len(s)).
func rangeIndexOK(in ssa.Instruction, base, idx ssa.Value) bool {
	bo, ok := idx.(*ssa.BinOp)
	if !ok || bo.Op != token.ADD {
		return false
	}
	if k, isK := constInt(bo.Y); !isK || k != 1 {
		return false
	}
	ph, ok := bo.X.(*ssa.Phi)
	if !ok {
		return false
	}
	for _, f := range factsAt(in.Block()) {
		if f.Op == token.LSS && f.X == idx {
			if call, ok := f.Y.(*ssa.Call); ok && builtinName(call) == "len" && call.Common().Args[0] == base {
				_ = ph
				return true
			}
		}
	}
	return false
}

func checkC01(c *Check, p *Program) {
	c.Technique = "bounded-offset abstract interpretation over go/ssa (guards, inductive consumed-length summary H, copy contract, structural expression equality) cross-referenced with the Go compiler's bounds-check elimination listing; loop-progress and recursion-depth arguments; receiver-loop path rules"
	c.Explanation = "Obligations over the decode set D (every function reachable from knxnet.Unpack/UnpackHeader, cemi.Unpack, util.Unpack/UnpackSome/UnpackString and every Unpackable implementation outside package dpt): (a) every index and slice expression is in range - discharged by the compiler's prove pass (no bounds-panic call attributed to its line in the -S listing) or by the bounded-offset prover; no comma-less type assertion, explicit panic, non-constant division, negative make, map write or call outside an allow-list with stated contracts; (b) summary H: every return of a decode-shaped function whose error may be nil returns n <= len(input), proved assuming H at the calls inside D (co-inductive); (c) every slice of the input with an explicit high bound has high <= len(input), no three-index slice, no cap() of the input, no unsafe/reflect slice header, receivers hand buffer[:n] of the read that filled the buffer; (d) decode recursion descends an acyclic type-nesting graph and every loop in D advances its cursor by at least 1 per iteration towards a loop-invariant bound; (e) both socket receivers drop an undecodable frame and continue, forward each decoded frame exactly once, and end only on a read/framing error."
	c.Trusted = []string{"go/types, go/ssa (x/tools v0.29.0)", "the Go compiler's prove pass (an eliminated bounds check is a proved one)", "kxcheck bounded-offset prover (decode.go)", "contracts of copy, bytes.TrimRight, x/text charmap Decoder.Bytes, io.ReadFull, net.UDPConn.ReadFromUDP"}
	c.Assumptions = []string{"callers outside the module pass non-nil out-pointers (the property's input is the byte string)", "out-of-memory is not a panic of the decoder"}
	c.NotDecided = []string{}

	pl, err := p.compilerListing()
	if err != nil {
		c.Internal("%v", err)
		return
	}
	all, shapeSet, roots := decodeSet(p)
	shape := func(f *ssa.Function) bool { return shapeSet[f] }
	c.Floor("C01.a", "decoder entry points", len(roots), 6)
	c.Floor("C01.a", "functions in the decode set", len(all), 28)
	nShape := 0
	for _, f := range all {
		c.Analysed("decode set", FuncName(f))
		if shapeSet[f] {
			nShape++
		}
	}
	c.Floor("C01.b", "decode-shaped functions (obey summary H)", nShape, 24)

	// ---- (a) + (c)
	tIdx, tE3, tE2 := 0, 0, 0
	for _, f := range all {
		a, b, e := checkPanicFree(c, p, "C01.a", f, pl, shape, "C01.c")
		tIdx, tE3, tE2 = tIdx+a, tE3+b, tE2+e
		// unsafe / reflect.SliceHeader
		instrsOf(f, func(in ssa.Instruction) {
			if cv, ok := in.(*ssa.Convert); ok {
				if b, ok := cv.Type().Underlying().(*types.Basic); ok && b.Kind() == types.UnsafePointer {
					c.Fail("C01.c", FuncName(f)+" unsafe", p.InstrPos(in), "unsafe.Pointer in decode code")
				}
			}
		})
	}
	// ---- (c) no decoded value aliases the input
	inSet := map[*ssa.Function]bool{}
	for _, f := range all {
		inSet[f] = true
	}
	for _, f := range all {
		checkNoAlias(c, p, "C01.c", f, inSet)
	}
	c.Note("index/slice expressions in D: %d; compiler-proved: %d; proved by the bounded-offset prover: %d", tIdx, tE3, tE2)
	c.Extra("index_slice_sites", tIdx)
	c.Extra("compiler_proved", tE3)
	c.Extra("prover_proved", tE2)
	c.Floor("C01.a", "index/slice expressions judged", tIdx, 30)
	// every bounds-panic call the compiler left inside D must belong to a judged instruction line
	// (cross-check: a line with a panic call but no SSA index/slice instruction would be a blind spot)
	judged := map[string]bool{}
	for _, f := range all {
		instrsOf(f, func(in ssa.Instruction) {
			switch in.(type) {
			case *ssa.IndexAddr, *ssa.Index, *ssa.Slice:
				file, line := posFileLine(p, in.Pos())
				judged[fmt.Sprintf("%s:%d", file, line)] = true
			}
		})
	}
	for _, f := range all {
		if f.Pos() == token.NoPos || f.Syntax() == nil {
			continue
		}
		file, l0 := posFileLine(p, f.Syntax().Pos())
		_, l1 := posFileLine(p, f.Syntax().End())
		for ln := l0; ln <= l1; ln++ {
			if ks := pl.BoundsPanicsAt(file, ln); len(ks) > 0 {
				c.Decide(judged[fmt.Sprintf("%s:%d", file, ln)], "C01.a", fmt.Sprintf("%s residual bounds check at %s:%d accounted for", FuncName(f), file, ln-l0), fmt.Sprintf("%s:%d", file, ln), "matched by an index/slice instruction that was judged", "the compiler kept a bounds check on this line but no SSA index/slice instruction was found there")
			}
		}
	}

	// ---- (b) H
	for _, f := range all {
		if !shapeSet[f] {
			continue
		}
		d := newDecodeCtx(p, f, shape)
		for i, r := range returnsOf(f) {
			if len(r.Results) != 2 || !p.returnMayBeNil(r, 1) {
				continue
			}
			// calls whose error is returned alongside
			d.retErrCalls = map[ssa.Value]bool{}
			for _, ev := range resultValues(r, 1) {
				if e, ok := ev.(*ssa.Extract); ok && e.Index == 1 {
					d.retErrCalls[e.Tuple] = true
				}
			}
			d.memo = map[leKey]int{}
			okH := true
			ph0, isP0 := r.Results[0].(*ssa.Phi)
			ph1, isP1 := r.Results[1].(*ssa.Phi)
			if isP0 && isP1 && ph0.Block() == ph1.Block() {
				// count and error are chosen by the same edge: judge edge by edge
				for ei := range ph0.Edges {
					ev := ph1.Edges[ei]
					pred := ph0.Block().Preds[ei]
					if !p.mayBeNil(ev, pred) {
						continue
					}
					d.retErrCalls = map[ssa.Value]bool{}
					if e, ok := ev.(*ssa.Extract); ok && e.Index == 1 {
						d.retErrCalls[e.Tuple] = true
					}
					d.memo = map[leKey]int{}
					if !d.leOnEdge(ph0.Edges[ei], pred, ph0.Block()) {
						okH = false
					}
				}
			} else {
				for _, v := range resultValues(r, 0) {
					if !d.LE(v, r.Block()) && !d.linLE(v, r.Block()) {
						okH = false
					}
				}
			}
			d.retErrCalls = nil
			c.Decide(okH, "C01.b", fmt.Sprintf("%s return#%d consumed <= len(input)", FuncName(f), i), p.InstrPos(r), "returned count is bounded by the input length whenever the error may be nil", "a successful return can report more consumed bytes than the input holds (callers then slice past the datagram)")
		}
	}

	// ---- (c) receivers hand exactly the bytes read
	udp, tcp := receivers(p)
	if udp == nil || tcp == nil {
		c.Fail("C01.c", "socket receivers", "", "not found")
	} else {
		checkUDPSlice(c, p, "C01.c", udp)
		unpack := p.Func("knx/knxnet", "Unpack")
		instrsOf(tcp, func(in ssa.Instruction) {
			if !staticCallTo(in, unpack) {
				return
			}
			okArg := false
			if sl, ok := in.(*ssa.Call).Common().Args[0].(*ssa.Slice); ok && sl.Low == nil && sl.Max == nil {
				if e, ok := sl.High.(*ssa.Extract); ok && e.Index == 0 {
					if call, ok := e.Tuple.(*ssa.Call); ok && funcIs(calleeObj(call), "io", "", "ReadFull") && call.Common().Args[1] == sl.X {
						okArg = true
					}
				}
			}
			c.Decide(okArg, "C01.c", FuncName(tcp)+" decodes exactly the bytes read", p.InstrPos(in), "Unpack(buf[:n]) with n the io.ReadFull count for buf", "the TCP receiver hands the decoder more (or other) bytes than were read")
		})
		// package-level state read by D: only the logger, the string decoder and error values
		for _, f := range all {
			instrsOf(f, func(in ssa.Instruction) {
				u, ok := in.(*ssa.UnOp)
				if !ok || u.Op != token.MUL {
					return
				}
				g, ok := u.X.(*ssa.Global)
				if !ok {
					return
				}
				logSink := p.Func("knx/util", "Log")
				// encoding/binary's byte orders are values of empty struct types: nothing to mutate
				if st, isSt := deref(g.Type()).Underlying().(*types.Struct); isSt && st.NumFields() == 0 && g.Pkg != nil && g.Pkg.Pkg.Path() == "encoding/binary" {
					return
				}
				okG := (logSink != nil && topOf(f) == logSink) || g.Name() == "Logger" || g.Name() == "stringDecoder" || g.Name() == "longestLogger" || types.Identical(deref(g.Type()), types.Universe.Lookup("error").Type()) || g.Name() == "stringCharmap"
				c.Decide(okG, "C01.c", FuncName(f)+" reads global "+g.Name(), p.InstrPos(in), "logger / stateless decoder / error value", "decode result depends on mutable package-level state")
			})
		}
	}

	// ---- (d) termination
	checkDecodeTermination(c, p, all, shapeSet)

	// ---- (e) receivers
	if udp != nil && tcp != nil {
		checkHeaderValidation(c, p, "C01.e")
		checkLogSubjects(c, p, "C01.a")
		checkReceiverLoop(c, p, "C01.e", udp)
		checkReceiverLoop(c, p, "C01.e", tcp)
		checkReceiverProgress(c, p, udp, tcp)
	}
}

// minConsume: lower bound of bytes a successful call of decode-shaped fn consumes.
func minConsume(p *Program, fn *ssa.Function, shape map[*ssa.Function]bool, busy map[*ssa.Function]bool) int64 {
	if busy[fn] {
		return 0
	}
	busy[fn] = true
	defer delete(busy, fn)
	best := int64(-1)
	var val func(v ssa.Value, depth int) int64
	widthOf := func(t types.Type) int64 {
		if pt, ok := t.(*types.Pointer); ok {
			if w, _, ok := typeWidth(pt.Elem(), "amd64"); ok {
				return int64(w / 8)
			}
			// pointer to a type with an Unpack method
			if nt := namedOf(pt.Elem()); nt != nil {
				if m := methodOf(p, nt, "Unpack"); m != nil && shape[m] {
					return minConsume(p, m, shape, busy)
				}
			}
		}
		return 0
	}
	val = func(v ssa.Value, depth int) int64 {
		if depth > 6 {
			return 0
		}
		if k, ok := constInt(v); ok && k >= 0 {
			return k
		}
		switch x := stripIntConv(v).(type) {
		case *ssa.BinOp:
			if x.Op == token.ADD {
				return val(x.X, depth+1) + val(x.Y, depth+1)
			}
		case *ssa.Phi:
			m := int64(-1)
			for _, e := range x.Edges {
				if e == ssa.Value(x) {
					continue
				}
				k := val(e, depth+1)
				if m < 0 || k < m {
					m = k
				}
			}
			if m < 0 {
				return 0
			}
			return m
		case *ssa.Extract:
			call, ok := x.Tuple.(*ssa.Call)
			if !ok || x.Index != 0 {
				return 0
			}
			f := call.Common().StaticCallee()
			if f == nil {
				return 0
			}
			if f.Name() == "UnpackSome" && fnPkg(f).Pkg.Path() == utilPath {
				items, opaque := ifaceArgs(call, true)
				if opaque {
					return 0
				}
				s := int64(0)
				for _, it := range items {
					if mi, ok := it.(*ssa.MakeInterface); ok {
						s += widthOf(mi.X.Type())
					}
				}
				return s
			}
			if f.Name() == "Unpack" && fnPkg(f).Pkg.Path() == utilPath {
				if mi, ok := call.Common().Args[1].(*ssa.MakeInterface); ok {
					return widthOf(mi.X.Type())
				}
				return 0
			}
			if shape[f] {
				return minConsume(p, f, shape, busy)
			}
		}
		return 0
	}
	for _, r := range returnsOf(fn) {
		if len(r.Results) != 2 || !p.returnMayBeNil(r, 1) {
			continue
		}
		for _, v := range resultValues(r, 0) {
			k := val(v, 0)
			if best < 0 || k < best {
				best = k
			}
		}
	}
	if best < 0 {
		return 0
	}
	return best
}

func checkDecodeTermination(c *Check, p *Program, all []*ssa.Function, shape map[*ssa.Function]bool) {
	// type nesting graph: T -> U when T.Unpack hands a *U (or calls U.Unpack)
	edges := map[string]map[string]bool{}
	owner := func(f *ssa.Function) string {
		if f.Signature.Recv() != nil {
			if nt := namedOf(f.Signature.Recv().Type()); nt != nil {
				return nt.Obj().Pkg().Name() + "." + nt.Obj().Name()
			}
		}
		return ""
	}
	cg := p.CallGraph()
	for _, f := range all {
		from := owner(f)
		if from == "" || f.Name() != "Unpack" {
			continue
		}
		if edges[from] == nil {
			edges[from] = map[string]bool{}
		}
		// through util.Unpack/UnpackSome arguments
		instrsOf(f, func(in ssa.Instruction) {
			call, ok := in.(ssa.CallInstruction)
			if !ok {
				return
			}
			for _, name := range []string{"Unpack", "UnpackSome"} {
				if callIs(call, utilPath, "", name) {
					vals, _ := ifaceArgs(call, name == "UnpackSome")
					for _, v := range vals {
						if mi, ok := v.(*ssa.MakeInterface); ok {
							if nt := namedOf(mi.X.Type()); nt != nil && methodOf(p, nt, "Unpack") != nil {
								edges[from][nt.Obj().Pkg().Name()+"."+nt.Obj().Name()] = true
							}
						}
					}
				}
			}
		})
		// direct / invoked Unpack calls and decode functions that dispatch
		var visit func(g *ssa.Function, depth int)
		seenF := map[*ssa.Function]bool{}
		visit = func(g *ssa.Function, depth int) {
			if seenF[g] || depth > 4 {
				return
			}
			seenF[g] = true
			for _, e := range cg.Out[g] {
				if to := owner(e.Callee); to != "" && e.Callee.Name() == "Unpack" {
					if e.Kind == "invoke" {
						// an invoke of Unpackable.Unpack inside util.Unpack is the generic recursion, accounted by argument types
						if fnPkg(g).Pkg.Path() == utilPath {
							continue
						}
					}
					edges[from][to] = true
				} else if owner(e.Callee) == "" && fnPkg(e.Callee) != nil && fnPkg(e.Callee).Pkg.Path() != utilPath {
					visit(e.Callee, depth+1) // package-level helpers (cemi.Unpack, unpackTransportUnit)
				}
			}
		}
		visit(f, 0)
	}
	// cycle detection
	state := map[string]int{}
	var cyc []string
	var dfs func(n string, path []string)
	depthMax := 0
	dfs = func(n string, path []string) {
		if state[n] == 1 {
			cyc = append(append([]string{}, path...), n)
			return
		}
		if state[n] == 2 {
			return
		}
		state[n] = 1
		if len(path)+1 > depthMax {
			depthMax = len(path) + 1
		}
		var tos []string
		for t := range edges[n] {
			tos = append(tos, t)
		}
		sort.Strings(tos)
		for _, t := range tos {
			dfs(t, append(path, n))
		}
		state[n] = 2
	}
	var nodes []string
	for n := range edges {
		nodes = append(nodes, n)
	}
	sort.Strings(nodes)
	for _, n := range nodes {
		dfs(n, nil)
	}
	c.Decide(len(cyc) == 0, "C01.d", "type nesting graph of the decoders is acyclic", "", fmt.Sprintf("%d types, maximum nesting depth %d", len(nodes), depthMax), "decode recursion can cycle: "+strings.Join(cyc, " -> "))
	c.Floor("C01.d", "types in the nesting graph", len(nodes), 20)

	// loops
	nLoops := 0
	for _, f := range all {
		for _, lp := range loopsOf(f) {
			nLoops++
			name := FuncName(f)
			pos := p.InstrPos(lp.Header.Instrs[0])
			ok, why := loopProgresses(p, f, lp, shape)
			c.Decide(ok, "C01.d", fmt.Sprintf("%s loop@b%d makes progress", name, lp.Header.Index), pos, why, "this loop is not shown to advance towards its bound on every iteration ("+why+"): some input can make the decoder spin for ever")
		}
	}
	c.Floor("C01.d", "loops in the decode set", nLoops, 3)
}

// loopProgresses: the loop has an exit test comparing a header phi against a
// loop-invariant bound and every back-edge value of that phi is phi + delta
// with delta >= 1 (constant, guarded lower bound, or minimum consumption of a
// successful decode call).
func loopProgresses(p *Program, fn *ssa.Function, lp *loopInfo, shape map[*ssa.Function]bool) (bool, string) {
	d := newDecodeCtx(p, fn, func(f *ssa.Function) bool { return shape[f] })
	for _, in := range lp.Header.Instrs {
		ph, ok := in.(*ssa.Phi)
		if !ok {
			continue
		}
		// is the phi (or phi+1) tested against a bound on an exit branch?
		tested := false
		for b := range lp.Body {
			iff := ifOf(b)
			if iff == nil {
				continue
			}
			exits := false
			for _, s := range b.Succs {
				if !lp.Body[s] {
					exits = true
				}
			}
			if !exits {
				continue
			}
			cm, _ := cmpOf(iff.Cond, true)
			for _, side := range []ssa.Value{cm.X, cm.Y} {
				sv := stripIntConv(side)
				if sv == ssa.Value(ph) {
					tested = true
				}
				if bo, ok := sv.(*ssa.BinOp); ok && bo.Op == token.ADD && stripIntConv(bo.X) == ssa.Value(ph) {
					tested = true
				}
			}
		}
		if !tested {
			continue
		}
		all := true
		desc := ""
		for i, e := range ph.Edges {
			pred := lp.Header.Preds[i]
			if !lp.Body[pred] {
				continue // entry edge
			}
			bo, ok := stripIntConv(e).(*ssa.BinOp)
			if !ok || bo.Op != token.ADD {
				all = false
				desc = "back-edge value is not cursor + delta"
				break
			}
			var delta ssa.Value
			switch {
			case stripIntConv(bo.X) == ssa.Value(ph):
				delta = bo.Y
			case stripIntConv(bo.Y) == ssa.Value(ph):
				delta = bo.X
			default:
				all = false
				desc = "back-edge value is not cursor + delta"
			}
			if delta == nil {
				break
			}
			// the facts that matter hold where the iteration ends (the latch), the
			// value may have been computed earlier
			l := d.lb(delta, pred, 0)
			if bi, ok := e.(ssa.Instruction); ok {
				if l2 := d.lb(delta, bi.Block(), 0); l2 > l {
					l = l2
				}
			}
			if l < 1 {
				// minimum consumption of a decode call behind err == nil
				if ex, ok := stripIntConv(delta).(*ssa.Extract); ok && ex.Index == 0 {
					if call, ok := ex.Tuple.(*ssa.Call); ok && d.errNilAt(call, pred) {
						if f := call.Common().StaticCallee(); f != nil && shape[f] {
							l = minConsume(p, f, shape, map[*ssa.Function]bool{})
						}
					}
				}
			}
			if l < 1 {
				all = false
				desc = fmt.Sprintf("delta %s has lower bound %d", describe(delta), l)
				break
			}
			desc += fmt.Sprintf("delta>=%d ", l)
		}
		if all {
			return true, "cursor " + ph.Comment + " advances: " + strings.TrimSpace(desc)
		}
		return false, desc
	}
	return false, "no cursor compared against a bound on an exit branch"
}

// checkReceiverProgress: every iteration of a receiver loop passes a read
// that blocks or consumes at least one byte.
func checkReceiverProgress(c *Check, p *Program, udp, tcp *ssa.Function) {
	// UDP: ReadFromUDP at the top of every iteration
	for _, lp := range loopsOf(udp) {
		var read *ssa.Call
		for b := range lp.Body {
			for _, in := range b.Instrs {
				if call, ok := in.(*ssa.Call); ok && funcIs(calleeObj(call), "net", "UDPConn", "ReadFromUDP") {
					read = call
				}
			}
		}
		ok := read != nil
		if ok {
			for _, l := range lp.Latches {
				if !read.Block().Dominates(l) {
					ok = false
				}
			}
		}
		c.Decide(ok, "C01.d", FuncName(udp)+" every iteration reads one datagram", p.InstrPos(lp.Header.Instrs[0]), "ReadFromUDP dominates every back edge", "an iteration of the UDP receiver can complete without reading")
	}
	for _, lp := range loopsOf(tcp) {
		var rf *ssa.Call
		for b := range lp.Body {
			for _, in := range b.Instrs {
				if call, ok := in.(*ssa.Call); ok && funcIs(calleeObj(call), "io", "", "ReadFull") {
					rf = call
				}
			}
		}
		ok := rf != nil
		why := "no io.ReadFull"
		if ok {
			for _, l := range lp.Latches {
				if !rf.Block().Dominates(l) {
					ok, why = false, "a back edge bypasses io.ReadFull"
				}
			}
			// the buffer has at least one byte: make([]byte, totalLen) behind totalLen >= 1
			d := newDecodeCtx(p, tcp, func(*ssa.Function) bool { return false })
			if mk, isMk := rf.Common().Args[1].(*ssa.MakeSlice); isMk {
				if d.lb(mk.Len, rf.Block(), 0) < 1 {
					ok, why = false, "the frame buffer may be empty (announced total length 0): ReadFull consumes nothing and the same header is peeked again for ever"
				}
			} else {
				ok, why = false, "buffer is not a fresh make"
			}
		}
		c.Decide(ok, "C01.d", FuncName(tcp)+" every iteration consumes at least one byte", p.InstrPos(lp.Header.Instrs[0]), "io.ReadFull into a buffer of length >= 1 dominates every back edge", why)
	}
}

// checkNoAlias: a decode function keeps no reference into its input.  The
// receivers decode every datagram from one reused buffer, so a decoded value
// that still points into the input changes when the next datagram arrives.
// Taint: the input parameter and every slice expression / conversion / phi /
// local copy of it.  Sinks: a store of a tainted value anywhere but a local
// variable, a return, a send, a closure capture, append onto it, copy into
// it.  Passing it on to another function of the decode set is fine (judged
// there); string(x) and copy(dst, x) copy.
func checkNoAlias(c *Check, p *Program, rule string, fn *ssa.Function, inSet map[*ssa.Function]bool) {
	data := inputParam(fn)
	if data == nil {
		return
	}
	name := FuncName(fn)
	tainted := map[ssa.Value]bool{data: true}
	localCell := func(a ssa.Value) *ssa.Alloc {
		al, ok := a.(*ssa.Alloc)
		if !ok {
			return nil
		}
		if _, esc := cellWriters(al); esc {
			return nil
		}
		// a cell whose address is handed to a call is not local for this purpose
		ws, _ := cellWriters(al)
		for _, w := range ws {
			if _, isSt := w.(*ssa.Store); !isSt {
				return nil
			}
		}
		return al
	}
	isSliceLike := func(t types.Type) bool {
		switch t.Underlying().(type) {
		case *types.Slice:
			return true
		}
		return false
	}
	for changed := true; changed; {
		changed = false
		mark := func(v ssa.Value) {
			if !tainted[v] {
				tainted[v] = true
				changed = true
			}
		}
		instrsOf(fn, func(in ssa.Instruction) {
			switch x := in.(type) {
			case *ssa.Slice:
				if tainted[x.X] {
					mark(x)
				}
			case *ssa.ChangeType:
				if tainted[x.X] {
					mark(x)
				}
			case *ssa.Convert:
				if tainted[x.X] && isSliceLike(x.Type()) {
					mark(x)
				}
			case *ssa.Phi:
				for _, e := range x.Edges {
					if tainted[e] {
						mark(x)
					}
				}
			case *ssa.UnOp:
				if x.Op == token.MUL {
					if al := localCell(x.X); al != nil {
						for _, st := range cellStores(al) {
							if tainted[st.Val] {
								mark(x)
							}
						}
					}
				}
			case *ssa.Call:
				// library helpers that return a sub-slice of their argument
				if o := calleeObj(x); o != nil && o.Pkg() != nil && o.Pkg().Path() == "bytes" && isSliceLike(x.Type()) {
					for _, a := range x.Common().Args {
						if tainted[a] {
							mark(x)
						}
					}
				}
			}
		})
	}
	bad := func(in ssa.Instruction, why string) {
		c.Fail(rule, name+" keeps a reference into its input", p.InstrPos(in), why+": the decoded value changes when the receive buffer is reused for the next datagram (or the input is written)")
	}
	n := 0
	instrsOf(fn, func(in ssa.Instruction) {
		switch x := in.(type) {
		case *ssa.Store:
			if tainted[x.Val] && localCell(x.Addr) == nil {
				n++
				bad(in, "a slice of the input is stored into "+describe(x.Addr))
			}
			if ia, ok := x.Addr.(*ssa.IndexAddr); ok && tainted[ia.X] {
				n++
				bad(in, "an element of the input is assigned")
			}
		case *ssa.Return:
			for _, r := range x.Results {
				if tainted[r] {
					n++
					bad(in, "a slice of the input is returned")
				}
			}
		case *ssa.Send:
			if tainted[x.X] {
				n++
				bad(in, "a slice of the input is sent on a channel")
			}
		case *ssa.MakeClosure:
			for _, b := range x.Bindings {
				if tainted[b] {
					n++
					bad(in, "a slice of the input is captured by a closure")
				}
			}
		case *ssa.MakeInterface:
			if tainted[x.X] {
				// boxed: fine when it only travels to calls of the decode set (varargs of the generic unpacker); a store is caught above
				for _, u := range usesOf(x) {
					if st, ok := u.(*ssa.Store); ok && localCell(st.Addr) == nil {
						if ia, isIA := st.Addr.(*ssa.IndexAddr); !isIA || !isVarargsArray(ia.X) {
							n++
							bad(in, "a slice of the input is boxed and stored")
						}
					}
				}
			}
		case *ssa.Call:
			switch builtinName(x) {
			case "append":
				if tainted[x.Common().Args[0]] {
					n++
					bad(in, "append onto a slice of the input (writes into the input's backing array)")
				}
			case "copy":
				if tainted[x.Common().Args[0]] {
					n++
					bad(in, "copy into the input")
				}
			case "":
				callee := x.Common().StaticCallee()
				if callee != nil && p.InModule(callee) && !inSet[callee] {
					for _, a := range x.Common().Args {
						if tainted[a] {
							n++
							bad(in, "a slice of the input is handed to "+FuncName(callee)+", which is not part of the decode set")
						}
					}
				}
			}
		}
	})
	if n == 0 {
		c.OK(rule, name+" keeps no reference into its input", p.Pos(fn.Pos()), "no store, return, send or capture of a slice of the input")
	}
}

// guardedIndexOK: base[idx] behind the fact idx < len(base) with idx known
// non-negative (unsigned, or a loop counter that starts at a non-negative
// constant and only grows).
func guardedIndexOK(base, idx ssa.Value, b *ssa.BasicBlock) bool {
	nonNegIdx := nonNeg(idx)
	if ph, ok := idx.(*ssa.Phi); ok && !nonNegIdx {
		nonNegIdx = true
		for _, e := range ph.Edges {
			if k, isK := constInt(e); isK && k >= 0 {
				continue
			}
			if bo, isB := e.(*ssa.BinOp); isB && bo.Op == token.ADD && bo.X == ssa.Value(ph) {
				if k, isK := constInt(bo.Y); isK && k >= 0 {
					continue
				}
			}
			nonNegIdx = false
		}
	}
	if !nonNegIdx {
		return false
	}
	for _, f := range factsAt(b) {
		if f.Op != token.LSS || f.X != idx {
			continue
		}
		if call, ok := f.Y.(*ssa.Call); ok && builtinName(call) == "len" && call.Common().Args[0] == base {
			return true
		}
	}
	return false
}

// checkHeaderValidation: a frame whose header does not announce length 6 and
// protocol version 0x10 is malformed and must not be decoded further: the
// header decoder succeeds for exactly those two values of its first two
// octets (exact sets over the 8-bit domain).
func checkHeaderValidation(c *Check, p *Program, rule string) {
	uh := p.Func("knx/knxnet", "UnpackHeader")
	if uh == nil {
		c.Fail(rule, "knxnet.UnpackHeader", "", "not found")
		return
	}
	var us *ssa.Call
	instrsOf(uh, func(in ssa.Instruction) {
		if call, ok := in.(*ssa.Call); ok && callIs(call, modPath+"/knx/util", "", "UnpackSome") && len(uh.Params) > 0 && call.Common().Args[0] == ssa.Value(uh.Params[0]) {
			us = call
		}
	})
	if us == nil {
		// a hand-written header decoder: interpreted on a symbolic input
		acc, _, okI, whyI := headerByInterpretation(p, uh)
		if !okI {
			c.Fail(rule, "knxnet.UnpackHeader validates length and version", p.Pos(uh.Pos()), "the header decoder is neither one util.UnpackSome over the input nor followed by the interpreter: "+whyI)
			return
		}
		want := []int{6, 16}
		what := []string{"header length", "protocol version"}
		for i := 0; i < 2; i++ {
			other := -1
			for v := 0; v < 256; v++ {
				if acc[i][v] != (v == want[i]) {
					other = v
					break
				}
			}
			c.Decide(other < 0, rule, "knxnet.UnpackHeader accepts exactly "+what[i]+" "+fmt.Sprint(want[i]), p.Pos(uh.Pos()), "success is reachable for that value only (interpreted)", fmt.Sprintf("the header decoder's verdict for %s %d is wrong: frames of another protocol revision or with a foreign header are decoded as if they were well-formed", what[i], other))
		}
		return
	}
	items, opaque := ifaceArgs(us, true)
	if opaque || len(items) < 2 {
		c.Fail(rule, "knxnet.UnpackHeader validates length and version", p.Pos(uh.Pos()), "header items not understood")
		return
	}
	want := []int{6, 16}
	what := []string{"header length", "protocol version"}
	for i := 0; i < 2; i++ {
		var cell *ssa.Alloc
		if mi, isMI := items[i].(*ssa.MakeInterface); isMI {
			cell, _ = stripPtrConv(mi.X).(*ssa.Alloc)
		}
		var ld ssa.Value
		if cell != nil {
			instrsOf(uh, func(x ssa.Instruction) {
				if u, isU := x.(*ssa.UnOp); isU && u.Op == token.MUL && u.X == ssa.Value(cell) && ld == nil {
					ld = u
				}
			})
		}
		acc := finSet{}
		okS := ld != nil
		if okS {
			for _, r := range returnsOf(uh) {
				if len(r.Results) < 2 || !p.returnMayBeNil(r, 1) {
					continue
				}
				set, ok := finSetAtRoot(ld, r.Block(), ld)
				if !ok {
					okS = false
					break
				}
				for v, in := range set {
					if in {
						acc[v] = true
					}
				}
			}
		}
		other := -1
		for v := 0; v < 256 && okS; v++ {
			if acc[v] != (v == want[i]) {
				other = v
				break
			}
		}
		c.Decide(okS && other < 0, rule, "knxnet.UnpackHeader accepts exactly "+what[i]+" "+fmt.Sprint(want[i]), p.Pos(uh.Pos()), "success is reachable for that value only", fmt.Sprintf("the header decoder's verdict for %s %d is wrong (or the octet is not examined at all): frames of another protocol revision or with a foreign header are decoded as if they were well-formed", what[i], other))
	}
}

// checkLogSubjects: util.Log derives a label from reflect.TypeOf(subject) and
// calls String() on it; for a nil interface TypeOf is nil and that call
// panics as soon as a Logger is installed.  In the decode set and the socket
// receivers - where logging happens on the malformed-frame paths - the
// subject must be a boxed concrete value (a connection, a receiver), never an
// interface-typed variable that may still be nil.
func checkLogSubjects(c *Check, p *Program, rule string) {
	logFn := p.Func("knx/util", "Log")
	if logFn == nil {
		c.Fail(rule, "util.Log", "", "not found")
		return
	}
	n := 0
	for _, fn := range p.AllFuncs {
		if fn.Pkg == nil || !p.InModule(fn) {
			continue
		}
		pk := fnPkg(fn)
		if pk == nil || !(strings.HasSuffix(pk.Pkg.Path(), "/knx/knxnet") || strings.HasSuffix(pk.Pkg.Path(), "/knx/cemi") || strings.HasSuffix(pk.Pkg.Path(), "/knx/util")) {
			continue
		}
		instrsOf(fn, func(in ssa.Instruction) {
			if !staticCallTo(in, logFn) {
				return
			}
			n++
			arg := in.(ssa.CallInstruction).Common().Args[0]
			for {
				ci, isCI := arg.(*ssa.ChangeInterface)
				if !isCI {
					break
				}
				arg = ci.X // a boxed value handed on as a wider or narrower interface is still boxed
			}
			okS := false
			why := "the subject is " + describe(arg)
			if mi, isMI := arg.(*ssa.MakeInterface); isMI {
				if _, isIface := mi.X.Type().Underlying().(*types.Interface); !isIface {
					okS = true
				}
			} else if anyFact(factsAt(in.Block()), func(f Cmp) bool {
				return f.Op == token.NEQ && ((f.X == arg && isNilConst(f.Y)) || (f.Y == arg && isNilConst(f.X)))
			}) {
				okS = true
			}
			c.Decide(okS, rule, FuncName(fn)+" log subject is a concrete value", p.InstrPos(in), "boxed non-interface value: reflect.TypeOf is never nil", "an interface value that may be nil is handed to util.Log as its subject ("+why+"): with a Logger installed reflect.TypeOf(nil).String() panics in the receiver goroutine")
		})
	}
	c.Floor(rule, "util.Log calls in the decoding packages", n, 5)
}
