package main

import (
	"fmt"
	"go/types"

	"golang.org/x/tools/go/ssa"
)

func init() { register("C17", "other", checkC17) }

// ownerStruct returns the named struct type (in package knx) that declares field f.
func (p *Program) ownerStruct(f *types.Var) *types.Named {
	for _, nt := range p.allNamedTypes() {
		if st, ok := nt.Underlying().(*types.Struct); ok {
			for i := 0; i < st.NumFields(); i++ {
				if st.Field(i) == f {
					return nt
				}
			}
		}
	}
	return nil
}

func checkC17(c *Check, p *Program) {
	c.Technique = "goroutine-context analysis: channel-operation index + call graph roots + once-per-client spawn-site rule"
	c.Explanation = "Decides one necessary condition exactly (O1): every send on Tunnel.inbound / Router.inbound executes in a goroutine that is started once per client (a go statement in the client's constructor, outside loops), and all sends on one channel share that goroutine. A send from a goroutine spawned per message can exist in several instances whose scheduling order is not their spawn order, which breaks delivery order. O2: the group layer forwards with one synchronous send per received message and starts no goroutine. Not decided: sufficiency (FIFO behaviour of whatever buffers a conforming design uses)."
	c.Trusted = []string{"go/ssa, go/types", "kxcheck call graph (static callees, closures, sync.Once.Do, time.AfterFunc, CHA over module types)"}
	c.NotDecided = []string{"that a design satisfying O1 also buffers in FIFO order (data-structure semantics)"}
	cg := p.CallGraph()
	ix := p.index()

	for _, tf := range [][2]string{{"Tunnel", "inbound"}, {"Router", "inbound"}} {
		f := p.Field("knx", tf[0], tf[1])
		if f == nil {
			c.Fail("C17.O1", "knx."+tf[0]+"."+tf[1], "", "anchor field not found")
			continue
		}
		owner := p.Named("knx", tf[0])
		sends := ix.opsOnField(f, "send", "sel-send")
		c.Floor("C17.O1", "sends on "+tf[0]+"."+tf[1], len(sends), 1)
		rootsSeen := map[string]bool{}
		for _, op := range sends {
			c.Analysed("send sites", FuncName(op.Fn))
			roots := cg.rootsOfOp(op)
			for _, r := range roots {
				key := fmt.Sprintf("%s in %s", FuncName(op.Fn), rootDesc(r))
				pos := p.InstrPos(op.Instr)
				switch r.Kind {
				case "api":
					c.Fail("C17.O1", FuncName(op.Fn), pos, fmt.Sprintf("send on %s.%s runs in the caller's goroutine of API entry %s: any number of application goroutines may hold undelivered telegrams", tf[0], tf[1], FuncName(r.Fn)))
				default:
					site := r.Site
					encl := site.Parent()
					once := isConstructorOf(encl, owner) && !inAnyLoop(site.Block()) && r.Kind == "go"
					if once {
						c.OK("C17.O1", key, pos, fmt.Sprintf("goroutine %s is started once per client by %s (constructor, outside loops)", FuncName(r.Fn), FuncName(encl)))
						rootsSeen[FuncName(r.Fn)] = true
					} else {
						c.Fail("C17.O1", FuncName(op.Fn), pos, fmt.Sprintf("send on %s.%s runs in goroutine %s spawned at %s inside %s, which is not a once-per-client start: several such goroutines can each hold one undelivered telegram and the channel receives them in scheduling order, not acceptance order", tf[0], tf[1], FuncName(r.Fn), p.InstrPos(site), FuncName(encl)))
					}
				}
			}
			if len(roots) == 0 {
				c.Fail("C17.O1", FuncName(op.Fn), p.InstrPos(op.Instr), "no goroutine context found for this send")
			}
		}
		c.Decide(len(rootsSeen) <= 1, "C17.O1", "single forwarding goroutine for "+tf[0]+"."+tf[1], "", "all conforming sends share one root", fmt.Sprintf("sends are spread over %d once-per-client goroutines", len(rootsSeen)))
	}

	// O2: group layer
	cemiMsg := p.Named("knx/cemi", "Message")
	groupEv := p.Named("knx", "GroupEvent")
	n := 0
	for _, fn := range p.FuncsIn("knx") {
		if fn.Parent() != nil || len(fn.Params) != 2 {
			continue
		}
		in, ok1 := fn.Params[0].Type().Underlying().(*types.Chan)
		out, ok2 := fn.Params[1].Type().Underlying().(*types.Chan)
		if !ok1 || !ok2 || cemiMsg == nil || groupEv == nil || !types.Identical(in.Elem(), cemiMsg) || !types.Identical(out.Elem(), groupEv) {
			continue
		}
		n++
		c.Analysed("group forwarders", FuncName(fn))
		pos := p.Pos(fn.Pos())
		// no goroutine started anywhere in its synchronous call tree
		nGo := 0
		for f := range cg.reachableSync(fn) {
			if !p.InModule(f) {
				continue
			}
			for _, e := range cg.Out[f] {
				if e.Async() {
					nGo++
				}
			}
		}
		c.Decide(nGo == 0, "C17.O2", FuncName(fn)+" no-go", pos, "forwards synchronously: no go statement in its call tree", fmt.Sprintf("%d goroutine start(s) in the forwarder's call tree", nGo))
		// every send on the outbound parameter is a plain blocking Send; at most one per iteration
		var sends []ssa.Instruction
		bad := ""
		for _, b := range fn.Blocks {
			for _, ins := range b.Instrs {
				switch x := ins.(type) {
				case *ssa.Send:
					if x.Chan == fn.Params[1] {
						sends = append(sends, x)
					}
				case *ssa.Select:
					for _, st := range x.States {
						if st.Chan == fn.Params[1] {
							bad = "outbound is sent on inside a select (may drop or reorder)"
						}
					}
				}
			}
		}
		c.Decide(bad == "" && len(sends) >= 1, "C17.O2", FuncName(fn)+" plain-send", pos, fmt.Sprintf("%d plain blocking send(s) on the outbound channel", len(sends)), "the forwarder does not hand events over by a plain blocking send ("+bad+"): events can overtake each other or be dropped")
		// at most one send per received message: count along one loop iteration
		hdrs := loopHeaders(fn)
		c.Decide(len(hdrs) == 1, "C17.O2", FuncName(fn)+" single-loop", pos, "one receive loop", fmt.Sprintf("%d loops", len(hdrs)))
		for h := range hdrs {
			_, max := pathCount(h, func(i ssa.Instruction) bool {
				s, ok := i.(*ssa.Send)
				return ok && s.Chan == fn.Params[1]
			}, nil)
			c.Decide(max <= 1, "C17.O2", FuncName(fn)+" one-send-per-message", pos, "at most one send per loop iteration", fmt.Sprintf("up to %d sends per received message", max))
		}
		// started once per group client
		for _, e := range cg.In[fn] {
			encl := e.Site.Parent()
			ok := e.Kind == "go" && !inAnyLoop(e.Site.Block())
			c.Decide(ok, "C17.O2", FuncName(fn)+" started by "+FuncName(encl), p.InstrPos(e.Site), "started by one go statement outside loops", "forwarder is not started exactly once per client")
		}
	}
	c.Floor("C17.O2", "group forwarder functions", n, 1)
}

func rootDesc(r Root) string {
	return r.Kind + ":" + FuncName(r.Fn)
}
