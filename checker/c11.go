package main

import (
	"fmt"
	"go/token"
	"go/types"
	"strings"

	"golang.org/x/tools/go/ssa"
)

func init() { register("C11", "other", checkC11) }

// byteAt returns the final content of the fixed byte at offset base+k on a path.
func byteAt(pp *lpath, base *Lin, k int64) (BV, bool) {
	want := base.Add(linConst(k))
	var bv BV
	found := false
	for _, w := range pp.writes {
		if w.kind == "byte" && w.off != nil && w.off.Equal(want) {
			bv, found = w.bv, true
		}
	}
	return bv, found
}

func nestedAt(pp *lpath, off *Lin) (bufWrite, bool) {
	for _, w := range pp.writes {
		if (w.kind == "nested" || w.kind == "seg") && w.off != nil && w.off.Equal(off) {
			return w, true
		}
	}
	return bufWrite{}, false
}

func constOf(p *Program, rel, name string) (int64, bool) {
	cst, _ := p.Pkg(rel).Scope().Lookup(name).(*types.Const)
	if cst == nil {
		return 0, false
	}
	return constInt(ssa.NewConst(cst.Val(), cst.Type()))
}

func expectBits(c *Check, rule, key, pos string, got BV, found bool, spec string) {
	want := wantBits(spec)
	g := "<not written as a fixed byte>"
	if found {
		g = got.String()
	}
	c.Decide(found && got.Equal(want), rule, key, pos, "= "+want.String(), "the encoder puts ["+g+"] here, the cEMI specification prescribes ["+want.String()+"]")
}

// lenClass classifies a path by the interval of a length symbol: "long"
// (>= 256 on the whole path), "empty" (0), "mid" (within 1..255), "mixed".
func lenClass(pp *lpath, sym string) string {
	iv := pp.env.get(sym)
	switch {
	case iv.lo >= 256:
		return "long"
	case iv.hi <= 0:
		return "empty"
	case iv.lo >= 1 && iv.hi <= 255:
		return "mid"
	case iv.lo >= 0 && iv.hi <= 255:
		return "short" // 0..255, not distinguished further on this path
	}
	return "mixed"
}

func hasCond(pp *lpath, sub string) bool {
	for _, cnd := range pp.conds {
		if strings.Contains(cnd, sub) {
			return true
		}
	}
	return false
}

func checkC11(c *Check, p *Program) {
	c.Technique = "wire-layout extraction (path-sensitive abstract interpretation with bit-provenance contents) of the cEMI encoders, bit-provenance evaluation of the decoders' field expressions and of the flag helpers over their whole domain, all compared with a hand-written table of the cEMI L_Data layout"
	c.Explanation = "The oracle is a table transcribed from the cEMI specification (03_06_03 §4.1.5, 03_03_02), independent of the code: message code; additional-info length and bytes; control field 1 = FT(7) r(6) Rep(5) SB(4) Prio(3..2) Ack(1) Conf(0); control field 2 = AT(7) Hops(6..4) EFF(3..0); source hi/lo; destination hi/lo; length octet; TPCI/APCI octet = C/D(7) Num(6) Seq(5..2) APCI(3..2); next octet = APCI(1..0) in bits 7..6 and six data bits. Decided: (1) the encoders - cemi.Pack, LData.Pack, Info.Pack, AppData.Pack, ControlData.Pack - put exactly those bits at those offsets on every path (bit-provenance vectors over the value's fields); (2) the decoders - LData.Unpack's field order and widths, unpackTransportUnit's field expressions, the primitive big-endian readers - extract exactly those bits; (3) constants (control flags, message codes, APCI group codes) equal the table; (4) the helpers over their complete domain: Control1Prio, Control2Hops (clamped and unclamped path), ControlField2.Hops, the composition Hops(Control2Hops(h)) = h&7 on the unclamped path and 7 on the clamped one, IsGroupAddr = bit 7, IsGroupCommand accepts exactly 0..2. Remaining assumption: the table was transcribed correctly (it is printed in the evidence). LData.Unpack determines every field: on every path to an exit that may report success each of the six fields of the frame is written."
	c.Trusted = []string{"go/types, go/ssa", "kxcheck layout interpreter and bit-provenance engine", "the transcription of the cEMI tables in c11.go"}
	c.NotDecided = []string{}
	table := []string{
		"cEMI: [0] message code; [1] AddIL; [2..] AddInfo; then Ctrl1 Ctrl2 SA.hi SA.lo DA.hi DA.lo L TPCI/APCI APCI/data ...",
		"Ctrl1: bit7 frame type (1 = standard), bit5 repeat (1 = do not repeat), bit4 system broadcast (1 = broadcast), bits3..2 priority, bit1 ack request, bit0 confirm (error)",
		"Ctrl2: bit7 address type (1 = group), bits6..4 hop count, bits3..0 extended frame format",
		"TPDU octet 1: bit7 control(1)/data(0), bit6 numbered, bits5..2 sequence number, bits1..0 APCI bits 3..2 (control: control code bits 1..0)",
		"TPDU octet 2 (data only): bits7..6 APCI bits 1..0, bits5..0 first six data bits",
	}
	c.Extra("spec_table", table)

	// ---- (3) constants
	for _, k := range []struct {
		rel, name string
		want      int64
	}{
		{"knx/cemi", "Control1StdFrame", 0x80}, {"knx/cemi", "Control1NoRepeat", 0x20}, {"knx/cemi", "Control1NoSysBroadcast", 0x10},
		{"knx/cemi", "Control1WantAck", 0x02}, {"knx/cemi", "Control1HasError", 0x01}, {"knx/cemi", "Control2GroupAddr", 0x80}, {"knx/cemi", "Control2LTEFrame", 0x04},
		{"knx/cemi", "LBusmonIndCode", 0x2B}, {"knx/cemi", "LDataReqCode", 0x11}, {"knx/cemi", "LDataIndCode", 0x29}, {"knx/cemi", "LDataConCode", 0x2E},
		{"knx/cemi", "LRawReqCode", 0x10}, {"knx/cemi", "LRawIndCode", 0x2D}, {"knx/cemi", "LRawConCode", 0x2F},
		{"knx/cemi", "GroupValueRead", 0}, {"knx/cemi", "GroupValueResponse", 1}, {"knx/cemi", "GroupValueWrite", 2},
		{"knx/cemi", "PrioSystem", 0}, {"knx/cemi", "PrioNormal", 1}, {"knx/cemi", "PrioUrgent", 2}, {"knx/cemi", "PrioLow", 3},
	} {
		v, ok := constOf(p, k.rel, k.name)
		c.Decide(ok && v == k.want, "C11.const", "cemi."+k.name, "", fmt.Sprintf("%#x", k.want), fmt.Sprintf("constant is %#x (found=%v), the specification says %#x", v, ok, k.want))
	}

	// ---- (4) helpers over their whole domain: the complete value table of each one-octet helper
	// (exact evaluation over all 256 arguments) against the specification's formula
	tableRule := func(fn *ssa.Function, name, formula string, spec func(x int64) int64) *[256]int64 {
		if fn == nil {
			c.Fail("C11.helper", name, "", "function not found")
			return nil
		}
		c.Analysed("functions", FuncName(fn))
		pos := p.Pos(fn.Pos())
		tab, ok := finTable8(fn)
		if !ok {
			c.Fail("C11.helper", name+" = "+formula, pos, "the helper is not a pure function of one octet that the exact evaluation understands (loops, loads or calls of other code)")
			return nil
		}
		bad := -1
		for i := 0; i < 256; i++ {
			if tab[i] != spec(int64(i)) {
				bad = i
				break
			}
		}
		why := ""
		if bad >= 0 {
			why = fmt.Sprintf("for argument %d the helper yields %#x, the specification %s gives %#x", bad, tab[bad], formula, spec(int64(bad)))
		}
		c.Decide(bad < 0, "C11.helper", name+" = "+formula, pos, "equal on all 256 arguments", why)
		return tab
	}
	tableRule(p.Func("knx/cemi", "Control1Prio"), "cemi.Control1Prio(p)", "(p & 3) << 2", func(x int64) int64 { return (x & 3) << 2 })
	c2tab := tableRule(p.Func("knx/cemi", "Control2Hops"), "cemi.Control2Hops(h)", "min(h, 7) << 4", func(x int64) int64 {
		if x > 7 {
			x = 7
		}
		return x << 4
	})
	hops := p.Method("knx/cemi", "ControlField2", "Hops")
	htab := tableRule(hops, "cemi.ControlField2.Hops(c)", "(c >> 4) & 7", func(x int64) int64 { return (x >> 4) & 7 })
	tableRule(p.Method("knx/cemi", "ControlField2", "IsGroupAddr"), "cemi.ControlField2.IsGroupAddr(c)", "bit 7 of c", func(x int64) int64 { return x >> 7 & 1 })
	// composition: Hops(Control2Hops(h)) = min(h, 7)
	if c2tab != nil && htab != nil {
		bad := -1
		for h := 0; h < 256; h++ {
			want := int64(h)
			if want > 7 {
				want = 7
			}
			if htab[uint8(c2tab[h])] != want {
				bad = h
			}
		}
		c.Decide(bad < 0, "C11.helper", "Hops(Control2Hops(h)) = min(h, 7)", p.Pos(hops.Pos()), "on all 256 hop counts", fmt.Sprintf("for h = %d the accessor does not return the encoded hop count", bad))
	}
	if isGC := p.Method("knx/cemi", "APCI", "IsGroupCommand"); isGC != nil {
		lo, hi, ok := acceptInterval(isGC)
		c.Decide(ok && lo == 0 && hi == 2, "C11.helper", "cemi.APCI.IsGroupCommand accepts exactly 0..2", p.Pos(isGC.Pos()), "group read/response/write", fmt.Sprintf("accepts [%d,%d] (understood=%v)", lo, hi, ok))
	}

	// ---- (1) encoders
	zero := linConst(0)
	if f := p.Func("knx/cemi", "Pack"); f != nil {
		for _, pp := range runEncoder(p, f) {
			b, ok := byteAt(pp, zero, 0)
			good := ok
			for i := 0; good && i < 8; i++ {
				if b[i].K != bsrc || !strings.Contains(b[i].Src, "MessageCode()") || b[i].Idx != i {
					good = false
				}
			}
			c.Decide(good, "C11.encode", "cemi.Pack octet 0 = message code", p.Pos(f.Pos()), "message code", "octet 0 of the frame is ["+b.String()+"]")
			_, okN := nestedAt(pp, linConst(1))
			c.Decide(okN, "C11.encode", "cemi.Pack body at octet 1", p.Pos(f.Pos()), "message body follows the code", "the message body does not start at octet 1")
		}
	}
	if f := p.Method("knx/cemi", "LData", "Pack"); f != nil {
		pos := p.Pos(f.Pos())
		c.Analysed("functions", FuncName(f))
		pps := runEncoder(p, f)
		c.Exact("C11.encode", "paths of LData.Pack", len(pps), 1, pos)
		for _, pp := range pps {
			base := linSym("Size(r.Info)")
			w, ok := nestedAt(pp, zero)
			c.Decide(ok && w.n.Equal(base), "C11.encode", "LData: additional info first", pos, "Info packed at octet 0 of the body", "the additional-info block is not the first item of the L_Data body")
			for k, spec := range []string{"r.Control1[7..0]", "r.Control2[7..0]", "r.Source[15..8]", "r.Source[7..0]", "r.Destination[15..8]", "r.Destination[7..0]"} {
				b, found := byteAt(pp, base, int64(k))
				expectBits(c, "C11.encode", fmt.Sprintf("LData octet info+%d = %s", k, spec), pos, b, found, spec)
			}
			w, ok = nestedAt(pp, base.Add(linConst(6)))
			c.Decide(ok && strings.Contains(w.src, "r.Data"), "C11.encode", "LData: transport unit after the destination", pos, "r.Data packed at info+6", "the transport unit is not packed directly after the destination address")
		}
	}
	if f := p.Method("knx/cemi", "Info", "Pack"); f != nil {
		pos := p.Pos(f.Pos())
		for _, pp := range runEncoder(p, f) {
			b, found := byteAt(pp, zero, 0)
			// the octet is min(len, 255): the constant 255 is right on a path where len >= 255 throughout, the low
			// byte of len where len <= 255 throughout
			iv := pp.env.get("len(r)")
			switch {
			case iv.lo >= 255 && found && b.Equal(wantBits("11111111")):
				c.OK("C11.encode", "Info length octet, oversize path", pos, "= 11111111 for len >= 255")
			case iv.lo >= 256:
				expectBits(c, "C11.encode", "Info length octet, oversize path", pos, b, found, "11111111")
			default:
				if iv.hi > 255 && found && b.Equal(wantBits("len(r)[7..0]")) {
					found = false // the low byte of a length above 255 is not the length
				}
				expectBits(c, "C11.encode", "Info length octet", pos, b, found, "len(r)[7..0]")
			}
			w, ok := nestedAt(pp, linConst(1))
			c.Decide(ok && w.src == "r", "C11.encode", "Info bytes follow the length octet ["+pathLabel(pp)+"]", pos, "copy of the info bytes at octet 1", "the additional-info bytes are not placed at octet 1")
		}
	}
	if f := p.Method("knx/cemi", "AppData", "Pack"); f != nil {
		pos := p.Pos(f.Pos())
		c.Analysed("functions", FuncName(f))
		pps := runEncoder(p, f)
		c.Floor("C11.encode", "paths of AppData.Pack", len(pps), 6)
		for _, pp := range pps {
			lab := "[" + pathLabel(pp) + "]"
			b1, f1 := byteAt(pp, zero, 1)
			if hasCond(pp, "+r.Numbered") {
				expectBits(c, "C11.encode", "AppData TPCI/APCI octet "+lab, pos, b1, f1, "0 1 r.SeqNumber[3..0] r.Command[3..2]")
			} else {
				expectBits(c, "C11.encode", "AppData TPCI/APCI octet "+lab, pos, b1, f1, "0 0 0000 r.Command[3..2]")
			}
			b2, f2 := byteAt(pp, zero, 2)
			if lenClass(pp, "len(r.Data)") == "empty" {
				expectBits(c, "C11.encode", "AppData APCI/data octet "+lab, pos, b2, f2, "r.Command[1..0] 000000")
			} else {
				expectBits(c, "C11.encode", "AppData APCI/data octet "+lab, pos, b2, f2, "r.Command[1..0] r.Data[0][5..0]")
			}
			b0, f0 := byteAt(pp, zero, 0)
			switch {
			case lenClass(pp, "len(r.Data)") == "long":
				expectBits(c, "C11.encode", "AppData length octet "+lab, pos, b0, f0, "11111111")
			case lenClass(pp, "len(r.Data)") == "empty":
				expectBits(c, "C11.encode", "AppData length octet "+lab, pos, b0, f0, "00000001")
			default:
				expectBits(c, "C11.encode", "AppData length octet "+lab, pos, b0, f0, "len(r.Data)[7..0]")
			}
		}
	}
	if f := p.Method("knx/cemi", "ControlData", "Pack"); f != nil {
		pos := p.Pos(f.Pos())
		c.Analysed("functions", FuncName(f))
		for _, pp := range runEncoder(p, f) {
			lab := "[" + pathLabel(pp) + "]"
			b0, f0 := byteAt(pp, zero, 0)
			expectBits(c, "C11.encode", "ControlData length octet "+lab, pos, b0, f0, "00000000")
			b1, f1 := byteAt(pp, zero, 1)
			if hasCond(pp, "+r.Numbered") {
				expectBits(c, "C11.encode", "ControlData TPCI octet "+lab, pos, b1, f1, "1 1 r.SeqNumber[3..0] r.Command[1..0]")
			} else {
				expectBits(c, "C11.encode", "ControlData TPCI octet "+lab, pos, b1, f1, "1 0 0000 r.Command[1..0]")
			}
		}
	}

	// the offsets above are relative to Size() of the preceding items: the
	// Size()/Pack() contract of the four cEMI structures is part of the layout
	for _, pt := range declaredPackTypes(p) {
		switch pt.nt.Obj().Name() {
		case "Info", "LData", "AppData", "ControlData":
		default:
			continue
		}
		if pt.nt.Obj().Pkg().Path() != cemiPath {
			continue
		}
		sps, pps := runEncoder(p, pt.size), runEncoder(p, pt.pack)
		for _, pp := range pps {
			for _, sp := range sps {
				judgePair(c, p, "C11.contract", typeName(pt.nt), p.Pos(pt.pack.Pos()), pp, sp)
			}
		}
	}

	// ---- (2) decoders
	checkC11Decode(c, p)
}

func checkC11Decode(c *Check, p *Program) {
	// primitive big-endian readers
	for _, pr := range []struct {
		name string
		w    int
	}{{"unpackUInt16", 2}, {"unpackUInt32", 4}, {"unpackUInt64", 8}} {
		f := p.Func("knx/util", pr.name)
		if f == nil {
			c.Fail("C11.decode", "util."+pr.name, "", "not found")
			continue
		}
		var got BV
		instrsOf(f, func(in ssa.Instruction) {
			if st, ok := in.(*ssa.Store); ok && st.Addr == ssa.Value(f.Params[1]) {
				ev := &BitEval{P: p, Env: map[ssa.Value]BV{}}
				alts := ev.Eval(st.Val)
				if len(alts) == 1 {
					got = alts[0].V
				}
			}
		})
		var spec []string
		for i := 0; i < pr.w; i++ {
			spec = append(spec, fmt.Sprintf("data[%d][7..0]", i))
		}
		want := wantBits(strings.Join(spec, " "))
		g := "?"
		if got != nil {
			g = got.String()
		}
		c.Decide(got != nil && got.Equal(want), "C11.decode", "util."+pr.name+" is big-endian", p.Pos(f.Pos()), "= "+want.String(), "decodes ["+g+"], big-endian order is ["+want.String()+"]")
	}
	// Info.Unpack: length octet, then exactly that many octets, owned by the decoded value
	if f := p.Method("knx/cemi", "Info", "Unpack"); f != nil && len(f.Params) >= 2 {
		checkLenPrefixedDecoder(c, p, "C11.decode", f)
	}
	// LData.Unpack: field order
	if f := p.Method("knx/cemi", "LData", "Unpack"); f != nil {
		pos := p.Pos(f.Pos())
		var us *ssa.Call
		instrsOf(f, func(in ssa.Instruction) {
			if call, ok := in.(*ssa.Call); ok && callIs(call, utilPath, "", "UnpackSome") {
				us = call
			}
		})
		want := []string{"Info", "Control1", "Control2", "Source", "Destination"}
		widths := []int64{0, 1, 1, 2, 2}
		okO := us != nil
		detail := ""
		if okO {
			items, opaque := ifaceArgs(us, true)
			okO = !opaque && len(items) == len(want) && us.Common().Args[0] == ssa.Value(inputParam(f))
			for i := 0; okO && i < len(items); i++ {
				mi, isMI := items[i].(*ssa.MakeInterface)
				if !isMI {
					okO = false
					break
				}
				fld := fieldOfAddr(stripPtrConv(mi.X))
				if fld == nil || fld.Name() != want[i] {
					okO = false
					detail = fmt.Sprintf("item %d decodes into %v, the layout has %s there", i, fld, want[i])
				}
				if widths[i] > 0 {
					if pt, ok := mi.X.Type().(*types.Pointer); !ok || primWidth(pt.Elem()) != widths[i] {
						okO = false
						detail = fmt.Sprintf("item %d (%s) is not read as %d octet(s)", i, want[i], widths[i])
					}
				}
			}
		}
		c.Decide(okO, "C11.decode", "LData.Unpack field order and widths", pos, "Info, Ctrl1(1), Ctrl2(1), Source(2), Destination(2) from the start of the body", "the L_Data body is not decoded in the prescribed order: "+detail)
		// the transport unit is decoded from the rest
		okT := false
		tu := p.Func("knx/cemi", "unpackTransportUnit")
		instrsOf(f, func(in ssa.Instruction) {
			if staticCallTo(in, tu) {
				call := in.(*ssa.Call)
				if sl, ok := call.Common().Args[0].(*ssa.Slice); ok && sl.X == ssa.Value(inputParam(f)) && sl.High == nil {
					if fld := fieldOfAddr(call.Common().Args[1]); fld != nil && fld.Name() == "Data" {
						if e, ok := stripIntConv(sl.Low).(*ssa.Extract); ok && e.Tuple == ssa.Value(us) && e.Index == 0 {
							okT = true
						}
						if okT == false {
							// named result cell
							for _, v := range loadValues(sl.Low) {
								if e, ok := v.(*ssa.Extract); ok && e.Tuple == ssa.Value(us) && e.Index == 0 {
									okT = true
								}
							}
						}
					}
				}
			}
		})
		c.Decide(okT, "C11.decode", "LData.Unpack transport unit follows the fixed fields", pos, "unpackTransportUnit(data[n:], &ldata.Data) with n the count of the fixed fields", "the transport unit is not decoded from the octet after the destination address")
		// decoding determines every field: on every path to an exit that may report success, each of the six fields
		// of the frame is written (stored, or handed to a decoder by address).  A path that leaves a field alone hands
		// back what an earlier frame left in the value (a frame without additional info decoded into a reused value).
		writes := func(in ssa.Instruction, name string) bool {
			isF := func(v ssa.Value) bool {
				fld := fieldOfAddr(stripPtrConv(v))
				return fld != nil && fld.Name() == name
			}
			switch x := in.(type) {
			case *ssa.Store:
				return isF(x.Addr)
			case *ssa.Call:
				for _, a := range x.Common().Args {
					if isF(a) {
						return true
					}
				}
				if items, _ := ifaceArgs(x, true); len(items) > 0 {
					for _, it := range items {
						if mi, ok := it.(*ssa.MakeInterface); ok && isF(mi.X) {
							return true
						}
					}
				}
			}
			return false
		}
		for _, r := range returnsOf(f) {
			if len(r.Results) < 2 || !p.returnMayBeNil(r, 1) {
				continue
			}
			for _, name := range []string{"Info", "Control1", "Control2", "Source", "Destination", "Data"} {
				nm := name
				min, _, okP := pathCountTo(f.Blocks[0], r.Block(), func(in ssa.Instruction) bool { return writes(in, nm) })
				c.Decide(okP && min >= 1, "C11.decode", "LData.Unpack determines "+name+" on every successful path", p.InstrPos(r), "every path to this exit writes the field", "a path to this possibly-successful exit never writes "+name+": the decoded frame keeps what the value held before (the field of an earlier frame)")
			}
		}
	}
	// unpackTransportUnit field expressions
	tu := p.Func("knx/cemi", "unpackTransportUnit")
	if tu == nil {
		c.Fail("C11.decode", "cemi.unpackTransportUnit", "", "not found")
		return
	}
	c.Analysed("functions", FuncName(tu))
	pos := p.Pos(tu.Pos())
	ev := &BitEval{P: p, Env: map[ssa.Value]BV{}}
	evalOne := func(v ssa.Value) BV {
		alts := ev.Eval(v)
		if len(alts) == 1 {
			return alts[0].V
		}
		return nil
	}
	specs := map[string]map[string]string{
		"ControlData": {"Numbered": "data[1][6]", "SeqNumber": "0000 data[1][5..2]", "Command": "000000 data[1][1..0]"},
		"AppData":     {"Numbered": "data[1][6]", "SeqNumber": "0000 data[1][5..2]", "Command": "0000 data[1][1..0] data[2][7..6]"},
	}
	nComp := 0
	instrsOf(tu, func(in ssa.Instruction) {
		al, ok := in.(*ssa.Alloc)
		if !ok {
			return
		}
		nt := namedOf(al.Type())
		if nt == nil {
			return
		}
		spec, known := specs[nt.Obj().Name()]
		if !known {
			return
		}
		nComp++
		fs := fieldStores(al)
		for fname, want := range spec {
			f := fieldByName(al.Type(), fname)
			sts := fs[f]
			var got BV
			if len(sts) == 1 {
				got = evalOne(sts[0].Val)
			}
			g := "?"
			if got != nil {
				g = got.String()
			}
			c.Decide(got != nil && got.Equal(wantBits(want)), "C11.decode", nt.Obj().Name()+"."+fname+" extraction", p.InstrPos(al), "= "+wantBits(want).String(), "the decoder extracts ["+g+"], the specification places the field at ["+wantBits(want).String()+"]")
		}
		// control/data discrimination: the composite is built behind bit 7 of octet 1
		facts := factsAt(al.Block())
		wantCtl := nt.Obj().Name() == "ControlData"
		okD := anyFact(facts, func(f Cmp) bool {
			b, ok := factBit(ev, f)
			if !ok || b.Src != "data[1]" || b.Idx != 7 {
				return false
			}
			// b.K == bsrc: the fact says bit 7 is set
			return (b.K == bsrc) == wantCtl
		})
		c.Decide(okD, "C11.decode", nt.Obj().Name()+" selected by bit 7 of the TPCI octet", p.InstrPos(al), "control unit iff data[1] bit 7 is set", "the control/data flag is not taken from bit 7 of the TPCI octet")
		if !wantCtl {
			// payload: make([]byte, L) with L = data[0]; copy from data[2:]; first byte masked to six bits
			okP, okMask := false, false
			var maskSt *ssa.Store
			var copyCall *ssa.Call
			instrsOf(tu, func(x ssa.Instruction) {
				if call, ok := x.(*ssa.Call); ok && builtinName(call) == "copy" {
					if sl, ok := call.Common().Args[1].(*ssa.Slice); ok && sl.X == ssa.Value(tu.Params[0]) {
						if k, ok := constInt(sl.Low); ok && k == 2 {
							mn, mx := pathCount(al.Block(), func(y ssa.Instruction) bool { return y == ssa.Instruction(call) }, nil)
							okP = mn == 1 && mx == 1
							copyCall = call
						}
					}
				}
				if st, ok := x.(*ssa.Store); ok {
					if ia, ok := st.Addr.(*ssa.IndexAddr); ok {
						if k, isK := constInt(ia.Index); isK && k == 0 {
							if bo, ok := st.Val.(*ssa.BinOp); ok && bo.Op == token.AND {
								if m, ok := constInt(bo.Y); ok && m == 63 {
									// on every path from the composite to the exit, exactly once (a mask applied only
									// for some lengths leaves command bits in longer payloads)
									mn, mx := pathCount(al.Block(), func(y ssa.Instruction) bool { return y == ssa.Instruction(st) }, nil)
									okMask = mn == 1 && mx == 1
									maskSt = st
								}
							}
						}
					}
				}
			})
			if maskSt != nil && copyCall != nil && !instrDominates(copyCall, maskSt) {
				okMask = false // masked before the payload is copied in: the copy brings the two command bits back
			}
			var mkLen BV
			for _, st := range fs[fieldByName(al.Type(), "Data")] {
				if mk, ok := st.Val.(*ssa.MakeSlice); ok {
					mkLen = evalOne(mk.Len)
				}
			}
			okLen := mkLen != nil && mkLen.resize(8, false).Equal(wantBits("data[0][7..0]"))
			// every announced length 1..255 is decoded (a data unit of length 1 is a group read)
			var l0 ssa.Value
			instrsOf(tu, func(x ssa.Instruction) {
				if u, ok := x.(*ssa.UnOp); ok && u.Op == token.MUL && l0 == nil {
					if ia, ok := u.X.(*ssa.IndexAddr); ok && ia.X == ssa.Value(tu.Params[0]) {
						if k, isK := constInt(ia.Index); isK && k == 0 {
							l0 = u
						}
					}
				}
			})
			miss := -1
			okAll := false
			if l0 != nil {
				if set, okS := finSetAtRoot(l0, al.Block(), l0); okS {
					okAll = true
					for l := 1; l <= 255; l++ {
						if !set[l] {
							okAll, miss = false, l
							break
						}
					}
				}
			}
			c.Decide(okAll, "C11.decode", "AppData decoded for every length octet 1..255", p.InstrPos(al), "the data-unit branch is reached for every L >= 1 (given enough octets)", fmt.Sprintf("a data unit with length octet %d is not decoded", miss))
			c.Decide(okP && okMask && okLen, "C11.decode", "AppData payload: L = octet 0, bytes from octet 2, first byte six bits", p.InstrPos(al), "make(L); copy(_, data[2:]); Data[0] &= 63", fmt.Sprintf("payload extraction differs from the layout (copy from octet 2: %v, six-bit mask: %v, length from octet 0: %v)", okP, okMask, okLen))
		}
	})
	c.Exact("C11.decode", "transport-unit composites in the decoder", nComp, 2, pos)
}

func stripPtrConv(v ssa.Value) ssa.Value {
	for i := 0; i < 4; i++ {
		switch x := v.(type) {
		case *ssa.ChangeType:
			v = x.X
		case *ssa.Convert:
			v = x.X
		default:
			return v
		}
	}
	return v
}

// factBit: the comparison is equivalent to "source bit b is 1" (bsrc) or
// "source bit b is 0" (bnot).
func factBit(ev *BitEval, f Cmp) (bit, bool) {
	if f.Op != token.EQL && f.Op != token.NEQ {
		return bit{}, false
	}
	ax, ay := ev.Eval(f.X), ev.Eval(f.Y)
	if len(ax) != 1 || len(ay) != 1 || ax[0].V == nil || ay[0].V == nil {
		return bit{}, false
	}
	a, b := ax[0].V, ay[0].V
	if _, ok := a.Const(); ok {
		a, b = b, a
	}
	kb, ok := b.Const()
	if !ok {
		return bit{}, false
	}
	w := len(a)
	var free []int
	for i := 0; i < w; i++ {
		want := kb>>uint(i)&1 == 1
		switch a[i].K {
		case b0:
			if want {
				return bit{}, false
			}
		case b1:
			if !want {
				return bit{}, false
			}
		default:
			free = append(free, i)
		}
	}
	if len(free) != 1 || (a[free[0]].K != bsrc && a[free[0]].K != bnot) {
		return bit{}, false
	}
	res := a[free[0]]
	if kb>>uint(free[0])&1 == 0 {
		res = bitNot(res)
	}
	if f.Op == token.NEQ {
		res = bitNot(res)
	}
	return res, true
}

// checkLenPrefixedDecoder decides a decoder of the shape "one length octet L,
// then L octets": L is read from the head of the input; for every L in 1..255
// the L octets behind the header are copied into a fresh slice of length L
// that becomes the decoded value; for L = 0 the value is reset; the count
// reported is header plus copied octets.
func checkLenPrefixedDecoder(c *Check, p *Program, rule string, f *ssa.Function) {
	name := FuncName(f)
	pos := p.Pos(f.Pos())
	recv, data := f.Params[0], inputParam(f)
	// the length cell and the call that fills it from the input
	var cell *ssa.Alloc
	var hdr *ssa.Call
	instrsOf(f, func(in ssa.Instruction) {
		call, ok := in.(*ssa.Call)
		if !ok || len(call.Common().Args) < 2 || call.Common().Args[0] != ssa.Value(data) {
			return
		}
		a := call.Common().Args[1]
		for {
			switch x := a.(type) {
			case *ssa.MakeInterface:
				a = x.X
				continue
			case *ssa.ChangeType:
				a = x.X
				continue
			}
			break
		}
		if al, ok := a.(*ssa.Alloc); ok {
			if w, _, okw := typeWidth(al.Type().(*types.Pointer).Elem(), "amd64"); okw && w == 8 {
				cell, hdr = al, call
			}
		}
	})
	if cell == nil {
		// a hand-written form (length := data[0]): judged on the interpreted decoder
		checkLenPrefixedByInterpretation(c, p, rule, f)
		return
	}
	c.OK(rule, name+" reads the length octet from the head of the input", p.InstrPos(hdr), "one octet decoded from data[0:]")
	var hdrN ssa.Value
	for _, u := range usesOf(hdr) {
		if ex, ok := u.(*ssa.Extract); ok && ex.Index == 0 {
			hdrN = ex
		}
	}
	isLen := func(v ssa.Value) bool {
		u, ok := stripAllConv(v).(*ssa.UnOp)
		return ok && u.Op == token.MUL && u.X == ssa.Value(cell)
	}
	// the copy
	var mk *ssa.MakeSlice
	var cp *ssa.Call
	instrsOf(f, func(in ssa.Instruction) {
		if m, ok := in.(*ssa.MakeSlice); ok && isLen(m.Len) {
			mk = m
		}
	})
	if mk != nil {
		instrsOf(f, func(in ssa.Instruction) {
			if call, ok := in.(*ssa.Call); ok && builtinName(call) == "copy" && call.Common().Args[0] == ssa.Value(mk) {
				cp = call
			}
		})
	}
	if mk == nil || cp == nil {
		c.Fail(rule, name+" copies the announced octets into a fresh slice", pos, "no make([]byte, length) that the input is copied into")
		return
	}
	okSrc := false
	if sl, ok := cp.Common().Args[1].(*ssa.Slice); ok && sl.X == ssa.Value(data) && sl.Low != nil && sl.High != nil && hdrN != nil && stripAllConv(sl.Low) == hdrN {
		if hi, ok := stripAllConv(sl.High).(*ssa.BinOp); ok && hi.Op == token.ADD {
			okSrc = (stripAllConv(hi.X) == hdrN && isLen(hi.Y)) || (stripAllConv(hi.Y) == hdrN && isLen(hi.X))
		}
	}
	c.Decide(okSrc, rule, name+" copies the announced octets into a fresh slice", p.InstrPos(cp), "copy(make([]byte, L), data[n:n+L])", "the octets copied are not exactly the L octets behind the length octet")
	// for which L the copy is made
	var anyLd ssa.Value
	instrsOf(f, func(in ssa.Instruction) {
		if u, ok := in.(*ssa.UnOp); ok && u.Op == token.MUL && u.X == ssa.Value(cell) && anyLd == nil {
			anyLd = u
		}
	})
	set, okS := finSetAtRoot(anyLd, mk.Block(), anyLd)
	miss := -1
	if okS {
		for l := 1; l <= 255; l++ {
			if !set[l] {
				miss = l
				break
			}
		}
	}
	c.Decide(okS && miss < 0, rule, name+" copies for every length 1..255", p.InstrPos(mk), "the copying branch is taken for every L >= 1", fmt.Sprintf("for L = %d the announced octets are not copied: the decoded value loses them", miss))
	// the decoded value: the filled slice on the copying path, reset otherwise - one store on every successful path
	isKeep := func(in ssa.Instruction) bool {
		st, ok := in.(*ssa.Store)
		if !ok || st.Addr != ssa.Value(recv) {
			return false
		}
		return true
	}
	okKeep := false
	instrsOf(f, func(in ssa.Instruction) {
		if st, ok := in.(*ssa.Store); ok && st.Addr == ssa.Value(recv) {
			v := st.Val
			if ct, isCT := v.(*ssa.ChangeType); isCT {
				v = ct.X
			}
			if v == ssa.Value(mk) && mk.Block().Dominates(st.Block()) {
				okKeep = true
			}
		}
	})
	c.Decide(okKeep, rule, name+" the filled slice becomes the decoded value", p.InstrPos(mk), "*recv = slice the octets were copied into", "the slice the octets were copied into is not stored into the decoded value")
	nSucc := 0
	sawSum := false
	for _, r := range returnsOf(f) {
		if len(r.Results) < 2 || !p.returnMayBeNil(r, 1) {
			continue
		}
		nSucc++
		mn, mx, okP := pathCountTo(hdr.Block(), r.Block(), isKeep)
		c.Decide(okP && mn == 1 && mx == 1, rule, name+" every successful decode sets the value", p.InstrPos(r), "one store to the receiver on every path to this return", fmt.Sprintf("paths to this successful return store the receiver %d..%d times: with an empty block the caller's previous value survives", mn, mx))
		// count: header alone where nothing was copied, header plus copied octets behind the copy
		alts := []ssa.Value{r.Results[0]}
		if ph, ok := r.Results[0].(*ssa.Phi); ok {
			alts = ph.Edges
		}
		okN := true
		for _, a := range alts {
			isSum := false
			if bo, ok := a.(*ssa.BinOp); ok && bo.Op == token.ADD {
				isSum = (bo.X == hdrN && stripAllConv(bo.Y) == ssa.Value(cp)) || (bo.Y == hdrN && stripAllConv(bo.X) == ssa.Value(cp))
			}
			if isSum {
				sawSum = true
				continue
			}
			if a == hdrN && !cp.Block().Dominates(r.Block()) {
				continue
			}
			okN = false
		}
		c.Decide(okN, rule, name+" reports header plus copied octets", p.InstrPos(r), "n, or n + copy(...) behind the copy", "the consumed length is not the length octet plus the octets copied")
	}
	c.Decide(sawSum, rule, name+" counts the copied octets", p.InstrPos(cp), "some successful return reports n + copy(...)", "no successful return adds the copied octets to the consumed length")
	c.Floor(rule, "successful returns of "+name, nSucc, 1)
}

// checkLenPrefixedByInterpretation: the decoder interpreted on a symbolic
// input.  Its successful paths must be: L = data[0] = 0 with the value reset
// and 1 octet consumed; L in 1..255 (the whole range, nothing else demanded of
// other octets) with the value a fresh slice of length L that received
// data[1 : 1+L] and 1+L octets consumed.
func checkLenPrefixedByInterpretation(c *Check, p *Program, rule string, f *ssa.Function) {
	name := FuncName(f)
	pos := p.Pos(f.Pos())
	covered := finSet{}
	bad := ""
	nS := 0
	for _, d := range runDecoder(p, f) {
		tup, isT := d.ret.(avTuple)
		if !isT || len(tup) != 2 {
			continue
		}
		if o, isO := tup[1].(avOpaque); !isO || o.desc != "nil" {
			continue
		}
		nS++
		if len(d.notes) > 0 {
			bad = "the decoder is not followed: " + strings.Join(d.notes, "; ")
			break
		}
		lo, hi := d.env.bounds(linSym("data[0]"))
		for k := range d.env {
			if strings.HasPrefix(k, "data[") && k != "data[0]" {
				if l2, h2 := d.env.bounds(linSym(k)); l2 != 0 || h2 != 255 {
					bad = "a successful path constrains the octet " + k
				}
			}
		}
		n, _ := tup[0].(avInt)
		switch v := d.mem["out:r"].(type) {
		case avSlice:
			want := linConst(1).Add(linSym("data[0]"))
			seg, hasSeg := d.mem["seg:"+v.region].(avSlice)
			switch {
			case v.len == nil || !v.len.Equal(linSym("data[0]")) || !strings.HasPrefix(v.region, "fresh#"):
				bad = "the decoded value is not a fresh slice of the announced length"
			case !hasSeg || seg.region != "in" || !seg.off.Equal(linConst(1)) || seg.len == nil || !seg.len.Equal(linSym("data[0]")):
				bad = "the decoded value does not receive the octets data[1 : 1+L]"
			case n.lin == nil || !n.lin.Equal(want):
				bad = "the count on the copying path is not 1 + L"
			case lo < 1:
				bad = "the copying path is taken for L = 0"
			}
			for l := lo; l <= hi && l < 256; l++ {
				if l >= 0 {
					covered[l] = true
				}
			}
		default:
			// the value is reset (nil or an empty slice)
			if lo != 0 || hi != 0 {
				bad = fmt.Sprintf("the value is reset for announced lengths %d..%d", lo, hi)
			}
			if n.lin == nil || !n.lin.Equal(linConst(1)) {
				bad = "the count for an empty block is not 1"
			}
			if _, has := d.mem["out:r"]; !has {
				bad = "an empty block leaves the caller's previous value in place"
			}
			covered[0] = true
		}
		if bad != "" {
			break
		}
	}
	if bad == "" {
		if nS == 0 {
			bad = "no successful path"
		}
		for l := 0; l < 256 && bad == ""; l++ {
			if !covered[l] {
				bad = fmt.Sprintf("no successful path for the announced length %d", l)
			}
		}
	}
	c.Decide(bad == "", rule, name+" decodes a length octet and exactly that many octets (interpreted)", pos, "L = 0: value reset, 1 octet; L = 1..255: fresh slice of data[1:1+L], 1+L octets", bad)
}
