package main

import (
	"fmt"
	"go/ast"
	"go/token"
	"go/types"
	"os"
	"sort"
	"strings"

	"golang.org/x/tools/go/packages"
	"golang.org/x/tools/go/ssa"
	"golang.org/x/tools/go/ssa/ssautil"
)

const modPath = "github.com/vapourismo/knx-go"

// Program is the loaded, type-checked and SSA-built repository.
type Program struct {
	RepoDir string
	Arch    string
	Fset    *token.FileSet
	Pkgs    []*packages.Package // module packages only, sorted by path
	ByPath  map[string]*packages.Package
	SSA     *ssa.Program
	SSAPkg  map[string]*ssa.Package
	// AllFuncs lists every function (incl. anonymous and synthetic wrappers)
	// whose package belongs to the module.
	AllFuncs []*ssa.Function

	idx     *indexes
	listing *PanicListing
	// Overlay holds the helper-inlined form of rewritten files (nil: the tree is analysed as it is)
	Overlay map[string][]byte
	NormLog []string
}

func loadEnv(arch string) []string {
	env := []string{}
	for _, kv := range os.Environ() {
		k := kv
		if i := strings.IndexByte(kv, '='); i >= 0 {
			k = kv[:i]
		}
		switch k {
		case "GOFLAGS", "GOPROXY", "GOSUMDB", "GOTOOLCHAIN", "GOWORK", "GOARCH", "GOOS", "CGO_ENABLED":
			continue
		}
		env = append(env, kv)
	}
	env = append(env, "GOFLAGS=-mod=mod", "GOPROXY=off", "GOSUMDB=off", "GOTOOLCHAIN=local", "GOWORK=off", "GOOS=linux", "CGO_ENABLED=0")
	if arch != "" {
		env = append(env, "GOARCH="+arch)
	} else {
		env = append(env, "GOARCH=amd64")
	}
	return env
}

// LoadProgram loads ./... below repoDir.  Any type error, a missing package or
// a package count below the floor is an error (the caller exits 2).
func LoadProgram(repoDir, arch string) (*Program, error) {
	var overlay map[string][]byte
	var normLog []string
	if os.Getenv("KX_NONORM") == "" {
		overlay, normLog = normalizeRepo(repoDir, arch)
	}
	cfg := &packages.Config{
		Mode:    packages.LoadAllSyntax,
		Dir:     repoDir,
		Env:     loadEnv(arch),
		Tests:   false,
		Overlay: overlay,
	}
	pkgs, err := packages.Load(cfg, "./...")
	if err != nil {
		return nil, fmt.Errorf("packages.Load: %v", err)
	}
	var errs []string
	packages.Visit(pkgs, nil, func(p *packages.Package) {
		for _, e := range p.Errors {
			errs = append(errs, e.Error())
		}
	})
	if len(errs) > 0 {
		sort.Strings(errs)
		if len(errs) > 10 {
			errs = errs[:10]
		}
		return nil, fmt.Errorf("type-check errors in %s:\n  %s", repoDir, strings.Join(errs, "\n  "))
	}
	p := &Program{RepoDir: repoDir, Arch: arch, ByPath: map[string]*packages.Package{}, SSAPkg: map[string]*ssa.Package{}, Overlay: overlay, NormLog: normLog}
	for _, pk := range pkgs {
		if pk.PkgPath == modPath || strings.HasPrefix(pk.PkgPath, modPath+"/") {
			p.Pkgs = append(p.Pkgs, pk)
			p.ByPath[pk.PkgPath] = pk
		}
	}
	sort.Slice(p.Pkgs, func(i, j int) bool { return p.Pkgs[i].PkgPath < p.Pkgs[j].PkgPath })
	if len(p.Pkgs) < 6 {
		return nil, fmt.Errorf("only %d module packages loaded from %s (floor 6)", len(p.Pkgs), repoDir)
	}
	for _, need := range []string{"knx", "knx/cemi", "knx/dpt", "knx/knxnet", "knx/util"} {
		if p.ByPath[modPath+"/"+need] == nil {
			return nil, fmt.Errorf("package %s/%s not loaded", modPath, need)
		}
	}
	p.Fset = pkgs[0].Fset
	prog, _ := ssautil.AllPackages(pkgs, ssa.BuilderMode(0))
	prog.Build()
	p.SSA = prog
	for _, pk := range p.Pkgs {
		sp := prog.Package(pk.Types)
		if sp == nil {
			return nil, fmt.Errorf("no SSA package for %s", pk.PkgPath)
		}
		p.SSAPkg[pk.PkgPath] = sp
	}
	for fn := range ssautil.AllFunctions(prog) {
		if p.InModule(fn) {
			p.AllFuncs = append(p.AllFuncs, fn)
		}
	}
	sort.Slice(p.AllFuncs, func(i, j int) bool {
		a, b := p.AllFuncs[i], p.AllFuncs[j]
		if a.String() != b.String() {
			return a.String() < b.String()
		}
		return a.Pos() < b.Pos()
	})
	return p, nil
}

// InModule reports whether fn belongs to a package of the module (closures
// and wrappers included).
func (p *Program) InModule(fn *ssa.Function) bool {
	pk := fnPkg(fn)
	if pk == nil {
		return false
	}
	path := pk.Pkg.Path()
	return path == modPath || strings.HasPrefix(path, modPath+"/")
}

func fnPkg(fn *ssa.Function) *ssa.Package {
	for f := fn; f != nil; f = f.Parent() {
		if f.Pkg != nil {
			return f.Pkg
		}
	}
	// synthetic wrappers/bound methods: use the object's package
	if fn.Object() != nil && fn.Object().Pkg() != nil {
		return fn.Prog.Package(fn.Object().Pkg())
	}
	// $bound / $thunk wrappers carry no object; use origin via method sets
	if fn.Synthetic != "" && fn.Signature != nil && fn.Signature.Recv() != nil {
		if n := namedOf(fn.Signature.Recv().Type()); n != nil && n.Obj().Pkg() != nil {
			return fn.Prog.Package(n.Obj().Pkg())
		}
	}
	return nil
}

func namedOf(t types.Type) *types.Named {
	for {
		switch u := t.(type) {
		case *types.Pointer:
			t = u.Elem()
		case *types.Named:
			return u
		case *types.Alias:
			t = types.Unalias(u)
		default:
			return nil
		}
	}
}

// Pkg returns the types.Package for a module-relative path such as "knx/cemi".
func (p *Program) Pkg(rel string) *types.Package {
	if pk := p.ByPath[modPath+"/"+rel]; pk != nil {
		return pk.Types
	}
	return nil
}

func (p *Program) PkgSyntax(rel string) *packages.Package { return p.ByPath[modPath+"/"+rel] }

// Named looks up a named type; nil if absent.
func (p *Program) Named(rel, name string) *types.Named {
	pk := p.Pkg(rel)
	if pk == nil {
		return nil
	}
	o := pk.Scope().Lookup(name)
	if o == nil {
		return nil
	}
	tn, ok := o.(*types.TypeName)
	if !ok {
		return nil
	}
	n, _ := tn.Type().(*types.Named)
	return n
}

// Field returns the *types.Var of a struct field of a named type; nil if absent.
func (p *Program) Field(rel, typ, field string) *types.Var {
	n := p.Named(rel, typ)
	if n == nil {
		return nil
	}
	st, ok := n.Underlying().(*types.Struct)
	if !ok {
		return nil
	}
	for i := 0; i < st.NumFields(); i++ {
		if st.Field(i).Name() == field {
			return st.Field(i)
		}
	}
	return nil
}

// Func returns the SSA function of a package-level function.
func (p *Program) Func(rel, name string) *ssa.Function {
	sp := p.SSAPkg[modPath+"/"+rel]
	if sp == nil {
		return nil
	}
	return sp.Func(name)
}

// Method returns the declared (non-wrapper) SSA method typ.name, trying the
// pointer and the value receiver.
func (p *Program) Method(rel, typ, name string) *ssa.Function {
	n := p.Named(rel, typ)
	if n == nil {
		return nil
	}
	for i := 0; i < n.NumMethods(); i++ {
		m := n.Method(i)
		if m.Name() == name {
			return p.SSA.FuncValue(m)
		}
	}
	return nil
}

// Global returns the SSA global of a package-level variable.
func (p *Program) Global(rel, name string) *ssa.Global {
	sp := p.SSAPkg[modPath+"/"+rel]
	if sp == nil {
		return nil
	}
	g, _ := sp.Members[name].(*ssa.Global)
	return g
}

// Pos renders a position relative to the repository root.
func (p *Program) Pos(pos token.Pos) string {
	if !pos.IsValid() {
		return "-"
	}
	ps := p.Fset.Position(pos)
	f := ps.Filename
	if strings.HasPrefix(f, p.RepoDir+"/") {
		f = f[len(p.RepoDir)+1:]
	}
	return fmt.Sprintf("%s:%d:%d", f, ps.Line, ps.Column)
}

// InstrPos finds the best position for an instruction (falls back to the
// nearest instruction with a position in the same block, then the function).
func (p *Program) InstrPos(in ssa.Instruction) string {
	if in == nil {
		return "-"
	}
	if in.Pos().IsValid() {
		return p.Pos(in.Pos())
	}
	if v, ok := in.(ssa.Value); ok {
		_ = v
	}
	b := in.Block()
	if b != nil {
		idx := -1
		for i, x := range b.Instrs {
			if x == in {
				idx = i
			}
		}
		for d := 1; d < len(b.Instrs); d++ {
			for _, j := range []int{idx - d, idx + d} {
				if j >= 0 && j < len(b.Instrs) && b.Instrs[j].Pos().IsValid() {
					return p.Pos(b.Instrs[j].Pos()) + "~"
				}
			}
		}
	}
	if in.Parent() != nil {
		return p.Pos(in.Parent().Pos()) + "~"
	}
	return "-"
}

// FuncName gives a stable, package-relative name: knx.(*Tunnel).requestTunnel$1
func FuncName(fn *ssa.Function) string {
	if fn == nil {
		return "<nil>"
	}
	s := fn.String()
	s = strings.ReplaceAll(s, modPath+"/knx/", "")
	s = strings.ReplaceAll(s, modPath+"/", "")
	return s
}

func typeName(t types.Type) string {
	return types.TypeString(t, func(p *types.Package) string {
		path := p.Path()
		path = strings.TrimPrefix(path, modPath+"/knx/")
		path = strings.TrimPrefix(path, modPath+"/")
		return path
	})
}

// FileOf returns the syntax file containing pos.
func (p *Program) FileOf(pos token.Pos) *ast.File {
	for _, pk := range p.Pkgs {
		for _, f := range pk.Syntax {
			if f.Pos() <= pos && pos <= f.End() {
				return f
			}
		}
	}
	return nil
}

// SrcFuncs lists the module's functions that have source bodies (declared
// functions, methods and closures), in deterministic order.
func (p *Program) SrcFuncs() []*ssa.Function {
	var out []*ssa.Function
	for _, fn := range p.AllFuncs {
		if fn.Synthetic == "" && len(fn.Blocks) > 0 {
			out = append(out, fn)
		}
	}
	return out
}

// FuncsIn lists source functions of one module-relative package (closures too).
func (p *Program) FuncsIn(rel string) []*ssa.Function {
	var out []*ssa.Function
	want := modPath + "/" + rel
	for _, fn := range p.SrcFuncs() {
		if pk := fnPkg(fn); pk != nil && pk.Pkg.Path() == want {
			out = append(out, fn)
		}
	}
	return out
}
