package main

import (
	"fmt"
	"go/constant"
	"go/token"
	"go/types"
	"strings"

	"golang.org/x/tools/go/ssa"
)

// E5 - bit provenance.  An integer SSA value of width w is described by w
// cells (least significant first); every cell is the constant 0 or 1, bit k of
// a named source (or its negation), or unknown (top).

type bkind uint8

const (
	b0 bkind = iota
	b1
	bsrc
	bnot
	btop
)

type bit struct {
	K   bkind
	Src string
	Idx int
}

type BV []bit

func (b bit) String() string {
	switch b.K {
	case b0:
		return "0"
	case b1:
		return "1"
	case bsrc:
		return fmt.Sprintf("%s[%d]", b.Src, b.Idx)
	case bnot:
		return fmt.Sprintf("!%s[%d]", b.Src, b.Idx)
	}
	return "?"
}

// String renders most significant bit first, compressing runs of one source.
func (v BV) String() string {
	var parts []string
	for i := len(v) - 1; i >= 0; {
		b := v[i]
		if b.K == bsrc {
			j := i
			for j-1 >= 0 && v[j-1].K == bsrc && v[j-1].Src == b.Src && v[j-1].Idx == v[j].Idx-1 {
				j--
			}
			if j < i {
				parts = append(parts, fmt.Sprintf("%s[%d..%d]", b.Src, b.Idx, v[j].Idx))
				i = j - 1
				continue
			}
		}
		if b.K == b0 || b.K == b1 {
			j := i
			s := b.String()
			for j-1 >= 0 && (v[j-1].K == b0 || v[j-1].K == b1) {
				j--
				s += v[j].String()
			}
			parts = append(parts, s)
			i = j - 1
			continue
		}
		parts = append(parts, b.String())
		i--
	}
	return strings.Join(parts, " ")
}

func bvConst(val uint64, w int) BV {
	out := make(BV, w)
	for i := 0; i < w; i++ {
		if val>>uint(i)&1 == 1 {
			out[i] = bit{K: b1}
		}
	}
	return out
}

func bvSrc(name string, w int) BV {
	out := make(BV, w)
	for i := range out {
		out[i] = bit{K: bsrc, Src: name, Idx: i}
	}
	return out
}

func bvTop(w int) BV {
	out := make(BV, w)
	for i := range out {
		out[i] = bit{K: btop}
	}
	return out
}

// Const returns the value if every cell is constant.
func (v BV) Const() (uint64, bool) {
	var x uint64
	for i, b := range v {
		switch b.K {
		case b0:
		case b1:
			x |= 1 << uint(i)
		default:
			return 0, false
		}
	}
	return x, true
}

func (v BV) Equal(o BV) bool {
	if len(v) != len(o) {
		return false
	}
	for i := range v {
		if v[i] != o[i] {
			return false
		}
	}
	return true
}

func (v BV) HasTop() bool {
	for _, b := range v {
		if b.K == btop {
			return true
		}
	}
	return false
}

func bitAnd(a, b bit) bit {
	switch {
	case a.K == b0 || b.K == b0:
		return bit{K: b0}
	case a.K == b1:
		return b
	case b.K == b1:
		return a
	case a == b && a.K != btop:
		return a
	case a.Src == b.Src && a.Idx == b.Idx && ((a.K == bsrc && b.K == bnot) || (a.K == bnot && b.K == bsrc)):
		return bit{K: b0}
	}
	if (a.K == bsrc || a.K == bnot) && a.Src == staleSrc {
		return bit{K: bsrc, Src: staleSrc}
	}
	if (b.K == bsrc || b.K == bnot) && b.Src == staleSrc {
		return bit{K: bsrc, Src: staleSrc}
	}
	return bit{K: btop}
}

func bitOr(a, b bit) bit {
	switch {
	case a.K == b1 || b.K == b1:
		return bit{K: b1}
	case a.K == b0:
		return b
	case b.K == b0:
		return a
	case a == b && a.K != btop:
		return a
	case a.Src == b.Src && a.Idx == b.Idx && ((a.K == bsrc && b.K == bnot) || (a.K == bnot && b.K == bsrc)):
		return bit{K: b1}
	}
	if (a.K == bsrc || a.K == bnot) && a.Src == staleSrc {
		return bit{K: bsrc, Src: staleSrc}
	}
	if (b.K == bsrc || b.K == bnot) && b.Src == staleSrc {
		return bit{K: bsrc, Src: staleSrc}
	}
	return bit{K: btop}
}

func bitNot(a bit) bit {
	switch a.K {
	case b0:
		return bit{K: b1}
	case b1:
		return bit{K: b0}
	case bsrc:
		return bit{K: bnot, Src: a.Src, Idx: a.Idx}
	case bnot:
		return bit{K: bsrc, Src: a.Src, Idx: a.Idx}
	}
	return a
}

func bitXor(a, b bit) bit {
	switch {
	case a.K == b0:
		return b
	case b.K == b0:
		return a
	case a.K == b1:
		return bitNot(b)
	case b.K == b1:
		return bitNot(a)
	case a == b && a.K != btop:
		return bit{K: b0}
	}
	if (a.K == bsrc || a.K == bnot) && a.Src == staleSrc {
		return bit{K: bsrc, Src: staleSrc}
	}
	if (b.K == bsrc || b.K == bnot) && b.Src == staleSrc {
		return bit{K: bsrc, Src: staleSrc}
	}
	return bit{K: btop}
}

func typeWidth(t types.Type, arch string) (w int, signed bool, ok bool) {
	b, isB := t.Underlying().(*types.Basic)
	if !isB {
		return 0, false, false
	}
	word := 64
	if arch == "386" {
		word = 32
	}
	switch b.Kind() {
	case types.Bool:
		return 1, false, true
	case types.Int8:
		return 8, true, true
	case types.Uint8:
		return 8, false, true
	case types.Int16:
		return 16, true, true
	case types.Uint16:
		return 16, false, true
	case types.Int32:
		return 32, true, true
	case types.Uint32:
		return 32, false, true
	case types.Int64:
		return 64, true, true
	case types.Uint64:
		return 64, false, true
	case types.Int:
		return word, true, true
	case types.Uint, types.Uintptr:
		return word, false, true
	case types.UntypedInt:
		return 64, true, true
	}
	return 0, false, false
}

func (v BV) resize(w int, signExtend bool) BV {
	out := make(BV, w)
	for i := 0; i < w; i++ {
		switch {
		case i < len(v):
			out[i] = v[i]
		case signExtend && len(v) > 0:
			out[i] = v[len(v)-1]
		default:
			out[i] = bit{K: b0}
		}
	}
	return out
}

// Alt is one alternative value under path conditions (rendered as text).
type Alt struct {
	Cond []string
	V    BV
}

// BitEval evaluates integer expressions of one function activation.
type BitEval struct {
	P     *Program
	Env   map[ssa.Value]BV // parameter / value bindings
	Depth int
	// Name gives the source name for an opaque value; default uses access paths.
	Name func(v ssa.Value) string
}

func (e *BitEval) srcName(v ssa.Value) string {
	if e.Name != nil {
		if s := e.Name(v); s != "" {
			return s
		}
	}
	switch x := v.(type) {
	case *ssa.Parameter:
		return x.Name()
	}
	pa := valuePath(v)
	if len(pa.Sels) > 0 {
		return pa.String()
	}
	return v.Name()
}

func condText(p *Program, from, to *ssa.BasicBlock) string {
	f, ok := edgeFact(from, to)
	if !ok {
		return ""
	}
	return fmt.Sprintf("%s %s %s", describe(f.X), f.Op, describe(f.Y))
}

const maxAlts = 24

// Eval returns the alternatives of v (one per phi-edge combination).
func (e *BitEval) Eval(v ssa.Value) []Alt {
	w, signed, ok := typeWidth(v.Type(), e.P.Arch)
	if !ok {
		return []Alt{{V: nil}}
	}
	if bv, has := e.Env[v]; has {
		return []Alt{{V: bv.resize(w, false)}}
	}
	one := func(bv BV) []Alt { return []Alt{{V: bv}} }
	switch x := v.(type) {
	case *ssa.Const:
		if x.Value == nil {
			return one(bvConst(0, w))
		}
		switch x.Value.Kind() {
		case constant.Int:
			if i, exact := constant.Int64Val(x.Value); exact {
				return one(bvConst(uint64(i), w))
			}
			if u, exact := constant.Uint64Val(x.Value); exact {
				return one(bvConst(u, w))
			}
		case constant.Bool:
			if constant.BoolVal(x.Value) {
				return one(bvConst(1, 1))
			}
			return one(bvConst(0, 1))
		}
		return one(bvTop(w))
	case *ssa.Convert:
		_, sSigned, sok := typeWidth(x.X.Type(), e.P.Arch)
		if !sok {
			return one(bvTop(w))
		}
		return mapAlts(e.Eval(x.X), func(a BV) BV { return a.resize(w, sSigned) })
	case *ssa.ChangeType:
		return e.Eval(x.X)
	case *ssa.UnOp:
		switch x.Op {
		case token.XOR: // ^x
			return mapAlts(e.Eval(x.X), func(a BV) BV {
				out := make(BV, len(a))
				for i := range a {
					out[i] = bitNot(a[i])
				}
				return out
			})
		case token.NOT:
			return mapAlts(e.Eval(x.X), func(a BV) BV { return BV{bitNot(a[0])} })
		case token.MUL:
			// load: a local cell with a single reaching value is looked through
			if c := canonLoad(x); c != ssa.Value(x) {
				return e.Eval(c)
			}
			return one(bvSrc(e.srcName(x), w))
		case token.SUB:
			return mapAlts(e.Eval(x.X), func(a BV) BV {
				if k, ok := a.Const(); ok {
					return bvConst(uint64(-int64(k)), w)
				}
				return bvTop(w)
			})
		}
	case *ssa.BinOp:
		return e.binop(x, w, signed)
	case *ssa.Phi:
		var out []Alt
		for i, ed := range x.Edges {
			pred := x.Block().Preds[i]
			if !e.feasible(pred, x.Block()) {
				continue
			}
			ct := condOfEdge(e.P, pred, x.Block())
			for _, a := range e.Eval(ed) {
				na := Alt{V: a.V, Cond: append(append([]string{}, a.Cond...), ct...)}
				out = append(out, na)
				if len(out) > maxAlts {
					return one(bvTop(w))
				}
			}
		}
		// merge identical alternatives
		return dedupAlts(out)
	case *ssa.Call:
		// encoding/binary: Uint16/32/64 of a byte order on (a constant-offset tail or window of) a named slice is
		// the concatenation of its octets in that order
		if f := x.Common().StaticCallee(); f != nil && len(x.Common().Args) == 2 {
			n, big := 0, true
			switch f.String() {
			case "(encoding/binary.bigEndian).Uint16":
				n = 2
			case "(encoding/binary.bigEndian).Uint32":
				n = 4
			case "(encoding/binary.bigEndian).Uint64":
				n = 8
			case "(encoding/binary.littleEndian).Uint16":
				n, big = 2, false
			case "(encoding/binary.littleEndian).Uint32":
				n, big = 4, false
			case "(encoding/binary.littleEndian).Uint64":
				n, big = 8, false
			}
			if n > 0 {
				base, lo := x.Common().Args[1], int64(0)
				okB := true
				if sl, isSl := base.(*ssa.Slice); isSl {
					base = sl.X
					if sl.Low != nil {
						lo, okB = constInt(sl.Low)
					}
					if sl.High != nil {
						if hi, isK := constInt(sl.High); !isK || hi-lo < int64(n) {
							okB = false
						}
					}
				}
				if prm, isP := base.(*ssa.Parameter); isP && okB {
					var bv BV
					for i := 0; i < n; i++ {
						k := lo + int64(n-1-i) // least significant octet first for big endian
						if !big {
							k = lo + int64(i)
						}
						bv = append(bv, bvSrc(fmt.Sprintf("%s[%d]", prm.Name(), k), 8)...)
					}
					return one(bv)
				}
			}
		}
		if f := x.Common().StaticCallee(); f != nil && e.P.InModule(f) && e.Depth < 6 && len(f.Blocks) > 0 && f.Signature.Results().Len() == 1 {
			if alts, ok := e.inline(x, f); ok {
				return alts
			}
		}
		return one(bvSrc(e.srcName(x), w))
	case *ssa.Parameter, *ssa.Extract, *ssa.Field, *ssa.Index, *ssa.Lookup, *ssa.FreeVar:
		return one(bvSrc(e.srcName(v), w))
	}
	return one(bvSrc(e.srcName(v), w))
}

func condOfEdge(p *Program, pred, blk *ssa.BasicBlock) []string {
	var out []string
	if t := condText(p, pred, blk); t != "" {
		out = append(out, t)
	}
	return out
}

func dedupAlts(in []Alt) []Alt {
	var out []Alt
	for _, a := range in {
		dup := false
		for _, o := range out {
			if o.V.Equal(a.V) && strings.Join(o.Cond, "&") == strings.Join(a.Cond, "&") {
				dup = true
			}
		}
		if !dup {
			out = append(out, a)
		}
	}
	return out
}

func mapAlts(in []Alt, f func(BV) BV) []Alt {
	out := make([]Alt, len(in))
	for i, a := range in {
		if a.V == nil {
			out[i] = a
			continue
		}
		out[i] = Alt{Cond: a.Cond, V: f(a.V)}
	}
	return out
}

func cross(a, b []Alt, f func(x, y BV) BV) []Alt {
	var out []Alt
	for _, x := range a {
		for _, y := range b {
			if x.V == nil || y.V == nil {
				out = append(out, Alt{})
				continue
			}
			out = append(out, Alt{Cond: append(append([]string{}, x.Cond...), y.Cond...), V: f(x.V, y.V)})
			if len(out) > maxAlts {
				return []Alt{{V: bvTop(len(x.V))}}
			}
		}
	}
	return out
}

func (e *BitEval) binop(x *ssa.BinOp, w int, signed bool) []Alt {
	l, r := e.Eval(x.X), e.Eval(x.Y)
	bitwise := func(f func(a, b bit) bit) []Alt {
		return cross(l, r, func(a, b BV) BV {
			a, b = a.resize(w, false), b.resize(w, false)
			out := make(BV, w)
			for i := 0; i < w; i++ {
				out[i] = f(a[i], b[i])
			}
			return out
		})
	}
	switch x.Op {
	case token.AND:
		return bitwise(bitAnd)
	case token.OR:
		return bitwise(bitOr)
	case token.XOR:
		return bitwise(bitXor)
	case token.AND_NOT:
		return bitwise(func(a, b bit) bit { return bitAnd(a, bitNot(b)) })
	case token.SHL, token.SHR:
		return cross(l, r, func(a, b BV) BV {
			k, ok := b.Const()
			if !ok {
				return bvTop(w)
			}
			a = a.resize(w, false)
			out := make(BV, w)
			for i := 0; i < w; i++ {
				var src int
				if x.Op == token.SHL {
					src = i - int(k)
				} else {
					src = i + int(k)
				}
				switch {
				case src >= 0 && src < w:
					out[i] = a[src]
				case x.Op == token.SHR && signed && w > 0:
					out[i] = a[w-1]
				default:
					out[i] = bit{K: b0}
				}
			}
			return out
		})
	case token.ADD, token.SUB, token.MUL, token.QUO, token.REM:
		return cross(l, r, func(a, b BV) BV {
			a, b = a.resize(w, false), b.resize(w, false)
			ka, oka := a.Const()
			kb, okb := b.Const()
			if oka && okb {
				var res uint64
				switch x.Op {
				case token.ADD:
					res = ka + kb
				case token.SUB:
					res = ka - kb
				case token.MUL:
					res = ka * kb
				case token.QUO:
					if kb == 0 {
						return bvTop(w)
					}
					res = ka / kb
				case token.REM:
					if kb == 0 {
						return bvTop(w)
					}
					res = ka % kb
				}
				return bvConst(res, w)
			}
			if x.Op == token.ADD {
				// disjoint supports: addition is or
				disjoint := true
				for i := 0; i < w; i++ {
					if a[i].K != b0 && b[i].K != b0 {
						disjoint = false
					}
				}
				if disjoint {
					out := make(BV, w)
					for i := 0; i < w; i++ {
						out[i] = bitOr(a[i], b[i])
					}
					return out
				}
			}
			if x.Op == token.MUL && okb && kb != 0 && kb&(kb-1) == 0 {
				// multiplication by a power of two is a shift
				sh := 0
				for kb>>uint(sh) != 1 {
					sh++
				}
				out := make(BV, w)
				for i := 0; i < w; i++ {
					if i-sh >= 0 {
						out[i] = a[i-sh]
					}
				}
				return out
			}
			return bvApply(x.Op, a, b, w, signed)
		})
	case token.EQL, token.NEQ:
		// (x & m) == m  or  == 0 for a single-bit mask: the bit itself
		return cross(l, r, func(a, b BV) BV {
			res := bit{K: btop}
			ka, oka := a.Const()
			kb, okb := b.Const()
			if oka && okb {
				if (ka == kb) == (x.Op == token.EQL) {
					return BV{{K: b1}}
				}
				return BV{{K: b0}}
			}
			if oka {
				a, b, kb, okb = b, a, ka, true
			}
			if okb {
				// a vs constant kb: decide if exactly one non-constant cell
				var free []int
				mismatch := false
				for i := range a {
					want := kb>>uint(i)&1 == 1
					switch a[i].K {
					case b0:
						if want {
							mismatch = true
						}
					case b1:
						if !want {
							mismatch = true
						}
					default:
						free = append(free, i)
					}
				}
				if mismatch {
					res = bit{K: b0}
				} else if len(free) == 1 && a[free[0]].K != btop {
					res = a[free[0]]
					if kb>>uint(free[0])&1 == 0 {
						res = bitNot(res)
					}
				}
				if x.Op == token.NEQ {
					res = bitNot(res)
				}
			}
			return BV{res}
		})
	}
	return []Alt{{V: bvTop(w)}}
}

// inline evaluates a call of a small module function: parameters are bound to
// the argument vectors and every Return operand contributes alternatives.
func (e *BitEval) inline(call *ssa.Call, f *ssa.Function) ([]Alt, bool) {
	args := call.Common().Args
	if len(args) != len(f.Params) {
		return nil, false
	}
	argAlts := make([][]Alt, len(args))
	n := 1
	for i, a := range args {
		argAlts[i] = e.Eval(a)
		n *= len(argAlts[i])
		if n > maxAlts {
			return nil, false
		}
	}
	if len(loopHeaders(f)) > 0 {
		return nil, false
	}
	var out []Alt
	var rec func(i int, env map[ssa.Value]BV, cond []string)
	rec = func(i int, env map[ssa.Value]BV, cond []string) {
		if i == len(args) {
			sub := &BitEval{P: e.P, Env: env, Depth: e.Depth + 1, Name: e.Name}
			for _, r := range returnsOf(f) {
				rc := append([]string{}, cond...)
				for _, fct := range factsAt(r.Block()) {
					rc = append(rc, fmt.Sprintf("%s %s %s", describe(fct.X), fct.Op, describe(fct.Y)))
				}
				for _, a := range sub.Eval(r.Results[0]) {
					out = append(out, Alt{Cond: append(append([]string{}, rc...), a.Cond...), V: a.V})
				}
			}
			return
		}
		for _, a := range argAlts[i] {
			ne := map[ssa.Value]BV{}
			for k, v := range env {
				ne[k] = v
			}
			if a.V != nil {
				ne[f.Params[i]] = a.V
			}
			rec(i+1, ne, append(append([]string{}, cond...), a.Cond...))
		}
	}
	rec(0, map[ssa.Value]BV{}, nil)
	if len(out) == 0 || len(out) > maxAlts {
		return nil, false
	}
	return dedupAlts(out), true
}

// evalFunc evaluates a function's single result with named sources for its
// parameters (receiver included).
func evalFunc(p *Program, f *ssa.Function, names map[int]string) []Alt {
	env := map[ssa.Value]BV{}
	for i, prm := range f.Params {
		w, _, ok := typeWidth(prm.Type(), p.Arch)
		if !ok {
			continue
		}
		n := prm.Name()
		if names != nil && names[i] != "" {
			n = names[i]
		}
		env[prm] = bvSrc(n, w)
	}
	e := &BitEval{P: p, Env: env}
	var out []Alt
	for _, r := range returnsOf(f) {
		var rc []string
		for _, fct := range factsAt(r.Block()) {
			rc = append(rc, fmt.Sprintf("%s %s %s", describe(fct.X), fct.Op, describe(fct.Y)))
		}
		for _, a := range e.Eval(r.Results[0]) {
			out = append(out, Alt{Cond: append(append([]string{}, rc...), a.Cond...), V: a.V})
		}
	}
	return dedupAlts(out)
}

// wantBits builds the expected vector from a spec string such as
// "0 0 a[4..0] b[2..0] c[7..0]" (most significant first).
func wantBits(spec string) BV {
	var msb []bit
	for _, tok := range strings.Fields(spec) {
		switch {
		case tok == "0":
			msb = append(msb, bit{K: b0})
		case tok == "1":
			msb = append(msb, bit{K: b1})
		case strings.Contains(tok, "["):
			name := tok[:strings.LastIndex(tok, "[")]
			rng := strings.TrimSuffix(tok[strings.LastIndex(tok, "[")+1:], "]")
			hi, lo := 0, 0
			if strings.Contains(rng, "..") {
				fmt.Sscanf(rng, "%d..%d", &hi, &lo)
			} else {
				fmt.Sscanf(rng, "%d", &hi)
				lo = hi
			}
			for k := hi; k >= lo; k-- {
				msb = append(msb, bit{K: bsrc, Src: name, Idx: k})
			}
		default:
			// run of constant bits like 0111
			for _, ch := range tok {
				if ch == '1' {
					msb = append(msb, bit{K: b1})
				} else {
					msb = append(msb, bit{K: b0})
				}
			}
		}
	}
	out := make(BV, len(msb))
	for i := range msb {
		out[len(msb)-1-i] = msb[i]
	}
	return out
}

// feasible reports false when a comparison that must hold on the edge
// pred->blk is refuted by constant operands under the current bindings.
func (e *BitEval) feasible(pred, blk *ssa.BasicBlock) bool {
	facts := factsAt(pred)
	if f, ok := edgeFact(pred, blk); ok {
		facts = append(facts, f)
	}
	for _, f := range facts {
		if _, isPhi := f.X.(*ssa.Phi); isPhi {
			continue
		}
		if _, isPhi := f.Y.(*ssa.Phi); isPhi {
			continue
		}
		_, signed, okT := typeWidth(f.X.Type(), e.P.Arch)
		if !okT {
			continue
		}
		ax, ay := e.Eval(f.X), e.Eval(f.Y)
		if len(ax) != 1 || len(ay) != 1 || ax[0].V == nil || ay[0].V == nil {
			continue
		}
		kx, okx := ax[0].V.Const()
		ky, oky := ay[0].V.Const()
		if !okx || !oky {
			continue
		}
		var holds bool
		if signed {
			w := len(ax[0].V)
			sx, sy := int64(kx<<(64-uint(w)))>>(64-uint(w)), int64(ky<<(64-uint(w)))>>(64-uint(w))
			switch f.Op {
			case token.EQL:
				holds = sx == sy
			case token.NEQ:
				holds = sx != sy
			case token.LSS:
				holds = sx < sy
			case token.LEQ:
				holds = sx <= sy
			case token.GTR:
				holds = sx > sy
			case token.GEQ:
				holds = sx >= sy
			default:
				holds = true
			}
		} else {
			switch f.Op {
			case token.EQL:
				holds = kx == ky
			case token.NEQ:
				holds = kx != ky
			case token.LSS:
				holds = kx < ky
			case token.LEQ:
				holds = kx <= ky
			case token.GTR:
				holds = kx > ky
			case token.GEQ:
				holds = kx >= ky
			default:
				holds = true
			}
		}
		if !holds {
			return false
		}
	}
	return true
}

// bvApply applies a binary operator to two vectors of width w (constant
// folding, bitwise transfer, constant shifts, disjoint-support addition,
// power-of-two multiplication); anything else yields top.
func bvApply(op token.Token, a, b BV, w int, signed bool) BV {
	a, b = a.resize(w, false), b.resize(w, false)
	bw := func(f func(x, y bit) bit) BV {
		out := make(BV, w)
		for i := 0; i < w; i++ {
			out[i] = f(a[i], b[i])
		}
		return out
	}
	switch op {
	case token.AND:
		return bw(bitAnd)
	case token.OR:
		return bw(bitOr)
	case token.XOR:
		return bw(bitXor)
	case token.AND_NOT:
		return bw(func(x, y bit) bit { return bitAnd(x, bitNot(y)) })
	case token.SHL, token.SHR:
		k, ok := b.Const()
		if !ok {
			return bvTop(w)
		}
		out := make(BV, w)
		for i := 0; i < w; i++ {
			src := i - int(k)
			if op == token.SHR {
				src = i + int(k)
			}
			switch {
			case src >= 0 && src < w:
				out[i] = a[src]
			case op == token.SHR && signed && w > 0:
				out[i] = a[w-1]
			default:
				out[i] = bit{K: b0}
			}
		}
		return out
	case token.ADD, token.SUB, token.MUL:
		ka, oka := a.Const()
		kb, okb := b.Const()
		if oka && okb {
			switch op {
			case token.ADD:
				return bvConst(ka+kb, w)
			case token.SUB:
				return bvConst(ka-kb, w)
			default:
				return bvConst(ka*kb, w)
			}
		}
		if op == token.ADD {
			disjoint := true
			for i := 0; i < w; i++ {
				if a[i].K != b0 && b[i].K != b0 {
					disjoint = false
				}
			}
			if disjoint {
				return bw(bitOr)
			}
		}
		// x + 2^k where x has only one bits from k up (x in [-2^k, 0)): the low k bits of x, zeros above;
		// x - 2^k where x has only zero bits from k up (x in [0, 2^k)): the low k bits of x, ones above
		if (op == token.ADD || op == token.SUB) && (okb || (oka && op == token.ADD)) {
			x, k2 := a, kb
			if !okb {
				x, k2 = b, ka
			}
			if k2 != 0 && k2&(k2-1) == 0 {
				k := 0
				for k2>>uint(k) != 1 {
					k++
				}
				want := b1
				fillK := b0
				if op == token.SUB {
					want, fillK = b0, b1
				}
				all := k < w
				for i := k; i < w; i++ {
					if x[i].K != want {
						all = false
					}
				}
				if all {
					out := make(BV, w)
					copy(out, x[:k])
					for i := k; i < w; i++ {
						out[i] = bit{K: fillK}
					}
					return out
				}
			}
		}
		if op == token.MUL && oka && !okb && ka != 0 && ka&(ka-1) == 0 {
			return bvApply(op, b, a, w, signed)
		}
		if op == token.MUL && okb && kb != 0 && kb&(kb-1) == 0 {
			sh := 0
			for kb>>uint(sh) != 1 {
				sh++
			}
			out := make(BV, w)
			for i := 0; i < w; i++ {
				if i-sh >= 0 {
					out[i] = a[i-sh]
				}
			}
			return out
		}
	case token.REM, token.QUO:
		// unsigned x % 2^k keeps the low k bits, x / 2^k drops them
		kb, okb := b.Const()
		if okb && !signed && kb != 0 && kb&(kb-1) == 0 {
			sh := 0
			for kb>>uint(sh) != 1 {
				sh++
			}
			out := make(BV, w)
			for i := 0; i < w; i++ {
				out[i] = bit{K: b0}
				if op == token.REM && i < sh {
					out[i] = a[i]
				}
				if op == token.QUO && i+sh < w {
					out[i] = a[i+sh]
				}
			}
			return out
		}
		ka, oka := a.Const()
		if oka && okb && kb != 0 && !signed {
			if op == token.REM {
				return bvConst(ka%kb, w)
			}
			return bvConst(ka/kb, w)
		}
	}
	return bvTop(w)
}
