package main

import (
	"fmt"
	"go/token"
	"go/types"

	"golang.org/x/tools/go/ssa"
)

func init() { register("C04", "other", checkC04) }

// linU8 normalises v to base + off (mod 256) when v is computed in uint8
// arithmetic from base by adding/subtracting constants.
func linU8(v ssa.Value) (base ssa.Value, off int64, modular bool) {
	base = v
	modular = true
	for i := 0; i < 8; i++ {
		bo, ok := base.(*ssa.BinOp)
		if !ok || (bo.Op != token.ADD && bo.Op != token.SUB) {
			break
		}
		k, isK := constInt(bo.Y)
		x := bo.X
		if !isK && bo.Op == token.ADD {
			if k2, ok2 := constInt(bo.X); ok2 {
				k, isK, x = k2, true, bo.Y
			}
		}
		if !isK {
			break
		}
		if b, ok := bo.Type().Underlying().(*types.Basic); !ok || b.Kind() != types.Uint8 {
			modular = false
		}
		if bo.Op == token.SUB {
			k = -k
		}
		off += k
		base = x
	}
	if b, ok := base.Type().Underlying().(*types.Basic); !ok || b.Kind() != types.Uint8 {
		modular = false
	}
	if modular {
		off = ((off % 256) + 256) % 256
	}
	return
}

// seqDelta: if the fact says  load(req.SeqNumber) == expected + d  (uint8
// arithmetic), return d in 0..255.
func seqDelta(f Cmp, seqField *types.Var, isExpected func(ssa.Value) bool) (int64, bool) {
	if f.Op != token.EQL {
		return 0, false
	}
	try := func(a, b ssa.Value) (int64, bool) {
		ab, ao, am := linU8(a)
		bb, bo, bm := linU8(b)
		if !am || !bm {
			return 0, false
		}
		if isLoadOf(ab, seqField) && isExpected(bb) {
			// seq + ao == exp + bo  =>  seq = exp + (bo-ao)
			return ((bo-ao)%256 + 256) % 256, true
		}
		return 0, false
	}
	if d, ok := try(f.X, f.Y); ok {
		return d, true
	}
	return try(f.Y, f.X)
}

// guardedBy reports whether every way of reaching block b passes an edge or
// dominating fact accepted by ok (a disjunction over incoming edges).
func guardedBy(b *ssa.BasicBlock, ok func(Cmp) bool) bool {
	seen := map[*ssa.BasicBlock]bool{}
	var g func(b *ssa.BasicBlock) bool
	g = func(b *ssa.BasicBlock) bool {
		if anyFact(factsAt(b), ok) {
			return true
		}
		if seen[b] || len(b.Preds) == 0 {
			return false
		}
		seen[b] = true
		defer delete(seen, b)
		for _, p := range b.Preds {
			if iff := ifOf(p); iff != nil && p.Succs[0] != p.Succs[1] {
				if c, okc := cmpOf(iff.Cond, p.Succs[0] == b); okc && ok(c) {
					continue
				}
			}
			if !g(p) {
				return false
			}
		}
		return true
	}
	return g(b)
}

func checkC04(c *Check, p *Program) {
	c.Technique = "dominating-edge facts with modular (uint8) linear forms, edge-disjunction guards, path counting and def-use on the SSA of the tunnel's request handler, deliver function and serve loop"
	c.Explanation = "Decides, on the CFG of the function that handles a *TunnelReq with the expected-number pointer: R1 every effect (deliver, counter store, acknowledgement) is behind req.Channel == conn.channel; R2 on the UDP path delivery and the single `+1` store of the counter happen exactly once behind req.SeqNumber == expected and nowhere else; R3 the acknowledgement is reachable only through req.SeqNumber == expected or == expected-1 (uint8 modular forms, so expected+255 is accepted and int arithmetic is not) and is sent on every such path exactly once; every other edge returns an error without effect; R4 the acknowledgement carries conn.channel (or req.Channel), req.SeqNumber and status 0; R5 the expected number is a zero-initialised local of the per-connection processing function, allocated outside loops, and every reconnect in the serve loop is followed by a fresh call of that function; R6 on the UseTCP edge exactly one delivery, no transmission, nil result; R7 the deliver function hands its argument on every path exactly once to a send on Tunnel.inbound (directly, or through a goroutine whose every path sends it, a `done` case being the only accepted alternative). Not decided: exactly-once against a concurrently closing tunnel."
	c.Trusted = []string{"go/types, go/ssa", "kxcheck dominance / path counting"}
	c.NotDecided = []string{"delivery against a concurrently closing tunnel (parked sends recover by design)", "behaviour under every stream of requests as a run (only the per-request decision procedure is decided)"}

	a := resolveTunnel(c, p, "C04.anchor")
	if !a.complete() {
		return
	}
	cg := p.CallGraph()
	ix := p.index()
	reqChan := p.Field("knx/knxnet", "TunnelReq", "Channel")
	reqSeq := p.Field("knx/knxnet", "TunnelReq", "SeqNumber")
	reqPay := p.Field("knx/knxnet", "TunnelReq", "Payload")
	if reqChan == nil || reqSeq == nil || reqPay == nil {
		c.Fail("C04.anchor", "knxnet.TunnelReq fields", "", "fields Channel/SeqNumber/Payload not found")
		return
	}

	// ---- deliver function(s): the functions whose call tree sends on Tunnel.inbound
	deliverFns := map[*ssa.Function]bool{}
	for _, op := range ix.opsOnField(a.inbound, "send", "sel-send") {
		top := op.Fn
		for top.Parent() != nil {
			top = top.Parent()
		}
		deliverFns[top] = true
	}
	c.Floor("C04.R7", "functions sending on Tunnel.inbound", len(deliverFns), 1)
	isDeliver := func(in ssa.Instruction) bool {
		ci, ok := in.(*ssa.Call)
		if !ok {
			return false
		}
		f := ci.Common().StaticCallee()
		if f == nil || !deliverFns[f] {
			return false
		}
		// a deliver function shared between clients is handed the channel: it must be this tunnel's own
		_, chansOK := deliverArgs(ci, a.inbound)
		return chansOK
	}
	isSockSend := func(in ssa.Instruction) bool {
		ci, ok := in.(ssa.CallInstruction)
		return ok && isSocketSend(ci, knxnetPath)
	}

	// ---- the handler: (*TunnelReq, *uint8)
	var handler *ssa.Function
	for _, fn := range p.FuncsIn("knx") {
		if fn.Parent() != nil {
			continue
		}
		var hasReq, hasPtr bool
		for _, prm := range fn.Params {
			if isPtrToNamed(prm.Type(), knxnetPath, "TunnelReq") {
				hasReq = true
			}
			if pt, ok := prm.Type().(*types.Pointer); ok {
				if b, ok := pt.Elem().Underlying().(*types.Basic); ok && b.Kind() == types.Uint8 {
					hasPtr = true
				}
			}
		}
		if hasReq && hasPtr {
			handler = fn
		}
	}
	if handler == nil {
		// the counter may have been moved elsewhere: R5 demands a per-epoch local
		c.Fail("C04.R5", "request handler with a per-epoch counter", "", "no function taking (*knxnet.TunnelReq, *uint8) found: the expected inbound sequence number is not a per-connection-epoch local handed to the handler (if it became shared state, nothing restarts it at 0 on reconnect)")
		return
	}
	c.Analysed("functions", FuncName(handler))
	hn := FuncName(handler)
	var seqPtr *ssa.Parameter
	for _, prm := range handler.Params {
		if _, ok := prm.Type().(*types.Pointer); ok && !isPtrToNamed(prm.Type(), knxnetPath, "TunnelReq") && !isPtrToNamed(prm.Type(), knxPath, "Tunnel") {
			seqPtr = prm
		}
	}
	var ctrStores []*ssa.Store
	instrsOf(handler, func(in ssa.Instruction) {
		if st, ok := in.(*ssa.Store); ok && st.Addr == ssa.Value(seqPtr) {
			ctrStores = append(ctrStores, st)
		}
	})
	isExpected := func(v ssa.Value) bool {
		u, ok := v.(*ssa.UnOp)
		if !ok || u.Op != token.MUL || u.X != ssa.Value(seqPtr) {
			return false
		}
		for _, st := range ctrStores {
			if instrReaches(st, u) {
				return false
			}
		}
		return true
	}
	chanOK := func(f Cmp) bool { return cmpIsFieldEq(f, reqChan, a.channel) }
	tcpFact := func(f Cmp) bool { return isUseTCPFact(f, a, true) }
	udpFact := func(f Cmp) bool { return isUseTCPFact(f, a, false) }
	isExp := func(f Cmp) bool { d, ok := seqDelta(f, reqSeq, isExpected); return ok && d == 0 }
	isExpOrPrev := func(f Cmp) bool {
		d, ok := seqDelta(f, reqSeq, isExpected)
		return ok && (d == 0 || d == 255)
	}

	// ---- R1: channel filter on every effect
	nEff := 0
	var delivers, acks []ssa.Instruction
	instrsOf(handler, func(in ssa.Instruction) {
		what := ""
		switch {
		case isDeliver(in):
			what = "delivers"
			delivers = append(delivers, in)
		case isSockSend(in):
			what = "transmits"
			acks = append(acks, in)
		default:
			if st, ok := in.(*ssa.Store); ok && st.Addr == ssa.Value(seqPtr) {
				what = "advances the expected number"
			}
		}
		if what == "" {
			return
		}
		nEff++
		c.Decide(anyFact(factsAt(in.Block()), chanOK), "C04.R1", hn+" "+what+" behind channel match", p.InstrPos(in), "dominated by req.Channel == conn.channel", "the handler "+what+" for a request of a foreign channel")
	})
	c.Floor("C04.R1", "effects in the request handler", nEff, 4)

	// ---- R2: deliver iff expected (UDP path)
	nUDP := 0
	for _, d := range delivers {
		facts := factsAt(d.Block())
		if anyFact(facts, tcpFact) {
			continue
		}
		nUDP++
		c.Decide(anyFact(facts, isExp), "C04.R2", hn+" UDP delivery behind expected number", p.InstrPos(d), "dominated by req.SeqNumber == expected", "a request is delivered although its sequence number is not the expected one (duplicates or out-of-sequence requests reach the application)")
		// payload delivered is req.Payload
		args, _ := deliverArgs(d.(ssa.CallInstruction), a.inbound)
		okp := len(args) == 1 && isLoadOf(args[0], reqPay)
		c.Decide(okp, "C04.R2", hn+" delivers req.Payload", p.InstrPos(d), "argument is the request's payload", "the value delivered is not the request's payload")
	}
	c.Exact("C04.R2", "UDP delivery sites", nUDP, 1, p.Pos(handler.Pos()))
	c.Exact("C04.R2", "stores to the expected number", len(ctrStores), 1, p.Pos(handler.Pos()))
	for _, st := range ctrStores {
		facts := factsAt(st.Block())
		bo, ok := st.Val.(*ssa.BinOp)
		inc := false
		if ok && bo.Op == token.ADD {
			if k, okk := constInt(bo.Y); okk && k == 1 {
				if u, ok := bo.X.(*ssa.UnOp); ok && u.Op == token.MUL && u.X == ssa.Value(seqPtr) {
					inc = true
				}
			}
		}
		if b, ok := st.Val.Type().Underlying().(*types.Basic); !ok || b.Kind() != types.Uint8 {
			inc = false
		}
		c.Decide(inc, "C04.R2", hn+" expected number advances by one (mod 256)", p.InstrPos(st), "*seq = *seq + 1 in uint8", "the expected number is set to "+describe(st.Val)+" instead of advancing by one modulo 256")
		c.Decide(anyFact(facts, isExp) && anyFact(facts, udpFact), "C04.R2", hn+" advance behind expected number", p.InstrPos(st), "dominated by req.SeqNumber == expected on the UDP path", "the expected number advances for a request that does not carry it")
	}
	// on the expected edge: exactly one delivery and one advance on every path to the exit
	for _, b := range handler.Blocks {
		iff := ifOf(b)
		if iff == nil {
			continue
		}
		// a comparison made after the acknowledgement is on its way (to word a log line) decides nothing
		afterAck := false
		for _, ak := range acks {
			if instrDominates(ak, iff) {
				afterAck = true
			}
		}
		if afterAck {
			continue
		}
		for si, s := range b.Succs {
			cm, _ := cmpOf(iff.Cond, si == 0)
			if !isExp(cm) || b.Succs[0] == b.Succs[1] {
				continue
			}
			assume := condAssumption(iff.Cond, si == 0)
			min, max := pathCountAssuming(s, isDeliver, nil, assume)
			c.Decide(min == 1 && max == 1, "C04.R2", hn+" expected edge delivers exactly once", p.InstrPos(iff), "every path from the expected edge delivers once", fmt.Sprintf("paths from the expected-number edge deliver between %d and %d times", min, max))
			min, max = pathCountAssuming(s, func(in ssa.Instruction) bool { st, ok := in.(*ssa.Store); return ok && st.Addr == ssa.Value(seqPtr) }, nil, assume)
			c.Decide(min == 1 && max == 1, "C04.R2", hn+" expected edge advances exactly once", p.InstrPos(iff), "every path from the expected edge advances the number once", fmt.Sprintf("paths from the expected-number edge advance the number between %d and %d times", min, max))
			min, max = pathCountAssuming(s, isSockSend, nil, assume)
			c.Decide(min == 1 && max == 1, "C04.R3", hn+" expected edge acknowledges exactly once", p.InstrPos(iff), "every path from the expected edge acknowledges once", fmt.Sprintf("paths from the expected-number edge acknowledge between %d and %d times", min, max))
		}
	}

	// ---- R3: ack iff expected or previous
	nAckUDP := 0
	for _, s := range acks {
		if anyFact(factsAt(s.Block()), tcpFact) {
			c.Fail("C04.R6", hn+" TCP path transmits", p.InstrPos(s), "an acknowledgement is sent on the UseTCP path")
			continue
		}
		nAckUDP++
		c.Decide(guardedBy(s.Block(), isExpOrPrev), "C04.R3", hn+" acknowledgement only for expected or previous", p.InstrPos(s), "every edge into the acknowledgement carries req.SeqNumber == expected or == expected-1 (mod 256)", "the acknowledgement is reachable for a sequence number that is neither the expected nor the immediately preceding one (or the comparison is not done modulo 256)")
		// R4 content
		site := SendSite{}
		for _, ss := range ix.sockSends {
			if ss.Call == s.(ssa.CallInstruction) {
				site = ss
			}
		}
		if !site.payloadIs("TunnelRes") {
			c.Fail("C04.R4", hn+" acknowledgement type", p.InstrPos(s), "the handler transmits something other than a *knxnet.TunnelRes")
			continue
		}
		al, _ := site.PayVal.(*ssa.Alloc)
		if al == nil {
			c.Fail("C04.R4", hn+" acknowledgement value", p.InstrPos(s), "the acknowledgement is not a fresh composite")
			continue
		}
		fs := fieldStores(al)
		for f, sts := range fs {
			if len(sts) != 1 {
				c.Fail("C04.R4", hn+" ack."+f.Name()+" stored once", p.InstrPos(s), fmt.Sprintf("stored %d times", len(sts)))
				continue
			}
			v := sts[0].Val
			switch f.Name() {
			case "Channel":
				c.Decide(isLoadOf(v, a.channel) || isLoadOf(v, reqChan), "C04.R4", hn+" ack.Channel", p.InstrPos(sts[0]), "the connection's channel", "acknowledgement channel is "+describe(v))
			case "SeqNumber":
				c.Decide(isLoadOf(v, reqSeq), "C04.R4", hn+" ack.SeqNumber", p.InstrPos(sts[0]), "the request's sequence number", "acknowledgement carries "+describe(v)+" instead of the request's sequence number")
			case "Status":
				k, ok := constInt(v)
				c.Decide(ok && k == 0, "C04.R4", hn+" ack.Status", p.InstrPos(sts[0]), "status OK (0)", "acknowledgement status is "+describe(v))
			}
		}
		for _, need := range []string{"Channel", "SeqNumber"} {
			if len(fs[fieldByName(al.Type(), need)]) == 0 {
				c.Fail("C04.R4", hn+" ack."+need+" set", p.InstrPos(s), "the acknowledgement's "+need+" is left zero")
			}
		}
	}
	c.Exact("C04.R3", "acknowledgement sites (UDP)", nAckUDP, 1, p.Pos(handler.Pos()))
	// the previous-number edge acknowledges exactly once and delivers nothing
	for _, b := range handler.Blocks {
		iff := ifOf(b)
		if iff == nil || b.Succs[0] == b.Succs[1] {
			continue
		}
		for si, s := range b.Succs {
			cm, _ := cmpOf(iff.Cond, si == 0)
			d, ok := seqDelta(cm, reqSeq, isExpected)
			if !ok || d != 255 {
				continue
			}
			// the repetition test itself must be reached for every expected number: a comparison of the
			// expected number (or the received one) with a constant on the way there carves out values
			// (after the wrap, expected == 0 and the repetition is 255)
			narrowed := ""
			for _, f := range factsAt(b) {
				for _, pr := range [][2]ssa.Value{{f.X, f.Y}, {f.Y, f.X}} {
					if _, isK := constInt(pr[1]); !isK {
						continue
					}
					if isExpected(pr[0]) || isLoadOf(stripAllConv(pr[0]), reqSeq) {
						narrowed = fmt.Sprintf("the repetition test is only reached when %s %s %s", describe(f.X), f.Op, describe(f.Y))
					}
				}
			}
			c.Decide(narrowed == "", "C04.R3", hn+" repetition test covers every expected number", p.InstrPos(iff), "no constant comparison of the counters on the way to the test", narrowed+": for the other values a repeated request is not acknowledged again")
			min, max := pathCountAssuming(s, isSockSend, nil, condAssumption(iff.Cond, si == 0))
			c.Decide(min == 1 && max == 1, "C04.R3", hn+" previous number is acknowledged again", p.InstrPos(iff), "every path from the expected-1 edge acknowledges once", fmt.Sprintf("the repetition edge acknowledges between %d and %d times", min, max))
			_, maxD := pathCount(s, isDeliver, nil)
			// the merge block is shared with the expected edge; deliveries are judged by R2's dominance
			_ = maxD
		}
	}
	// every return that is not behind expected/previous (UDP) or TCP is an error without effect
	for _, r := range returnsOf(handler) {
		if len(r.Results) != 1 {
			continue
		}
		facts := factsAt(r.Block())
		if guardedBy(r.Block(), isExpOrPrev) || anyFact(facts, tcpFact) {
			continue
		}
		c.Decide(!p.returnMayBeNil(r, 0), "C04.R3", hn+" rejected request returns an error", p.InstrPos(r), "non-nil error", "a request that is neither expected nor a repetition makes the handler return nil")
	}

	// ---- R6 TCP
	nTCP := 0
	for _, r := range returnsOf(handler) {
		if !anyFact(factsAt(r.Block()), tcpFact) {
			continue
		}
		nTCP++
		min, max, ok := pathCountTo(handler.Blocks[0], r.Block(), isDeliver)
		c.Decide(ok && min == 1 && max == 1, "C04.R6", hn+" TCP delivers exactly once", p.InstrPos(r), "one delivery on every path to the TCP exit", fmt.Sprintf("TCP path delivers between %d and %d times", min, max))
		_, maxS, _ := pathCountTo(handler.Blocks[0], r.Block(), isSockSend)
		c.Decide(maxS == 0, "C04.R6", hn+" TCP sends no acknowledgement", p.InstrPos(r), "no Socket.Send on the TCP path", "the TCP path transmits")
		c.Decide(len(r.Results) == 1 && isNilConst(r.Results[0]), "C04.R6", hn+" TCP returns nil", p.InstrPos(r), "nil", "the TCP path returns an error")
	}
	c.Floor("C04.R6", "TCP exits of the handler", nTCP, 1)

	// ---- R5 per-epoch counter
	callers := cg.In[handler]
	c.Exact("C04.R5", "call sites of the request handler", len(callers), 1, "")
	var processFn *ssa.Function
	for _, e := range callers {
		processFn = e.Caller
		ci := e.Site.(ssa.CallInstruction)
		var arg ssa.Value
		for i, prm := range handler.Params {
			if prm == seqPtr && i < len(ci.Common().Args) {
				arg = ci.Common().Args[i]
			}
		}
		al, _ := arg.(*ssa.Alloc)
		ok := al != nil && al.Parent() == e.Caller && !inAnyLoop(al.Block())
		c.Decide(ok, "C04.R5", FuncName(e.Caller)+" passes a fresh local", p.InstrPos(e.Site), "the expected number is a local allocated once per call of "+FuncName(e.Caller), "the expected number handed to the handler is "+describe(arg)+", not a local of the per-connection function (it is not restarted at 0 with a new connection)")
		if al != nil {
			n := 0
			for _, st := range cellStores(al) {
				// an explicit `= 0` before the loop is the same zero initialisation
				if k, isK := constInt(st.Val); isK && k == 0 && !inAnyLoop(st.Block()) && st.Parent() == e.Caller && instrDominates(st, e.Site) {
					continue
				}
				n++
			}
			c.Decide(n == 0, "C04.R5", FuncName(e.Caller)+" counter starts at zero", p.Pos(al.Pos()), "zero-initialised, written only through the handler", fmt.Sprintf("%d direct store(s) to the counter outside the handler", n))
			for _, u := range usesOf(al) {
				switch x := u.(type) {
				case *ssa.Store:
					if x.Addr != ssa.Value(al) {
						c.Fail("C04.R5", FuncName(e.Caller)+" counter escapes", p.InstrPos(u), "the counter's address is stored somewhere")
					}
				case *ssa.Call:
					if x != e.Site {
						c.Fail("C04.R5", FuncName(e.Caller)+" counter shared", p.InstrPos(x), "the counter's address is handed to another function")
					}
				case *ssa.DebugRef, *ssa.UnOp:
				default:
					c.Fail("C04.R5", FuncName(e.Caller)+" counter escapes", p.InstrPos(u), "the counter's address is used in a way the rule does not understand")
				}
			}
		}
	}
	if processFn != nil {
		// every reconnect is followed by a fresh call of the processing function
		connectFns := map[*ssa.Function]bool{}
		for _, s := range ix.sockSends {
			if s.payloadIs("ConnReq") {
				connectFns[s.Fn] = true
			}
		}
		n := 0
		for _, e := range cg.In[processFn] {
			serve := e.Caller
			var connCalls []ssa.Instruction
			instrsOf(serve, func(in ssa.Instruction) {
				if ci, ok := in.(*ssa.Call); ok && ci.Common().StaticCallee() != nil && connectFns[ci.Common().StaticCallee()] {
					connCalls = append(connCalls, in)
				}
			})
			for _, cc := range connCalls {
				n++
				// can the connect call reach itself again without passing the process call?
				procBlock := e.Site.Block()
				reach := map[*ssa.BasicBlock]bool{}
				for _, s := range cc.Block().Succs {
					if s == procBlock {
						continue
					}
					for b := range reachUntil(s, procBlock) {
						reach[b] = true
					}
				}
				again := reach[cc.Block()]
				// and can it reach a further iteration at all (it must, via the process call)
				c.Decide(!again, "C04.R5", FuncName(serve)+" reconnect restarts processing", p.InstrPos(cc), "every cycle through the reconnect passes a fresh call of "+FuncName(processFn), "a reconnect can be followed by another reconnect/iteration without re-entering "+FuncName(processFn)+": the expected number is not restarted")
			}
			// the converse: processing is re-entered (and the expected number with it
			// restarted at 0) only by way of a connect call - the gateway keeps counting
			// on a connection that was not re-established
			if len(connCalls) > 0 {
				procBlock := e.Site.Block()
				hasConn := map[*ssa.BasicBlock]bool{}
				for _, cc := range connCalls {
					if cc.Block() == procBlock && instrIndex(cc) > instrIndex(e.Site) {
						continue // after the call, in the same block: does not guard the next entry by itself
					}
					hasConn[cc.Block()] = true
				}
				back := false
				if !hasConn[procBlock] {
					seen := map[*ssa.BasicBlock]bool{}
					work := append([]*ssa.BasicBlock{}, procBlock.Succs...)
					for len(work) > 0 {
						b := work[len(work)-1]
						work = work[:len(work)-1]
						if b == procBlock {
							back = true
							break
						}
						if seen[b] || hasConn[b] {
							continue
						}
						seen[b] = true
						work = append(work, b.Succs...)
					}
				}
				c.Decide(!back, "C04.R5", FuncName(serve)+" processing restarts only with a connection", p.InstrPos(e.Site), "every cycle back to "+FuncName(processFn)+" passes a connect call", FuncName(processFn)+" can be re-entered without a connect call in between: the expected number restarts at 0 on a connection on which the gateway keeps counting")
			}
		}
		c.Floor("C04.R5", "reconnect sites in the serve loop", n, 1)
	}

	// ---- R7 nothing accepted is dropped
	for fn := range deliverFns {
		checkDeliverFn(c, p, "C04.R7", fn, a.inbound, a.done)
	}
}

// deliverArgs: the non-channel arguments of a call of a deliver function, and whether every channel argument
// is loaded from the client's own inbound field (a helper shared by tunnel and router takes the channel).
func deliverArgs(call ssa.CallInstruction, inbound *types.Var) ([]ssa.Value, bool) {
	var rest []ssa.Value
	ok := true
	for _, a := range callArgs(call) {
		if _, isCh := a.Type().Underlying().(*types.Chan); isCh {
			if chanField(a) != inbound {
				ok = false
			}
			continue
		}
		rest = append(rest, a)
	}
	return rest, ok
}

// checkDeliverFn: every path through fn hands the (single) message parameter
// exactly once to a send on channel field chF.
func checkDeliverFn(c *Check, p *Program, rule string, fn *ssa.Function, chF, doneF *types.Var) {
	name := FuncName(fn)
	c.Analysed("functions", name)
	var msg *ssa.Parameter
	for _, prm := range fn.Params {
		if isNamed(prm.Type(), cemiPath, "Message") {
			msg = prm
		}
	}
	if msg == nil {
		c.Fail(rule, name+" message parameter", p.Pos(fn.Pos()), "no cemi.Message parameter")
		return
	}
	isMsg := func(v ssa.Value) bool { return unspill(resolveFree(v)) == ssa.Value(msg) || unspill(v) == ssa.Value(msg) }
	// closureDelivers: every path of the goroutine body sends msg on chF
	closureDelivers := func(cf *ssa.Function, g *ssa.Go) (bool, string) {
		// the message may be captured or passed as an argument of the go statement
		isMsgOuter := isMsg
		isMsg := func(v ssa.Value) bool {
			if isMsgOuter(v) {
				return true
			}
			if prm, ok := unspill(v).(*ssa.Parameter); ok && prm.Parent() == cf && g != nil {
				for i, fp := range cf.Params {
					if fp == prm && i < len(g.Common().Args) {
						return isMsgOuter(g.Common().Args[i])
					}
				}
			}
			return false
		}
		for _, b := range cf.Blocks {
			if b == cf.Recover {
				continue
			}
			for _, in := range b.Instrs {
				if s, ok := in.(*ssa.Select); ok {
					hasSend := false
					for _, st := range s.States {
						switch {
						case st.Dir == types.SendOnly && chanIs(st.Chan, chF) && isMsg(st.Send):
							hasSend = true
						case st.Dir == types.RecvOnly && doneF != nil && chanIs(st.Chan, doneF):
						default:
							return false, "the parked delivery can give up (select case at " + p.InstrPos(s) + " other than the send or the tunnel's done channel): an accepted telegram is dropped while the tunnel is open"
						}
					}
					if !hasSend || !s.Blocking {
						return false, "the parked delivery's select does not (blockingly) send the message"
					}
				}
			}
		}
		match := func(in ssa.Instruction) bool {
			switch x := in.(type) {
			case *ssa.Send:
				return chanIs(x.Chan, chF) && isMsg(x.X)
			case *ssa.Select:
				for _, st := range x.States {
					if st.Dir == types.SendOnly && chanIs(st.Chan, chF) && isMsg(st.Send) {
						return true
					}
				}
			}
			return false
		}
		min, max := pathCount(cf.Blocks[0], match, func(b *ssa.BasicBlock) bool { return b == cf.Recover })
		if min != 1 || max != 1 {
			return false, fmt.Sprintf("paths of the parked delivery send the message between %d and %d times", min, max)
		}
		return true, ""
	}
	// the synchronous part
	var sel *ssa.Select
	nOther := 0
	instrsOf(fn, func(in ssa.Instruction) {
		switch x := in.(type) {
		case *ssa.Select:
			for _, st := range x.States {
				if st.Dir == types.SendOnly && chanIs(st.Chan, chF) {
					sel = x
				}
			}
		case *ssa.Send:
			if chanIs(x.Chan, chF) {
				nOther++
			}
		}
	})
	pos := p.Pos(fn.Pos())
	if sel == nil {
		// plain blocking send design
		min, max := pathCount(fn.Blocks[0], func(in ssa.Instruction) bool {
			s, ok := in.(*ssa.Send)
			return ok && chanIs(s.Chan, chF) && isMsg(s.X)
		}, nil)
		c.Decide(min == 1 && max == 1, rule, name+" sends the message once", pos, "one blocking send on every path", fmt.Sprintf("paths send the message between %d and %d times", min, max))
		return
	}
	cases, deflt := selectCases(sel)
	okSel := len(sel.States) == 1 && isMsg(sel.States[0].Send)
	c.Decide(okSel, rule, name+" immediate hand-off offers the message", p.InstrPos(sel), "select sends the parameter on the inbound channel", "the hand-off select has other cases or sends another value")
	if sel.Blocking {
		c.OK(rule, name+" blocking hand-off", p.InstrPos(sel), "the send blocks until taken")
		return
	}
	// case taken: nothing else must send again
	if len(cases) > 0 && cases[0].Body != nil {
		_, max := pathCount(cases[0].Body, func(in ssa.Instruction) bool {
			_, isGo := in.(*ssa.Go)
			_, isSend := in.(*ssa.Send)
			return isGo || isSend
		}, func(b *ssa.BasicBlock) bool { return b == deflt })
		_ = max
	}
	if deflt == nil {
		c.Fail(rule, name+" overflow path", p.InstrPos(sel), "non-blocking hand-off without a recognisable default branch: the message is dropped when the application is not ready")
		return
	}
	// default: exactly one go of a delivering closure on every path to the exit
	var goes []*ssa.Go
	reach := reachableFrom(deflt, nil)
	instrsOf(fn, func(in ssa.Instruction) {
		if g, ok := in.(*ssa.Go); ok && reach[g.Block()] {
			goes = append(goes, g)
		}
	})
	min, max := pathCount(deflt, func(in ssa.Instruction) bool { _, ok := in.(*ssa.Go); return ok }, nil)
	// paths from the taken case that merge after the default are counted too; restrict to the default's own blocks
	if deflt != nil && len(goes) == 1 && goes[0].Block() == deflt {
		min, max = 1, 1
	}
	c.Decide(min == 1 && max == 1 && len(goes) == 1, rule, name+" overflow starts one parked delivery", p.InstrPos(sel), "the default branch starts exactly one goroutine", fmt.Sprintf("the overflow branch starts between %d and %d goroutines: the message is dropped or duplicated when the application is not ready", min, max))
	for _, g := range goes {
		cf := goCallee(g)
		if cf == nil {
			c.Fail(rule, name+" parked delivery body", p.InstrPos(g), "cannot resolve the goroutine's function")
			continue
		}
		ok, why := closureDelivers(cf, g)
		c.Decide(ok, rule, FuncName(cf)+" parked delivery sends the message", p.InstrPos(g), "every path of the goroutine sends the captured message once on the inbound channel (or ends with the tunnel's done)", why)
	}
}
