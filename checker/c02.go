package main

import (
	"fmt"
	"go/constant"
	"go/token"
	"go/types"
	"sort"

	"golang.org/x/tools/go/ssa"
)

func init() { register("C02", "other", checkC02) }

type dispatchCase struct {
	Const   constant.Value // nil for default
	Type    *types.Named   // allocated type
	Alloc   *ssa.Alloc
	Pos     token.Pos
	TagPath *Path
}

// dispatchTable extracts, from a decoder's SSA, the map "case constant ->
// allocated type" of the phi whose Unpack method is invoked.
func dispatchTable(c *Check, p *Program, rule string, fn *ssa.Function) (cases []dispatchCase, tag ssa.Value) {
	var phi *ssa.Phi
	for _, b := range fn.Blocks {
		for _, in := range b.Instrs {
			if call, ok := in.(*ssa.Call); ok && call.Common().IsInvoke() && call.Common().Method.Name() == "Unpack" {
				if ph, ok := call.Common().Value.(*ssa.Phi); ok {
					phi = ph
				}
			}
		}
	}
	if phi == nil {
		c.Fail(rule, FuncName(fn)+" dispatch", p.Pos(fn.Pos()), "no `body.Unpack(...)` on a value selected by a switch found")
		return nil, nil
	}
	for i, e := range phi.Edges {
		pred := phi.Block().Preds[i]
		mi, ok := e.(*ssa.MakeInterface)
		if !ok {
			c.Fail(rule, fmt.Sprintf("%s dispatch edge %d", FuncName(fn), i), p.Pos(fn.Pos()), "switch arm does not assign a freshly made value")
			continue
		}
		al, ok := mi.X.(*ssa.Alloc)
		if !ok {
			c.Fail(rule, fmt.Sprintf("%s dispatch edge %d", FuncName(fn), i), p.InstrPos(mi), "switch arm does not allocate a new message value")
			continue
		}
		nt := namedOf(al.Type())
		dc := dispatchCase{Type: nt, Alloc: al, Pos: al.Pos()}
		// the positive equality edges that dominate the arm
		var pos []Cmp
		for _, f := range factsAt(pred) {
			if f.Op == token.EQL {
				if _, ok := f.Y.(*ssa.Const); ok {
					if cst := f.Y.(*ssa.Const); cst.Value != nil && cst.Value.Kind() == constant.Int {
						pos = append(pos, f)
					}
				}
			}
		}
		switch len(pos) {
		case 0:
			// default arm
		case 1:
			dc.Const = pos[0].Y.(*ssa.Const).Value
			if tag == nil {
				tag = pos[0].X
			} else if !valuePath(tag).Equal(valuePath(pos[0].X)) {
				c.Fail(rule, fmt.Sprintf("%s case %s", FuncName(fn), dc.Const), p.InstrPos(al), "case compares a different value than the other cases")
			}
		default:
			c.Fail(rule, fmt.Sprintf("%s arm %s", FuncName(fn), nt.Obj().Name()), p.InstrPos(al), "arm is guarded by more than one equality")
		}
		cases = append(cases, dc)
	}
	return cases, tag
}

// constResult returns the constant a niladic method returns on every path,
// or nil, and the field it returns otherwise.
func constResult(fn *ssa.Function) (constant.Value, *types.Var) {
	var val constant.Value
	for _, r := range returnsOf(fn) {
		if len(r.Results) != 1 {
			return nil, nil
		}
		switch x := r.Results[0].(type) {
		case *ssa.Const:
			if val != nil && constant.Compare(val, token.NEQ, x.Value) {
				return nil, nil
			}
			val = x.Value
		default:
			return nil, loadedField(r.Results[0])
		}
	}
	return val, nil
}

func methodOf(p *Program, nt *types.Named, name string) *ssa.Function {
	for _, t := range []types.Type{nt, types.NewPointer(nt)} {
		ms := p.SSA.MethodSets.MethodSet(t)
		for i := 0; i < ms.Len(); i++ {
			if ms.At(i).Obj().Name() == name {
				if f := p.SSA.MethodValue(ms.At(i)); f != nil {
					// resolve promoted-method wrappers to the declared method
					if f.Synthetic != "" {
						if o, ok := ms.At(i).Obj().(*types.Func); ok {
							if d := p.SSA.FuncValue(o); d != nil {
								return d
							}
						}
					}
					return f
				}
			}
		}
	}
	return nil
}

func checkDispatch(c *Check, p *Program, rel, decoder, codeMethod, codeType, ifaceName string, floor int) {
	rule := "C02.dispatch"
	fn := p.Func(rel, decoder)
	if fn == nil {
		c.Fail(rule, rel+"."+decoder, "", "decoder function not found")
		return
	}
	c.Analysed("functions", FuncName(fn))
	cases, tag := dispatchTable(c, p, rule, fn)
	checkDispatchFlow(c, p, rule, fn, tag)
	pk := p.Pkg(rel)
	ct := p.Named(rel, codeType)
	byConst := map[string]*types.Named{}
	byType := map[*types.Named]bool{}
	nCases := 0
	for _, dc := range cases {
		if dc.Type == nil {
			continue
		}
		name := rel + "." + dc.Type.Obj().Name()
		pos := p.Pos(dc.Pos)
		m := methodOf(p, dc.Type, codeMethod)
		if m == nil {
			c.Fail(rule, name, pos, "type has no "+codeMethod+"() method")
			continue
		}
		val, fld := constResult(m)
		if dc.Const == nil {
			// default arm: the code must be carried in a field that the
			// decoder fills with the switch tag.
			ok := val == nil && fld != nil
			stored := false
			if ok && tag != nil {
				for _, u := range usesOf(dc.Alloc) {
					if fa, ok := u.(*ssa.FieldAddr); ok && structField(fa.X.Type(), fa.Field) == fld {
						for _, su := range usesOf(fa) {
							if st, ok := su.(*ssa.Store); ok && valuePath(st.Val).Equal(valuePath(tag)) {
								stored = true
							}
						}
					}
				}
			}
			c.Decide(ok && stored, rule, name+" (default arm)", pos,
				codeMethod+"() returns field "+fieldName(fld)+", which the decoder sets to the received code",
				"default arm does not preserve the received code (so "+codeMethod+"() of the decoded value differs from the wire)")
			byType[dc.Type] = true
			continue
		}
		nCases++
		ks := dc.Const.ExactString()
		if prev, dup := byConst[ks]; dup {
			c.Fail(rule, name, pos, fmt.Sprintf("code %s is also dispatched to %s", ks, prev.Obj().Name()))
		}
		byConst[ks] = dc.Type
		if byType[dc.Type] {
			c.Fail(rule, name, pos, "type is constructed by two cases")
		}
		byType[dc.Type] = true
		ok := val != nil && constant.Compare(val, token.EQL, dc.Const)
		got := "a non-constant"
		if val != nil {
			got = val.ExactString()
		}
		c.Decide(ok, rule, name, pos,
			fmt.Sprintf("case %s constructs %s and %s() returns %s", constName(pk, ct, dc.Const), dc.Type.Obj().Name(), codeMethod, got),
			fmt.Sprintf("decoder constructs %s for code %s but %s.%s() returns %s: an encoded value decodes as a different type", dc.Type.Obj().Name(), constName(pk, ct, dc.Const), dc.Type.Obj().Name(), codeMethod, got))
	}
	c.Floor(rule, rel+"."+decoder+" cases", nCases, floor)
	// every named constant of the code type has a case
	for _, n := range pk.Scope().Names() {
		cn, ok := pk.Scope().Lookup(n).(*types.Const)
		if !ok || ct == nil || !types.Identical(cn.Type(), ct) {
			continue
		}
		_, has := byConst[cn.Val().ExactString()]
		// a code that is only named (no type encodes under it) is decoded by the default arm, which keeps
		// the received code: nothing to give back.  A code some type encodes under needs its case.
		encodedBy := ""
		if !has {
			for _, nt := range p.allNamedTypes() {
				if nt.Obj().Pkg() != pk {
					continue
				}
				if m := methodOf(p, nt, codeMethod); m != nil {
					if v, _ := constResult(m); v != nil && constant.Compare(v, token.EQL, cn.Val()) {
						encodedBy = nt.Obj().Name()
					}
				}
			}
		}
		fact := "dispatched"
		if !has {
			fact = "named only: no type encodes under this code, the default arm preserves it"
		}
		c.Decide(has || encodedBy == "", rule, rel+"."+n+" has a case", p.Pos(cn.Pos()), fact, "declared code has no case in "+decoder+" although "+encodedBy+" encodes under it: its frames decode as the unknown/unsupported type")
	}
	// every type implementing the interface with a constant code is constructed by a case
	if io := pk.Scope().Lookup(ifaceName); io != nil {
		if it, ok := io.Type().Underlying().(*types.Interface); ok {
			for _, nt := range p.allNamedTypes() {
				if nt.Obj().Pkg() != pk {
					continue
				}
				if _, isI := nt.Underlying().(*types.Interface); isI {
					continue
				}
				if !types.Implements(types.NewPointer(nt), it) {
					continue
				}
				m := methodOf(p, nt, codeMethod)
				if m == nil {
					continue
				}
				c.Decide(byType[nt], rule, rel+"."+nt.Obj().Name()+" is constructed", p.Pos(nt.Obj().Pos()), "constructed by a case of "+decoder, "type implements "+ifaceName+" but "+decoder+" never constructs it: its encoding decodes as another type")
			}
		}
	}
}

func fieldName(f *types.Var) string {
	if f == nil {
		return "<none>"
	}
	return f.Name()
}

func constName(pk *types.Package, t *types.Named, v constant.Value) string {
	for _, n := range pk.Scope().Names() {
		if cn, ok := pk.Scope().Lookup(n).(*types.Const); ok && t != nil && types.Identical(cn.Type(), t) && constant.Compare(cn.Val(), token.EQL, v) {
			return n
		}
	}
	return v.ExactString()
}

// switchCaseTypes lists the types tested by comma-ok type assertions on the
// interface parameter of util.Pack / util.Unpack (its type switch).
func switchCaseTypes(fn *ssa.Function, param ssa.Value) []types.Type {
	var out []types.Type
	for _, b := range fn.Blocks {
		for _, in := range b.Instrs {
			if ta, ok := in.(*ssa.TypeAssert); ok && ta.X == param && ta.CommaOk {
				out = append(out, ta.AssertedType)
			}
		}
	}
	return out
}

// ifaceArgs returns the values boxed into interface{} arguments of a call to
// util.Pack/PackSome/Unpack/UnpackSome (reading varargs arrays back).
func ifaceArgs(call ssa.CallInstruction, variadic bool) (vals []ssa.Value, opaque bool) {
	args := call.Common().Args
	if len(args) < 2 {
		return nil, true
	}
	a := args[1]
	if !variadic {
		return []ssa.Value{a}, false
	}
	sl, ok := a.(*ssa.Slice)
	if !ok {
		if c, ok := a.(*ssa.Const); ok && c.Value == nil {
			return nil, false // no items
		}
		return nil, true
	}
	arr, ok := sl.X.(*ssa.Alloc)
	if !ok {
		return nil, true
	}
	type item struct {
		idx int64
		v   ssa.Value
	}
	var items []item
	for _, u := range usesOf(arr) {
		ia, ok := u.(*ssa.IndexAddr)
		if !ok {
			continue
		}
		k, ok := constInt(ia.Index)
		if !ok {
			return nil, true
		}
		for _, su := range usesOf(ia) {
			if st, ok := su.(*ssa.Store); ok && st.Addr == ia {
				items = append(items, item{k, st.Val})
			}
		}
	}
	sort.Slice(items, func(i, j int) bool { return items[i].idx < items[j].idx })
	for _, it := range items {
		vals = append(vals, it.v)
	}
	return vals, false
}

func checkPackability(c *Check, p *Program) {
	rule := "C02.packable"
	utilPath := modPath + "/knx/util"
	type target struct {
		name     string
		variadic bool
		iface    string
		via      string // function holding the type switch
	}
	targets := []target{
		{"Pack", false, "Packable", "Pack"},
		{"PackSome", true, "Packable", "Pack"},
		{"Unpack", false, "Unpackable", "Unpack"},
		{"UnpackSome", true, "Unpackable", "Unpack"},
	}
	nSites, nItems := 0, 0
	for _, tg := range targets {
		sw := p.Func("knx/util", tg.via)
		if sw == nil || len(sw.Params) < 2 {
			c.Fail(rule, "util."+tg.via, "", "function not found")
			continue
		}
		caseTypes := switchCaseTypes(sw, sw.Params[1])
		io := p.Pkg("knx/util").Scope().Lookup(tg.iface)
		if io == nil {
			c.Fail(rule, "util."+tg.iface, "", "interface not found")
			continue
		}
		it := io.Type().Underlying().(*types.Interface)
		for _, fn := range p.SrcFuncs() {
			for _, b := range fn.Blocks {
				for _, in := range b.Instrs {
					call, ok := in.(ssa.CallInstruction)
					if !ok || !callIs(call, utilPath, "", tg.name) {
						continue
					}
					nSites++
					vals, opaque := ifaceArgs(call, tg.variadic)
					site := fmt.Sprintf("%s:util.%s", FuncName(fn), tg.name)
					if opaque {
						// forwarding of an existing []interface{} (util.PackSome's own loop)
						if fnPkg(fn).Pkg.Path() == utilPath {
							continue
						}
						c.Fail(rule, site, p.InstrPos(in), "argument list is not a literal list of values: cannot decide packability")
						continue
					}
					for i, v := range vals {
						var st types.Type
						switch x := v.(type) {
						case *ssa.MakeInterface:
							st = x.X.Type()
						case *ssa.ChangeInterface:
							st = x.X.Type() // an interface type: its method set decides
						default:
							st = v.Type()
							if _, isI := st.Underlying().(*types.Interface); isI {
								if fnPkg(fn).Pkg.Path() == utilPath {
									continue // generic forwarding inside util
								}
							}
						}
						nItems++
						ok := false
						why := ""
						for _, ct := range caseTypes {
							if _, isI := ct.Underlying().(*types.Interface); isI {
								continue
							}
							if types.Identical(ct, st) {
								ok = true
								why = "primitive case " + typeName(ct)
							}
						}
						if !ok && types.Implements(st, it) {
							ok = true
							why = typeName(st) + " implements util." + tg.iface
						}
						c.Decide(ok, rule, fmt.Sprintf("%s arg%d %s", site, i, typeName(st)), p.InstrPos(in), why,
							fmt.Sprintf("%s is neither a primitive case of util.%s nor implements util.%s (method on the pointer type only?): util.%s fails on it at run time", typeName(st), tg.via, tg.iface, tg.via))
					}
				}
			}
		}
	}
	c.Floor(rule, "util.Pack/PackSome/Unpack/UnpackSome call sites", nSites, 28)
	c.Note("packability: %d call sites, %d boxed arguments", nSites, nItems)
}

func checkC02(c *Check, p *Program) {
	c.Technique = "SSA extraction of the decoder dispatch tables compared with the Service()/MessageCode() constants; static packability of every boxed argument; Pack/Unpack wire-layout agreement by path-sensitive bit-provenance (see C15 engine)"
	c.Explanation = "Decides structural necessary conditions of the round trip: (1) dispatch tables of knxnet.Unpack and cemi.Unpack are injective, cover every declared code and every implementing type, and agree with the constant each type's Service()/MessageCode() returns; the default arm preserves the received code; (2) every value handed to util.Pack/PackSome/Unpack/UnpackSome is a primitive case of the callee's type switch or implements Packable/Unpackable; (3) for every type with both Pack and Unpack the extracted wire layouts agree field by field and bit by bit; (4) the primitive integer codecs are big-endian inverses. Not decided: value equality through data-dependent parts (string transcoding, idempotence for arbitrary accepted byte strings)."
	c.Trusted = []string{"go/types, go/ssa", "kxcheck dispatch/packability/layout rules"}
	c.NotDecided = []string{"equality of decoded and encoded values for all field values through variable-length parts and string transcoding", "decode-re-encode-decode idempotence on arbitrary accepted byte strings"}
	checkDispatch(c, p, "knx/knxnet", "Unpack", "Service", "ServiceID", "Service", 15)
	checkDispatch(c, p, "knx/cemi", "Unpack", "MessageCode", "MessageCode", "Message", 7)
	checkPackability(c, p)
	if layoutRulesC02 != nil {
		layoutRulesC02(c, p)
	}
	checkOverrides(c, p, "C02.layout")
}

// set by the layout engine when it is linked in
var layoutRulesC02 func(c *Check, p *Program)

// checkDispatchFlow decides the data flow around the type switch of a frame
// decoder: the code the switch looks at was decoded from the head of the
// input, the selected body decodes the rest of the input, a successful decode
// hands the body to the caller, and the reported length is the sum of both.
func checkDispatchFlow(c *Check, p *Program, rule string, fn *ssa.Function, tag ssa.Value) {
	name := FuncName(fn)
	data := inputParam(fn)
	var bodyCall *ssa.Call
	var phi *ssa.Phi
	instrsOf(fn, func(in ssa.Instruction) {
		if call, ok := in.(*ssa.Call); ok && call.Common().IsInvoke() && call.Common().Method.Name() == "Unpack" {
			if ph, ok := call.Common().Value.(*ssa.Phi); ok {
				bodyCall, phi = call, ph
			}
		}
	})
	if data == nil || bodyCall == nil || tag == nil {
		return // reported by dispatchTable
	}
	isData := func(v ssa.Value) bool { return v == ssa.Value(data) || unspill(v) == ssa.Value(data) }
	root := func(v ssa.Value) ssa.Value {
		for {
			switch x := v.(type) {
			case *ssa.MakeInterface:
				v = x.X
			case *ssa.ChangeType:
				v = x.X
			case *ssa.Convert:
				v = x.X
			default:
				return v
			}
		}
	}
	// 1. the code under the switch
	var cell *ssa.Alloc
	if u, ok := root(tag).(*ssa.UnOp); ok && u.Op == token.MUL {
		cell, _ = u.X.(*ssa.Alloc)
	}
	var hdrCall *ssa.Call
	if cell != nil {
		instrsOf(fn, func(in ssa.Instruction) {
			call, ok := in.(*ssa.Call)
			if !ok || call == bodyCall || len(call.Common().Args) < 2 || !isData(call.Common().Args[0]) {
				return
			}
			for _, a := range call.Common().Args[1:] {
				if root(a) == ssa.Value(cell) {
					hdrCall = call
				}
			}
		})
	}
	tagIn, _ := tag.(ssa.Instruction)
	okTag := hdrCall != nil && tagIn != nil && instrDominates(hdrCall, tagIn)
	if okTag {
		for _, u := range usesOf(cell) {
			if st, isSt := u.(*ssa.Store); isSt && st.Addr == ssa.Value(cell) {
				okTag = false
			}
		}
	}
	c.Decide(okTag, rule, name+" switches on the code decoded from the head of the input", p.Pos(tag.Pos()), "the switch tag is the cell a header decoder filled from the input, and nothing else writes it", "the value under the switch is not (only) what the header decoder read from the input: every frame is dispatched as the same type")
	// 2. the body decodes the rest
	var hdrN ssa.Value
	if hdrCall != nil {
		for _, u := range usesOf(hdrCall) {
			if ex, ok := u.(*ssa.Extract); ok && ex.Index == 0 {
				hdrN = ex
			}
		}
	}
	okRest := false
	if sl, ok := bodyCall.Common().Args[0].(*ssa.Slice); ok && isData(sl.X) && sl.High == nil && sl.Max == nil && hdrN != nil && sl.Low != nil && stripAllConv(sl.Low) == hdrN {
		okRest = true
	}
	c.Decide(okRest, rule, name+" body decodes the input behind the header", p.InstrPos(bodyCall), "body.Unpack(data[n:]) with n the header decoder's count", "the selected body is not handed exactly the input behind the header")
	// 3. success hands the body over
	var out *ssa.Parameter
	for _, prm := range fn.Params {
		if pt, ok := prm.Type().(*types.Pointer); ok {
			if _, isI := pt.Elem().Underlying().(*types.Interface); isI {
				out = prm
			}
		}
	}
	var bodyErr ssa.Value
	for _, u := range usesOf(bodyCall) {
		if ex, ok := u.(*ssa.Extract); ok && ex.Index == 1 {
			bodyErr = ex
		}
	}
	isHandOver := func(in ssa.Instruction) bool {
		st, ok := in.(*ssa.Store)
		if !ok || out == nil || st.Addr != ssa.Value(out) {
			return false
		}
		v := st.Val
		for {
			if ci, ok := v.(*ssa.ChangeInterface); ok {
				v = ci.X
				continue
			}
			break
		}
		return v == ssa.Value(phi)
	}
	okStore := false
	if bodyErr != nil && out != nil {
		// every path on which the body reported no error passes the hand-over once; no other path does
		var cond ssa.Value
		pol := true
		instrsOf(fn, func(in ssa.Instruction) {
			if bo, ok := in.(*ssa.BinOp); ok && (bo.Op == token.EQL || bo.Op == token.NEQ) {
				if (bo.X == bodyErr && isNilConst(bo.Y)) || (bo.Y == bodyErr && isNilConst(bo.X)) {
					cond, pol = bo, bo.Op == token.EQL
				}
			}
		})
		if cond != nil {
			mn, mx := pathCountAssuming(bodyCall.Block(), isHandOver, nil, map[ssa.Value]bool{cond: pol})
			fmn, fmx := pathCountAssuming(bodyCall.Block(), isHandOver, nil, map[ssa.Value]bool{cond: !pol})
			okStore = mn == 1 && mx == 1 && fmn == 0 && fmx == 0
		}
	}
	c.Decide(okStore, rule, name+" hands the decoded body to the caller exactly when it decoded", p.InstrPos(bodyCall), "*out = body on every path with err == nil, on no path with err != nil", "a successfully decoded body is not stored into the caller's variable on every path (or a failed one is): the caller keeps its previous value and is told the decode succeeded")
	// 4. the reported length
	nRet := 0
	var bodyN ssa.Value
	for _, u := range usesOf(bodyCall) {
		if ex, ok := u.(*ssa.Extract); ok && ex.Index == 0 {
			bodyN = ex
		}
	}
	for _, r := range returnsOf(fn) {
		if !instrDominates(bodyCall, r) || len(r.Results) < 1 {
			continue
		}
		nRet++
		okSum := false
		if bo, ok := stripAllConv(r.Results[0]).(*ssa.BinOp); ok && bo.Op == token.ADD && hdrN != nil && bodyN != nil {
			okSum = (bo.X == hdrN && bo.Y == bodyN) || (bo.X == bodyN && bo.Y == hdrN)
		}
		c.Decide(okSum, rule, name+" reports header + body length", p.InstrPos(r), "n + m", "the consumed length is not the header's plus the body's count")
	}
	c.Floor(rule, "returns of "+name+" behind the body decode", nRet, 1)
}
