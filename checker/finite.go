package main

import (
	"go/constant"
	"go/token"
	"go/types"

	"golang.org/x/tools/go/ssa"
)

// Powerset abstract interpretation of small pure predicates: a function of
// one parameter of an 8-bit integer type is evaluated over the powerset of
// its 256 argument values.  Every path from the entry to a return carries the
// set of arguments that take it (each branch splits the set exactly, because
// conditions are expressions over the parameter and constants); the result is
// the exact set of arguments for which the function returns true.  The domain
// is finite, so this is an exact analysis, not an execution: no library code
// runs, expressions are folded over the candidate set.

type finSet [256]bool

// finConstBusy: functions whose constant result is being determined (guards
// against wrappers that return each other's result).
var finConstBusy = map[*ssa.Function]bool{}

func (s finSet) empty() bool {
	for _, b := range s {
		if b {
			return false
		}
	}
	return true
}

// finExpr evaluates a pure SSA expression for argument x; taken maps join
// blocks to the predecessor index through which the current path entered.
func finExpr(v ssa.Value, prm ssa.Value, x int64, taken map[*ssa.BasicBlock]int, depth int) (constant.Value, bool) {
	if depth > 40 {
		return nil, false
	}
	if prm != nil && v == prm {
		return constant.MakeInt64(x), true
	}
	if finVals != nil {
		if cv, ok := finVals[v]; ok {
			return cv, cv != nil
		}
	}
	if prm != nil {
		// another load of the same local cell with no write in between is the same number
		if _, isLoad := v.(*ssa.UnOp); isLoad && types.Identical(v.Type(), prm.Type()) && sameNumeric(v, prm) {
			return constant.MakeInt64(x), true
		}
	}
	switch e := v.(type) {
	case *ssa.Const:
		if e.Value == nil {
			return nil, false
		}
		return e.Value, true
	case *ssa.ChangeType:
		return finExpr(e.X, prm, x, taken, depth+1)
	case *ssa.Convert:
		in, ok := finExpr(e.X, prm, x, taken, depth+1)
		if !ok || in.Kind() != constant.Int {
			return nil, false
		}
		w, signed, okw := typeWidth(e.Type(), "amd64")
		if !okw {
			return nil, false
		}
		k, exact := constant.Int64Val(in)
		if !exact {
			return nil, false
		}
		return constant.MakeInt64(wrapInt(k, w, signed)), true
	case *ssa.Phi:
		i, ok := taken[e.Block()]
		if !ok {
			return nil, false
		}
		return finExpr(e.Edges[i], prm, x, taken, depth+1)
	case *ssa.Call:
		// a call of a pure function of one 8-bit argument: its table
		if f := e.Common().StaticCallee(); f != nil && len(e.Common().Args) == 1 {
			if tab, ok := finTable8(f); ok {
				a, oka := finExpr(e.Common().Args[0], prm, x, taken, depth+1)
				if !oka || a.Kind() != constant.Int {
					return nil, false
				}
				k, _ := constant.Int64Val(a)
				r := tab[uint8(k)]
				if b, isB := f.Signature.Results().At(0).Type().Underlying().(*types.Basic); isB && b.Info()&types.IsBoolean != 0 {
					return constant.MakeBool(r != 0), true
				}
				return constant.MakeInt64(r), true
			}
		}
		// a method that returns the same constant on every path (Size() of a fixed-size structure)
		if f := e.Common().StaticCallee(); f != nil && len(f.Blocks) > 0 && f.Signature.Results().Len() == 1 && !finConstBusy[f] && depth < 6 {
			finConstBusy[f] = true
			defer delete(finConstBusy, f)
			val, has := int64(0), false
			for _, r := range returnsOf(f) {
				k, ok := constInt(r.Results[0])
				if !ok || (has && k != val) {
					return nil, false
				}
				val, has = k, true
			}
			if has {
				return constant.MakeInt64(val), true
			}
		}
		return nil, false
	case *ssa.UnOp:
		in, ok := finExpr(e.X, prm, x, taken, depth+1)
		if !ok {
			return nil, false
		}
		switch e.Op {
		case token.NOT:
			if in.Kind() == constant.Bool {
				return constant.MakeBool(!constant.BoolVal(in)), true
			}
		case token.SUB, token.XOR:
			if in.Kind() == constant.Int {
				w, signed, okw := typeWidth(e.Type(), "amd64")
				k, exact := constant.Int64Val(in)
				if okw && exact {
					if e.Op == token.SUB {
						return constant.MakeInt64(wrapInt(-k, w, signed)), true
					}
					return constant.MakeInt64(wrapInt(^k, w, signed)), true
				}
			}
		}
	case *ssa.BinOp:
		a, ok1 := finExpr(e.X, prm, x, taken, depth+1)
		b, ok2 := finExpr(e.Y, prm, x, taken, depth+1)
		if !ok1 || !ok2 {
			return nil, false
		}
		switch e.Op {
		case token.EQL, token.NEQ, token.LSS, token.LEQ, token.GTR, token.GEQ:
			if a.Kind() == constant.Bool && b.Kind() == constant.Bool {
				eq := constant.BoolVal(a) == constant.BoolVal(b)
				if e.Op == token.EQL {
					return constant.MakeBool(eq), true
				}
				if e.Op == token.NEQ {
					return constant.MakeBool(!eq), true
				}
				return nil, false
			}
			if a.Kind() == constant.Int && b.Kind() == constant.Int {
				return constant.MakeBool(constant.Compare(a, e.Op, b)), true
			}
			return nil, false
		}
		if a.Kind() != constant.Int || b.Kind() != constant.Int {
			return nil, false
		}
		ka, ea := constant.Int64Val(a)
		kb, eb := constant.Int64Val(b)
		w, signed, okw := typeWidth(e.Type(), "amd64")
		if !ea || !eb || !okw {
			return nil, false
		}
		var r int64
		switch e.Op {
		case token.ADD:
			r = ka + kb
		case token.SUB:
			r = ka - kb
		case token.MUL:
			r = ka * kb
		case token.AND:
			r = ka & kb
		case token.OR:
			r = ka | kb
		case token.XOR:
			r = ka ^ kb
		case token.AND_NOT:
			r = ka &^ kb
		case token.SHL:
			if kb < 0 || kb > 63 {
				return nil, false
			}
			r = ka << uint(kb)
		case token.SHR:
			if kb < 0 || kb > 63 {
				return nil, false
			}
			r = ka >> uint(kb)
		case token.QUO:
			if kb == 0 {
				return nil, false
			}
			r = ka / kb
		case token.REM:
			if kb == 0 {
				return nil, false
			}
			r = ka % kb
		default:
			return nil, false
		}
		return constant.MakeInt64(wrapInt(r, w, signed)), true
	}
	return nil, false
}

func wrapInt(k int64, w int, signed bool) int64 {
	if w >= 64 {
		return k
	}
	m := int64(1)<<uint(w) - 1
	k &= m
	if signed && k>>(uint(w)-1)&1 == 1 {
		k -= int64(1) << uint(w)
	}
	return k
}

// finTable8: the complete value table of a function of one 8-bit integer
// parameter with one integer or boolean result (booleans as 0/1), indexed by
// the argument's bit pattern.  ok=false when fn is not such a function or
// contains anything but branches and pure expressions over the parameter.
var finTableCache = map[*ssa.Function]*[256]int64{}

func finTable8(fn *ssa.Function) (*[256]int64, bool) {
	if t, ok := finTableCache[fn]; ok {
		return t, t != nil
	}
	finTableCache[fn] = nil
	if fn == nil || fn.Blocks == nil || len(fn.Params) != 1 || fn.Signature.Results().Len() != 1 {
		return nil, false
	}
	prm := fn.Params[0]
	w, signed, okw := typeWidth(prm.Type(), "amd64")
	if !okw || w != 8 {
		return nil, false
	}
	for _, b := range fn.Blocks {
		for _, in := range b.Instrs {
			switch x := in.(type) {
			case *ssa.BinOp, *ssa.Convert, *ssa.ChangeType, *ssa.Phi, *ssa.If, *ssa.Jump, *ssa.Return, *ssa.DebugRef:
			case *ssa.UnOp:
				if x.Op == token.MUL || x.Op == token.ARROW {
					return nil, false
				}
			case *ssa.Call:
				// calls of other such functions
				if _, ok := finTable8(x.Common().StaticCallee()); !ok || x.Common().StaticCallee() == fn {
					return nil, false
				}
			default:
				return nil, false
			}
		}
		for _, s := range b.Succs {
			if isBackEdge(b, s) {
				return nil, false
			}
		}
	}
	var tab [256]int64
	for i := 0; i < 256; i++ {
		x := int64(i)
		if signed {
			x = int64(int8(i))
		}
		taken := map[*ssa.BasicBlock]int{}
		b := fn.Blocks[0]
		for steps := 0; ; steps++ {
			if steps > len(fn.Blocks)+2 {
				return nil, false
			}
			last := b.Instrs[len(b.Instrs)-1]
			var next *ssa.BasicBlock
			switch t := last.(type) {
			case *ssa.Return:
				v, okv := finExpr(t.Results[0], prm, x, taken, 0)
				if !okv {
					return nil, false
				}
				switch v.Kind() {
				case constant.Bool:
					if constant.BoolVal(v) {
						tab[i] = 1
					}
				case constant.Int:
					k, exact := constant.Int64Val(v)
					if !exact {
						return nil, false
					}
					tab[i] = k
				default:
					return nil, false
				}
			case *ssa.Jump:
				next = b.Succs[0]
			case *ssa.If:
				v, okv := finExpr(t.Cond, prm, x, taken, 0)
				if !okv || v.Kind() != constant.Bool {
					return nil, false
				}
				if constant.BoolVal(v) {
					next = b.Succs[0]
				} else {
					next = b.Succs[1]
				}
			default:
				return nil, false
			}
			if next == nil {
				break
			}
			for pi, p := range next.Preds {
				if p == b {
					taken[next] = pi
				}
			}
			b = next
		}
	}
	finTableCache[fn] = &tab
	return &tab, true
}

// acceptSet8: the exact set of arguments for which the one-parameter (8-bit
// integer) boolean function fn returns true.  ok=false when fn is not such a
// function or contains anything but branches and pure expressions over the
// parameter (calls, loads, loops).
func acceptSet8(fn *ssa.Function) (acc finSet, ok bool) {
	if fn == nil || fn.Blocks == nil || len(fn.Params) != 1 || fn.Signature.Results().Len() != 1 {
		return acc, false
	}
	if b, isB := fn.Signature.Results().At(0).Type().Underlying().(*types.Basic); !isB || b.Info()&types.IsBoolean == 0 {
		return acc, false
	}
	prm := fn.Params[0]
	w, signed, okw := typeWidth(prm.Type(), "amd64")
	if !okw || w != 8 {
		return acc, false
	}
	for _, b := range fn.Blocks {
		for _, in := range b.Instrs {
			switch in.(type) {
			case *ssa.BinOp, *ssa.UnOp, *ssa.Convert, *ssa.ChangeType, *ssa.Phi, *ssa.If, *ssa.Jump, *ssa.Return, *ssa.DebugRef:
			default:
				return acc, false
			}
			if u, isU := in.(*ssa.UnOp); isU && (u.Op == token.MUL || u.Op == token.ARROW) {
				return acc, false
			}
		}
		for _, s := range b.Succs {
			if isBackEdge(b, s) {
				return acc, false
			}
		}
	}
	good := true
	for i := 0; i < 256 && good; i++ {
		x := int64(i)
		if signed {
			x = int64(int8(i))
		}
		// follow the single path argument x takes
		taken := map[*ssa.BasicBlock]int{}
		b := fn.Blocks[0]
		for steps := 0; ; steps++ {
			if steps > len(fn.Blocks)+2 {
				good = false
				break
			}
			last := b.Instrs[len(b.Instrs)-1]
			var next *ssa.BasicBlock
			switch t := last.(type) {
			case *ssa.Return:
				v, okv := finExpr(t.Results[0], prm, x, taken, 0)
				if !okv || v.Kind() != constant.Bool {
					good = false
				} else {
					acc[i] = constant.BoolVal(v)
				}
			case *ssa.Jump:
				next = b.Succs[0]
			case *ssa.If:
				v, okv := finExpr(t.Cond, prm, x, taken, 0)
				if !okv || v.Kind() != constant.Bool {
					good = false
				} else if constant.BoolVal(v) {
					next = b.Succs[0]
				} else {
					next = b.Succs[1]
				}
			default:
				good = false
			}
			if next == nil {
				break
			}
			for pi, p := range next.Preds {
				if p == b {
					taken[next] = pi
				}
			}
			b = next
		}
	}
	return acc, good
}

// finRoot: the 8-bit value an expression is a pure function of (through
// conversions and arithmetic with constants); nil if there is none.
func finRoot(v ssa.Value, depth int) ssa.Value {
	if depth > 12 {
		return nil
	}
	switch e := v.(type) {
	case *ssa.Const:
		return nil
	case *ssa.Convert:
		if r := finRoot(e.X, depth+1); r != nil {
			return r
		}
	case *ssa.ChangeType:
		if r := finRoot(e.X, depth+1); r != nil {
			return r
		}
	case *ssa.BinOp:
		_, xk := e.X.(*ssa.Const)
		_, yk := e.Y.(*ssa.Const)
		if yk {
			if r := finRoot(e.X, depth+1); r != nil {
				return r
			}
		}
		if xk {
			if r := finRoot(e.Y, depth+1); r != nil {
				return r
			}
		}
		return nil
	case *ssa.Phi:
		return nil
	}
	if w, _, ok := typeWidth(v.Type(), "amd64"); ok && w == 8 {
		return v
	}
	return nil
}

// finVals: values of load instructions on the path being walked by finSetAt
// (consulted by finExpr); nil outside such a walk.
var finVals map[ssa.Value]constant.Value

// finSetAt: the exact set of values expression v can have when block b is
// entered (or, when v is computed in b, where it is computed), when v is a
// pure function of one 8-bit quantity r and the conditions on the way are too.
// r is an SSA value, or the content of a local 8-bit cell that one call fills
// through its address (var value uint8; unpackU8(data, &value)); later stores
// of pure expressions into the cell are followed.  For every r the paths from
// the entry that r can take are walked (a condition that is not a function of
// r leaves both branches open).  ok=false when there is no such r or a store
// into the cell cannot be evaluated.
func finSetAt(v ssa.Value, b *ssa.BasicBlock) (set finSet, ok bool) {
	return finSetAtRoot(v, b, finRoot(v, 0))
}

// finSetAtRoot: as finSetAt with the 8-bit quantity given (v may then be a
// constant: the result says for which arguments block b is reached).
func finSetAtRoot(v ssa.Value, b *ssa.BasicBlock, root ssa.Value) (set finSet, ok bool) {
	if root == nil {
		return set, false
	}
	var cell *ssa.Alloc
	var filler ssa.Instruction
	if ld, isLd := root.(*ssa.UnOp); isLd && ld.Op == token.MUL {
		if al, isAl := ld.X.(*ssa.Alloc); isAl {
			writers, esc := cellWriters(al)
			if esc {
				return set, false
			}
			for _, w := range writers {
				if _, isSt := w.(*ssa.Store); isSt {
					continue
				}
				if filler != nil && filler != w {
					return set, false
				}
				filler = w
			}
			if filler == nil {
				return set, false
			}
			cell = al
		}
	}
	_, signed, _ := typeWidth(root.Type(), "amd64")
	fn := b.Parent()
	defer func() { finVals = nil }()
	for i := 0; i < 256; i++ {
		x := int64(i)
		if signed {
			x = int64(int8(i))
		}
		taken := map[*ssa.BasicBlock]int{}
		onstack := map[*ssa.BasicBlock]bool{}
		steps := 0
		bad := false
		finVals = map[ssa.Value]constant.Value{}
		var cellVal constant.Value // nil: not yet filled
		prm := root
		if cell != nil {
			prm = nil
		}
		var walk func(cur *ssa.BasicBlock)
		walk = func(cur *ssa.BasicBlock) {
			steps++
			if steps > 20000 || bad {
				return
			}
			saveCell := cellVal
			var touched []ssa.Value
			defer func() {
				cellVal = saveCell
				for _, t := range touched {
					delete(finVals, t)
				}
			}()
			for _, in := range cur.Instrs {
				if cell != nil {
					switch y := in.(type) {
					case *ssa.UnOp:
						if y.Op == token.MUL && y.X == ssa.Value(cell) {
							finVals[y] = cellVal // nil while unfilled: unknown
							touched = append(touched, y)
						}
					case *ssa.Store:
						if y.Addr == ssa.Value(cell) {
							nv, okv := finExpr(y.Val, prm, x, taken, 0)
							if !okv {
								bad = true
								return
							}
							cellVal = nv
						}
					}
					if in == filler {
						cellVal = constant.MakeInt64(x)
					}
				}
				if val, isVal := in.(ssa.Value); isVal && cur == b && val == v {
					res, known := finExpr(v, prm, x, taken, 0)
					if !known || res.Kind() != constant.Int {
						bad = true
						return
					}
					k, _ := constant.Int64Val(res)
					set[uint8(k)] = true
					if finEach != nil {
						finEach(i, uint8(k))
					}
					return
				}
			}
			if cur == b {
				// v is computed before b (it dominates b)
				res, known := finExpr(v, prm, x, taken, 0)
				if !known || res.Kind() != constant.Int {
					bad = true
					return
				}
				k, _ := constant.Int64Val(res)
				set[uint8(k)] = true
				if finEach != nil {
					finEach(i, uint8(k))
				}
				return
			}
			onstack[cur] = true
			succs := cur.Succs
			if iff := ifOf(cur); iff != nil && len(cur.Succs) == 2 {
				if cv, known := finExpr(iff.Cond, prm, x, taken, 0); known && cv.Kind() == constant.Bool {
					if constant.BoolVal(cv) {
						succs = cur.Succs[:1]
					} else {
						succs = cur.Succs[1:]
					}
				}
			}
			for _, s := range succs {
				if onstack[s] || isBackEdge(cur, s) {
					continue
				}
				old, had := taken[s]
				for pi, pr := range s.Preds {
					if pr == cur {
						taken[s] = pi
					}
				}
				walk(s)
				if had {
					taken[s] = old
				} else {
					delete(taken, s)
				}
			}
			onstack[cur] = false
		}
		walk(fn.Blocks[0])
		if steps > 20000 || bad {
			return set, false
		}
	}
	return set, true
}

// finSetWithin: every member lies in one of the closed ranges.
func finSetWithin(s finSet, ranges [][2]int) (bool, int) {
	for i, b := range s {
		if !b {
			continue
		}
		in := false
		for _, r := range ranges {
			if i >= r[0] && i <= r[1] {
				in = true
			}
		}
		if !in {
			return false, i
		}
	}
	return true, -1
}

// finEach, when set, receives every (argument pattern, value) pair finSetAt finds.
var finEach func(x int, val uint8)

type finSite struct {
	V ssa.Value
	B *ssa.BasicBlock
}

// finFunc: the function octet -> value realised by a set of sites (the stores
// of a decoder, the encode calls of an encoder): for every 8-bit argument
// exactly one site is reached with exactly one value.  ok=false otherwise.
func finFunc(sites []finSite) (tab [256]int, ok bool) {
	for i := range tab {
		tab[i] = -1
	}
	good := true
	var root ssa.Value
	for _, s := range sites {
		if r := finRoot(s.V, 0); r != nil {
			if root != nil && root != r {
				// two loads of one cell are one quantity; anything else is not understood
				lr, ok1 := root.(*ssa.UnOp)
				l2, ok2 := r.(*ssa.UnOp)
				if !(ok1 && ok2 && lr.X == l2.X) {
					return tab, false
				}
				continue
			}
			root = r
		}
	}
	for _, s := range sites {
		finEach = func(x int, val uint8) {
			if tab[x] >= 0 && tab[x] != int(val) {
				good = false
			}
			tab[x] = int(val)
		}
		_, okS := finSetAtRoot(s.V, s.B, root)
		finEach = nil
		if !okS {
			return tab, false
		}
	}
	for i := range tab {
		if tab[i] < 0 {
			good = false
		}
	}
	return tab, good
}
