package main

import (
	"go/constant"
	"go/token"
	"go/types"

	"golang.org/x/tools/go/ssa"
)

// Powerset abstract interpretation of small pure predicates: a function of
// one parameter of an 8-bit integer type is evaluated over the powerset of
// its 256 argument values.  Every path from the entry to a return carries the
// set of arguments that take it (each branch splits the set exactly, because
// conditions are expressions over the parameter and constants); the result is
// the exact set of arguments for which the function returns true.  The domain
// is finite, so this is an exact analysis, not an execution: no library code
// runs, expressions are folded over the candidate set.

type finSet [256]bool

func (s finSet) empty() bool {
	for _, b := range s {
		if b {
			return false
		}
	}
	return true
}

// finExpr evaluates a pure SSA expression for argument x; taken maps join
// blocks to the predecessor index through which the current path entered.
func finExpr(v ssa.Value, prm *ssa.Parameter, x int64, taken map[*ssa.BasicBlock]int, depth int) (constant.Value, bool) {
	if depth > 40 {
		return nil, false
	}
	switch e := v.(type) {
	case *ssa.Parameter:
		if e == prm {
			return constant.MakeInt64(x), true
		}
	case *ssa.Const:
		if e.Value == nil {
			return nil, false
		}
		return e.Value, true
	case *ssa.ChangeType:
		return finExpr(e.X, prm, x, taken, depth+1)
	case *ssa.Convert:
		in, ok := finExpr(e.X, prm, x, taken, depth+1)
		if !ok || in.Kind() != constant.Int {
			return nil, false
		}
		w, signed, okw := typeWidth(e.Type(), "amd64")
		if !okw {
			return nil, false
		}
		k, exact := constant.Int64Val(in)
		if !exact {
			return nil, false
		}
		return constant.MakeInt64(wrapInt(k, w, signed)), true
	case *ssa.Phi:
		i, ok := taken[e.Block()]
		if !ok {
			return nil, false
		}
		return finExpr(e.Edges[i], prm, x, taken, depth+1)
	case *ssa.UnOp:
		in, ok := finExpr(e.X, prm, x, taken, depth+1)
		if !ok {
			return nil, false
		}
		switch e.Op {
		case token.NOT:
			if in.Kind() == constant.Bool {
				return constant.MakeBool(!constant.BoolVal(in)), true
			}
		case token.SUB, token.XOR:
			if in.Kind() == constant.Int {
				w, signed, okw := typeWidth(e.Type(), "amd64")
				k, exact := constant.Int64Val(in)
				if okw && exact {
					if e.Op == token.SUB {
						return constant.MakeInt64(wrapInt(-k, w, signed)), true
					}
					return constant.MakeInt64(wrapInt(^k, w, signed)), true
				}
			}
		}
	case *ssa.BinOp:
		a, ok1 := finExpr(e.X, prm, x, taken, depth+1)
		b, ok2 := finExpr(e.Y, prm, x, taken, depth+1)
		if !ok1 || !ok2 {
			return nil, false
		}
		switch e.Op {
		case token.EQL, token.NEQ, token.LSS, token.LEQ, token.GTR, token.GEQ:
			if a.Kind() == constant.Bool && b.Kind() == constant.Bool {
				eq := constant.BoolVal(a) == constant.BoolVal(b)
				if e.Op == token.EQL {
					return constant.MakeBool(eq), true
				}
				if e.Op == token.NEQ {
					return constant.MakeBool(!eq), true
				}
				return nil, false
			}
			if a.Kind() == constant.Int && b.Kind() == constant.Int {
				return constant.MakeBool(constant.Compare(a, e.Op, b)), true
			}
			return nil, false
		}
		if a.Kind() != constant.Int || b.Kind() != constant.Int {
			return nil, false
		}
		ka, ea := constant.Int64Val(a)
		kb, eb := constant.Int64Val(b)
		w, signed, okw := typeWidth(e.Type(), "amd64")
		if !ea || !eb || !okw {
			return nil, false
		}
		var r int64
		switch e.Op {
		case token.ADD:
			r = ka + kb
		case token.SUB:
			r = ka - kb
		case token.MUL:
			r = ka * kb
		case token.AND:
			r = ka & kb
		case token.OR:
			r = ka | kb
		case token.XOR:
			r = ka ^ kb
		case token.AND_NOT:
			r = ka &^ kb
		case token.SHL:
			if kb < 0 || kb > 63 {
				return nil, false
			}
			r = ka << uint(kb)
		case token.SHR:
			if kb < 0 || kb > 63 {
				return nil, false
			}
			r = ka >> uint(kb)
		case token.QUO:
			if kb == 0 {
				return nil, false
			}
			r = ka / kb
		case token.REM:
			if kb == 0 {
				return nil, false
			}
			r = ka % kb
		default:
			return nil, false
		}
		return constant.MakeInt64(wrapInt(r, w, signed)), true
	}
	return nil, false
}

func wrapInt(k int64, w int, signed bool) int64 {
	if w >= 64 {
		return k
	}
	m := int64(1)<<uint(w) - 1
	k &= m
	if signed && k>>(uint(w)-1)&1 == 1 {
		k -= int64(1) << uint(w)
	}
	return k
}

// acceptSet8: the exact set of arguments for which the one-parameter (8-bit
// integer) boolean function fn returns true.  ok=false when fn is not such a
// function or contains anything but branches and pure expressions over the
// parameter (calls, loads, loops).
func acceptSet8(fn *ssa.Function) (acc finSet, ok bool) {
	if fn == nil || fn.Blocks == nil || len(fn.Params) != 1 || fn.Signature.Results().Len() != 1 {
		return acc, false
	}
	if b, isB := fn.Signature.Results().At(0).Type().Underlying().(*types.Basic); !isB || b.Info()&types.IsBoolean == 0 {
		return acc, false
	}
	prm := fn.Params[0]
	w, signed, okw := typeWidth(prm.Type(), "amd64")
	if !okw || w != 8 {
		return acc, false
	}
	for _, b := range fn.Blocks {
		for _, in := range b.Instrs {
			switch in.(type) {
			case *ssa.BinOp, *ssa.UnOp, *ssa.Convert, *ssa.ChangeType, *ssa.Phi, *ssa.If, *ssa.Jump, *ssa.Return, *ssa.DebugRef:
			default:
				return acc, false
			}
			if u, isU := in.(*ssa.UnOp); isU && (u.Op == token.MUL || u.Op == token.ARROW) {
				return acc, false
			}
		}
		for _, s := range b.Succs {
			if isBackEdge(b, s) {
				return acc, false
			}
		}
	}
	good := true
	for i := 0; i < 256 && good; i++ {
		x := int64(i)
		if signed {
			x = int64(int8(i))
		}
		// follow the single path argument x takes
		taken := map[*ssa.BasicBlock]int{}
		b := fn.Blocks[0]
		for steps := 0; ; steps++ {
			if steps > len(fn.Blocks)+2 {
				good = false
				break
			}
			last := b.Instrs[len(b.Instrs)-1]
			var next *ssa.BasicBlock
			switch t := last.(type) {
			case *ssa.Return:
				v, okv := finExpr(t.Results[0], prm, x, taken, 0)
				if !okv || v.Kind() != constant.Bool {
					good = false
				} else {
					acc[i] = constant.BoolVal(v)
				}
			case *ssa.Jump:
				next = b.Succs[0]
			case *ssa.If:
				v, okv := finExpr(t.Cond, prm, x, taken, 0)
				if !okv || v.Kind() != constant.Bool {
					good = false
				} else if constant.BoolVal(v) {
					next = b.Succs[0]
				} else {
					next = b.Succs[1]
				}
			default:
				good = false
			}
			if next == nil {
				break
			}
			for pi, p := range next.Preds {
				if p == b {
					taken[next] = pi
				}
			}
			b = next
		}
	}
	return acc, good
}
