package main

import (
	"fmt"
	"go/token"
	"sort"

	"golang.org/x/tools/go/ssa"
)

// E2' - linear offsets.  The rule-based prover of decode.go knows the idioms
// of today's decoders; this one is idiom free.  Every integer of a decode
// function is written as a linear form over L = len(input) and atoms (values
// the analysis does not look into); the facts that hold at a block - guards,
// the geometry of sub-slices of the input, the summary H for counts reported
// by decode calls whose error is nil - become linear inequalities, and a goal
// (index < length, low <= high <= length) is proved by showing that the facts
// together with the goal's negation have no rational solution
// (Fourier-Motzkin elimination; sound for integers, incomplete).
//
// Soundness notes: arithmetic in types narrower than 32 bits is not
// linearised (it wraps); unsigned subtraction is linearised only when the
// same prover shows that it does not wrap; lengths are assumed to stay far
// below 2^31 (stated assumption of C01).

type linProver struct {
	d     *decodeCtx
	b     *ssa.BasicBlock
	cons  []*Lin // each constraint: expr >= 0
	seenA map[string]bool
	depth int
}

const symL = "L"

func (d *decodeCtx) prover(b *ssa.BasicBlock) *linProver {
	lp := &linProver{d: d, b: b, seenA: map[string]bool{}}
	lp.cons = append(lp.cons, linSym(symL)) // L >= 0
	for _, f := range d.facts(b) {
		lp.addFact(f)
	}
	return lp
}

func (lp *linProver) atom(key string, nonneg bool) *Lin {
	if !lp.seenA[key] {
		lp.seenA[key] = true
		if nonneg {
			lp.cons = append(lp.cons, linSym(key))
		}
	}
	return linSym(key)
}

// geom: slice value s denotes input[lo:hi] (absolute offsets).
func (lp *linProver) geom(s ssa.Value, depth int) (lo, hi *Lin, ok bool) {
	if depth > 8 {
		return nil, nil, false
	}
	d := lp.d
	if d.data == nil {
		return nil, nil, false
	}
	if d.isData(s) {
		return linConst(0), linSym(symL), true
	}
	switch x := s.(type) {
	case *ssa.Slice:
		if x.Max != nil {
			return nil, nil, false
		}
		lo0, hi0, ok0 := lp.geom(x.X, depth+1)
		if !ok0 {
			return nil, nil, false
		}
		lo, hi = lo0, hi0
		if x.Low != nil {
			l, okl := lp.lin(x.Low, depth+1)
			if !okl {
				return nil, nil, false
			}
			lo = lo0.Add(l)
		}
		if x.High != nil {
			h, okh := lp.lin(x.High, depth+1)
			if !okh {
				return nil, nil, false
			}
			hi = lo0.Add(h)
		}
		return lo, hi, true
	case *ssa.UnOp:
		if x.Op == token.MUL {
			vs := loadValues(x)
			if len(vs) == 1 && vs[0] != ssa.Value(x) {
				return lp.geom(vs[0], depth+1)
			}
		}
	case *ssa.ChangeType:
		return lp.geom(x.X, depth+1)
	}
	return nil, nil, false
}

// lin writes integer value v as a linear form.
func (lp *linProver) lin(v ssa.Value, depth int) (*Lin, bool) {
	if v == nil {
		return nil, false
	}
	if k, ok := constInt(v); ok {
		if _, isC := v.(*ssa.Const); isC {
			return linConst(k), true
		}
	}
	if depth > 12 {
		return nil, false
	}
	if _, _, okw := typeWidth(v.Type(), "386"); !okw {
		return nil, false
	}
	key := fmt.Sprintf("v%p", v)
	switch x := v.(type) {
	case *ssa.ChangeType:
		return lp.lin(x.X, depth+1)
	case *ssa.Convert:
		wf, _, ok1 := typeWidth(x.X.Type(), "386")
		wt, st, ok2 := typeWidth(x.Type(), "386")
		if ok1 && ok2 {
			in, okIn := lp.lin(x.X, depth+1)
			if okIn {
				// widening, or a change between wide types, keeps the number when it is non-negative
				// (lengths and offsets; proved) or when the target is signed and at least as wide
				if wt >= wf && (st || nonNeg(x.X)) {
					return in, true
				}
				if wt >= 32 && wf >= 32 && lp.proveInner(in) {
					return in, true
				}
			}
		}
		return lp.atom(key, nonNeg(v)), true
	case *ssa.Call:
		if builtinName(x) == "len" {
			if lo, hi, ok := lp.geom(x.Common().Args[0], depth+1); ok {
				return hi.Sub(lo), true
			}
			arg := x.Common().Args[0]
			return lp.atom(fmt.Sprintf("len%p", arg), true), true
		}
		if builtinName(x) == "copy" {
			// copy reports at most the length of its source and of its destination
			a := lp.atom(key, true)
			for _, arg := range x.Common().Args {
				if lo, hi, ok := lp.geom(arg, depth+1); ok {
					lp.cons = append(lp.cons, hi.Sub(lo).Sub(a))
				}
			}
			return a, true
		}
		return lp.atom(key, nonNeg(v)), true
	case *ssa.Extract:
		// count reported by a decode call on a sub-slice of the input: summary H when its error is nil here
		a := lp.atom(key, nonNeg(v))
		if call, isCall := x.Tuple.(*ssa.Call); isCall && x.Index == 0 {
			var in ssa.Value
			cc := call.Common()
			if cc.IsInvoke() {
				if cc.Method.Name() == "Unpack" && len(cc.Args) == 1 {
					in = cc.Args[0]
				}
			} else if f := cc.StaticCallee(); f != nil && lp.d.shape(f) {
				ip := inputParam(f)
				for i, prm := range f.Params {
					if prm == ip && i < len(cc.Args) {
						in = cc.Args[i]
					}
				}
			}
			if in != nil && lp.d.errNilAt(call, lp.b) {
				if lo, hi, ok := lp.geom(in, depth+1); ok {
					lp.cons = append(lp.cons, hi.Sub(lo).Sub(a)) // a <= len(argument)
				}
			}
		}
		return a, true
	case *ssa.BinOp:
		if !wideInt(x.Type()) {
			return lp.atom(key, nonNeg(v)), true
		}
		switch x.Op {
		case token.ADD, token.SUB:
			l, ok1 := lp.lin(x.X, depth+1)
			r, ok2 := lp.lin(x.Y, depth+1)
			if ok1 && ok2 {
				if x.Op == token.ADD {
					return l.Add(r), true
				}
				res := l.Sub(r)
				if _, signed, _ := typeWidth(x.Type(), "386"); signed || lp.proveInner(res) {
					return res, true
				}
			}
		case token.MUL:
			if k, ok := constInt(x.Y); ok {
				if l, ok1 := lp.lin(x.X, depth+1); ok1 {
					return l.Scale(k), true
				}
			}
			if k, ok := constInt(x.X); ok {
				if r, ok1 := lp.lin(x.Y, depth+1); ok1 {
					return r.Scale(k), true
				}
			}
		}
		return lp.atom(key, nonNeg(v)), true
	case *ssa.UnOp:
		if x.Op == token.MUL {
			vs := loadValues(x)
			if len(vs) == 1 && vs[0] != ssa.Value(x) {
				return lp.lin(vs[0], depth+1)
			}
			// loads of one cell with no write in between are one atom
			if cell, ok := x.X.(*ssa.Alloc); ok {
				for k := range lp.seenA {
					_ = k
				}
				for _, u := range usesOf(cell) {
					if ld, ok := u.(*ssa.UnOp); ok && ld != x && ld.Op == token.MUL && lp.seenA[fmt.Sprintf("v%p", ssa.Value(ld))] {
						if noWriteBetween(cell, ld, x) || noWriteBetween(cell, x, ld) {
							return linSym(fmt.Sprintf("v%p", ssa.Value(ld))), true
						}
					}
				}
			}
		}
		return lp.atom(key, nonNeg(v)), true
	}
	return lp.atom(key, nonNeg(v)), true
}

func (lp *linProver) addFact(f Cmp) {
	x, ok1 := lp.lin(f.X, 0)
	y, ok2 := lp.lin(f.Y, 0)
	if !ok1 || !ok2 {
		return
	}
	switch f.Op {
	case token.EQL:
		lp.cons = append(lp.cons, x.Sub(y), y.Sub(x))
	case token.LEQ:
		lp.cons = append(lp.cons, y.Sub(x))
	case token.LSS:
		lp.cons = append(lp.cons, y.Sub(x).Add(linConst(-1)))
	case token.GEQ:
		lp.cons = append(lp.cons, x.Sub(y))
	case token.GTR:
		lp.cons = append(lp.cons, x.Sub(y).Add(linConst(-1)))
	}
}

// proveInner proves e >= 0 from the constraints collected so far (used while
// linearising, with a recursion guard).
func (lp *linProver) proveInner(e *Lin) bool {
	if lp.depth > 2 {
		return false
	}
	lp.depth++
	defer func() { lp.depth-- }()
	return lp.prove(e)
}

// prove: e >= 0 follows from the constraints.
func (lp *linProver) prove(e *Lin) bool {
	if e == nil {
		return false
	}
	if k, ok := e.IsConst(); ok {
		return k >= 0
	}
	cons := make([]*Lin, 0, len(lp.cons)+1)
	for _, c := range lp.cons {
		cons = append(cons, c)
	}
	// negation over the integers: e <= -1
	cons = append(cons, e.Scale(-1).Add(linConst(-1)))
	return fmInfeasible(cons)
}

// fmInfeasible: the system {c >= 0} has no rational solution.
func fmInfeasible(cons []*Lin) bool {
	norm := func(c *Lin) *Lin {
		g := int64(0)
		for _, v := range c.T {
			if v != 0 {
				g = gcd64(g, abs64(v))
			}
		}
		if g > 1 {
			o := &Lin{K: floorDiv(c.K, g), T: map[string]int64{}}
			for k, v := range c.T {
				if v != 0 {
					o.T[k] = v / g
				}
			}
			return o
		}
		return c
	}
	cur := []*Lin{}
	for _, c := range cons {
		cur = append(cur, norm(c))
	}
	for round := 0; round < 40; round++ {
		// constant contradictions
		vars := map[string]int{}
		for _, c := range cur {
			n := 0
			for s, v := range c.T {
				if v != 0 {
					vars[s]++
					n++
				}
			}
			if n == 0 && c.K < 0 {
				return true
			}
		}
		if len(vars) == 0 {
			return false
		}
		// eliminate the variable that produces the fewest combinations
		names := make([]string, 0, len(vars))
		for s := range vars {
			names = append(names, s)
		}
		sort.Strings(names)
		best, bestCost := "", int64(1)<<62
		for _, s := range names {
			var np, nn int64
			for _, c := range cur {
				if c.T[s] > 0 {
					np++
				} else if c.T[s] < 0 {
					nn++
				}
			}
			if cost := np*nn - np - nn; cost < bestCost {
				best, bestCost = s, cost
			}
		}
		var pos, neg, rest []*Lin
		for _, c := range cur {
			switch {
			case c.T[best] > 0:
				pos = append(pos, c)
			case c.T[best] < 0:
				neg = append(neg, c)
			default:
				rest = append(rest, c)
			}
		}
		if len(pos)*len(neg) > 4000 {
			return false
		}
		for _, a := range pos {
			for _, b := range neg {
				ca, cb := a.T[best], -b.T[best]
				if abs64(ca) > 1<<20 || abs64(cb) > 1<<20 {
					return false
				}
				n := a.Scale(cb).Add(b.Scale(ca))
				delete(n.T, best)
				rest = append(rest, norm(n))
			}
		}
		// drop duplicates
		seen := map[string]bool{}
		cur = cur[:0]
		for _, c := range rest {
			k := c.String()
			if !seen[k] {
				seen[k] = true
				cur = append(cur, c)
			}
		}
	}
	return false
}

func gcd64(a, b int64) int64 {
	for b != 0 {
		a, b = b, a%b
	}
	return a
}

func abs64(a int64) int64 {
	if a < 0 {
		return -a
	}
	return a
}

func floorDiv(a, b int64) int64 {
	q := a / b
	if a%b != 0 && (a < 0) != (b < 0) {
		q--
	}
	return q
}

// ---- goals

// linIndex: idx is a valid index of slice base (a sub-slice of the input).
func (d *decodeCtx) linIndex(base, idx ssa.Value, b *ssa.BasicBlock) bool {
	lp := d.prover(b)
	lo, hi, ok := lp.geom(base, 0)
	if !ok {
		return false
	}
	i, oki := lp.lin(idx, 0)
	if !oki {
		return false
	}
	return lp.prove(i) && lp.prove(hi.Sub(lo).Sub(i).Add(linConst(-1)))
}

// linSlice: x = base[low:high] is in range with respect to len(base); within:
// its absolute high bound does not exceed len(input).
func (d *decodeCtx) linSlice(x *ssa.Slice, b *ssa.BasicBlock) (inRange, within bool) {
	lp := d.prover(b)
	lo, hi, ok := lp.geom(x.X, 0)
	if !ok || x.Max != nil {
		return false, false
	}
	n := hi.Sub(lo)
	low, high := linConst(0), n
	if x.Low != nil {
		l, okl := lp.lin(x.Low, 0)
		if !okl {
			return false, false
		}
		low = l
	}
	if x.High != nil {
		h, okh := lp.lin(x.High, 0)
		if !okh {
			return false, false
		}
		high = h
	}
	inRange = lp.prove(low) && lp.prove(high.Sub(low)) && lp.prove(n.Sub(high))
	within = lp.prove(linSym(symL).Sub(lo.Add(high)))
	return
}

// linLE: v <= len(input).
func (d *decodeCtx) linLE(v ssa.Value, b *ssa.BasicBlock) bool {
	lp := d.prover(b)
	l, ok := lp.lin(v, 0)
	if !ok {
		return false
	}
	return lp.prove(linSym(symL).Sub(l))
}
