package main

import (
	"fmt"
	"go/types"
	"regexp"
	"sort"
	"strconv"
	"strings"

	"golang.org/x/tools/go/ssa"
)

// Round trip by interpretation, for straight-line codecs whose decoder is not
// "one util.UnpackSome over the input" (hand-written field-by-field decoding).
// Both directions are interpreted abstractly: the encoder yields, per path, the
// content of every octet as bits of the value's fields or constants; the
// decoder yields, per successful path, every field as bits of input octets,
// the conditions it puts on input octets and the count it reports.  The
// encoder's octets are substituted for the input: on every encoder path some
// decoder path must accept them (its conditions hold for the constants the
// encoder writes and agree with the encoder path's own conditions), report the
// encoder's size, and give every field the encoder wrote its own bits back.

type encByte struct {
	bv   BV
	what string // "" when bv is valid; otherwise a description of an octet that is not followed
}

// encoderBytes flattens one encoder path of type nt into its octets
// [0, size), expanding nested fixed-size structures; prefix is the access path
// of the value ("r", "r.Control").
func encoderBytes(p *Program, nt *types.Named, pp *lpath, prefix string, depth int) ([]encByte, bool, string) {
	if depth > 3 {
		return nil, false, "nesting too deep"
	}
	size := int64(-1)
	if k, ok := constSize(p, nt); ok {
		size = k
	} else {
		// a size that depends on the path: take the extent of the writes when it is constant
		hi := int64(0)
		for _, w := range pp.writes {
			o, ok1 := w.off.IsConst()
			n, ok2 := w.n.IsConst()
			if !ok1 || !ok2 {
				return nil, false, "a write of symbolic position or size"
			}
			if o+n > hi {
				hi = o + n
			}
		}
		size = hi
	}
	out := make([]encByte, size)
	for i := range out {
		out[i].what = "never written"
	}
	for _, w := range pp.writes {
		o, ok1 := w.off.IsConst()
		n, ok2 := w.n.IsConst()
		if !ok1 || !ok2 || o < 0 || o+n > size {
			return nil, false, "a write outside the constant extent"
		}
		switch w.kind {
		case "byte":
			bv := make(BV, len(w.bv))
			for i, b := range w.bv {
				if (b.K == bsrc || b.K == bnot) && strings.HasPrefix(b.Src, "r") && prefix != "r" {
					b.Src = prefix + strings.TrimPrefix(b.Src, "r")
				}
				bv[i] = b
			}
			out[o] = encByte{bv: bv}
		case "seg":
			src := w.src
			if strings.HasPrefix(src, "r") && prefix != "r" {
				src = prefix + strings.TrimPrefix(src, "r")
			}
			for i := int64(0); i < n; i++ {
				bv := make(BV, 8)
				for j := 0; j < 8; j++ {
					bv[j] = bit{K: bsrc, Src: fmt.Sprintf("%s[%d]", src, i), Idx: j}
				}
				out[o+i] = encByte{bv: bv}
			}
		case "nested":
			// the nested value's own encoder, when it is a field of fixed-size structure type
			fld := strings.TrimPrefix(strings.TrimPrefix(w.src, "&"), "r.")
			sub := fieldNamed(nt, fld)
			if sub == nil {
				for i := int64(0); i < n; i++ {
					out[o+i] = encByte{what: "nested " + w.src}
				}
				continue
			}
			spk := methodOf(p, sub, "Pack")
			if spk == nil {
				return nil, false, "nested " + w.src + " has no Pack"
			}
			spps := runEncoder(p, spk)
			if len(spps) != 1 || len(spps[0].notes) > 0 {
				for i := int64(0); i < n; i++ {
					out[o+i] = encByte{what: "nested " + w.src}
				}
				continue
			}
			sb, ok, why := encoderBytes(p, sub, spps[0], prefix+"."+fld, depth+1)
			if !ok || int64(len(sb)) != n {
				return nil, false, "nested " + w.src + ": " + why
			}
			copy(out[o:o+n], sb)
		default:
			return nil, false, "a write of kind " + w.kind
		}
	}
	return out, true, ""
}

func fieldNamed(nt *types.Named, name string) *types.Named {
	st, ok := nt.Underlying().(*types.Struct)
	if !ok {
		return nil
	}
	for i := 0; i < st.NumFields(); i++ {
		if st.Field(i).Name() == name {
			return namedOf(st.Field(i).Type())
		}
	}
	return nil
}

func runDecoder(p *Program, un *ssa.Function) []*lpath {
	li := &layoutInterp{p: p}
	var args []AV
	ip := inputParam(un)
	for i, prm := range un.Params {
		switch {
		case prm == ip:
			args = append(args, avSlice{region: "in", off: linConst(0), len: linSym("len(data)"), name: "data"})
		case i == 0 && un.Signature.Recv() != nil:
			args = append(args, avPath{path: "r", typ: prm.Type()})
		default:
			args = append(args, li.valueOfPath(fmt.Sprintf("a%d", i), prm.Type()))
		}
	}
	return li.run(un, args, nil)
}

var reDataCond = regexp.MustCompile(`^([+-])data\[(\d+)\]\[7\.\.0\] (==|!=) ([01]{8})$`)
var reFieldCond = regexp.MustCompile(`^([+-])(r(?:\.[A-Za-z0-9_]+)+)\[7\.\.0\] (==|!=) ([01]{8})$`)
var reDataNum = regexp.MustCompile(`^data\[(\d+)\] (==|!=|<=|>=|<|>) (\d+)$`)
var reDataSrc = regexp.MustCompile(`^data\[(\d+)\]$`)

// roundTripByInterpretation: ok=true when every encoder path is accepted and
// inverted by the decoder; undecided=true when one side is outside the domain
// (loops, symbolic sizes, calls that are not followed).
func roundTripByInterpretation(p *Program, nt *types.Named, pack, un *ssa.Function) (ok bool, undecided bool, detail string) {
	pps := runEncoder(p, pack)
	if len(pps) == 0 {
		return false, true, "the encoder has no complete path"
	}
	var succ []*lpath
	for _, d := range runDecoder(p, un) {
		tup, isT := d.ret.(avTuple)
		if !isT || len(tup) != 2 {
			continue
		}
		if o, isO := tup[1].(avOpaque); !isO || o.desc != "nil" {
			continue
		}
		if len(d.notes) > 0 {
			return false, true, "the decoder is not followed: " + strings.Join(d.notes, "; ")
		}
		succ = append(succ, d)
	}
	if len(succ) == 0 {
		return false, true, "the decoder has no successful path that is followed"
	}
	nPairs := 0
	for _, pp := range pps {
		if len(pp.notes) > 0 {
			return false, true, "the encoder is not followed: " + strings.Join(pp.notes, "; ")
		}
		eb, okE, why := encoderBytes(p, nt, pp, "r", 0)
		if !okE {
			return false, true, "the encoder's octets are not all constant-positioned: " + why
		}
		// what the encoder path fixes about one-octet fields
		pinned := map[string]map[int]bool{} // field path -> value -> allowed?
		allow := func(path string) map[int]bool {
			m := pinned[path]
			if m == nil {
				m = map[int]bool{}
				for v := 0; v < 256; v++ {
					m[v] = true
				}
				pinned[path] = m
			}
			return m
		}
		for _, cnd := range pp.conds {
			if m := reFieldCond.FindStringSubmatch(cnd); m != nil {
				k, _ := strconv.ParseInt(m[4], 2, 64)
				holdsEq := (m[1] == "+") == (m[3] == "==")
				a := allow(m[2])
				for v := 0; v < 256; v++ {
					if (int64(v) == k) != holdsEq {
						a[v] = false
					}
				}
			}
		}
		matched := 0
		var lastWhy string
		for _, d := range succ {
			// the decoder path's conditions on input octets, judged on the encoder's octets
			compatible, decided := true, true
			type octCond struct {
				k    int
				pred func(v int64) bool
			}
			var ocs []octCond
			for _, cnd := range d.conds {
				if m := reDataCond.FindStringSubmatch(cnd); m != nil {
					k, _ := strconv.Atoi(m[2])
					want, _ := strconv.ParseInt(m[4], 2, 64)
					holdsEq := (m[1] == "+") == (m[3] == "==")
					ocs = append(ocs, octCond{k, func(v int64) bool { return (v == want) == holdsEq }})
					continue
				}
				if m := reDataNum.FindStringSubmatch(cnd); m != nil {
					k, _ := strconv.Atoi(m[1])
					c0, _ := strconv.ParseInt(m[3], 10, 64)
					op := m[2]
					ocs = append(ocs, octCond{k, func(v int64) bool {
						switch op {
						case "==":
							return v == c0
						case "!=":
							return v != c0
						case "<":
							return v < c0
						case "<=":
							return v <= c0
						case ">":
							return v > c0
						case ">=":
							return v >= c0
						}
						return true
					}})
					continue
				}
				if strings.Contains(cnd, "data[") && !strings.Contains(cnd, "len(data)") {
					compatible = false // a condition on input octets of a form that is not evaluated: not accepted
					lastWhy = "the decoder path has a condition that is not evaluated: " + cnd
				}
			}
			for _, oc := range ocs {
				k := oc.k
				holds := oc.pred
				if k >= len(eb) {
					compatible = false // the decoder looks beyond what the encoder writes
					break
				}
				if eb[k].what != "" {
					decided = false
					continue
				}
				if v, isK := eb[k].bv.Const(); isK {
					if !holds(int64(v)) {
						compatible = false
					}
					continue
				}
				// an octet that is a whole one-octet field: consult the encoder path's own conditions
				src, whole := wholeField(eb[k].bv)
				if !whole {
					decided = false
					continue
				}
				a := allow(src)
				some, all := false, true
				for v := 0; v < 256; v++ {
					if !a[v] {
						continue
					}
					if holds(int64(v)) {
						some = true
					} else {
						all = false
					}
				}
				if !some {
					compatible = false
				} else if !all {
					decided = false // the decoder splits what the encoder does not: another decoder path takes the rest
				}
			}
			if !compatible {
				continue
			}
			_ = decided
			// the count
			tup := d.ret.(avTuple)
			n, _ := tup[0].(avInt)
			if n.lin == nil {
				lastWhy = "the decoder's count is not linear"
				continue
			}
			if cn, isK := n.lin.IsConst(); !isK || cn != int64(len(eb)) {
				lastWhy = fmt.Sprintf("the decoder reports %s octets, the encoder writes %d", n.lin, len(eb))
				continue
			}
			// every field the encoder wrote comes back as itself
			wrote := map[string]bool{}
			for _, b := range eb {
				for _, x := range b.bv {
					if x.K == bsrc || x.K == bnot {
						wrote[x.Src] = true
					}
				}
			}
			bad := ""
			for src := range wrote {
				key := "out:" + src
				v, has := d.mem[key].(avInt)
				if !has {
					bad = "the encoder writes " + src + ", the decoder does not set it"
					break
				}
				for j, b := range v.bv {
					got := b
					if (b.K == bsrc || b.K == bnot) && reDataSrc.MatchString(b.Src) {
						k, _ := strconv.Atoi(reDataSrc.FindStringSubmatch(b.Src)[1])
						if k >= len(eb) || eb[k].what != "" || b.Idx >= len(eb[k].bv) {
							bad = fmt.Sprintf("%s is decoded from octet %d, which the encoder does not define", src, k)
							break
						}
						got = eb[k].bv[b.Idx]
						if b.K == bnot {
							switch got.K {
							case b0:
								got = bit{K: b1}
							case b1:
								got = bit{K: b0}
							case bsrc:
								got.K = bnot
							case bnot:
								got.K = bsrc
							}
						}
					}
					want := bit{K: bsrc, Src: src, Idx: j}
					if got != want {
						// bits above the encoded width are zero on both sides
						if got.K == b0 && !encodesBit(eb, src, j) {
							continue
						}
						bad = fmt.Sprintf("bit %d of %s comes back as [%s]", j, src, got)
						break
					}
				}
				if bad != "" {
					break
				}
			}
			if bad != "" {
				lastWhy = bad
				continue
			}
			matched++
		}
		if matched == 0 {
			if lastWhy == "" {
				lastWhy = "no successful decoder path accepts what this encoder path writes"
			}
			return false, false, "[" + pathLabel(pp) + "] " + lastWhy
		}
		nPairs += matched
	}
	return true, false, fmt.Sprintf("%d encoder path(s), %d accepting decoder path(s)", len(pps), nPairs)
}

func wholeField(bv BV) (string, bool) {
	if len(bv) != 8 {
		return "", false
	}
	src := ""
	for i, b := range bv {
		if b.K != bsrc || b.Idx != i {
			return "", false
		}
		if src != "" && b.Src != src {
			return "", false
		}
		src = b.Src
	}
	return src, src != ""
}

func encodesBit(eb []encByte, src string, idx int) bool {
	for _, b := range eb {
		for _, x := range b.bv {
			if (x.K == bsrc || x.K == bnot) && x.Src == src && x.Idx == idx {
				return true
			}
		}
	}
	return false
}

var _ = sort.Strings

// octetPreds parses the conditions a decoder path puts on single input
// octets; unparsed=true when a condition mentions an input octet in a form
// that is not evaluated.
func octetPreds(conds []string) (preds map[int][]func(int64) bool, unparsed string) {
	preds = map[int][]func(int64) bool{}
	for _, cnd := range conds {
		if m := reDataCond.FindStringSubmatch(cnd); m != nil {
			k, _ := strconv.Atoi(m[2])
			want, _ := strconv.ParseInt(m[4], 2, 64)
			holdsEq := (m[1] == "+") == (m[3] == "==")
			preds[k] = append(preds[k], func(v int64) bool { return (v == want) == holdsEq })
			continue
		}
		if m := reDataNum.FindStringSubmatch(cnd); m != nil {
			k, _ := strconv.Atoi(m[1])
			c0, _ := strconv.ParseInt(m[3], 10, 64)
			op := m[2]
			preds[k] = append(preds[k], func(v int64) bool {
				switch op {
				case "==":
					return v == c0
				case "!=":
					return v != c0
				case "<":
					return v < c0
				case "<=":
					return v <= c0
				case ">":
					return v > c0
				case ">=":
					return v >= c0
				}
				return true
			})
			continue
		}
		if strings.Contains(cnd, "data[") && !strings.Contains(cnd, "len(data)") {
			unparsed = cnd
		}
	}
	return
}

// headerByInterpretation: the frame header decoder interpreted on a symbolic
// input - for which values of octets 0 and 1 it can succeed, and whether on
// success the service identifier is octets 2..3 and the total length octets
// 4..5, big endian, with six octets consumed.
func headerByInterpretation(p *Program, uh *ssa.Function) (acc [2]finSet, outsOK bool, ok bool, why string) {
	nS := 0
	outsOK = true
	for _, d := range runDecoder(p, uh) {
		tup, isT := d.ret.(avTuple)
		if !isT || len(tup) != 2 {
			continue
		}
		if o, isO := tup[1].(avOpaque); !isO || o.desc != "nil" {
			continue
		}
		if len(d.notes) > 0 {
			return acc, false, false, "the header decoder is not followed: " + strings.Join(d.notes, "; ")
		}
		preds, unp := octetPreds(d.conds)
		if unp != "" {
			return acc, false, false, "a condition of the header decoder is not evaluated: " + unp
		}
		nS++
		for i := 0; i < 2; i++ {
			for v := 0; v < 256; v++ {
				holds := true
				for _, pr := range preds[i] {
					if !pr(int64(v)) {
						holds = false
					}
				}
				if holds {
					acc[i][v] = true
				}
			}
		}
		n, _ := tup[0].(avInt)
		if n.lin == nil {
			outsOK = false
		} else if k, isK := n.lin.IsConst(); !isK || k != 6 {
			outsOK = false
		}
		for pi, first := range map[int]int{1: 2, 2: 4} {
			v, has := d.mem[fmt.Sprintf("out:a%d", pi)].(avInt)
			if !has || len(v.bv) != 16 {
				outsOK = false
				continue
			}
			for j, b := range v.bv {
				wantSrc, wantIdx := fmt.Sprintf("data[%d]", first+1), j
				if j >= 8 {
					wantSrc, wantIdx = fmt.Sprintf("data[%d]", first), j-8
				}
				if b.K != bsrc || b.Src != wantSrc || b.Idx != wantIdx {
					outsOK = false
				}
			}
		}
	}
	if nS == 0 {
		return acc, false, false, "no successful path"
	}
	return acc, outsOK, true, ""
}
