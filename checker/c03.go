package main

import (
	"fmt"
	"go/token"
	"go/types"

	"golang.org/x/tools/go/ssa"
)

func init() { register("C03", "other", checkC03) }

const knxnetPath = modPath + "/knx/knxnet"
const knxPath = modPath + "/knx"
const cemiPath = modPath + "/knx/cemi"
const utilPath = modPath + "/knx/util"

// tunnelAnchors resolves the fields every tunnel rule speaks about.
type tunnelAnchors struct {
	seqMu, seqNumber, ack, inbound, done, channel, control, config, sock, once, wait, layer *types.Var
	useTCP, resend, respTimeout, heartbeatIv, sendLocal                                    *types.Var
}

func resolveTunnel(c *Check, p *Program, rule string) *tunnelAnchors {
	a := &tunnelAnchors{}
	get := func(dst **types.Var, typ, name string) {
		*dst = p.Field("knx", typ, name)
		if *dst == nil {
			c.Fail(rule, "anchor knx."+typ+"."+name, "", "struct field not found: the rule cannot be evaluated (renamed? update the checker's anchor table)")
		}
	}
	get(&a.seqMu, "Tunnel", "seqMu")
	get(&a.seqNumber, "Tunnel", "seqNumber")
	get(&a.ack, "Tunnel", "ack")
	get(&a.inbound, "Tunnel", "inbound")
	get(&a.done, "Tunnel", "done")
	get(&a.channel, "Tunnel", "channel")
	get(&a.control, "Tunnel", "control")
	get(&a.config, "Tunnel", "config")
	get(&a.sock, "Tunnel", "sock")
	get(&a.once, "Tunnel", "once")
	get(&a.wait, "Tunnel", "wait")
	get(&a.layer, "Tunnel", "layer")
	get(&a.useTCP, "TunnelConfig", "UseTCP")
	get(&a.resend, "TunnelConfig", "ResendInterval")
	get(&a.respTimeout, "TunnelConfig", "ResponseTimeout")
	get(&a.heartbeatIv, "TunnelConfig", "HeartbeatInterval")
	get(&a.sendLocal, "TunnelConfig", "SendLocalAddress")
	return a
}

func (a *tunnelAnchors) complete() bool {
	for _, f := range []*types.Var{a.seqMu, a.seqNumber, a.ack, a.inbound, a.done, a.channel, a.control, a.config, a.sock, a.once, a.wait, a.useTCP, a.resend, a.respTimeout, a.heartbeatIv, a.sendLocal} {
		if f == nil {
			return false
		}
	}
	return true
}

// isUseTCPFact: the fact says conn.config.UseTCP == want.
func isUseTCPFact(f Cmp, a *tunnelAnchors, want bool) bool {
	return cmpIsBool(f, want, func(v ssa.Value) bool { return isLoadOf(v, a.useTCP) })
}

// requestLoop describes one "send, then select{timeout, resend-tick, reply}" loop.
type requestLoop struct {
	Fn        *ssa.Function
	Sel       *ssa.Select
	Loop      *loopInfo
	TimeoutSt int
	TickerSt  int
	Timeout   *timerSrc
	Ticker    *timerSrc
}

// checkRequestLoop decides the timer wiring shared by C03 (S6/S7), C09 (H2) of
// a request/response exchange: the loop's only blocking instruction is one
// blocking Select with (1) a receive on time.After(load timeoutField) created
// outside the loop, whose case leaves with a non-nil error, and (2) a receive
// on the C of a time.NewTicker(load resendField) created outside the loop,
// whose case re-sends the same request value.
func checkRequestLoop(c *Check, p *Program, rule string, fn *ssa.Function, sel *ssa.Select, reqAlloc ssa.Value, reqType string, timeoutField, resendField *types.Var, errResult int) *requestLoop {
	name := FuncName(fn)
	pos := p.InstrPos(sel)
	rl := &requestLoop{Fn: fn, Sel: sel, TimeoutSt: -1, TickerSt: -1}
	c.Decide(sel.Blocking, rule+".wait", name+" select is blocking", pos, "blocking select", "the reply select has a default case: the sender spins or gives up at once")
	lp := innermostLoop(sel.Block())
	if lp == nil {
		c.Fail(rule+".wait", name+" select in loop", pos, "the reply select is not inside a loop: a stray reply ends the exchange")
		return rl
	}
	rl.Loop = lp
	// only blocking instruction in the loop
	for b := range lp.Body {
		for _, in := range b.Instrs {
			if in == ssa.Instruction(sel) {
				continue
			}
			if d := blockingDesc(in); d != "" {
				c.Fail(rule+".wait", name+" extra blocking op", p.InstrPos(in), "the wait loop contains another blocking operation ("+d+") that is not guarded by the response timeout")
			}
		}
	}
	cases, _ := selectCases(sel)
	for i, st := range sel.States {
		if st.Dir != types.RecvOnly {
			continue
		}
		t := timerOf(st.Chan)
		if t == nil {
			continue
		}
		outside := !lp.Body[t.Call.Block()] && t.Call.Block().Dominates(lp.Header)
		switch {
		case t.Kind == "after" && t.Field == timeoutField:
			rl.TimeoutSt, rl.Timeout = i, t
			c.Decide(outside, rule+".timeout", name+" timeout timer created once", p.InstrPos(t.Call), "time.After("+fieldKey(timeoutField)+") is evaluated before the loop", "the timeout timer is (re)created inside the wait loop: every iteration restarts the deadline, so the call may never return")
			// a timer object must not be re-armed inside the wait loop either
			if funcIs(calleeObj(t.Call), "time", "", "NewTimer") {
				for b := range lp.Body {
					for _, in := range b.Instrs {
						if call, ok := in.(*ssa.Call); ok && funcIs(calleeObj(call), "time", "Timer", "Reset") {
							recv := callRecv(call)
							if recv == ssa.Value(t.Call) || resolveCell(recv) == ssa.Value(t.Call) || resolveFree(recv) == ssa.Value(t.Call) {
								c.Fail(rule+".timeout", name+" timeout timer re-armed in the loop", p.InstrPos(call), "the response-timeout timer is Reset inside the wait loop: replies that keep arriving (a busy gateway, foreign acknowledgements) postpone the deadline for ever")
							}
						}
					}
				}
			}
			// the case leaves the function with a non-nil error
			body := cases[i].Body
			ok := body != nil
			why := "case body not found"
			if ok {
				reach := reachableFrom(body, nil)
				if reach[lp.Header] {
					ok, why = false, "the timeout case can continue the loop"
				}
				for b := range reach {
					for _, in := range b.Instrs {
						if r, isR := in.(*ssa.Return); isR && ok {
							if errResult < len(r.Results) && p.returnMayBeNil(r, errResult) {
								ok, why = false, "the timeout case can return a nil error at "+p.InstrPos(r)
							}
						}
					}
				}
			}
			c.Decide(ok, rule+".timeout", name+" timeout case fails the call", pos, "the timeout case returns a non-nil error and never re-enters the loop", why)
		case t.Kind == "ticker" && t.Field == resendField:
			rl.TickerSt, rl.Ticker = i, t
			c.Decide(outside, rule+".resend", name+" resend ticker created once", p.InstrPos(t.Call), "time.NewTicker("+fieldKey(resendField)+") is created before the loop", "the resend ticker is created inside the wait loop")
			// the case re-sends the same request
			body := cases[i].Body
			n := 0
			if body != nil {
				reach := reachableFrom(body, func(from, to *ssa.BasicBlock) bool { return to == lp.Header })
				for _, s := range p.index().sockSends {
					if s.Fn == fn && reach[s.Call.Block()] && s.Call.Block() != lp.Header {
						if s.payloadIs(reqType) && s.PayVal == reqAlloc {
							n++
						} else {
							c.Fail(rule+".resend", name+" resend case sends something else", p.InstrPos(s.Call), "the resend case transmits a value other than the original request")
						}
					}
				}
			}
			c.Decide(n == 1, rule+".resend", name+" resend case retransmits the request", pos, "the ticker case calls Socket.Send with the same *"+reqType+" value", fmt.Sprintf("the resend-interval case performs %d retransmissions of the original request (expected 1)", n))
		}
	}
	c.Decide(rl.TimeoutSt >= 0, rule+".timeout", name+" has a response-timeout case", pos, "select receives from time.After("+fieldKey(timeoutField)+")", "the reply select has no case receiving from time.After("+fieldKey(timeoutField)+"): the wait is unbounded")
	c.Decide(rl.TickerSt >= 0, rule+".resend", name+" has a resend case", pos, "select receives from NewTicker("+fieldKey(resendField)+").C", "the reply select has no case on a ticker of "+fieldKey(resendField)+": a lost request is never repeated")
	return rl
}

func checkC03(c *Check, p *Program) {
	c.Technique = "must-hold lockset + dominating-edge facts + who-writes scan of Tunnel.seqNumber + select/timer wiring + path counting on the SSA CFG of the tunnel sender"
	c.Explanation = "Decides the mechanism the stop-and-wait property rests on, on every CFG path: S1 every transmission of a *TunnelReq (first and repeated) and the whole wait happen with Tunnel.seqMu held until the function's deferred release; S2 every retransmission passes the same request allocation, which is not written after the first transmission; S3 the only stores to Tunnel.seqNumber are `= 0` behind ConnRes.Status==NoError and `+ 1` behind {ack received, channel open, res.SeqNumber == conn.seqNumber}, each under seqMu, and the field's address does not escape; S4 the request's fields are channel = conn.channel, sequence = conn.seqNumber (0 only on the UseTCP edge), payload = the argument; S5 on the UDP path every possibly-nil return is dominated by {receive on Tunnel.ack, ok, sequence equality, Status == 0}; a sequence mismatch leads back to the wait without effect; S6/S7 the wait is one blocking select with a time.After(ResponseTimeout) case created before the loop that fails the call, and a NewTicker(ResendInterval) case that re-sends; S8 the TCP path contains exactly one Socket.Send and no channel operation, and Tunnel.config is written only by the constructor; S9 every send on Tunnel.ack is behind res.Channel == conn.channel and forwards the received value; receives on Tunnel.ack exist only in the sender. Not decided: real-time cadence/deadline values and the behaviour under every loss pattern."
	c.Trusted = []string{"go/types, go/ssa (x/tools v0.29.0)", "kxcheck lockset/dominance/select decoding", "sync.Mutex, time.After, time.NewTicker semantics"}
	c.NotDecided = []string{"wall-clock resend cadence and response deadline", "exactly-once over lossy links (C05)", "behaviour under every loss/duplication pattern"}
	c.Assumptions = []string{"Socket.Send implementations do not modify the request they are given", "fields are identified by their types.Var; two Tunnel values are not mixed inside one method"}

	a := resolveTunnel(c, p, "C03.anchor")
	if !a.complete() {
		return
	}
	cg := p.CallGraph()
	lc := newLockCtx(p, cg)
	ix := p.index()
	muKey := fieldKey(a.seqMu)

	// ---- S1: sender sites
	var sites []SendSite
	senders := map[*ssa.Function]bool{}
	for _, s := range ix.sockSends {
		if s.payloadIs("TunnelReq") && fnPkg(s.Fn).Pkg.Path() == knxPath {
			sites = append(sites, s)
			senders[s.Fn] = true
		}
	}
	c.Floor("C03.S1", "Socket.Send(*TunnelReq) sites", len(sites), 2)
	for _, s := range sites {
		c.Analysed("functions", FuncName(s.Fn))
		c.Decide(lc.Held(s.Call, muKey), "C03.S1", FuncName(s.Fn)+" send under "+muKey, p.InstrPos(s.Call),
			"lockset at the call is "+lc.HeldSet(s.Call), "a tunnelling request is transmitted without "+muKey+" held (lockset "+lc.HeldSet(s.Call)+"): two senders can have requests in flight at once")
	}
	c.Decide(len(senders) == 1, "C03.S1", "single sender function", "", "all *TunnelReq transmissions are in one function", fmt.Sprintf("*TunnelReq is transmitted from %d functions", len(senders)))
	var sender *ssa.Function
	for f := range senders {
		sender = f
	}
	if sender == nil {
		return
	}
	// the lock stays held across every blocking wait and up to the deferred release
	instrsOf(sender, func(in ssa.Instruction) {
		switch x := in.(type) {
		case *ssa.Select:
			c.Decide(lc.Held(x, muKey), "C03.S1", FuncName(sender)+" wait under "+muKey, p.InstrPos(x), "the reply wait holds the lock", "the sender waits for the acknowledgement without "+muKey+": another Send can transmit meanwhile")
		case *ssa.RunDefers:
			c.Decide(lc.Held(x, muKey), "C03.S1", FuncName(sender)+" lock held until return", p.InstrPos(x), "lock released only by the deferred Unlock", "the lock is released before the function's exit on this path")
		}
	})

	// ---- S2: identical retransmission
	// a transmission that only the TCP mode reaches (behind config.UseTCP) has no retransmission to be equal to:
	// it is judged on its own (fields below, S8 for the count); S2 speaks of the UDP exchange
	tcpOnly := func(s SendSite) bool {
		return anyFact(factsAt(s.Call.Block()), func(f Cmp) bool { return isUseTCPFact(f, a, true) })
	}
	var reqAlloc ssa.Value
	var tcpAllocs []ssa.Value
	same := true
	for _, s := range sites {
		if s.Fn != sender {
			continue
		}
		if tcpOnly(s) {
			tcpAllocs = append(tcpAllocs, s.PayVal)
			continue
		}
		if reqAlloc == nil {
			reqAlloc = s.PayVal
		} else if reqAlloc != s.PayVal {
			same = false
		}
	}
	_, isAlloc := reqAlloc.(*ssa.Alloc)
	// "the number of the request in flight": the counter itself, or the request's own SeqNumber field - S4 makes it
	// a copy of the counter taken under the lock, S2 fixes it before the first transmission, and S3 lets nobody
	// else write the counter while the lock is held, so the two are equal until the increment
	isCounter := func(v ssa.Value) bool {
		if isLoadOf(v, a.seqNumber) {
			return true
		}
		u, ok := v.(*ssa.UnOp)
		if !ok || u.Op != token.MUL || reqAlloc == nil {
			return false
		}
		fa, ok := u.X.(*ssa.FieldAddr)
		if !ok || fa.X != reqAlloc {
			return false
		}
		f := fieldOfAddr(fa)
		return f != nil && f.Name() == "SeqNumber"
	}
	seqMatch := func(f Cmp, resF *types.Var) bool {
		return f.Op == token.EQL && ((isLoadOf(f.X, resF) && isCounter(f.Y)) || (isLoadOf(f.Y, resF) && isCounter(f.X)))
	}
	c.Decide(same && isAlloc, "C03.S2", FuncName(sender)+" one request value", p.Pos(sender.Pos()), "every transmission passes the same freshly allocated request", "transmissions pass different request values: a retransmission need not equal the first transmission")
	var first ssa.CallInstruction
	for _, s := range sites {
		if s.Fn == sender && !tcpOnly(s) && (first == nil || instrDominates(s.Call, first)) {
			first = s.Call
		}
	}
	// the TCP-only request: a fresh value carrying the connection's channel and the caller's message
	for _, ta := range tcpAllocs {
		if ta == reqAlloc {
			continue
		}
		al, okA := ta.(*ssa.Alloc)
		c.Decide(okA, "C03.S4", FuncName(sender)+" TCP request is a fresh value", p.Pos(sender.Pos()), "composite literal", "the request transmitted on the TCP path is not a freshly built value")
		if !okA {
			continue
		}
		fsT := fieldStores(al)
		chF, plF := fieldByName(al.Type(), "Channel"), fieldByName(al.Type(), "Payload")
		okC := len(fsT[chF]) == 1 && isLoadOf(fsT[chF][0].Val, a.channel)
		okP := false
		if len(fsT[plF]) == 1 {
			_, okP = unspill(fsT[plF][0].Val).(*ssa.Parameter)
		}
		c.Decide(okC && okP, "C03.S4", FuncName(sender)+" TCP request carries conn.channel and the argument", p.InstrPos(al), "Channel = conn.channel, Payload = parameter", "the request sent on the TCP path does not carry the connection's channel and the caller's message")
	}
	if isAlloc && first != nil {
		fs := fieldStores(reqAlloc)
		for f, sts := range fs {
			for _, st := range sts {
				// the field is settled before the first transmission: the store cannot happen after it
				ok := !instrReaches(first, st) && st != ssa.Instruction(first) && !inAnyLoop(st.Block()) && instrReaches(st, first)
				c.Decide(ok, "C03.S2", FuncName(sender)+" request."+f.Name()+" fixed before first send", p.InstrPos(st), "stored once before the first transmission", "the request's "+f.Name()+" is written after (or not before) the first transmission: retransmissions differ")
			}
		}
		// no other use of the allocation that could write it
		for _, u := range usesOf(reqAlloc) {
			switch u.(type) {
			case *ssa.FieldAddr, *ssa.MakeInterface, *ssa.DebugRef:
			default:
				c.Fail("C03.S2", FuncName(sender)+" request escapes", p.InstrPos(u), "the request value is used in a way the rule does not understand (it may be modified between transmissions)")
			}
		}
		// ---- S4 request fields
		chF, sqF, plF := fieldByName(reqAlloc.Type(), "Channel"), fieldByName(reqAlloc.Type(), "SeqNumber"), fieldByName(reqAlloc.Type(), "Payload")
		if one(c, "C03.S4", FuncName(sender)+" request.Channel", fs[chF], p, sender) {
			v := fs[chF][0].Val
			c.Decide(isLoadOf(v, a.channel), "C03.S4", FuncName(sender)+" request.Channel = conn.channel", p.InstrPos(fs[chF][0]), "load of Tunnel.channel", "request channel is "+describe(v)+", not the connection's channel")
		}
		if one(c, "C03.S4", FuncName(sender)+" request.Payload", fs[plF], p, sender) {
			v := fs[plF][0].Val
			_, isParam := unspill(v).(*ssa.Parameter)
			c.Decide(isParam, "C03.S4", FuncName(sender)+" request.Payload = argument", p.InstrPos(fs[plF][0]), "the parameter", "payload is "+describe(v)+", not the caller's message")
		}
		if one(c, "C03.S4", FuncName(sender)+" request.SeqNumber", fs[sqF], p, sender) {
			st := fs[sqF][0]
			ok, why := seqValueOK(st.Val, a, lc, muKey)
			c.Decide(ok, "C03.S4", FuncName(sender)+" request.SeqNumber = conn.seqNumber", p.InstrPos(st), "load of Tunnel.seqNumber under the lock (constant 0 only on the UseTCP edge)", why)
		}
	}

	// ---- S3: who writes the sequence counter
	stores := ix.stores[a.seqNumber]
	c.Exact("C03.S3", "stores to Tunnel.seqNumber", len(stores), 2, "")
	nZero, nInc := 0, 0
	for _, st := range stores {
		pos := p.InstrPos(st)
		key := FuncName(st.Parent())
		c.Decide(lc.Held(st, muKey), "C03.S3", key+" store under "+muKey, pos, "lockset "+lc.HeldSet(st), "Tunnel.seqNumber is written without "+muKey+" (lockset "+lc.HeldSet(st)+")")
		facts := factsWithParents(st.Block())
		if k, ok := constInt(st.Val); ok {
			nZero++
			okv := k == 0
			statusF := p.Field("knx/knxnet", "ConnRes", "Status")
			behind := anyFact(facts, func(f Cmp) bool { return cmpIsFieldConst(f, statusF, token.EQL, 0) })
			c.Decide(okv && behind, "C03.S3", key+" reset to 0 on successful connect", pos, "constant 0 stored behind ConnRes.Status == NoError", fmt.Sprintf("constant store %d to the sequence counter that is not the reset behind a successful connect response", k))
			continue
		}
		bo, ok := st.Val.(*ssa.BinOp)
		isInc := ok && bo.Op == token.ADD && isLoadOf(bo.X, a.seqNumber)
		if ok && bo.Op == token.ADD && !isInc {
			// res.SeqNumber + 1 behind res.SeqNumber == conn.seqNumber is the same number
			seqResF := p.Field("knx/knxnet", "TunnelRes", "SeqNumber")
			if isLoadOf(bo.X, seqResF) && anyFact(facts, func(f Cmp) bool { return seqMatch(f, seqResF) }) {
				isInc = true
			}
		}
		if isInc {
			k, okk := constInt(bo.Y)
			isInc = okk && k == 1
		}
		if !isInc {
			c.Fail("C03.S3", key+" store shape", pos, "Tunnel.seqNumber is assigned "+describe(st.Val)+": only `= 0` on connect and `+ 1` on a matching acknowledgement keep the numbering consecutive")
			continue
		}
		nInc++
		_, _, inAck := inSelectRecvOn(st.Block(), a.ack)
		seqRes := p.Field("knx/knxnet", "TunnelRes", "SeqNumber")
		match := anyFact(facts, func(f Cmp) bool { return seqMatch(f, seqRes) })
		open := false
		if sel, _, ok := inSelectRecvOn(st.Block(), a.ack); ok {
			okv := selectRecvOK(sel)
			open = okv != nil && anyFact(facts, func(f Cmp) bool { return cmpIsBool(f, true, func(v ssa.Value) bool { return v == okv }) })
		}
		c.Decide(inAck, "C03.S3", key+" increment only in the ack case", pos, "dominated by the select case receiving from Tunnel.ack", "the sequence counter is advanced outside the acknowledgement case (e.g. on timeout or resend): numbers of acknowledged requests are no longer consecutive")
		c.Decide(match, "C03.S3", key+" increment behind sequence match", pos, "dominated by res.SeqNumber == conn.seqNumber", "the sequence counter is advanced without the acknowledgement's sequence number matching")
		c.Decide(open, "C03.S3", key+" increment behind open channel", pos, "dominated by the comma-ok of the receive", "the counter is advanced although the ack channel may be closed")
		c.Decide(senders[st.Parent()], "C03.S3", key+" increment in the sender", pos, "in the function that holds the lock for the exchange", "the counter is advanced outside the sending function")
		// every acknowledgement that matches consumes the number, whatever its status: from the edge that
		// establishes the sequence match, every path to an exit of the function passes the increment once
		fnS := st.Parent()
		nEdges := 0
		for _, b := range fnS.Blocks {
			for _, sc := range b.Succs {
				f, has := edgeFact(b, sc)
				if !has || !seqMatch(f, seqRes) {
					continue
				}
				nEdges++
				min, max := pathCount(sc, func(in ssa.Instruction) bool { return in == ssa.Instruction(st) }, nil)
				c.Decide(min == 1 && max == 1, "C03.S3", key+" every matching acknowledgement consumes the number", p.InstrPos(ifOf(b)), "every path from the sequence-match edge to an exit passes the increment exactly once", fmt.Sprintf("paths from the sequence-match edge pass the increment %d..%d times: an acknowledgement with an error status (or another outcome) leaves the counter where it was, and the next request reuses a number the gateway has already consumed", min, max))
			}
		}
		c.Decide(nEdges >= 1, "C03.S3", key+" sequence-match edge found", pos, fmt.Sprintf("%d edge(s)", nEdges), "no branch edge establishes res.SeqNumber == conn.seqNumber in the sender")
	}
	c.Decide(nZero == 1 && nInc == 1, "C03.S3", "one reset, one increment", "", "exactly one `= 0` and one `+ 1`", fmt.Sprintf("%d resets and %d increments", nZero, nInc))
	esc, where := p.fieldAddrEscapes(a.seqNumber)
	c.Decide(!esc, "C03.S3", "address of Tunnel.seqNumber does not escape", where, "only direct loads and stores", "the counter's address is taken (it can be written elsewhere)")

	// ---- S5: success only by a matching OK acknowledgement (UDP path)
	seqRes := p.Field("knx/knxnet", "TunnelRes", "SeqNumber")
	statusRes := p.Field("knx/knxnet", "TunnelRes", "Status")
	var ackSel *ssa.Select
	nNil := 0
	for _, r := range returnsOf(sender) {
		if len(r.Results) != 1 || !p.returnMayBeNil(r, 0) {
			continue
		}
		facts := factsAt(r.Block())
		if anyFact(facts, func(f Cmp) bool { return isUseTCPFact(f, a, true) }) {
			continue // TCP path: S8
		}
		nNil++
		pos := p.InstrPos(r)
		sel, _, inAck := inSelectRecvOn(r.Block(), a.ack)
		okOpen := false
		if inAck {
			ackSel = sel
			okv := selectRecvOK(sel)
			okOpen = okv != nil && anyFact(facts, func(f Cmp) bool { return cmpIsBool(f, true, func(v ssa.Value) bool { return v == okv }) })
		}
		match := anyFact(facts, func(f Cmp) bool { return seqMatch(f, seqRes) })
		okSt := anyFact(facts, func(f Cmp) bool { return cmpIsFieldConst(f, statusRes, token.EQL, 0) })
		c.Decide(inAck && okOpen && match && okSt, "C03.S5", FuncName(sender)+" nil return", pos,
			"dominated by: receive on Tunnel.ack, channel open, res.SeqNumber == conn.seqNumber, res.Status == 0",
			fmt.Sprintf("Send can report success on a path without [ack-case=%v open=%v seq-match=%v status-ok=%v]", inAck, okOpen, match, okSt))
	}
	c.Floor("C03.S5", "possibly-nil UDP returns of the sender", nNil, 1)
	// an acknowledgement that was received (channel open) has no effect at
	// all - no exit, no counter store, no transmission - unless its sequence
	// number matches
	nEff := 0
	instrsOf(sender, func(in ssa.Instruction) {
		what := ""
		switch x := in.(type) {
		case *ssa.Return:
			what = "returns"
		case *ssa.Store:
			if fieldOfAddr(x.Addr) == a.seqNumber {
				what = "writes the counter"
			}
		}
		if ci, ok := in.(ssa.CallInstruction); ok && isSocketSend(ci, knxnetPath) {
			what = "transmits"
		}
		if what == "" {
			return
		}
		sel, _, inAck := inSelectRecvOn(in.Block(), a.ack)
		if !inAck {
			return
		}
		facts := factsAt(in.Block())
		okv := selectRecvOK(sel)
		if okv == nil || !anyFact(facts, func(f Cmp) bool { return cmpIsBool(f, true, func(v ssa.Value) bool { return v == okv }) }) {
			return // closed-channel branch
		}
		nEff++
		match := anyFact(facts, func(f Cmp) bool { return seqMatch(f, seqRes) })
		c.Decide(match, "C03.S5", FuncName(sender)+" ack effect behind sequence match", p.InstrPos(in), "the sender "+what+" only behind res.SeqNumber == conn.seqNumber", "in the acknowledgement case the sender "+what+" without the acknowledgement's sequence number matching: an acknowledgement for another request is not ignored")
	})
	c.Floor("C03.S5", "effects inside the acknowledgement case", nEff, 2)
	// the mismatch edge leads back to the wait with no effect
	nMis := 0
	for _, b := range sender.Blocks {
		iff := ifOf(b)
		if iff == nil {
			continue
		}
		cmp, _ := cmpOf(iff.Cond, true)
		if !((isLoadOf(cmp.X, seqRes) && isCounter(cmp.Y)) || (isLoadOf(cmp.Y, seqRes) && isCounter(cmp.X))) {
			continue
		}
		var target *ssa.BasicBlock
		switch cmp.Op {
		case token.NEQ:
			target = b.Succs[0]
		case token.EQL:
			target = b.Succs[1]
		default:
			c.Fail("C03.S5", FuncName(sender)+" sequence comparison", p.InstrPos(iff), "acknowledgement sequence number is compared with "+cmp.Op.String()+" instead of (in)equality")
			continue
		}
		nMis++
		selBlock := (*ssa.BasicBlock)(nil)
		if ackSel != nil {
			selBlock = ackSel.Block()
		}
		reach := map[*ssa.BasicBlock]bool{}
		if target != selBlock {
			reach = reachableFrom(target, func(from, to *ssa.BasicBlock) bool { return to == selBlock })
		}
		bad := ""
		for rb := range reach {
			if rb == selBlock {
				continue
			}
			for _, in := range rb.Instrs {
				switch x := in.(type) {
				case *ssa.Return:
					bad = "returns at " + p.InstrPos(x)
				case *ssa.Store:
					if fieldOfAddr(x.Addr) == a.seqNumber {
						bad = "writes the counter at " + p.InstrPos(x)
					}
				}
				if ci, ok := in.(ssa.CallInstruction); ok && isSocketSend(ci, knxnetPath) {
					bad = "transmits at " + p.InstrPos(in)
				}
			}
		}
		c.Decide(bad == "" && selBlock != nil, "C03.S5", FuncName(sender)+" mismatching ack is ignored", p.InstrPos(iff), "the mismatch edge returns to the wait without store, send or return", "an acknowledgement with another sequence number "+bad)
	}
	c.Floor("C03.S5", "sequence comparisons in the sender", nMis, 1)

	// ---- S6/S7 timer wiring
	if ackSel != nil {
		checkRequestLoop(c, p, "C03.S6", sender, ackSel, reqAlloc, "TunnelReq", a.respTimeout, a.resend, 0)
	} else {
		c.Fail("C03.S6", FuncName(sender)+" reply select", p.Pos(sender.Pos()), "no select receiving from Tunnel.ack found in the sender")
	}

	// ---- S8 TCP path
	nTCP := 0
	for _, r := range returnsOf(sender) {
		facts := factsAt(r.Block())
		if !anyFact(facts, func(f Cmp) bool { return isUseTCPFact(f, a, true) }) {
			continue
		}
		// only the return that follows a successful send is the TCP success exit
		if !p.returnMayBeNil(r, 0) {
			continue
		}
		nTCP++
		isSend := func(in ssa.Instruction) bool {
			ci, ok := in.(ssa.CallInstruction)
			return ok && isSocketSend(ci, knxnetPath)
		}
		min, max, ok := pathCountTo(sender.Blocks[0], r.Block(), isSend)
		c.Decide(ok && min == 1 && max == 1, "C03.S8", FuncName(sender)+" TCP: exactly one transmission", p.InstrPos(r), "every path to the TCP exit passes exactly one Socket.Send", fmt.Sprintf("paths to the TCP exit transmit between %d and %d times", min, max))
		_, maxB, _ := pathCountTo(sender.Blocks[0], r.Block(), func(in ssa.Instruction) bool {
			d := blockingDesc(in)
			return d != "" && d != "sync.Mutex.Lock"
		})
		c.Decide(maxB == 0, "C03.S8", FuncName(sender)+" TCP: no wait", p.InstrPos(r), "no select / channel operation / sleep on the TCP path", "the TCP path waits before returning")
	}
	c.Floor("C03.S8", "TCP exits of the sender", nTCP, 1)
	checkConfigImmutable(c, p, "C03.S8", a)

	// ---- S9 relay filter
	resChan := p.Field("knx/knxnet", "TunnelRes", "Channel")
	sends := ix.opsOnField(a.ack, "send", "sel-send")
	c.Floor("C03.S9", "sends on Tunnel.ack", len(sends), 1)
	for _, op := range sends {
		facts := factsWithParents(op.Instr.Block())
		pos := p.InstrPos(op.Instr)
		key := FuncName(op.Fn)
		c.Decide(anyFact(facts, func(f Cmp) bool { return cmpIsFieldEq(f, resChan, a.channel) }), "C03.S9", key+" relay behind channel match", pos, "dominated by res.Channel == conn.channel", "an acknowledgement for another channel is relayed to the sender")
		var val ssa.Value
		switch x := op.Instr.(type) {
		case *ssa.Send:
			val = x.X
		case *ssa.Select:
			val = x.States[op.State].Send
		}
		rv := unspill(resolveFree(val))
		_, isParam := rv.(*ssa.Parameter)
		c.Decide(isParam && isPtrToNamed(rv.Type(), knxnetPath, "TunnelRes"), "C03.S9", key+" relays the received acknowledgement", pos, "the value sent is the handler's parameter", "the value put on Tunnel.ack is "+describe(rv)+", not the received acknowledgement")
	}
	for _, op := range ix.opsOnField(a.ack, "recv", "sel-recv", "range") {
		c.Decide(senders[op.Fn], "C03.S9", FuncName(op.Fn)+" receives on Tunnel.ack", p.InstrPos(op.Instr), "only the sender consumes acknowledgements", "acknowledgements are consumed outside the sending function (a sender can miss its acknowledgement)")
	}
	// the relay is reached: the function that relays is called, once, from the loop that receives from the socket,
	// behind the type test for *TunnelRes (an emptied case arm drops every acknowledgement: every Send times out)
	handlers := map[*ssa.Function]bool{}
	for _, op := range sends {
		handlers[topOf(op.Fn)] = true
	}
	nCall := 0
	for _, fn := range p.FuncsIn("knx") {
		instrsOf(fn, func(in ssa.Instruction) {
			call, ok := in.(*ssa.Call)
			if !ok || call.Common().StaticCallee() == nil || !handlers[call.Common().StaticCallee()] {
				return
			}
			nCall++
			c.Decide(factAssertPtr(factsAt(call.Block()), knxnetPath, "TunnelRes"), "C03.S9", FuncName(fn)+" hands received acknowledgements to the relay", p.InstrPos(call), "called behind msg.(*knxnet.TunnelRes)", "the relay is not called behind the type test for *knxnet.TunnelRes")
		})
	}
	c.Exact("C03.S9", "call sites of the acknowledgement relay", nCall, len(handlers), "")
}

// one checks that a request field is stored exactly once.
func one(c *Check, rule, key string, sts []*ssa.Store, p *Program, fn *ssa.Function) bool {
	if len(sts) == 1 {
		return true
	}
	c.Fail(rule, key+" stored once", p.Pos(fn.Pos()), fmt.Sprintf("field is stored %d times (expected exactly once)", len(sts)))
	return false
}

// seqValueOK: the request's sequence number is the connection's counter,
// loaded under the lock; a constant 0 may come in only over the UseTCP edge.
func seqValueOK(v ssa.Value, a *tunnelAnchors, lc *lockCtx, muKey string) (bool, string) {
	if isLoadOf(v, a.seqNumber) {
		if in, ok := unspill(v).(ssa.Instruction); ok && !lc.Held(in, muKey) {
			return false, "the counter is read without " + muKey
		}
		return true, ""
	}
	ph, ok := v.(*ssa.Phi)
	if !ok {
		return false, "request sequence number is " + describe(v) + ", not the connection's counter"
	}
	nLoad := 0
	for i, e := range ph.Edges {
		pred := ph.Block().Preds[i]
		if isLoadOf(e, a.seqNumber) {
			if in, ok := unspill(e).(ssa.Instruction); ok && !lc.Held(in, muKey) {
				return false, "the counter is read without " + muKey
			}
			nLoad++
			continue
		}
		if k, ok := constInt(e); ok && k == 0 {
			// edge must be implied by UseTCP == true
			okEdge := false
			if iff := ifOf(pred); iff != nil {
				cmp, _ := cmpOf(iff.Cond, pred.Succs[0] == ph.Block())
				okEdge = isUseTCPFact(cmp, a, true) && pred.Succs[0] != pred.Succs[1]
			}
			if !okEdge {
				okEdge = anyFact(factsAt(pred), func(f Cmp) bool { return isUseTCPFact(f, a, true) })
			}
			if !okEdge {
				return false, "sequence number 0 is used on a path that is not the UseTCP path"
			}
			continue
		}
		return false, "request sequence number may be " + describe(e)
	}
	if nLoad == 0 {
		return false, "the connection's counter never reaches the request"
	}
	return true, ""
}

// checkConfigImmutable: Tunnel.config (and its fields through a Tunnel) is
// written only inside the constructor, so repeated loads of a config field agree.
func checkConfigImmutable(c *Check, p *Program, rule string, a *tunnelAnchors) {
	tun := p.Named("knx", "Tunnel")
	n := 0
	for _, fn := range p.SrcFuncs() {
		instrsOf(fn, func(in ssa.Instruction) {
			st, ok := in.(*ssa.Store)
			if !ok {
				return
			}
			pa := addrPath(st.Addr)
			through := false
			for _, s := range pa.Sels {
				if !s.IsIdx && s.Field == a.config {
					through = true
				}
			}
			if !through {
				return
			}
			n++
			c.Decide(isConstructorOf(fn, tun), rule, FuncName(fn)+" writes Tunnel.config", p.InstrPos(st), "inside the constructor", "Tunnel.config is modified after construction: the two tests of UseTCP (and the timer durations) can disagree")
		})
	}
	c.Floor(rule, "stores to Tunnel.config", n, 1)
}
