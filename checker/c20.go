package main

import (
	"fmt"
	"go/token"
	"go/types"

	"golang.org/x/tools/go/ssa"
)

func init() { register("C20", "other", checkC20) }

// varargItems returns the values stored into the varargs array behind a slice value.
func varargItems(v ssa.Value) ([]ssa.Value, bool) {
	sl, ok := v.(*ssa.Slice)
	if !ok {
		return nil, false
	}
	arr, ok := sl.X.(*ssa.Alloc)
	if !ok {
		return nil, false
	}
	var out []ssa.Value
	for _, u := range usesOf(arr) {
		ia, ok := u.(*ssa.IndexAddr)
		if !ok {
			continue
		}
		for _, su := range usesOf(ia) {
			if st, ok := su.(*ssa.Store); ok && st.Addr == ia {
				out = append(out, st.Val)
			}
		}
	}
	return out, true
}

func checkC20(c *Check, p *Program) {
	c.Technique = "select/timer decoding, defer dominance, path counting, def-use of the returned/appended values, dominating-edge facts on the SSA of the describe/discover calls and the UDP receiver"
	c.Explanation = "Decides, for every function of package knx whose loop waits on time.After(<duration parameter>) (DescribeTunnel, DiscoverOnInterface): D1 the loop's only blocking instruction is one blocking select with a receive on time.After(parameter) created before the loop, whose case leaves the loop and returns; D2 a deferred Close of the socket dominates every return behind the dial-success edge; D3 every path to the loop passes exactly one Socket.Send and the loop contains none; D4 the only non-nil/appended results are the value of a comma-ok assertion of the received frame to the expected response type on its ok edge (returned at once, resp. appended once per receive to the one slice that is returned), every other frame leads back to the select; D5 the request is built from the address of the same socket and the request constructors store HostInfoFromAddress(addr); D6 in the UDP receiver the decode call is behind addr == nil || (IP.Equal && Port ==) and DialTunnelUDP passes the resolved remote address; D7 that receiver drops undecodable datagrams and continues, forwards each decoded frame once in order and ends only on a read error. Not decided: the wall-clock bound and scheduler fairness of select."
	c.Trusted = []string{"go/types, go/ssa", "time.After semantics", "kxcheck select decoding / dominance"}
	c.NotDecided = []string{"'timeout plus scheduling slack' as a wall-clock bound", "fair choice of ready select cases (closed inbound channel busy loop ends when the timer case is chosen)"}

	ix := p.index()
	n := 0
	for _, fn := range p.FuncsIn("knx") {
		if fn.Parent() != nil {
			continue
		}
		var sel *ssa.Select
		var tm *timerSrc
		tmState := -1
		instrsOf(fn, func(in ssa.Instruction) {
			s, ok := in.(*ssa.Select)
			if !ok {
				return
			}
			for i, st := range s.States {
				if t := timerOf(st.Chan); t != nil && t.Kind == "after" && st.Dir == types.RecvOnly {
					if _, isP := unspill(t.Arg).(*ssa.Parameter); isP {
						sel, tm, tmState = s, t, i
					}
				}
			}
		})
		// also catch a re-armed timer: time.After(parameter) evaluated as a select state inside the loop is found above too
		if sel == nil {
			continue
		}
		n++
		name := FuncName(fn)
		c.Analysed("functions", name)
		pos := p.InstrPos(sel)
		lp := innermostLoop(sel.Block())
		if lp == nil {
			c.Fail("C20.D1", name+" select in loop", pos, "the wait is not a loop: a single unrelated frame ends it")
			continue
		}
		// ---- D1
		c.Decide(sel.Blocking, "C20.D1", name+" blocking select", pos, "no default case", "the select has a default case (busy loop)")
		outside := !lp.Body[tm.Call.Block()] && tm.Call.Block().Dominates(lp.Header)
		c.Decide(outside, "C20.D1", name+" timer created once", p.InstrPos(tm.Call), "time.After(parameter) evaluated before the loop", "time.After is evaluated inside the loop: every received frame re-arms the timeout, a peer that keeps sending prevents the call from returning")
		for b := range lp.Body {
			for _, in := range b.Instrs {
				if in == ssa.Instruction(sel) {
					continue
				}
				if d := blockingDesc(in); d != "" {
					c.Fail("C20.D1", name+" extra blocking op", p.InstrPos(in), "the wait loop contains "+d+" outside the timer-guarded select")
				}
				if ci, ok := in.(ssa.CallInstruction); ok && isSocketSend(ci, knxnetPath) {
					c.Fail("C20.D3", name+" request inside the loop", p.InstrPos(in), "a request is (re)sent inside the wait loop")
				}
			}
		}
		cases, _ := selectCases(sel)
		if body := cases[tmState].Body; body != nil {
			reach := reachableFrom(body, nil)
			leaves := !reach[lp.Header]
			rets := 0
			for b := range reach {
				for _, in := range b.Instrs {
					if _, ok := in.(*ssa.Return); ok {
						rets++
					}
				}
			}
			c.Decide(leaves && rets >= 1, "C20.D1", name+" timeout case returns", pos, "the timer case leaves the loop and returns", "the timeout case does not end the call")
			// what the timeout returns: nil result (describe) / the collected slice (discover) with nil error: judged in D4
		}
		// a return that is not reached through the wait loop is a failure of the set-up (dial, request construction,
		// transmission) and says so: "no result" without an error is reserved for the elapsed timeout
		inLoop := reachableFrom(lp.Header, nil)
		nEarly := 0
		for _, r := range returnsOf(fn) {
			if inLoop[r.Block()] || len(r.Results) < 2 {
				continue
			}
			nEarly++
			c.Decide(!p.returnMayBeNil(r, 1), "C20.D1", name+" return before the wait reports an error", p.InstrPos(r), "non-nil error", "the call can end before the wait loop without an error: the caller reads it as 'nobody answered within the timeout' although no request was sent or the timeout has not run")
		}
		c.Floor("C20.D1", name+" set-up failure exits", nEarly, 1)
		// ---- D2
		var closeDefer *ssa.Defer
		var sock ssa.Value
		instrsOf(fn, func(in ssa.Instruction) {
			d, ok := in.(*ssa.Defer)
			if !ok {
				return
			}
			if o := calleeObj(d); o != nil && o.Name() == "Close" {
				if r := callRecv(d); r != nil && namedOf(r.Type()) != nil && namedOf(r.Type()).Obj().Pkg().Path() == knxnetPath {
					closeDefer, sock = d, r
				}
			}
		})
		if closeDefer == nil {
			c.Fail("C20.D2", name+" defers socket.Close()", p.Pos(fn.Pos()), "no deferred Close of a knxnet socket: the socket and its receiver goroutine leak")
		} else {
			// the dial call and its error
			var dialErr ssa.Value
			if ex, ok := sock.(*ssa.Extract); ok {
				for _, u := range usesOf(ex.Tuple) {
					if e2, ok := u.(*ssa.Extract); ok && e2.Index == 1 {
						dialErr = e2
					}
				}
			}
			for _, r := range returnsOf(fn) {
				byDefer := closeDefer.Block().Dominates(r.Block())
				dialFailed := dialErr != nil && anyFact(factsAt(r.Block()), func(f Cmp) bool {
					return f.Op == token.NEQ && ((f.X == dialErr && isNilConst(f.Y)) || (f.Y == dialErr && isNilConst(f.X)))
				})
				c.Decide(byDefer || dialFailed, "C20.D2", name+" return releases the socket", p.InstrPos(r), "dominated by the deferred Close (or the dial failed)", "this return is reached with the socket open and no deferred Close registered")
			}
			c.Decide(!inAnyLoop(closeDefer.Block()), "C20.D2", name+" one deferred Close", p.InstrPos(closeDefer), "outside loops", "Close deferred in a loop")
		}
		// ---- D3
		isSend := func(in ssa.Instruction) bool {
			ci, ok := in.(ssa.CallInstruction)
			return ok && isSocketSend(ci, knxnetPath)
		}
		min, max, ok := pathCountTo(fn.Blocks[0], lp.Header, isSend)
		// the header itself may be counted; sends inside the header block would be flagged by D1's loop scan
		c.Decide(ok && min == 1 && max == 1, "C20.D3", name+" exactly one request", pos, "every path to the wait loop passes one Socket.Send", fmt.Sprintf("paths to the wait loop send %d..%d requests", min, max))
		var sendCall ssa.CallInstruction
		for _, s := range ix.sockSends {
			if s.Fn == fn {
				sendCall = s.Call
				if sock != nil {
					c.Decide(callRecv(s.Call) == sock, "C20.D3", name+" request on the socket that is closed", p.InstrPos(s.Call), "same socket value", "the request is sent on a different socket than the one waited on and closed")
				}
			}
		}
		// ---- D4
		var inboundState = -1
		for i, st := range sel.States {
			if call, ok := st.Chan.(*ssa.Call); ok && st.Dir == types.RecvOnly {
				if o := calleeObj(call); o != nil && o.Name() == "Inbound" && callRecv(call) == sock {
					inboundState = i
				}
			}
		}
		if inboundState < 0 {
			// the channel kept in a local that is set to nil once the channel was seen closed (a nil
			// channel blocks: the rest of the wait is spent on the timer): phi(socket.Inbound(), nil, itself)
			isInboundCall := func(v ssa.Value) bool {
				call, ok := v.(*ssa.Call)
				if !ok {
					return false
				}
				o := calleeObj(call)
				return o != nil && o.Name() == "Inbound" && callRecv(call) == sock
			}
			for i, st := range sel.States {
				ph, ok := st.Chan.(*ssa.Phi)
				if !ok || st.Dir != types.RecvOnly {
					continue
				}
				okPhi, sawCall := true, false
				for ei, e := range ph.Edges {
					switch {
					case isInboundCall(e):
						sawCall = true
					case e == ssa.Value(ph):
					case isNilConst(e):
						// only after the channel was seen closed: the edge is behind recvOk == false of this select
						pred := ph.Block().Preds[ei]
						closed := anyFact(append(factsAt(pred), edgeFacts(pred, ph.Block())...), func(f Cmp) bool {
							return cmpIsBool(f, false, func(v ssa.Value) bool {
								ex, ok := v.(*ssa.Extract)
								return ok && ex.Tuple == ssa.Value(sel)
							})
						})
						if !closed {
							okPhi = false
						}
					default:
						okPhi = false
					}
				}
				if okPhi && sawCall {
					inboundState = i
				}
			}
		}
		c.Decide(inboundState >= 0, "C20.D4", name+" waits on the socket's inbound channel", pos, "select receives from socket.Inbound()", "the select does not receive from the socket that the request was sent on")
		if inboundState >= 0 {
			rv := selectRecvValue(sel, inboundState)
			// the received value is nil once the receiver has terminated (closed channel): it may only be
			// looked at through a comma-ok type assertion or a nil comparison
			if rv != nil {
				badUse := ""
				for _, u := range usesOf(rv) {
					switch x := u.(type) {
					case *ssa.TypeAssert:
						if !x.CommaOk {
							badUse = "asserted without comma-ok at " + p.InstrPos(x)
						}
					case *ssa.BinOp, *ssa.DebugRef, *ssa.Phi:
					case ssa.CallInstruction:
						if x.Common().IsInvoke() && x.Common().Value == rv {
							badUse = "method " + x.Common().Method.Name() + " is called on it at " + p.InstrPos(x)
						}
					case *ssa.MakeInterface, *ssa.ChangeInterface:
					default:
					}
				}
				c.Decide(badUse == "", "C20.D4", name+" received value is only type-tested", p.InstrPos(sel), "comma-ok assertions only", "the value received from Inbound() is nil when the receiver has terminated (unreachable port, closed socket): "+badUse+" - the call panics instead of ending at its timeout")
			}
			resType := ""
			// result type: first result's element
			res0 := fn.Signature.Results().At(0).Type()
			isSlice := false
			if sl, ok := res0.Underlying().(*types.Slice); ok {
				isSlice = true
				res0 = sl.Elem()
			}
			if nt := namedOf(res0); nt != nil {
				resType = nt.Obj().Name()
			}
			goodAssertF := func(v ssa.Value, facts []Cmp) bool {
				ex, ok := v.(*ssa.Extract)
				if !ok || ex.Index != 0 {
					return false
				}
				ta, ok := ex.Tuple.(*ssa.TypeAssert)
				if !ok || !ta.CommaOk || ta.X != rv || !isPtrToNamed(ta.AssertedType, knxnetPath, resType) {
					return false
				}
				return anyFact(facts, func(f Cmp) bool {
					_, t2, ok := assertOK(f)
					return ok && t2 == ta
				})
			}
			goodAssert := func(v ssa.Value, at *ssa.BasicBlock) bool { return goodAssertF(v, factsAt(at)) }
			if !isSlice {
				nGood := 0
				for _, r := range returnsOf(fn) {
					for _, v0 := range resultValues(r, 0) {
						for _, alt := range alternativesAt(v0, r.Block()) {
							v := alt.V
							if isNilConst(v) {
								continue
							}
							okv := goodAssertF(v, alt.facts())
							if okv {
								nGood++
								// returned at once with a nil error
								c.Decide(!p.returnMayBeNil(r, 1) == false, "C20.D4", name+" matching response returned with nil error", p.InstrPos(r), "nil error", "the matching response is returned together with an error")
							}
							c.Decide(okv, "C20.D4", name+" result is the asserted response", p.InstrPos(r), "value of msg.(*"+resType+") on its ok edge", "a non-nil result that is not the received frame asserted to *"+resType+" on the ok edge")
						}
					}
				}
				c.Floor("C20.D4", name+" returns of a matching response", nGood, 1)
				// the ok edge returns immediately: from the assert's ok successor no path re-enters the loop
				instrsOf(fn, func(in ssa.Instruction) {
					ta, ok := in.(*ssa.TypeAssert)
					if !ok || ta.X != rv {
						return
					}
					for _, b := range fn.Blocks {
						for _, s := range b.Succs {
							f, has := edgeFact(b, s)
							if !has {
								continue
							}
							if _, t2, ok := assertOK(f); ok && t2 == ta {
								c.Decide(!reachableFrom(s, nil)[lp.Header], "C20.D4", name+" first matching response ends the call", p.InstrPos(ta), "the ok edge cannot re-enter the loop", "a matching response does not end the call at once")
							}
						}
					}
				})
			} else {
				// discover: appends
				nApp := 0
				var appended []ssa.Value
				instrsOf(fn, func(in ssa.Instruction) {
					call, ok := in.(*ssa.Call)
					if !ok || builtinName(call) != "append" {
						return
					}
					nApp++
					items, okI := varargItems(call.Common().Args[1])
					good := okI && len(items) == 1 && goodAssert(items[0], call.Block())
					c.Decide(good, "C20.D4", name+" appends only matching responses", p.InstrPos(call), "appended element is msg.(*"+resType+") on its ok edge", "the value appended to the results is not the received frame asserted to *"+resType+" (aliasing a reused variable makes all results equal the last response)")
					appended = append(appended, call)
					_, maxIt := iterCount(lp, func(x ssa.Instruction) bool { cl, ok := x.(*ssa.Call); return ok && builtinName(cl) == "append" })
					c.Decide(maxIt <= 1, "C20.D4", name+" one append per received frame", p.InstrPos(call), "at most one append per iteration", "a response is appended more than once")
				})
				c.Floor("C20.D4", name+" append sites", nApp, 1)
				// the returned slice flows only from the initial empty slice and the appends
				for _, r := range returnsOf(fn) {
					if p.returnMayBeNil(r, 1) == false {
						continue
					}
					for _, v := range resultValues(r, 0) {
						okFlow := sliceFlowsFrom(v, appended, 0)
						c.Decide(okFlow, "C20.D4", name+" returns the collected slice", p.InstrPos(r), "the result is the slice built by the appends", "the successful return hands back something other than the collected responses")
					}
				}
			}
			// non-matching frames lead back to the select: the !ok edge reaches the header without return
			instrsOf(fn, func(in ssa.Instruction) {
				ta, ok := in.(*ssa.TypeAssert)
				if !ok || ta.X != rv {
					return
				}
				for _, b := range fn.Blocks {
					for _, s := range b.Succs {
						f, has := edgeFact(b, s)
						if !has {
							continue
						}
						if cmpIsBool(f, false, func(v ssa.Value) bool {
							e, ok := v.(*ssa.Extract)
							return ok && e.Tuple == ssa.Value(ta) && e.Index == 1
						}) {
							bad := false
							if s != lp.Header {
								for rb := range reachUntil(s, lp.Header) {
									for _, x := range rb.Instrs {
										if _, isR := x.(*ssa.Return); isR && rb != lp.Header {
											bad = true
										}
									}
								}
							}
							c.Decide(!bad, "C20.D4", name+" other frames are ignored", p.InstrPos(ta), "the !ok edge leads back to the select", "a frame of another type ends the call")
						}
					}
				}
			})
		}
		// ---- D5: the request is built from this socket's address
		if sendCall != nil {
			args := callArgs(sendCall)
			var req ssa.Value
			if len(args) == 1 {
				if mi, ok := args[0].(*ssa.MakeInterface); ok {
					req = mi.X
				}
			}
			okD5 := false
			if ex, ok := req.(*ssa.Extract); ok {
				if mk, ok := ex.Tuple.(*ssa.Call); ok {
					if f := mk.Common().StaticCallee(); f != nil && fnPkg(f).Pkg.Path() == knxnetPath && len(mk.Common().Args) == 1 {
						av := mk.Common().Args[0]
						if mi, ok := av.(*ssa.MakeInterface); ok {
							av = mi.X
						}
						if ac, ok := av.(*ssa.Call); ok && callRecv(ac) == sock {
							okD5 = true
							c.Analysed("functions", FuncName(f))
							checkReqCtor(c, p, f)
						}
					}
				}
			}
			c.Decide(okD5, "C20.D5", name+" request advertises this socket's address", p.InstrPos(sendCall), "built by a knxnet constructor from an address method of the same socket", "the request's reply address is not derived from the socket the request is sent on")
		}
	}
	c.Floor("C20.D1", "timer-bounded call functions", n, 2)

	// ---- D6 origin filter in the UDP receiver
	checkUDPOrigin(c, p)
	// ---- D7 "whatever else arrives on the socket": the UDP receiver both calls
	// rely on keeps running after frames that do not decode
	if udp, _ := receivers(p); udp != nil {
		checkReceiverLoop(c, p, "C20.D7", udp)
	}
}

func sliceFlowsFrom(v ssa.Value, appends []ssa.Value, depth int) bool {
	if depth > 6 {
		return false
	}
	for _, a := range appends {
		if v == a {
			return true
		}
	}
	switch x := v.(type) {
	case *ssa.Phi:
		for _, e := range x.Edges {
			if e == ssa.Value(x) {
				continue
			}
			if !sliceFlowsFrom(e, appends, depth+1) {
				return false
			}
		}
		return true
	case *ssa.Slice:
		// the initial empty literal
		if al, ok := x.X.(*ssa.Alloc); ok {
			if arr, ok := deref(al.Type()).Underlying().(*types.Array); ok && arr.Len() == 0 {
				return true
			}
		}
	case *ssa.Const:
		return x.Value == nil
	case *ssa.MakeSlice:
		k, ok := constInt(x.Len)
		return ok && k == 0
	}
	return false
}

// checkReqCtor: NewDescriptionReq/NewSearchReq store HostInfoFromAddress(addr).
func checkReqCtor(c *Check, p *Program, f *ssa.Function) {
	hi := p.Func("knx/knxnet", "HostInfoFromAddress")
	ok := false
	instrsOf(f, func(in ssa.Instruction) {
		if staticCallTo(in, hi) {
			if len(in.(*ssa.Call).Common().Args) == 1 && in.(*ssa.Call).Common().Args[0] == ssa.Value(f.Params[0]) {
				ok = true
			}
		}
	})
	stored := false
	instrsOf(f, func(in ssa.Instruction) {
		st, isSt := in.(*ssa.Store)
		if !isSt {
			return
		}
		if ex, isEx := st.Val.(*ssa.Extract); isEx {
			if call, isC := ex.Tuple.(*ssa.Call); isC && call.Common().StaticCallee() == hi && fieldOfAddr(st.Addr) != nil && isNamed(fieldOfAddr(st.Addr).Type(), knxnetPath, "HostInfo") {
				stored = true
			}
		}
	})
	c.Decide(ok && stored && hi != nil, "C20.D5", FuncName(f)+" stores HostInfoFromAddress(addr)", p.Pos(f.Pos()), "the request's endpoint field is HostInfoFromAddress(parameter)", "the request constructor does not store the host info of the address it is given")
}

func checkUDPOrigin(c *Check, p *Program) {
	recv, _ := receivers(p)
	if recv != nil && (len(recv.Params) < 3 || !isPtrToNamed(recv.Params[1].Type(), "net", "UDPAddr")) {
		recv = nil
	}
	if recv == nil {
		c.Fail("C20.D6", "UDP receiver", "", "no function (*net.UDPConn, *net.UDPAddr, chan<- Service) found")
		return
	}
	c.Analysed("functions", FuncName(recv))
	addr := recv.Params[1]
	unpack := p.Func("knx/knxnet", "Unpack")
	nU := 0
	instrsOf(recv, func(in ssa.Instruction) {
		if !staticCallTo(in, unpack) {
			return
		}
		nU++
		// all ways of reaching the decode either know addr == nil, or passed both comparisons
		var sender ssa.Value
		instrsOf(recv, func(x ssa.Instruction) {
			if call, ok := x.(*ssa.Call); ok && funcIs(calleeObj(call), "net", "UDPConn", "ReadFromUDP") {
				for _, u := range usesOf(call) {
					if e, ok := u.(*ssa.Extract); ok && e.Index == 1 {
						sender = e
					}
				}
			}
		})
		isIPEq := func(f Cmp) bool {
			return cmpIsBool(f, true, func(v ssa.Value) bool {
				call, ok := v.(*ssa.Call)
				if !ok || !funcIs(calleeObj(call), "net", "IP", "Equal") {
					return false
				}
				a0, a1 := call.Common().Args[0], call.Common().Args[1]
				fromAddr := func(x ssa.Value) bool {
					p := valuePath(x)
					return p.Root == ssa.Value(addr) && p.LastField() != nil && p.LastField().Name() == "IP"
				}
				fromSender := func(x ssa.Value) bool {
					p := valuePath(x)
					return sender != nil && p.Root == sender && p.LastField() != nil && p.LastField().Name() == "IP"
				}
				return (fromAddr(a0) && fromSender(a1)) || (fromAddr(a1) && fromSender(a0))
			})
		}
		isPortEq := func(f Cmp) bool {
			if f.Op != token.EQL {
				return false
			}
			px, py := valuePath(f.X), valuePath(f.Y)
			isPort := func(pp *Path, root ssa.Value) bool {
				return root != nil && pp.Root == root && pp.LastField() != nil && pp.LastField().Name() == "Port"
			}
			return (isPort(px, addr) && isPort(py, sender)) || (isPort(py, addr) && isPort(px, sender))
		}
		isNilAddr := func(f Cmp) bool {
			return f.Op == token.EQL && ((f.X == ssa.Value(addr) && isNilConst(f.Y)) || (f.Y == ssa.Value(addr) && isNilConst(f.X)))
		}
		nP, okAll := 0, true
		lp := innermostLoop(in.Block())
		from := recv.Blocks[0]
		if lp != nil {
			from = lp.Header
		}
		nP, okAll = allPathsSatisfy(from, in.Block(), nil, func(fs []Cmp) bool {
			return anyFact(fs, isNilAddr) || (anyFact(fs, isIPEq) && anyFact(fs, isPortEq))
		})
		c.Decide(okAll && nP >= 1, "C20.D6", FuncName(recv)+" decodes only frames from the queried address", p.InstrPos(in), fmt.Sprintf("%d path(s) to the decode, each with addr == nil or IP.Equal && Port ==", nP), "a datagram from another sender reaches the decoder although an origin address was given")
	})
	c.Exact("C20.D6", "decode sites in the UDP receiver", nU, 1, p.Pos(recv.Pos()))
	// DialTunnelUDP passes the resolved address
	nGo := 0
	for _, e := range p.CallGraph().In[recv] {
		if e.Kind != "go" {
			continue
		}
		nGo++
		g := e.Site.(*ssa.Go)
		arg := g.Common().Args[1]
		if isNilConst(arg) {
			c.OK("C20.D6", FuncName(e.Caller)+" starts the receiver without origin filter", p.InstrPos(g), "multicast listener: any sender (by design)")
			continue
		}
		fromResolve := false
		if ex, ok := arg.(*ssa.Extract); ok {
			if call, ok := ex.Tuple.(*ssa.Call); ok && funcIs(calleeObj(call), "net", "", "ResolveUDPAddr") {
				fromResolve = true
				// used behind err == nil
			}
		}
		c.Decide(fromResolve, "C20.D6", FuncName(e.Caller)+" passes the resolved remote address", p.InstrPos(g), "result of net.ResolveUDPAddr", "the receiver of a unicast socket is started with "+describe(arg)+" as origin filter")
	}
	c.Floor("C20.D6", "go sites of the UDP receiver", nGo, 2)
}
