package main

import (
	"go/constant"
	"fmt"
	"go/token"
	"go/types"
	"math"
	"sort"
	"strings"

	"golang.org/x/tools/go/ssa"
)

func init() { register("C08", "proof", checkC08) }

func init() {
	for k, v := range map[string]string{
		"time.Date":                                "total; normalises out-of-range fields",
		"(time.Time).Year":                         "total",
		"(time.Time).Month":                        "total",
		"(time.Time).Day":                          "total",
		"math.Float32frombits":                     "total",
		"math.Float32bits":                         "total",
		"(encoding/binary.bigEndian).Uint16":       "panics only if len < 2 (judged as an index on the argument)",
		"(encoding/binary.bigEndian).Uint32":       "panics only if len < 4 (judged as an index on the argument)",
		"(encoding/binary.bigEndian).PutUint16":    "panics only if len < 2",
		"(encoding/binary.bigEndian).PutUint32":    "panics only if len < 4",
		"strconv.Itoa":                             "total",
		"strings.Join":                             "total",
		"strings.TrimRight":                        "total",
		"(*strings.Builder).WriteString":           "total",
		"(*strings.Builder).String":                "total",
		"unicode/utf8.RuneCountInString":           "total",
		"strconv.FormatFloat":                      "total",
		"strconv.FormatInt":                        "total",
		"strconv.FormatUint":                       "total",
		"(golang.org/x/text/encoding.Encoder).Bytes": "returns an error on failure",
	} {
		externalAllowed[k] = v
	}
}

// dptRangeSpec: documented ranges the property names (value after decoding).
type dptRange struct {
	key   string
	field string // "" for scalar types
	iv    fiv
	what  string
}

var dptRanges = []dptRange{
	{"5.001", "", fiv{0, 100}, "scaling 0..100 %"},
	{"5.003", "", fiv{0, 360}, "angle 0..360 degrees"},
	{"9.001", "", fiv{-273, 670760}, "temperature not below absolute zero (-273 °C)"},
	{"9.027", "", fiv{-459.6, 670760}, "temperature not below absolute zero (-459.6 °F)"},
	{"17.001", "", fiv{0, 63}, "scene number below 64"},
	{"10.001", "Weekday", fiv{0, 7}, "weekday 0..7"},
	{"10.001", "Hour", fiv{0, 23}, "hours below 24"},
	{"10.001", "Minutes", fiv{0, 59}, "minutes below 60"},
	{"10.001", "Seconds", fiv{0, 59}, "seconds below 60"},
}

func checkC08(c *Check, p *Program) {
	c.Technique = "per-type obligations over the registered datapoint types: panic-freedom of Unpack/String/Unit/IsValid and their helpers (compiler bounds-check listing, else guard-based prover), length-guard summaries propagated through helper calls, interval analysis (guards, type ranges, constant arithmetic in float32 precision) of every value stored on a successful decode"
	c.Explanation = "For all registered datapoint types (the registry literal is the source of the list): (1) no instruction of (*T).Unpack, T.String, T.Unit, IsValid and the formats.go helpers can panic - index/slice expressions are compiler-proved or proved from dominating length guards, no comma-less assertion, explicit panic, non-constant integer division or call outside the allow-list; (2) every successful return of Unpack is behind len(data) == L with L the length the KNX datapoint format prescribes for the type's main number (for the variable-length 28.001: len(data) >= 2), through helper summaries; every exit through the length guard returns a non-nil error; (3) on every successful return the stored value lies in the documented range the property names (5.001 0..100 %, 5.003 0..360°, 9.001 >= -273 °C, 9.027 >= -459.6 °F, all two-octet floats within the format's limits, 10.001 weekday<=7 hour<=23 minute/second<=59 via the IsValid edge, 17.001 and 18.001 scene <= 63 resp. within 0..63 or 128..191, 11.001 behind IsValid, whose edges demand 1990..2089 and equality with time.Date's normalisation), with one float32 ulp of slack at float bounds; and, as the sibling rule over all twenty 9.xxx types, the accepted interval equals the interval Pack clamps to."
	c.Trusted = []string{"go/types, go/ssa", "the Go compiler's prove pass", "kxcheck guard prover and interval analysis", "contracts of time.Date (a date equal to its normalisation is a real calendar date), fmt, encoding/binary"}
	c.Assumptions = []string{"float comparisons against constants are evaluated in float32 as written; NaN payloads do not exist for the two-octet float (it has no NaN encoding)"}
	c.NotDecided = []string{}

	pl, err := p.compilerListing()
	if err != nil {
		c.Internal("%v", err)
		return
	}
	dts := dptTypes(c, p, "C08.types")
	c.Floor("C08.types", "registered datapoint types", len(dts), 174)

	// ---- (1) panic-freedom of everything a decode / render can execute
	var fns []*ssa.Function
	for _, fn := range p.FuncsIn("knx/dpt") {
		n := fn.Name()
		top := topOf(fn)
		tn := top.Name()
		if tn == "Pack" || strings.HasPrefix(tn, "pack") || tn == "init" || tn == "Produce" || tn == "ListSupportedTypes" {
			continue // encoders: C07; registry: C19
		}
		_ = n
		fns = append(fns, fn)
	}
	sort.Slice(fns, func(i, j int) bool { return fns[i].String() < fns[j].String() })
	tIdx, tE3, tE2 := 0, 0, 0
	for _, fn := range fns {
		a, b, e := checkPanicFree(c, p, "C08.panic", fn, pl, func(*ssa.Function) bool { return false }, "")
		tIdx, tE3, tE2 = tIdx+a, tE3+b, tE2+e
	}
	c.Analysed("functions", fmt.Sprintf("%d functions of package dpt (Unpack, String, Unit, IsValid, unpack helpers)", len(fns)))
	c.Floor("C08.panic", "decode/render functions judged", len(fns), 450)
	c.Note("index/slice expressions: %d; compiler-proved %d; guard-proved %d", tIdx, tE3, tE2)
	// binary.BigEndian.UintNN(data[1:]) needs len(data[1:]) >= N/8: judged as a length-guard obligation
	for _, fn := range fns {
		instrsOf(fn, func(in ssa.Instruction) {
			call, ok := in.(*ssa.Call)
			if !ok || call.Common().StaticCallee() == nil {
				return
			}
			need := byteOrderWidth(call.Common().StaticCallee())
			if need == 0 {
				return
			}
			d := newDecodeCtx(p, fn, func(*ssa.Function) bool { return false })
			ok2 := byteOrderArgOK(d, call, need)
			c.Decide(ok2, "C08.panic", helperName(fn)+" big-endian read within the payload", p.InstrPos(call), fmt.Sprintf("len(data) guard leaves >= %d bytes for the read", need), "binary.BigEndian read on a slice that may be too short (panics)")
		})
	}

	// rendering does not call itself: fmt applies String()/Error() of an operand for the verbs %v %s %q %x %X
	// (and always in Sprint/Sprintln); an operand of the method's own receiver type recurses until the stack is gone
	nFmt := 0
	for _, fn := range fns {
		top := topOf(fn)
		if top.Signature.Recv() == nil || (top.Name() != "String" && top.Name() != "Error" && top.Name() != "GoString") {
			continue
		}
		recvT := deref(top.Signature.Recv().Type())
		instrsOf(fn, func(in ssa.Instruction) {
			call, ok := in.(*ssa.Call)
			if !ok {
				return
			}
			obj := calleeObj(call)
			if obj == nil || obj.Pkg() == nil || obj.Pkg().Path() != "fmt" {
				return
			}
			var format *string
			nm := obj.Name()
			isF := strings.HasSuffix(nm, "f")
			args := call.Common().Args
			if len(args) == 0 {
				return
			}
			if isF {
				for _, a := range args {
					if k, ok := a.(*ssa.Const); ok && k.Value != nil && k.Value.Kind() == constant.String {
						fs := constant.StringVal(k.Value)
						format = &fs
						break
					}
				}
			}
			// the variadic operands: stores into the varargs array
			va, ok := args[len(args)-1].(*ssa.Slice)
			if !ok {
				return
			}
			al, ok := va.X.(*ssa.Alloc)
			if !ok {
				return
			}
			operands := map[int64]ssa.Value{}
			for _, u := range usesOf(al) {
				if ia, ok := u.(*ssa.IndexAddr); ok {
					idx, _ := constInt(ia.Index)
					for _, uu := range usesOf(ia) {
						if st, ok := uu.(*ssa.Store); ok {
							operands[idx] = st.Val
						}
					}
				}
			}
			var verbs []byte
			if format != nil {
				f := *format
				for i := 0; i < len(f); i++ {
					if f[i] != '%' {
						continue
					}
					i++
					for i < len(f) && strings.IndexByte("+-# 0123456789.[]*", f[i]) >= 0 {
						i++
					}
					if i < len(f) && f[i] != '%' {
						verbs = append(verbs, f[i])
					}
				}
			}
			for idx, v := range operands {
				mi, ok := v.(*ssa.MakeInterface)
				if !ok || !types.Identical(deref(mi.X.Type()), recvT) {
					continue
				}
				nFmt++
				applies := !isF || format == nil
				if isF && format != nil && int(idx) < len(verbs) {
					applies = strings.IndexByte("vsqxX", verbs[idx]) >= 0
				}
				c.Decide(!applies, "C08.panic", helperName(fn)+" does not render itself through fmt", p.InstrPos(call), "the operand of the receiver's type is formatted with a verb that does not call "+top.Name()+"()", "fmt."+nm+" is handed a value of the method's own receiver type under a verb that calls "+top.Name()+"() again: unbounded recursion (stack overflow) whenever this statement is reached")
			}
		})
	}
	c.OK("C08.panic", "rendering methods handing their own receiver to fmt", "", fmt.Sprintf("%d operand(s) of the receiver's type judged", nFmt))

	// ---- (2) wrong length is rejected
	memo := map[*ssa.Function]lenGuard{}
	for _, dt := range dts {
		want, known := specPayloadLen(dt.Main)
		g := lenGuardOf(p, dt.Unpack, memo)
		name := dptName(dt)
		pos := p.Pos(dt.Unpack.Pos())
		switch {
		case !known:
			c.Fail("C08.length", name+" prescribed length", pos, fmt.Sprintf("no payload length on record for main number %d", dt.Main))
		case !g.OK:
			c.Fail("C08.length", name+" rejects payloads of the wrong length", pos, g.Why)
		case want == -1:
			c.Decide(g.Kind == "ge" && g.L >= 2, "C08.length", name+" rejects payloads of the wrong length", pos, fmt.Sprintf("success only behind len(data) >= %d", g.L), fmt.Sprintf("the variable-length type accepts payloads shorter than 2 bytes (guard: %s %d)", g.Kind, g.L))
		default:
			c.Decide(g.Kind == "eq" && g.L == want, "C08.length", name+" rejects payloads of the wrong length", pos, fmt.Sprintf("success only behind len(data) == %d", want), fmt.Sprintf("success is possible behind len(data) %s %d, the format prescribes exactly %d bytes", g.Kind, g.L, want))
		}
	}
	// the length-guard exits return a non-nil error
	for fn := range memo {
		data := inputParam(fn)
		if data == nil {
			continue
		}
		for _, b := range fn.Blocks {
			for _, s := range b.Succs {
				f, ok := edgeFact(b, s)
				if !ok {
					continue
				}
				x, y := f.X, f.Y
				isLenX := func(v ssa.Value) bool {
					call, ok := stripAllConv(v).(*ssa.Call)
					return ok && builtinName(call) == "len" && unspill(call.Common().Args[0]) == ssa.Value(data)
				}
				if !isLenX(x) {
					x, y = y, x
				}
				if _, isK := constInt(y); !isLenX(x) || !isK || !(f.Op == token.NEQ || f.Op == token.LSS) {
					continue
				}
				errIdx := fn.Signature.Results().Len() - 1
				for rb := range reachableFrom(s, nil) {
					if !s.Dominates(rb) {
						continue
					}
					for _, in := range rb.Instrs {
						if r, isR := in.(*ssa.Return); isR {
							c.Decide(!p.returnMayBeNil(r, errIdx), "C08.length", helperName(fn)+" wrong length returns an error", p.InstrPos(r), "non-nil error", "the wrong-length edge can return a nil error")
						}
					}
				}
			}
		}
	}

	// ---- (3) success => in range
	byKey := map[string]dptType{}
	for _, dt := range dts {
		byKey[dt.Key] = dt
	}
	for _, rs := range dptRanges {
		dt, ok := byKey[rs.key]
		if !ok {
			c.Fail("C08.range", "dpt "+rs.key+" registered", "", "type not in the registry")
			continue
		}
		// one-octet types: the decoder's complete octet -> value table (exact, shape independent)
		if rs.field == "" {
			var dsites []finSite
			for _, st := range receiverStores(dt.Unpack) {
				dsites = append(dsites, finSite{st.Val, st.Block()})
			}
			if dtab, okD := finFunc(dsites); okD {
				bad := -1
				for x := 0; x < 256; x++ {
					if float64(dtab[x]) < rs.iv.lo || float64(dtab[x]) > rs.iv.hi {
						bad = x
					}
				}
				why := ""
				if bad >= 0 {
					why = fmt.Sprintf("octet %d decodes to %d, outside the documented range %s", bad, dtab[bad], fivString(rs.iv))
				}
				c.Decide(bad < 0, "C08.range", dptName(dt)+" "+rs.what, p.Pos(dt.Unpack.Pos()), "every octet decodes into "+fivString(rs.iv), why)
				continue
			}
		}
		checkStoredRange(c, p, dt, rs)
	}
	// all two-octet floats: within the format's limits and equal to the Pack clamp
	n9 := 0
	for _, dt := range dts {
		if dt.Main != 9 {
			continue
		}
		n9++
		acc, okA := acceptedInterval(p, dt)
		cl, okC := clampInterval(p, dt)
		name := dptName(dt)
		pos := p.Pos(dt.Unpack.Pos())
		c.Decide(okA && acc.lo >= -671088.64 && acc.hi <= 670760.96, "C08.range", name+" decoded value within the two-octet float's limits", pos, "accepted "+fivString(acc), "accepted interval "+fivString(acc)+" is not bounded by the format's limits")
		c.Decide(okA && okC && acc == cl, "C08.range", name+" accepted interval equals the encoder's clamp", pos, fivString(acc), fmt.Sprintf("decoder accepts %s but the encoder clamps to %s (understood: %v/%v)", fivString(acc), fivString(cl), okA, okC))
	}
	c.Floor("C08.range", "two-octet float types", n9, 20)
	// 18.001: 0..63 or 128..191
	if dt, ok := byKey["18.001"]; ok {
		okR := true
		why := ""
		for _, st := range receiverStores(dt.Unpack) {
			if set, okF := finSetAt(st.Val, st.Block()); okF {
				if in, bad := finSetWithin(set, [][2]int{{0, 63}, {128, 191}}); !in {
					okR, why = false, fmt.Sprintf("a successful decode can store the value %d at %s", bad, p.InstrPos(st))
				}
				continue
			}
			if k, isK := constInt(st.Val); isK && (k >= 0 && k <= 63 || k >= 128 && k <= 191) {
				continue
			}
			for _, iv := range edgeIntervals(st.Val, st.Block()) {
				if !(iv.within(fiv{0, 63}, 0) || iv.within(fiv{128, 191}, 0)) {
					okR, why = false, "a successful decode can store a value in "+fivString(iv)+" at "+p.InstrPos(st)
				}
			}
		}
		c.Decide(okR && len(receiverStores(dt.Unpack)) > 0, "C08.range", "dpt.DPT_18001 scene number 0..63 or 128..191", p.Pos(dt.Unpack.Pos()), "every stored value is behind <= 63 or (>= 128 and <= 191), else the constant 63", why)
	}
	// 11.001: success behind IsValid, and IsValid demands 1990..2089 and normalisation equality
	if dt, ok := byKey["11.001"]; ok {
		checkIsValidGate(c, p, dt, "C08.range")
		isv := methodOf(p, dt.NT, "IsValid")
		if isv != nil {
			usesDate, yLo, yHi, nEq := false, false, false, 0
			instrsOf(isv, func(in ssa.Instruction) {
				if call, ok := in.(*ssa.Call); ok && call.Common().StaticCallee() != nil && call.Common().StaticCallee().String() == "time.Date" {
					usesDate = true
				}
			})
			// what holds whenever IsValid returns true (conjunctions along a path, alternatives intersected)
			eqOn := map[string]bool{}
			for _, f := range mustHoldWhenTrue(isv) {
				k, isK := constInt(f.Y)
				x := f.X
				if !isK {
					if k2, isK2 := constInt(f.X); isK2 {
						k, isK, x = k2, true, f.Y
						f.Op = swapOp(f.Op)
					}
				}
				_ = x
				if isK && k == 1990 && f.Op == token.GEQ {
					yLo = true
				}
				if isK && k == 2089 && f.Op == token.LEQ {
					yHi = true
				}
				if f.Op == token.EQL {
					for _, side := range []ssa.Value{f.X, f.Y} {
						if call, ok := stripAllConv(side).(*ssa.Call); ok && call.Common().StaticCallee() != nil {
							switch call.Common().StaticCallee().String() {
							case "(time.Time).Year", "(time.Time).Month", "(time.Time).Day":
								eqOn[call.Common().StaticCallee().Name()] = true
							}
						}
					}
				}
			}
			nEq = len(eqOn)
			c.Decide(usesDate && yLo && yHi && nEq >= 3, "C08.range", "dpt.DPT_11001.IsValid demands a real date in 1990..2089", p.Pos(isv.Pos()), "time.Date normalisation compared on year, month and day; year in 1990..2089", "IsValid does not compare all three fields with time.Date's normalisation within 1990..2089")
		}
	}
	if dt, ok := byKey["10.001"]; ok {
		checkIsValidGate(c, p, dt, "C08.range")
	}
}

// acceptedInterval: interval of the value stored by a float decoder on success.
func acceptedInterval(p *Program, dt dptType) (fiv, bool) {
	sts := receiverStores(dt.Unpack)
	if len(sts) != 1 {
		return fiv{}, false
	}
	iv := numInterval(sts[0].Val, sts[0].Block(), 0)
	return iv, !math.IsInf(iv.lo, 0) && !math.IsInf(iv.hi, 0)
}

// clampInterval: interval of the value handed to the float packer by Pack.
func clampInterval(p *Program, dt dptType) (fiv, bool) {
	out := fiv{math.Inf(1), math.Inf(-1)}
	n := 0
	instrsOf(dt.Pack, func(in ssa.Instruction) {
		call, ok := in.(*ssa.Call)
		if !ok || call.Common().StaticCallee() == nil || !strings.HasPrefix(call.Common().StaticCallee().Name(), "pack") {
			return
		}
		n++
		iv := numInterval(call.Common().Args[0], call.Block(), 0)
		out.lo, out.hi = math.Min(out.lo, iv.lo), math.Max(out.hi, iv.hi)
	})
	return out, n > 0 && !math.IsInf(out.lo, 0) && !math.IsInf(out.hi, 0)
}

func ulp32(x float64) float64 {
	f := float32(math.Abs(x))
	if f == 0 {
		return 1e-45
	}
	return float64(math.Nextafter32(f, float32(math.Inf(1))) - f)
}

func checkStoredRange(c *Check, p *Program, dt dptType, rs dptRange) {
	name := dptName(dt)
	sts := receiverStores(dt.Unpack)
	n := 0
	for _, st := range sts {
		if rs.field != "" {
			f := fieldOfAddr(st.Addr)
			if f == nil || f.Name() != rs.field {
				continue
			}
		}
		n++
		// the store must be followed by success only inside the range: judge
		// at every successful return with the facts there (IsValid edges) as
		// well as at the store itself
		iv := numInterval(st.Val, st.Block(), 0)
		for _, r := range returnsOf(dt.Unpack) {
			if !p.returnMayBeNil(r, 0) || !instrReaches(st, r) && st.Block() != r.Block() {
				continue
			}
			// facts at the return about the receiver's field (after the store)
			if rs.field != "" {
				isv := methodOf(p, dt.NT, "IsValid")
				if isv != nil && anyFact(factsAt(r.Block()), func(f Cmp) bool { _, ok := boolCallFact(f, true, isv); return ok }) {
					// IsValid's own comparison edges bound the field
					if fiv2, ok := isValidFieldRange(p, isv, rs.field); ok {
						iv.lo, iv.hi = math.Max(iv.lo, fiv2.lo), math.Min(iv.hi, fiv2.hi)
					}
				}
			}
		}
		slack := math.Max(ulp32(rs.iv.lo), ulp32(rs.iv.hi))
		key := name + " " + rs.what
		if rs.field != "" {
			key = name + "." + rs.field + " " + rs.what
		}
		c.Decide(iv.within(rs.iv, slack), "C08.range", key, p.InstrPos(st), "stored value in "+fivString(iv), "a successful decode can store a value in "+fivString(iv)+", outside the documented range "+fivString(rs.iv))
	}
	if n == 0 {
		c.Fail("C08.range", name+" stores "+rs.what, p.Pos(dt.Unpack.Pos()), "no store of the decoded value found")
	}
}

// isValidFieldRange: the interval IsValid's true result implies for a field.
// The result value is a tree of phis (the value form of && and ||): the edges
// of a phi are alternatives (hull of their intervals), the comparison edges
// that dominate one alternative and the comparison it ends in hold together
// (intersection).
func isValidFieldRange(p *Program, isv *ssa.Function, field string) (fiv, bool) {
	found := false
	full := fiv{math.Inf(-1), math.Inf(1)}
	empty := fiv{math.Inf(1), math.Inf(-1)}
	meet := func(a, b fiv) fiv { return fiv{math.Max(a.lo, b.lo), math.Min(a.hi, b.hi)} }
	hull := func(a, b fiv) fiv {
		if a.lo > a.hi {
			return b
		}
		if b.lo > b.hi {
			return a
		}
		return fiv{math.Min(a.lo, b.lo), math.Max(a.hi, b.hi)}
	}
	ofFacts := func(fs []Cmp) fiv {
		out := full
		for _, f := range fs {
			x, y, op := f.X, f.Y, f.Op
			if _, isK := constFloat(x); isK {
				x, y, op = y, x, swapOp(op)
			}
			k, isK := constFloat(y)
			fl := loadedField(stripFloatConv(x))
			if fx, ok := stripFloatConv(x).(*ssa.Field); ok {
				fl = structField(fx.X.Type(), fx.Field)
			}
			if !isK || fl == nil || fl.Name() != field {
				continue
			}
			found = true
			isInt := false
			if bt, ok := x.Type().Underlying().(*types.Basic); ok && bt.Info()&types.IsInteger != 0 {
				isInt = true
			}
			switch op {
			case token.LEQ:
				out.hi = math.Min(out.hi, k)
			case token.LSS:
				if isInt {
					k = math.Ceil(k) - 1
				}
				out.hi = math.Min(out.hi, k)
			case token.GEQ:
				out.lo = math.Max(out.lo, k)
			case token.GTR:
				if isInt {
					k = math.Floor(k) + 1
				}
				out.lo = math.Max(out.lo, k)
			case token.EQL:
				out.lo, out.hi = math.Max(out.lo, k), math.Min(out.hi, k)
			}
		}
		return out
	}
	var whenTrue func(v ssa.Value, depth int) fiv
	whenTrue = func(v ssa.Value, depth int) fiv {
		if depth > 12 {
			return full
		}
		switch x := v.(type) {
		case *ssa.Const:
			if x.Value != nil && x.Value.String() == "false" {
				return empty
			}
			return full
		case *ssa.Phi:
			out := empty
			for i, e := range x.Edges {
				pred := x.Block().Preds[i]
				alt := meet(ofFacts(append(factsAt(pred), edgeFacts(pred, x.Block())...)), whenTrue(e, depth+1))
				out = hull(out, alt)
			}
			return out
		case *ssa.BinOp:
			cm, ok := cmpOf(x, true)
			if !ok {
				return full
			}
			return ofFacts([]Cmp{cm})
		case *ssa.UnOp:
			return full
		}
		return full
	}
	out := empty
	for _, r := range returnsOf(isv) {
		if len(r.Results) != 1 {
			return full, false
		}
		out = hull(out, meet(ofFacts(factsAt(r.Block())), whenTrue(r.Results[0], 0)))
	}
	return out, found
}

// checkIsValidGate: every successful return of Unpack is behind IsValid() == true.
func checkIsValidGate(c *Check, p *Program, dt dptType, rule string) {
	isv := methodOf(p, dt.NT, "IsValid")
	name := dptName(dt)
	if isv == nil {
		c.Fail(rule, name+" has IsValid", p.Pos(dt.Unpack.Pos()), "no IsValid method")
		return
	}
	n := 0
	for _, r := range returnsOf(dt.Unpack) {
		if !p.returnMayBeNil(r, 0) {
			continue
		}
		n++
		ok := anyFact(factsAt(r.Block()), func(f Cmp) bool { _, ok := boolCallFact(f, true, isv); return ok })
		c.Decide(ok, rule, name+" success only for a valid value", p.InstrPos(r), "behind d.IsValid() == true", "the decoder can succeed without the decoded value passing IsValid()")
	}
	c.Floor(rule, name+" successful returns", n, 1)
}

// edgeIntervals bounds v at block b separately for every incoming edge (the
// facts at the predecessor plus the edge's own comparison); a block with one
// dominating set of facts yields one interval.
func edgeIntervals(v ssa.Value, b *ssa.BasicBlock) []fiv {
	base := numInterval(v, b, 0)
	if len(b.Preds) <= 1 {
		return []fiv{base}
	}
	var out []fiv
	for _, pr := range b.Preds {
		iv := numInterval(v, pr, 0)
		iv.lo, iv.hi = math.Max(iv.lo, base.lo), math.Min(iv.hi, base.hi)
		if f, ok := edgeFact(pr, b); ok {
			x, y, op := f.X, f.Y, f.Op
			if _, isK := constFloat(x); isK {
				x, y, op = y, x, swapOp(op)
			}
			if k, isK := constFloat(y); isK && sameNumeric(x, v) {
				switch op {
				case token.GEQ:
					iv.lo = math.Max(iv.lo, k)
				case token.GTR:
					iv.lo = math.Max(iv.lo, k+1)
				case token.LEQ:
					iv.hi = math.Min(iv.hi, k)
				case token.LSS:
					iv.hi = math.Min(iv.hi, k-1)
				}
			}
		}
		out = append(out, iv)
	}
	return out
}

// mustHoldWhenTrue: comparisons that hold on every way the boolean function
// returns true.  The result is a tree of phis (value form of && and ||): along
// one alternative the dominating edges and the final comparison hold together,
// alternatives are intersected.
func mustHoldWhenTrue(fn *ssa.Function) []Cmp {
	key := func(c Cmp) string {
		return c.Op.String() + "|" + fmt.Sprintf("%p|%p", c.X, c.Y) + "|" + c.X.String() + "|" + c.Y.String()
	}
	type set map[string]Cmp
	var whenTrue func(v ssa.Value, depth int) (set, bool) // false: never true
	whenTrue = func(v ssa.Value, depth int) (set, bool) {
		if depth > 12 {
			return set{}, true
		}
		switch x := v.(type) {
		case *ssa.Const:
			if x.Value != nil && x.Value.String() == "false" {
				return nil, false
			}
			return set{}, true
		case *ssa.Phi:
			var out set
			any := false
			for i, e := range x.Edges {
				pred := x.Block().Preds[i]
				alt, ok := whenTrue(e, depth+1)
				if !ok {
					continue
				}
				for _, f := range append(factsAt(pred), edgeFacts(pred, x.Block())...) {
					alt[key(f)] = f
				}
				if !any {
					out, any = alt, true
					continue
				}
				for k := range out {
					if _, both := alt[k]; !both {
						delete(out, k)
					}
				}
			}
			if !any {
				return nil, false
			}
			return out, true
		case *ssa.BinOp:
			if cm, ok := cmpOf(x, true); ok {
				return set{key(cm): cm}, true
			}
		}
		return set{}, true
	}
	var out set
	any := false
	for _, r := range returnsOf(fn) {
		if len(r.Results) != 1 {
			return nil
		}
		alt, ok := whenTrue(r.Results[0], 0)
		if !ok {
			continue
		}
		for _, f := range factsAt(r.Block()) {
			alt[key(f)] = f
		}
		if !any {
			out, any = alt, true
			continue
		}
		for k := range out {
			if _, both := alt[k]; !both {
				delete(out, k)
			}
		}
	}
	var res []Cmp
	for _, f := range out {
		res = append(res, f)
	}
	return res
}
