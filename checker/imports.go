package main

import (
	"fmt"
	"regexp"
	"sort"
	"strings"
)

// Rule groups shared between properties.
//
// A property about a higher layer silently relies on the layers below it: a
// telegram cannot be "delivered exactly once" by the tunnel client when the
// socket receiver below it drops or tears the frame, or when the decoder hands
// out a value that aliases the receive buffer.  Changes far from a property's
// anchor break it through exactly these dependencies.  Each entry imports the
// obligations of another property's rule (restricted to the constructs on the
// importing property's path) into the importing check; the obligations keep
// their rule name, so the evidence says where the rule is defined.  An entry
// is admissible only when violating the imported rule on the named constructs
// breaks the importing property's behaviour - the reason is given per entry.
// Rules that carry known findings are never imported.
type importSpec struct {
	From string
	Rule string // regexp on the rule name
	Key  string // regexp on the obligation key ("" = every construct)
	Why  string
}

const (
	kTunnelPath = `^(\(\*)?cemi\.|^\(\*knxnet\.(TunnelReq|TunnelRes|UnknownService)\)|^knxnet\.(Unpack|UnpackHeader|serve)|^util\.`
	kRouterPath = `^(\(\*)?cemi\.|^\(\*knxnet\.(RoutingInd|RoutingBusy|RoutingLost|UnknownService)\)|^knxnet\.(Unpack|UnpackHeader|serveUDP)|^util\.`
	kBothPaths  = `^(\(\*)?cemi\.|^\(\*knxnet\.(TunnelReq|TunnelRes|RoutingInd|RoutingBusy|RoutingLost|UnknownService)\)|^knxnet\.(Unpack|UnpackHeader|serve)|^util\.`
	kDiscovery  = `^\(\*knxnet\.(SearchRes|DescriptionRes|DescriptionBlock|DeviceInformationBlock|SupportedServicesDIB|ServiceFamily|HostInfo|UnknownDescriptionBlock|UnknownService)\)|^knxnet\.(Unpack|UnpackHeader|serveUDP)|^util\.`
)

var imports = map[string][]importSpec{
	"C02": {
		{"C11", `^C11\.encode$`, ``, "the cEMI part of a frame is encoded field by field where the decoder looks for it: an encoder that rewrites a control flag on its own does not give the value back"},
		{"C01", `^C01\.c$`, ``, "a decoded value equals the encoded one only as long as it owns its storage: a value that aliases the decoder's input changes when the buffer is reused"},
		{"C01", `^C01\.b$`, ``, "the decoder accepts the whole encoding: the consumed length it reports lies within the input"},
		{"C11", `^C11\.decode$`, ``, "the cEMI part of a frame decodes back: length-prefixed additional info, transport unit fields and lengths, fixed field order"},
		{"C15", `^C15\.string$`, ``, "a name field that overflows its 30 octets overwrites the neighbouring field of the encoding"},
	},
	"C03": {
		{"C05", `^C05\.X3$`, `expires`, "Send succeeds only on an acknowledgement not consumed before and meant for its request: an acknowledgement nobody waited for is offered for one resend interval only, or it satisfies a later request that reuses the number (after a reconnect, after 256 requests)"},
		{"C09", `^C09\.H7$`, `dials|starts the worker`, "the UDP exchange runs over a datagram socket and the TCP mode over a stream exactly as configured, on a connected tunnel"},
		{"C02", `^C02\.layout$`, `knxnet\.TunnelRes|knxnet\.TunnelReq`, "the acknowledgement a sender waits for is decoded from the frame the gateway sent, the request is encoded as the gateway expects"},
		{"C16", `^C16\.T3$`, `TunnelSocket`, "every (re)transmission leaves the socket as the bytes of that request: a send buffer shared between the tunnel's goroutines is torn by a concurrent acknowledgement or heartbeat"},
		{"C09", `^C09\.H7$`, `new epoch|success only`, "sequence numbers start at 0 after every (re)connect: the connect function resets the counter on every successful path"},
		{"C10", `^C10\.K5$`, `Lock Tunnel\.seqMu`, "Send returns no later than the response timeout: the sender lock is released on every path, otherwise the next Send never gets it"},
	},
	"C04": {
		{"C09", `^C09\.H7$`, `dials|starts the worker`, "the receiver runs on the transport the configuration names, on a connected tunnel"},
		{"C02", `^C02\.layout$`, `knxnet\.TunnelRes|knxnet\.TunnelReq`, "a request is recognised as such and its acknowledgement encoded as the gateway expects"},
		{"C02", `^C02\.(layout|dispatch)$`, `^knxnet\.UnpackHeader|^knxnet\.Unpack `, "every frame is received through the header decoder and the service dispatcher"},
		{"C01", `^C01\.c$`, kTunnelPath, "a telegram handed to Inbound must not change afterwards: the UDP receiver reuses one buffer for every datagram"},
		{"C16", `^C16\.T1$`, ``, "every request the gateway transmits reaches the handler: TCP framing by header peek and exact read, datagram buffer large enough for the longest frame"},
		{"C16", `^C16\.T2$`, ``, "every decoded request is forwarded to the tunnel client exactly once"},
		{"C02", `^C02\.dispatch$`, `cemi`, "a request with the expected number is delivered whatever its message code: the cEMI decoder has a catch-all"},
		{"C09", `^C09\.H6$`, `ends for good`, "no accepted telegram is lost while the tunnel is open: a received frame never terminates the tunnel"},
	},
	"C05": {
		{"C12", `^C12\.out$`, `buildGroupOutbound`, "the telegram a group Send hands to the tunnel is the one built for that call: a builder that assembles it in shared storage lets concurrent Sends put one telegram on the bus twice and another never"},
		{"C02", `^C02\.layout$`, `knxnet\.TunnelRes|knxnet\.TunnelReq`, "requests and acknowledgements survive the wire"},
		{"C02", `^C02\.(layout|dispatch)$`, `^knxnet\.UnpackHeader|^knxnet\.Unpack `, "every frame is received through the header decoder and the service dispatcher"},
		{"C03", `^C03\.`, ``, "per-exchange sender rules (one request outstanding, identical retransmissions, counter advanced by the matching acknowledgement only)"},
		{"C04", `^C04\.`, ``, "per-request receiver rules (deliver and acknowledge the expected number once, re-acknowledge the previous one, counter restarted with the connection)"},
		{"C01", `^C01\.c$`, kTunnelPath, "an accepted telegram must not change after acceptance (receive buffer reuse)"},
		{"C16", `^C16\.T[12]$`, ``, "the socket surfaces every datagram of the gateway once"},
		{"C16", `^C16\.T3$`, `TunnelSocket`, "a request leaves the socket as the bytes of that request"},
	},
	"C06": {
		{"C19", `^C19\.produce-fresh$`, ``, "a value that is read and written back is its own instance: a datapoint obtained from the registry must not be the shared prototype, or decoding into another instance changes what is written back"},
		{"C07", `^C07\.saturate$`, ``, "a saturation branch that also swallows the neighbouring code moves a value read from the bus by one step when it is written back"},
		{"C07", `^C07\.f16$`, ``, "the two-octet float encoder must map every decodable value to its own code"},
		{"C07", `^C07\.scale$`, ``, "encoder and decoder scale by inverse factors"},
		{"C08", `^C08\.range$`, `success only for a valid value`, "types whose encoder gates on IsValid replace a value that fails it by the invalid marker: a decoder that accepts such a value reads it from the bus and writes something else back"},
	},
	"C07": {
		{"C06", `^C06\.identity$`, ``, "decoding an encoding gives the value back only when encoder and decoder place every field in the same bits: a payload that changes when decoded and written back shows the two disagree"},
		{"C08", `^C08\.range$`, `accepted interval equals the encoder's clamp`, "inside the documented range - the one the decoder enforces - encoding is accurate to one step and outside it saturates at the nearest bound: an encoder clamp narrower than that range saturates in-range values at the wrong bound"},
		{"C08", `^C08\.range$`, `IsValid|DPT_10001|DPT_11001`, "encoders gate on IsValid: a validity predicate that rejects an in-range value makes it unencodable, one that accepts an out-of-range value yields an encoding the decoder rejects"},
	},
	"C09": {
		{"C04", `^C04\.R5$`, ``, "after a reconnect the sequence numbers of both directions restart at 0: the inbound counter lives and dies with one call of the processing function"},
		{"C02", `^C02\.dispatch$`, `knx/knxnet\.(Conn|Disc)`, "connect, connection-state and disconnect frames reach the client as what they are"},
		{"C02", `^C02\.layout$`, `knxnet\.(ConnRes|ConnReq|ConnStateRes|ConnStateReq|DiscReq|DiscRes)`, "connect, connection-state and disconnect frames are decoded as the gateway sent them (a connect response is only usable with its endpoint decoded under status 0)"},
		{"C02", `^C02\.(layout|dispatch)$`, `^knxnet\.UnpackHeader|^knxnet\.Unpack `, "every frame is received through the header decoder and the service dispatcher"},
		{"C10", `^C10\.K5$`, `requestConn Lock`, "a reconnect must not block for ever on the sender lock"},
		{"C04", `^C04\.R7$`, `pushInbound (immediate|overflow)`, "heartbeat ticker and responses are served by the loop that delivers inbound telegrams: that loop must never block on the application"},
	},
	"C10": {
		{"C01", `^C01\.d$`, `serveTCPSocket|serveUDPSocket`, "every goroutine the tunnel started has exited after Close: the socket receiver makes progress on every round and ends on a read error"},
		{"C09", `^C09\.H[27]\.timeout$`, ``, "Close joins the worker: every wait of the worker ends at the response timeout (a timer that is re-armed inside the wait loop never fires while replies keep arriving)"},
		{"C03", `^C03\.S6\.timeout$`, ``, "Send returns within the response timeout, so Close is never held up by a sender"},
		{"C16", `^C16\.T3$`, `TunnelSocket`, "no two goroutines access state without synchronisation: the tunnel's worker (acknowledgements, heartbeats), Close (disconnect) and the application's Sends all transmit through the one socket, whose Send may share nothing but the connection"},
	},
	"C11": {
		{"C02", `^C02\.dispatch$`, `knx/cemi\.|^cemi\.`, "the message code octet: every L_Data type reports the code its frames are dispatched by"},
		{"C01", `^C01\.[bc]$`, `^(\(\*)?cemi\.`, "decoding extracts exactly the transmitted fields: the decoded frame owns its bytes and the decoder stays within its input"},
	},
	"C12": {
		{"C02", `^C02\.dispatch$`, `knx/cemi\.|^cemi\.`, "only indications surface: a confirmation must not be decoded as an indication"},
		{"C14", `^C14\.Q2$`, `transmits`, "a group event handed to a group router is transmitted"},
		{"C02", `^C02\.(layout|dispatch)$`, `^knxnet\.UnpackHeader|^knxnet\.Unpack `, "every frame is received through the header decoder and the service dispatcher"},
		{"C11", `^C11\.(encode|decode)$`, ``, "group events are carried by L_Data frames: command, addresses, flags and payload sit where the decoder of the receiving client looks for them"},
		{"C04", `^C04\.R[257]$`, ``, "an inbound indication surfaces as a group event only if the tunnel client accepts and delivers it (expected number, restarted with the connection, never dropped)"},
		{"C14", `^C14\.Q6$`, ``, "an inbound routing indication surfaces only if the router client hands it over exactly once"},
		{"C16", `^C16\.T3$`, ``, "the emitted frame is the encoding of that event"},
		{"C01", `^C01\.c$`, kBothPaths, "the payload of a received event must not change after delivery"},
	},
	"C13": {
		{"C02", `^C02\.dispatch$`, `knx/knxnet\.Routing|^knxnet\.Unpack `, "a routing-busy datagram reaches the client as a busy indication"},
		{"C14", `^C14\.Q6$`, `pushInbound`, "busy indications are taken in by the loop that delivers inbound telegrams: that loop must never block on the application"},
	},
	"C14": {
		{"C02", `^C02\.dispatch$`, `knx/knxnet\.Routing|^knxnet\.Unpack `, "lost, busy and routing indications reach the client as what they are"},
		{"C02", `^C02\.(layout|dispatch)$`, `^knxnet\.UnpackHeader|^knxnet\.Unpack `, "every frame is received through the header decoder and the service dispatcher"},
		{"C16", `^C16\.T[12]$`, `serveUDPSocket`, "every routing indication the socket receives reaches the client: buffer large enough, every decoded frame forwarded once"},
		{"C13", `^C13\.P3$`, `lock on every path|one timer release`, "the send lock taken for a busy period is released exactly once: otherwise no Send ever gets through again (or the process dies unlocking twice)"},
		{"C01", `^C01\.c$`, kRouterPath, "a delivered indication must not change afterwards"},
		{"C12", `^C12\.out$`, `buildGroupOutbound|builder`, "the router retains the very message value it transmitted and resends it later: a group telegram must be a fresh value nobody writes to afterwards (no shared template, no recycled storage)"},
	},
	"C15": {
		{"C02", `^C02\.packable$`, ``, "encoding never panics: util.Pack fails at run time on an item that is neither one of its primitive cases nor Packable"},
	},
	"C16": {
		{"C01", `^C01\.d$`, `serveTCPSocket|serveUDPSocket`, "the receiver goroutine ends when the peer closes: no round of the receive loop leaves the stream where it was"},
		{"C02", `^C02\.dispatch$`, `knx/knxnet\.`, "every well-formed frame is surfaced as the service it is"},
		{"C01", `^C01\.e$`, `UnpackHeader accepts exactly`, "only well-formed frames are surfaced: a frame with a foreign header length or protocol version is dropped"},
		{"C02", `^C02\.(layout|dispatch)$`, `^knxnet\.UnpackHeader|^knxnet\.Unpack `, "every frame is received through the header decoder and the service dispatcher"},
		{"C01", `^C01\.c$`, ``, "a frame surfaced on Inbound owns its bytes: the receiver reuses its buffer for the next datagram"},
		{"C15", `^C15\.size-pack$`, ``, "Send emits one complete well-formed frame: the encoder determines every byte of the buffer it is given, from no state shared between calls"},
		{"C09", `^C09\.H1$`, `keeps the caller's other settings`, "the connect request advertises the local endpoint when configured to: the configuration normaliser hands SendLocalAddress through"},
	},
	"C17": {
		{"C12", `^C12\.in$`, `event\.`, "what arrives in order is what was accepted: an event filled from shared storage shows a later telegram in an earlier position"},
		{"C12", `^C12\.in$`, `starts the forwarder|wires client`, "group events keep the order of the client's Inbound only when one forwarder drains it: the forwarder is wired to the client's channel and started exactly once with the client"},
		{"C04", `^C04\.R2$`, ``, "a telegram is handed over once, when it is accepted: a repetition is not handed over again"},
		{"C02", `^C02\.(layout|dispatch)$`, `^knxnet\.UnpackHeader|^knxnet\.Unpack `, "every frame is received through the header decoder and the service dispatcher"},
		{"C04", `^C04\.R7$`, ``, "hand-over to Inbound: offered once, parked once, never dropped or duplicated"},
		{"C14", `^C14\.Q6$`, ``, "the same for the router client"},
		{"C16", `^C16\.T2$`, ``, "the socket receiver forwards frames in arrival order from one place"},
		{"C01", `^C01\.c$`, kBothPaths, "a telegram waiting for the application must not be overwritten by the next datagram"},
	},
	"C20": {
		{"C16", `^C16\.T4$`, `waits for nobody|closes the connection`, "both calls release their socket and return by the timeout: the deferred Close closes the connection and waits for nobody"},
		{"C01", `^C01\.e$`, `UnpackHeader accepts exactly`, "only well-formed frames are surfaced: a frame with a foreign header length or protocol version is dropped"},
		{"C16", `^C16\.T5$`, `HostInfoFromAddress`, "the description request advertises the socket's own endpoint: address and port are those of the socket"},
		{"C02", `^C02\.layout$`, `knxnet\.(SearchRes|DescriptionRes|DeviceInformationBlock|HostInfo|ServiceFamily)`, "the returned responses carry what the server sent"},
		{"C02", `^C02\.(layout|dispatch)$`, `^knxnet\.UnpackHeader|^knxnet\.Unpack `, "every frame is received through the header decoder and the service dispatcher"},
		{"C01", `^C01\.c$`, kDiscovery, "a returned response owns its bytes (the socket's receive buffer is reused for whatever arrives next)"},
		{"C16", `^C16\.T[12]$`, `serveUDPSocket`, "every response that arrives before the timeout is surfaced once, in arrival order"},
		{"C02", `^C02\.tlv$`, ``, "a response is returned with the description blocks the server sent: the block loop of search and description responses walks the blocks by their announced lengths and fails on none that is well formed"},
	},
}

// runImports evaluates the exporting checks (without their own imports) and
// copies the selected obligations into c.
func runImports(c *Check, p *Program, id string) {
	specs := imports[id]
	if len(specs) == 0 {
		return
	}
	subs := map[string]*Check{}
	var lines []string
	for _, sp := range specs {
		sc := subs[sp.From]
		if sc == nil {
			def, ok := checks[sp.From]
			if !ok {
				c.Internal("import from unknown property %s", sp.From)
				continue
			}
			sc = NewCheck(sp.From, c.Tier)
			sc.P = p
			sc.quiet = true
			def.run(sc, p)
			subs[sp.From] = sc
			c.internal = append(c.internal, sc.internal...)
		}
		rr, kr := regexp.MustCompile(sp.Rule), regexp.MustCompile(sp.Key)
		n := 0
		for _, o := range sc.obls {
			if !rr.MatchString(o.Rule) || (sp.Key != "" && !kr.MatchString(o.Key)) {
				continue
			}
			if strings.HasPrefix(o.Key, "floor:") && sp.Key != "" {
				continue
			}
			n++
			c.add(o)
		}
		// an import that selects nothing would pass vacuously
		what := sp.From + " " + sp.Rule
		if sp.Key != "" {
			what += " on " + sp.Key
		}
		c.Floor("IMPORT", what, n, 1)
		lines = append(lines, fmt.Sprintf("%s %s (%d obligations): %s", sp.From, strings.Trim(sp.Rule, "^$"), n, sp.Why))
		for cat, m := range sc.analysed {
			for name := range m {
				c.Analysed(cat, name)
			}
		}
	}
	sort.Strings(lines)
	c.Extra("imported_rules", lines)
	c.Explanation += fmt.Sprintf(" In addition %d rule group(s) defined under other properties are evaluated here because this property relies on them (coverage.imported_rules gives rule, obligation count and reason); they decide nothing new, they make this check report a break that reaches the property through a lower layer.", len(lines))
}
