package main

import (
	"fmt"
	"math"
	"sort"
	"strings"
)

// Lin is a linear expression K + sum(T[sym] * sym) over non-negative integer
// symbols (lengths of fields, sizes of nested packables, the buffer length).
type Lin struct {
	K int64
	T map[string]int64
}

func linConst(k int64) *Lin { return &Lin{K: k} }

func linSym(s string) *Lin { return &Lin{T: map[string]int64{s: 1}} }

func (a *Lin) clone() *Lin {
	o := &Lin{K: a.K, T: map[string]int64{}}
	for k, v := range a.T {
		o.T[k] = v
	}
	return o
}

func (a *Lin) Add(b *Lin) *Lin {
	if a == nil || b == nil {
		return nil
	}
	o := a.clone()
	o.K += b.K
	for k, v := range b.T {
		o.T[k] += v
		if o.T[k] == 0 {
			delete(o.T, k)
		}
	}
	return o
}

func (a *Lin) Scale(c int64) *Lin {
	if a == nil {
		return nil
	}
	o := &Lin{K: a.K * c, T: map[string]int64{}}
	if c == 0 {
		return o
	}
	for k, v := range a.T {
		o.T[k] = v * c
	}
	return o
}

func (a *Lin) Sub(b *Lin) *Lin {
	if a == nil || b == nil {
		return nil
	}
	return a.Add(b.Scale(-1))
}

func (a *Lin) IsConst() (int64, bool) {
	if a == nil {
		return 0, false
	}
	for _, v := range a.T {
		if v != 0 {
			return 0, false
		}
	}
	return a.K, true
}

func (a *Lin) Equal(b *Lin) bool {
	if a == nil || b == nil {
		return false
	}
	d := a.Sub(b)
	k, ok := d.IsConst()
	return ok && k == 0
}

func (a *Lin) String() string {
	if a == nil {
		return "?"
	}
	var syms []string
	for k, v := range a.T {
		if v != 0 {
			syms = append(syms, k)
		}
	}
	sort.Strings(syms)
	var parts []string
	if a.K != 0 || len(syms) == 0 {
		parts = append(parts, fmt.Sprint(a.K))
	}
	for _, s := range syms {
		switch v := a.T[s]; v {
		case 1:
			parts = append(parts, s)
		default:
			parts = append(parts, fmt.Sprintf("%d*%s", v, s))
		}
	}
	return strings.Join(parts, "+")
}

// iv is a closed integer interval.
type iv struct{ lo, hi int64 }

var ivNonNeg = iv{0, math.MaxInt64}

// Env holds interval constraints of symbols on one path.
type Env map[string]iv

func (e Env) clone() Env {
	o := Env{}
	for k, v := range e {
		o[k] = v
	}
	return o
}

func (e Env) get(s string) iv {
	if v, ok := e[s]; ok {
		return v
	}
	return ivNonNeg
}

// bounds returns the minimum and maximum of a under the interval constraints.
func (e Env) bounds(a *Lin) (lo, hi int64) {
	lo, hi = a.K, a.K
	for s, c := range a.T {
		if c == 0 {
			continue
		}
		v := e.get(s)
		add := func(x int64, bound int64) int64 {
			if x == math.MaxInt64 || x == math.MinInt64 {
				return x
			}
			if bound == math.MaxInt64 {
				if c > 0 {
					return math.MaxInt64
				}
				return math.MinInt64
			}
			return x + c*bound
		}
		if c > 0 {
			lo, hi = add(lo, v.lo), add(hi, v.hi)
		} else {
			lo, hi = add(lo, v.hi), add(hi, v.lo)
		}
	}
	return
}

// cmp3 decides the sign of a-b under the constraints: -1, 0, +1, or 2 (unknown).
func (e Env) cmp3(a, b *Lin) int {
	if a == nil || b == nil {
		return 2
	}
	d := a.Sub(b)
	lo, hi := e.bounds(d)
	switch {
	case lo == 0 && hi == 0:
		return 0
	case hi < 0:
		return -1
	case lo > 0:
		return 1
	}
	return 2
}

// le / lt: a <= b (a < b) definitely holds.
func (e Env) le(a, b *Lin) bool {
	if a == nil || b == nil {
		return false
	}
	_, hi := e.bounds(a.Sub(b))
	return hi <= 0
}

func (e Env) lt(a, b *Lin) bool {
	if a == nil || b == nil {
		return false
	}
	_, hi := e.bounds(a.Sub(b))
	return hi < 0
}

// refine narrows the env with  a op b  when the difference mentions one symbol
// with coefficient +-1; returns false if the constraint is unsatisfiable.
// ok2 is false when the constraint could not be represented (env unchanged).
func (e Env) refine(a *Lin, op string, b *Lin) (sat bool, represented bool) {
	d := a.Sub(b) // d op 0
	var sym string
	n := 0
	for s, c := range d.T {
		if c != 0 {
			sym = s
			n++
		}
	}
	if n == 0 {
		k := d.K
		switch op {
		case "<":
			return k < 0, true
		case "<=":
			return k <= 0, true
		case ">":
			return k > 0, true
		case ">=":
			return k >= 0, true
		case "==":
			return k == 0, true
		case "!=":
			return k != 0, true
		}
		return true, false
	}
	if n != 1 {
		return true, false
	}
	c := d.T[sym]
	if c != 1 && c != -1 {
		return true, false
	}
	// c*sym + K op 0
	cur := e.get(sym)
	bound := -d.K // sym op' bound when c == 1
	if c == -1 {
		bound = d.K
		switch op {
		case "<":
			op = ">"
		case "<=":
			op = ">="
		case ">":
			op = "<"
		case ">=":
			op = "<="
		}
	}
	switch op {
	case "<":
		if bound-1 < cur.hi {
			cur.hi = bound - 1
		}
	case "<=":
		if bound < cur.hi {
			cur.hi = bound
		}
	case ">":
		if bound+1 > cur.lo {
			cur.lo = bound + 1
		}
	case ">=":
		if bound > cur.lo {
			cur.lo = bound
		}
	case "==":
		if bound > cur.lo {
			cur.lo = bound
		}
		if bound < cur.hi {
			cur.hi = bound
		}
	case "!=":
		if cur.lo == bound && cur.hi == bound {
			return false, true
		}
		if cur.lo == bound {
			cur.lo++
		} else if cur.hi == bound {
			cur.hi--
		} else {
			return true, false
		}
	}
	if cur.lo > cur.hi {
		return false, true
	}
	e[sym] = cur
	return true, true
}

func (e Env) String() string {
	var ks []string
	for k := range e {
		ks = append(ks, k)
	}
	sort.Strings(ks)
	var parts []string
	for _, k := range ks {
		v := e[k]
		hi := fmt.Sprint(v.hi)
		if v.hi == math.MaxInt64 {
			hi = "inf"
		}
		parts = append(parts, fmt.Sprintf("%s in [%d,%s]", k, v.lo, hi))
	}
	return strings.Join(parts, ", ")
}

// compatible: the conjunction of two envs is satisfiable; returns it.
func (e Env) meet(o Env) (Env, bool) {
	r := e.clone()
	for k, v := range o {
		c := r.get(k)
		if v.lo > c.lo {
			c.lo = v.lo
		}
		if v.hi < c.hi {
			c.hi = v.hi
		}
		if c.lo > c.hi {
			return nil, false
		}
		r[k] = c
	}
	return r, true
}
