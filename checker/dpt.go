package main

import (
	"fmt"
	"go/constant"
	"go/token"
	"go/types"
	"math"
	"strconv"
	"strings"

	"golang.org/x/tools/go/ssa"
)

// Shared machinery of the datapoint checks C06, C07, C08.

const dptPath = modPath + "/knx/dpt"

type dptType struct {
	Key    string
	Main   int
	Sub    string
	NT     *types.Named
	Pack   *ssa.Function
	Unpack *ssa.Function
}

func dptTypes(c *Check, p *Program, rule string) []dptType {
	var out []dptType
	for _, e := range registryEntries(nil, p, rule) {
		if e.Type == nil {
			continue
		}
		m := keyLoose.FindStringSubmatch(e.Key)
		if m == nil {
			continue
		}
		mn, _ := strconv.Atoi(m[1])
		dt := dptType{Key: e.Key, Main: mn, Sub: m[2], NT: e.Type}
		dt.Pack = methodOf(p, e.Type, "Pack")
		dt.Unpack = methodOf(p, e.Type, "Unpack")
		if dt.Pack == nil || dt.Unpack == nil {
			c.Fail(rule, "dpt "+e.Key+" has Pack and Unpack", p.Pos(e.Pos), "method missing")
			continue
		}
		out = append(out, dt)
	}
	return out
}

// specPayloadLen: main number -> payload length prescribed by the KNX
// datapoint format (-1: variable length).
func specPayloadLen(main int) (int64, bool) {
	switch main {
	case 1, 2, 3:
		return 1, true
	case 4, 5, 6, 17, 18, 20, 21, 23, 25:
		return 2, true
	case 7, 8, 9, 22, 207, 217, 234, 237, 244, 246:
		return 3, true
	case 10, 11, 232:
		return 4, true
	case 12, 13, 14, 15:
		return 5, true
	case 242, 251:
		return 7, true
	case 16:
		return 15, true
	case 28:
		return -1, true
	}
	return 0, false
}

// ---------------------------------------------------------------------------
// length guards

type lenGuard struct {
	L    int64
	Kind string // "eq": len(data) == L, "ge": len(data) >= L
	OK   bool
	Why  string
}

// lenGuardOf: every possibly-nil error return of fn (whose []byte parameter
// is the payload) is behind len(data) == L (or >= L) - directly, or because
// it returns / has tested the error of a helper that received the same slice.
func lenGuardOf(p *Program, fn *ssa.Function, memo map[*ssa.Function]lenGuard) lenGuard {
	if g, ok := memo[fn]; ok {
		return g
	}
	memo[fn] = lenGuard{Why: "recursion"}
	data := inputParam(fn)
	if data == nil {
		g := lenGuard{Why: "no []byte parameter"}
		memo[fn] = g
		return g
	}
	errIdx := fn.Signature.Results().Len() - 1
	res := lenGuard{OK: true, L: -1}
	merge := func(g lenGuard) {
		if !g.OK {
			res.OK, res.Why = false, g.Why
			return
		}
		if res.L == -1 {
			res.L, res.Kind = g.L, g.Kind
		} else if res.L != g.L || res.Kind != g.Kind {
			res.OK, res.Why = false, fmt.Sprintf("inconsistent length guards (%d/%s vs %d/%s)", res.L, res.Kind, g.L, g.Kind)
		}
	}
	isLen := func(v ssa.Value) bool {
		call, ok := stripAllConv(v).(*ssa.Call)
		return ok && builtinName(call) == "len" && unspill(call.Common().Args[0]) == ssa.Value(data)
	}
	// lenPlus: v is len(data) + c (c constant, possibly negative), in a type that does not wrap for lengths
	var lenPlus func(v ssa.Value, depth int) (int64, bool)
	lenPlus = func(v ssa.Value, depth int) (int64, bool) {
		if isLen(v) {
			return 0, true
		}
		if depth > 4 {
			return 0, false
		}
		bo, ok := stripAllConv(v).(*ssa.BinOp)
		if !ok || !wideInt(bo.Type()) {
			return 0, false
		}
		if _, signed, _ := typeWidth(bo.Type(), "386"); !signed {
			return 0, false // len(data)-1 in an unsigned type wraps for the empty payload
		}
		switch bo.Op {
		case token.ADD:
			if k, isK := constInt(bo.Y); isK {
				if c, ok := lenPlus(bo.X, depth+1); ok {
					return c + k, true
				}
			}
			if k, isK := constInt(bo.X); isK {
				if c, ok := lenPlus(bo.Y, depth+1); ok {
					return c + k, true
				}
			}
		case token.SUB:
			if k, isK := constInt(bo.Y); isK {
				if c, ok := lenPlus(bo.X, depth+1); ok {
					return c - k, true
				}
			}
		}
		return 0, false
	}
	direct := func(b *ssa.BasicBlock) (lenGuard, bool) {
		for _, f := range factsAt(b) {
			x, y, op := f.X, f.Y, f.Op
			if _, ok := lenPlus(x, 0); !ok {
				x, y, op = y, x, swapOp(op)
			}
			k, isK := constInt(y)
			c0, isL := lenPlus(x, 0)
			if !isL || !isK {
				continue
			}
			k -= c0 // len(data) + c0 op k  <=>  len(data) op k - c0
			switch op {
			case token.EQL:
				return lenGuard{L: k, Kind: "eq", OK: true}, true
			case token.GEQ:
				return lenGuard{L: k, Kind: "ge", OK: true}, true
			case token.GTR:
				return lenGuard{L: k + 1, Kind: "ge", OK: true}, true
			}
		}
		return lenGuard{}, false
	}
	viaCall := func(call *ssa.Call) (lenGuard, bool) {
		g := call.Common().StaticCallee()
		if g == nil || !p.InModule(g) || inputParam(g) == nil {
			return lenGuard{}, false
		}
		for i, prm := range g.Params {
			if prm == inputParam(g) && i < len(call.Common().Args) && unspill(call.Common().Args[i]) == ssa.Value(data) {
				return lenGuardOf(p, g, memo), true
			}
		}
		return lenGuard{}, false
	}
	n := 0
	for _, r := range returnsOf(fn) {
		if errIdx < 0 || !p.returnMayBeNil(r, errIdx) {
			continue
		}
		n++
		if g, ok := direct(r.Block()); ok {
			merge(g)
			continue
		}
		// returns a helper's error
		done := false
		for _, v := range resultValues(r, errIdx) {
			cv := v
			if e, ok := cv.(*ssa.Extract); ok {
				cv = e.Tuple
			}
			if call, ok := cv.(*ssa.Call); ok {
				if g, ok := viaCall(call); ok {
					merge(g)
					done = true
				}
			}
		}
		if done {
			continue
		}
		// behind helper(...) == nil
		for _, f := range factsAt(r.Block()) {
			if f.Op != token.EQL {
				continue
			}
			v := f.X
			if isNilConst(f.X) {
				v = f.Y
			} else if !isNilConst(f.Y) {
				continue
			}
			for _, lv := range loadValues(v) {
				if e, ok := lv.(*ssa.Extract); ok {
					lv = e.Tuple
				}
				if call, ok := lv.(*ssa.Call); ok {
					if g, ok := viaCall(call); ok {
						merge(g)
						done = true
					}
				}
			}
		}
		if !done {
			res.OK, res.Why = false, "a successful return at "+p.InstrPos(r)+" is not behind a length test of the payload"
		}
	}
	if n == 0 {
		res.OK, res.Why = false, "no successful return"
	}
	memo[fn] = res
	return res
}

// ---------------------------------------------------------------------------
// float / integer intervals from guards (E4)

type fiv struct {
	lo, hi float64
}

func (a fiv) within(b fiv, slack float64) bool { return a.lo >= b.lo-slack && a.hi <= b.hi+slack }

func constFloat(v ssa.Value) (float64, bool) {
	c, ok := v.(*ssa.Const)
	if !ok || c.Value == nil {
		return 0, false
	}
	switch c.Value.Kind() {
	case constant.Int, constant.Float:
		f, _ := constant.Float64Val(c.Value)
		// the run-time value has the precision of the constant's type
		if b, ok := c.Type().Underlying().(*types.Basic); ok && b.Kind() == types.Float32 {
			f = float64(float32(f))
		}
		return f, true
	}
	return 0, false
}

// sameNumeric: a and b denote the same run-time number (same SSA value, or
// loads of one local cell with no write in between, through value-preserving
// type changes).
func sameNumeric(a, b ssa.Value) bool {
	a, b = stripFloatConv(a), stripFloatConv(b)
	if a == b {
		return true
	}
	ua, ok1 := a.(*ssa.UnOp)
	ub, ok2 := b.(*ssa.UnOp)
	if ok1 && ok2 && ua.Op == token.MUL && ub.Op == token.MUL {
		ca, okA := ua.X.(*ssa.Alloc)
		cb, okB := ub.X.(*ssa.Alloc)
		if okA && okB && ca == cb {
			return noWriteBetween(ca, ua, ub) || noWriteBetween(ca, ub, ua) || loadsAfterAllWrites(ca, ua, ub)
		}
		// loads of the same field of the receiver (value receivers are copies; pointer receivers are not written in Pack)
		if f := loadedField(ua); f != nil && f == loadedField(ub) && ua.Parent() != nil {
			// ... unless the function itself assigns that field (a decoder filling its receiver): then only
			// loads with no such store between them (same block, none in between) are one number
			stored := false
			instrsOf(ua.Parent(), func(in ssa.Instruction) {
				if st, ok := in.(*ssa.Store); ok && fieldOfAddr(st.Addr) == f {
					stored = true
				}
			})
			if !stored {
				return true
			}
			if ua.Block() == ub.Block() {
				i, j := instrIndex(ua), instrIndex(ub)
				if i > j {
					i, j = j, i
				}
				clean := true
				for _, in := range ua.Block().Instrs[i:j] {
					if st, ok := in.(*ssa.Store); ok && fieldOfAddr(st.Addr) == f {
						clean = false
					}
					if _, isCall := in.(*ssa.Call); isCall {
						clean = false
					}
				}
				if clean {
					return true
				}
			}
		}
		// loads of the same element of a slice that this function never writes (r := []rune(d); r[i] ... r[i])
		ia, okA2 := ua.X.(*ssa.IndexAddr)
		ib, okB2 := ub.X.(*ssa.IndexAddr)
		if okA2 && okB2 && ia.X == ib.X && ia.Index == ib.Index && ua.Parent() != nil {
			written := false
			instrsOf(ua.Parent(), func(in ssa.Instruction) {
				if st, ok := in.(*ssa.Store); ok {
					if sa, ok := st.Addr.(*ssa.IndexAddr); ok && sa.X == ia.X {
						written = true
					}
				}
				if call, ok := in.(*ssa.Call); ok {
					for _, arg := range call.Common().Args {
						if arg == ia.X && builtinName(call) != "len" && builtinName(call) != "cap" {
							written = true
						}
					}
				}
			})
			if !written {
				return true
			}
		}
	}
	if fa, ok := a.(*ssa.Field); ok {
		if fb, ok := b.(*ssa.Field); ok && fa.Field == fb.Field && sameNumeric(fa.X, fb.X) {
			return true
		}
	}
	return false
}

func stripFloatConv(v ssa.Value) ssa.Value {
	for i := 0; i < 6; i++ {
		switch x := v.(type) {
		case *ssa.ChangeType:
			v = x.X
		case *ssa.Convert:
			// float32 <-> named float32, int widening
			bf, ok1 := x.X.Type().Underlying().(*types.Basic)
			bt, ok2 := x.Type().Underlying().(*types.Basic)
			if ok1 && ok2 && bf.Kind() == bt.Kind() {
				v = x.X
			} else {
				return v
			}
		default:
			return v
		}
	}
	return v
}

func typeRange(t types.Type) (fiv, bool) {
	b, ok := t.Underlying().(*types.Basic)
	if !ok {
		return fiv{}, false
	}
	switch b.Kind() {
	case types.Uint8:
		return fiv{0, 255}, true
	case types.Int8:
		return fiv{-128, 127}, true
	case types.Uint16:
		return fiv{0, 65535}, true
	case types.Int16:
		return fiv{-32768, 32767}, true
	case types.Uint32:
		return fiv{0, 4294967295}, true
	case types.Int32:
		return fiv{-2147483648, 2147483647}, true
	case types.Int, types.Int64:
		return fiv{-9.2e18, 9.2e18}, true
	case types.Uint, types.Uint64:
		return fiv{0, 1.8e19}, true
	}
	return fiv{}, false
}

// numInterval bounds the numeric value v at block b from the dominating
// comparisons with constants, the value's type, and constant arithmetic.
func numInterval(v ssa.Value, b *ssa.BasicBlock, depth int) fiv {
	iv := fiv{math.Inf(-1), math.Inf(1)}
	if depth > 8 {
		return iv
	}
	if k, ok := constFloat(v); ok {
		return fiv{k, k}
	}
	if tr, ok := typeRange(v.Type()); ok {
		iv = tr
	}
	tighten := func(o fiv) {
		if o.lo > iv.lo {
			iv.lo = o.lo
		}
		if o.hi < iv.hi {
			iv.hi = o.hi
		}
	}
	for _, f := range factsAt(b) {
		x, y, op := f.X, f.Y, f.Op
		if _, isK := constFloat(x); isK {
			x, y, op = y, x, swapOp(op)
		}
		k, isK := constFloat(y)
		if !isK || !sameNumeric(x, v) {
			continue
		}
		isF32, isInt := false, false
		if bt, ok := v.Type().Underlying().(*types.Basic); ok {
			isF32 = bt.Kind() == types.Float32
			isInt = bt.Info()&types.IsInteger != 0
		}
		switch op {
		case token.GEQ:
			tighten(fiv{k, math.Inf(1)})
		case token.GTR:
			if isF32 {
				k = float64(math.Nextafter32(float32(k), float32(math.Inf(1))))
			}
			if isInt {
				k = math.Floor(k) + 1 // strict comparison of an integer
			}
			tighten(fiv{k, math.Inf(1)})
		case token.LEQ:
			tighten(fiv{math.Inf(-1), k})
		case token.LSS:
			if isF32 {
				k = float64(math.Nextafter32(float32(k), float32(math.Inf(-1))))
			}
			if isInt {
				k = math.Ceil(k) - 1
			}
			tighten(fiv{math.Inf(-1), k})
		case token.EQL:
			tighten(fiv{k, k})
		}
	}
	switch x := v.(type) {
	case *ssa.ChangeType:
		tighten(numInterval(x.X, b, depth+1))
	case *ssa.Convert:
		src := numInterval(x.X, b, depth+1)
		// conversions to integer types truncate towards zero: the interval only shrinks inside the target range
		if tr, ok := typeRange(x.Type()); ok {
			if src.lo >= tr.lo && src.hi <= tr.hi {
				tighten(fiv{math.Trunc(src.lo), math.Trunc(src.hi)})
			}
		} else {
			tighten(src)
		}
	case *ssa.BinOp:
		l, r := numInterval(x.X, b, depth+1), numInterval(x.Y, b, depth+1)
		var o fiv
		switch x.Op {
		case token.ADD:
			o = fiv{l.lo + r.lo, l.hi + r.hi}
		case token.SUB:
			o = fiv{l.lo - r.hi, l.hi - r.lo}
		case token.MUL:
			c := []float64{l.lo * r.lo, l.lo * r.hi, l.hi * r.lo, l.hi * r.hi}
			o = fiv{math.Inf(1), math.Inf(-1)}
			for _, z := range c {
				if math.IsNaN(z) {
					o = fiv{math.Inf(-1), math.Inf(1)}
					break
				}
				o.lo, o.hi = math.Min(o.lo, z), math.Max(o.hi, z)
			}
		case token.QUO:
			if r.lo > 0 || r.hi < 0 {
				c := []float64{l.lo / r.lo, l.lo / r.hi, l.hi / r.lo, l.hi / r.hi}
				o = fiv{math.Inf(1), math.Inf(-1)}
				for _, z := range c {
					if math.IsNaN(z) {
						o = fiv{math.Inf(-1), math.Inf(1)}
						break
					}
					o.lo, o.hi = math.Min(o.lo, z), math.Max(o.hi, z)
				}
			} else {
				o = fiv{math.Inf(-1), math.Inf(1)}
			}
		case token.AND:
			if k, ok := constInt(x.Y); ok && k >= 0 {
				o = fiv{0, float64(k)}
			} else {
				o = fiv{math.Inf(-1), math.Inf(1)}
			}
		case token.SHR:
			if k, ok := constInt(x.Y); ok && l.lo >= 0 {
				o = fiv{0, math.Floor(l.hi / math.Pow(2, float64(k)))}
			} else {
				o = fiv{math.Inf(-1), math.Inf(1)}
			}
		default:
			o = fiv{math.Inf(-1), math.Inf(1)}
		}
		if !math.IsNaN(o.lo) && !math.IsNaN(o.hi) {
			tighten(o)
		}
	case *ssa.Phi:
		o := fiv{math.Inf(1), math.Inf(-1)}
		for i, e := range x.Edges {
			pred := x.Block().Preds[i]
			ei := numInterval(e, pred, depth+1)
			// the edge's own comparison
			if f, ok := edgeFact(pred, x.Block()); ok {
				fx, fy, op := f.X, f.Y, f.Op
				if _, isK := constFloat(fx); isK {
					fx, fy, op = fy, fx, swapOp(op)
				}
				if k, isK := constFloat(fy); isK && sameNumeric(fx, e) {
					switch op {
					case token.GEQ, token.GTR:
						ei.lo = math.Max(ei.lo, k)
					case token.LEQ, token.LSS:
						ei.hi = math.Min(ei.hi, k)
					}
				}
			}
			o.lo, o.hi = math.Min(o.lo, ei.lo), math.Max(o.hi, ei.hi)
		}
		tighten(o)
	case *ssa.UnOp:
		if x.Op == token.MUL {
			vals := loadValues(x)
			if cell, isCell := x.X.(*ssa.Alloc); isCell && cellEscapes(cell) {
				vals = nil // written through a pointer handed to a helper: only the guards speak
			}
			if len(vals) >= 1 && !(len(vals) == 1 && vals[0] == ssa.Value(x)) {
				o := fiv{math.Inf(1), math.Inf(-1)}
				for _, lv := range vals {
					li := numInterval(lv, b, depth+1)
					o.lo, o.hi = math.Min(o.lo, li.lo), math.Max(o.hi, li.hi)
				}
				tighten(o)
			}
		}
	}
	return iv
}

func fivString(a fiv) string {
	f := func(x float64) string {
		if math.IsInf(x, 1) {
			return "+inf"
		}
		if math.IsInf(x, -1) {
			return "-inf"
		}
		return strconv.FormatFloat(x, 'g', 10, 64)
	}
	return "[" + f(a.lo) + ", " + f(a.hi) + "]"
}

// ---------------------------------------------------------------------------
// the value a decoder stores into its receiver on success

// receiverStores lists the stores through the receiver pointer of an Unpack
// method (whole-value stores `*d = ...` and field stores `d.F = ...`).
func receiverStores(fn *ssa.Function) []*ssa.Store {
	var out []*ssa.Store
	recv := fn.Params[0]
	instrsOf(fn, func(in ssa.Instruction) {
		st, ok := in.(*ssa.Store)
		if !ok {
			return
		}
		a := st.Addr
		if ct, ok := a.(*ssa.ChangeType); ok {
			a = ct.X
		}
		if a == ssa.Value(recv) {
			out = append(out, st)
			return
		}
		if fa, ok := a.(*ssa.FieldAddr); ok && fa.X == ssa.Value(recv) {
			out = append(out, st)
		}
	})
	return out
}

func dptName(dt dptType) string { return "dpt." + dt.NT.Obj().Name() }

func helperName(fn *ssa.Function) string {
	return strings.TrimPrefix(FuncName(fn), "dpt.")
}

// checkDecodeStores: every exit of a datapoint decoder that may report
// success lies behind something that sets the receiver - a store to it or to
// one of its fields, or a call that is handed the receiver (or a field's
// address) to fill.  A decoder that validates its input and forgets to keep
// the result leaves the caller's previous value in place.
func checkDecodeStores(c *Check, p *Program, dts []dptType, rule string) {
	n := 0
	for _, dt := range dts {
		un := dt.Unpack
		if len(un.Params) == 0 || len(un.Blocks) == 0 {
			continue
		}
		recv := ssa.Value(un.Params[0])
		var rooted func(v ssa.Value, d int) bool
		rooted = func(v ssa.Value, d int) bool {
			if v == recv {
				return true
			}
			if d > 6 {
				return false
			}
			switch x := v.(type) {
			case *ssa.ChangeType:
				return rooted(x.X, d+1)
			case *ssa.Convert:
				return rooted(x.X, d+1)
			case *ssa.FieldAddr:
				return rooted(x.X, d+1)
			case *ssa.IndexAddr:
				return rooted(x.X, d+1)
			case *ssa.MakeInterface:
				return rooted(x.X, d+1)
			}
			return false
		}
		isSet := func(in ssa.Instruction) bool {
			switch x := in.(type) {
			case *ssa.Store:
				return rooted(x.Addr, 0)
			case *ssa.Call:
				for _, a := range x.Common().Args {
					if rooted(a, 0) {
						return true
					}
				}
			}
			return false
		}
		for _, r := range returnsOf(un) {
			if len(r.Results) != 1 || !p.returnMayBeNil(r, 0) {
				continue
			}
			n++
			mn, _, okP := pathCountTo(un.Blocks[0], r.Block(), isSet)
			c.Decide(okP && mn >= 1, rule, dptName(dt)+".Unpack keeps what it decoded", p.InstrPos(r), "every path to this exit sets the receiver", "a path reaches this successful exit without setting the receiver: the decoder accepts the payload and the caller's previous value stays in place")
		}
	}
	c.Floor(rule, "successful exits of datapoint decoders", n, 170)
}
