package main

import (
	"go/constant"
	"fmt"
	"go/token"
	"go/types"
	"strings"

	"golang.org/x/tools/go/ssa"
)

func init() { register("C16", "other", checkC16) }

// receivers returns the socket receiver functions of package knxnet: those
// with a connection parameter and a `chan<- Service` parameter.
func receivers(p *Program) (udp, tcp *ssa.Function) {
	for _, fn := range p.FuncsIn("knx/knxnet") {
		if fn.Parent() != nil || len(fn.Params) < 2 {
			continue
		}
		hasChan := false
		for _, prm := range fn.Params {
			if ch, ok := prm.Type().Underlying().(*types.Chan); ok && isNamed(ch.Elem(), knxnetPath, "Service") {
				hasChan = true
			}
		}
		if !hasChan {
			continue
		}
		if isPtrToNamed(fn.Params[0].Type(), "net", "UDPConn") {
			udp = fn
		}
		if isPtrToNamed(fn.Params[0].Type(), "net", "TCPConn") {
			tcp = fn
		}
	}
	return
}

func chanParam(fn *ssa.Function) *ssa.Parameter {
	for _, prm := range fn.Params {
		if ch, ok := prm.Type().Underlying().(*types.Chan); ok && isNamed(ch.Elem(), knxnetPath, "Service") {
			return prm
		}
	}
	return nil
}

// errOfCall returns the error-typed Extract of a tuple-returning call (or the
// call itself when it returns only an error).
func errOfCall(call *ssa.Call) ssa.Value {
	if tup, ok := call.Type().(*types.Tuple); ok {
		for _, u := range usesOf(call) {
			if e, ok := u.(*ssa.Extract); ok && e.Index == tup.Len()-1 {
				return e
			}
		}
		return nil
	}
	return call
}

// checkReceiverLoop decides the clauses shared by C01(e), C16 T2/T4 and C20:
// in a socket receiver a decode error leads back to the read, exactly one
// synchronous send of the decoded payload per successfully decoded frame, no
// goroutine, returns only behind read/framing errors, deferred close of the
// inbound channel as its only close.
func checkReceiverLoop(c *Check, p *Program, rule string, fn *ssa.Function) {
	name := FuncName(fn)
	c.Analysed("functions", name)
	inb := chanParam(fn)
	// the channel parameter, also when a closure captured it (it then lives in a cell)
	isInb := func(v ssa.Value) bool {
		return v == ssa.Value(inb) || unspill(resolveFree(v)) == ssa.Value(inb) || unspill(v) == ssa.Value(inb)
	}
	unpack := p.Func("knx/knxnet", "Unpack")
	var unpackCall *ssa.Call
	nU := 0
	instrsOf(fn, func(in ssa.Instruction) {
		if staticCallTo(in, unpack) {
			unpackCall = in.(*ssa.Call)
			nU++
		}
	})
	c.Exact(rule, name+" decode sites", nU, 1, p.Pos(fn.Pos()))
	if unpackCall == nil {
		return
	}
	lp := innermostLoop(unpackCall.Block())
	if lp == nil {
		c.Fail(rule, name+" receive loop", p.InstrPos(unpackCall), "the decode is not inside a loop: the receiver handles one frame only")
		return
	}
	// every datagram that can hold a frame reaches the decoder: the only conditions on the byte count on the way
	// to the decode are ones every count >= 6 (a header) satisfies
	if sl, ok := unpackCall.Common().Args[0].(*ssa.Slice); ok && sl.High != nil {
		cnt := stripAllConv(sl.High)
		okCnt, bad := true, ""
		for _, f := range factsAt(unpackCall.Block()) {
			x, y, op := f.X, f.Y, f.Op
			if stripAllConv(y) == cnt {
				x, y, op = y, x, swapOp(op)
			}
			if stripAllConv(x) != cnt {
				continue
			}
			k, isK := constInt(y)
			if !isK {
				continue
			}
			implied := false
			switch op {
			case token.NEQ:
				implied = k < 6
			case token.GTR:
				implied = k < 6
			case token.GEQ:
				implied = k <= 6
			}
			if !implied {
				okCnt, bad = false, fmt.Sprintf("count %s %d", op, k)
			}
		}
		c.Decide(okCnt, rule, name+" every datagram with a header reaches the decoder", p.InstrPos(unpackCall), "only empty (or shorter-than-header) reads are discarded before the decode", "the decode is reached only when "+bad+": datagrams that hold a frame are discarded before they are decoded")
	}
	// a sender address that is tested for nil is never dereferenced where it may be nil
	for _, prm := range fn.Params {
		if _, isP := prm.Type().(*types.Pointer); !isP {
			continue
		}
		tested := false
		instrsOf(fn, func(in ssa.Instruction) {
			if bo, ok := in.(*ssa.BinOp); ok && (bo.Op == token.EQL || bo.Op == token.NEQ) {
				if (unspill(resolveFree(bo.X)) == ssa.Value(prm) && isNilConst(bo.Y)) || (unspill(resolveFree(bo.Y)) == ssa.Value(prm) && isNilConst(bo.X)) {
					tested = true
				}
			}
		})
		if !tested {
			continue
		}
		instrsOf(fn, func(in ssa.Instruction) {
			fa, ok := in.(*ssa.FieldAddr)
			if !ok || unspill(resolveFree(fa.X)) != ssa.Value(prm) {
				return
			}
			guarded := anyFact(factsAt(fa.Block()), func(f Cmp) bool {
				return f.Op == token.NEQ && ((unspill(resolveFree(f.X)) == ssa.Value(prm) && isNilConst(f.Y)) || (unspill(resolveFree(f.Y)) == ssa.Value(prm) && isNilConst(f.X)))
			})
			c.Decide(guarded, rule, name+" "+prm.Name()+" dereferenced only where it is not nil", p.InstrPos(fa), "behind "+prm.Name()+" != nil", "the parameter "+prm.Name()+" is compared with nil elsewhere in this function and dereferenced here without that guard: a listener without a fixed peer panics on the first datagram")
		})
	}
	uerr := errOfCall(unpackCall)
	isUErr := func(v ssa.Value) bool {
		if v == uerr {
			return true
		}
		for _, x := range loadValues(v) {
			if x == uerr {
				return true
			}
		}
		return false
	}
	dependsOnDecode := func(fs []Cmp) bool {
		return anyFact(fs, func(f Cmp) bool {
			return (isUErr(f.X) || isUErr(f.Y)) && !(f.Op == token.EQL && (isNilConst(f.X) || isNilConst(f.Y)))
		})
	}
	// returns: only behind read / framing errors, never because of what the decoder said
	readErr := func(f Cmp) bool {
		if f.Op != token.NEQ {
			return false
		}
		v := f.X
		if isNilConst(f.X) {
			v = f.Y
		} else if !isNilConst(f.Y) {
			return false
		}
		for _, x := range loadValues(v) {
			e, ok := x.(*ssa.Extract)
			var call *ssa.Call
			if ok {
				call, _ = e.Tuple.(*ssa.Call)
			} else {
				call, _ = x.(*ssa.Call)
			}
			if call == nil {
				continue
			}
			o := calleeObj(call)
			switch {
			case funcIs(o, "net", "UDPConn", "ReadFromUDP"), funcIs(o, "bufio", "Reader", "Peek"), funcIs(o, "io", "", "ReadFull"):
				return true
			case call.Common().StaticCallee() == p.Func("knx/knxnet", "UnpackHeader"):
				return true
			}
		}
		return false
	}
	for _, r := range returnsOf(fn) {
		facts := factsAt(r.Block())
		okR := anyFact(facts, readErr) || anyFact(facts, func(f Cmp) bool {
			// framing error: announced total length below the header size
			if k, ok := constInt(f.Y); ok && k == 6 && f.Op == token.LSS {
				return true
			}
			return false
		})
		c.Decide(okR && !dependsOnDecode(facts), rule, name+" ends only on a read or framing error", p.InstrPos(r), "return behind an error of the read itself", "the receiver terminates for a reason other than a failed read (e.g. because a frame did not decode): later well-formed frames are never delivered")
	}
	// decode error -> back to the loop header without close/return
	for _, b := range fn.Blocks {
		for _, s := range b.Succs {
			f, ok := edgeFact(b, s)
			if !ok || !(f.Op == token.NEQ && ((isUErr(f.X) && isNilConst(f.Y)) || (isUErr(f.Y) && isNilConst(f.X)))) {
				continue
			}
			bad := ""
			if s != lp.Header {
				for rb := range reachUntil(s, lp.Header) {
					if rb == lp.Header {
						continue
					}
					for _, in := range rb.Instrs {
						switch x := in.(type) {
						case *ssa.Return:
							bad = "returns at " + p.InstrPos(x)
						case *ssa.Send:
							bad = "still forwards a value at " + p.InstrPos(x)
						}
					}
				}
			}
			c.Decide(bad == "", rule, name+" drops a malformed frame and continues", p.InstrPos(ifOf(b)), "the decode-error edge leads back to the read", "after a frame that does not decode the receiver "+bad)
		}
	}
	// success: one plain send of the decoded payload
	var sends []*ssa.Send
	instrsOf(fn, func(in ssa.Instruction) {
		switch x := in.(type) {
		case *ssa.Send:
			if isInb(x.Chan) {
				sends = append(sends, x)
			}
		case *ssa.Select:
			for _, st := range x.States {
				if isInb(st.Chan) {
					c.Fail(rule, name+" forwards inside a select", p.InstrPos(x), "frames can be dropped or reordered")
				}
			}
		case *ssa.Go:
			c.Fail(rule, name+" starts goroutines", p.InstrPos(x), "forwarding from per-frame goroutines loses arrival order")
		}
	})
	c.Exact(rule, name+" forwarding sites", len(sends), 1, p.Pos(fn.Pos()))
	for _, s := range sends {
		facts := factsAt(s.Block())
		okS := anyFact(facts, func(f Cmp) bool {
			return f.Op == token.EQL && ((isUErr(f.X) && isNilConst(f.Y)) || (isUErr(f.Y) && isNilConst(f.X)))
		})
		c.Decide(okS && lp.Body[s.Block()], rule, name+" forwards only decoded frames", p.InstrPos(s), "send behind decode err == nil, inside the loop", "a value is forwarded although decoding failed")
		// the value is the cell handed to Unpack
		var cell ssa.Value
		if len(unpackCall.Common().Args) == 2 {
			cell = unpackCall.Common().Args[1]
		}
		okV := false
		if u, ok := s.X.(*ssa.UnOp); ok && u.Op == token.MUL && u.X == cell {
			okV = true
		}
		c.Decide(okV, rule, name+" forwards the decoded payload", p.InstrPos(s), "the value decoded by this iteration's Unpack", "the forwarded value is not what Unpack produced")
		min, max := iterCount(lp, func(in ssa.Instruction) bool { return in == ssa.Instruction(s) })
		_ = min
		c.Decide(max == 1, rule, name+" at most one forward per frame", p.InstrPos(s), "one send per iteration", fmt.Sprintf("%d sends per iteration", max))
	}
	// success edge must reach the send: from err == nil edge every path to the header passes the send
	for _, b := range fn.Blocks {
		for _, s := range b.Succs {
			f, ok := edgeFact(b, s)
			if !ok || !(f.Op == token.EQL && ((isUErr(f.X) && isNilConst(f.Y)) || (isUErr(f.Y) && isNilConst(f.X)))) {
				continue
			}
			min, _ := pathCount(s, func(in ssa.Instruction) bool {
				x, ok := in.(*ssa.Send)
				return ok && isInb(x.Chan)
			}, func(bb *ssa.BasicBlock) bool { return bb == lp.Header })
			c.Decide(min >= 1, rule, name+" every decoded frame is forwarded", p.InstrPos(ifOf(b)), "every path from the success edge passes the send", "a successfully decoded frame can be skipped")
		}
	}
	// deferred close is the only close of the channel
	nClose := 0
	for _, hf := range append([]*ssa.Function{fn}, fn.AnonFuncs...) {
		instrsOf(hf, func(in ssa.Instruction) {
			ci, ok := in.(ssa.CallInstruction)
			if !ok || builtinName(ci) != "close" || !isInb(ci.Common().Args[0]) {
				return
			}
			nClose++
			d := deferredIn(fn, in)
			isDefer := d != nil
			if d != nil {
				in = d
			}
			c.Decide(isDefer && in.Block() == fn.Blocks[0], rule, name+" closes inbound by a defer at entry", p.InstrPos(in), "deferred close(inbound)", "the inbound channel is not closed by a defer at the receiver's entry: a terminated receiver leaves readers waiting (or closes while still sending)")
		})
	}
	c.Exact(rule, name+" close(inbound) sites", nClose, 1, p.Pos(fn.Pos()))
}

func checkC16(c *Check, p *Program) {
	c.Technique = "who-reads-the-connection census, def-use of the framing buffer, select/send census and path counting in the receiver loops, dominating-edge facts, constant comparison on the SSA of package knxnet's sockets and the tunnel's host-info function"
	c.Explanation = "Decides: T1 in the TCP receiver the connection is read only through one bufio.Reader made outside the loop, by Peek(6) and io.ReadFull(reader, buf) with buf = make([]byte, totalLen) where totalLen is the value UnpackHeader wrote for the peeked header, and the decoder gets buf[:n] with n the ReadFull count; T2 both receivers forward exactly one decoded payload per successfully decoded frame by a plain synchronous send, start no goroutine, drop undecodable frames and continue; T3 both Send implementations allocate a fresh make([]byte, Size(payload)), Pack into it and hand exactly that slice to one Write/WriteToUDP on every path; T4 both receivers defer close(inbound) at entry as its only close and return only behind errors of the read/framing itself; constructors hand the same channel to the receiver and the socket; Close closes the connection; T5 the tunnel's host-info function calls HostInfoFromAddress(sock.LocalAddr()) exactly on SendLocalAddress && !UseTCP, otherwise returns HostInfo{Protocol: UDP4|TCP4} by network name, HostInfoFromAddress maps udp->UDP4(1)/tcp->TCP4(2), copies To4() and the port, and the connect request carries that value in both endpoints. Not decided: atomicity of concurrent Write calls (package net), kernel segmentation, delivery order under a concurrently closing socket."
	c.Trusted = []string{"go/types, go/ssa", "bufio.Reader.Peek / io.ReadFull / net.Conn.Write contracts", "kxcheck def-use and path counting"}
	c.NotDecided = []string{"atomicity of concurrent conn.Write calls (contract of package net)", "kernel segmentation behaviour", "in-order delivery under a concurrently closing socket"}

	udp, tcp := receivers(p)
	if udp == nil || tcp == nil {
		c.Fail("C16.anchor", "receiver functions", "", "UDP/TCP receiver functions (conn, addr, chan<- Service) not found in package knxnet")
		return
	}
	// ---- T2 / T4 (receiver loops)
	checkReceiverLoop(c, p, "C16.T2", udp)
	checkReceiverLoop(c, p, "C16.T2", tcp)

	// ---- T1 TCP framing
	tn := FuncName(tcp)
	conn := tcp.Params[0]
	var reader *ssa.Call
	instrsOf(tcp, func(in ssa.Instruction) {
		if call, ok := in.(*ssa.Call); ok && funcIs(calleeObj(call), "bufio", "", "NewReader") {
			reader = call
		}
	})
	if reader == nil {
		c.Fail("C16.T1", tn+" buffered reader", p.Pos(tcp.Pos()), "no bufio.NewReader(conn): partial frames cannot be held between segment arrivals")
	} else {
		arg := reader.Common().Args[0]
		if mi, ok := arg.(*ssa.MakeInterface); ok {
			arg = mi.X
		}
		c.Decide((arg == ssa.Value(conn) || unspill(arg) == ssa.Value(conn)) && !inAnyLoop(reader.Block()), "C16.T1", tn+" one reader for the connection", p.InstrPos(reader), "bufio.NewReader(conn) outside the loop", "the buffered reader is re-created per frame (buffered bytes of the next frame are lost) or wraps something else")
		// uses of conn: only NewReader and logging (followed through interface conversions)
		var walkConn func(v ssa.Value, depth int)
		walkConn = func(v ssa.Value, depth int) {
			if depth > 6 {
				return
			}
			for _, u := range usesOf(v) {
				switch x := u.(type) {
				case *ssa.MakeInterface:
					walkConn(x, depth+1)
				case *ssa.ChangeInterface:
					walkConn(x, depth+1)
				case *ssa.ChangeType:
					walkConn(x, depth+1)
				case *ssa.Phi:
					walkConn(x, depth+1)
				case *ssa.Store:
					// stores: varargs of the logger; or the cell a closure captured the parameter in - every load of it is the connection again
					if cell, ok := x.Addr.(*ssa.Alloc); ok && x.Val == v {
						for _, ld := range cellLoads(cell) {
							walkConn(ld, depth+1)
						}
					}
				case *ssa.DebugRef, *ssa.Defer:
				case *ssa.Call:
					if x == reader {
						continue
					}
					if x.Common().IsInvoke() && x.Common().Value == v {
						c.Fail("C16.T1", tn+" connection read directly", p.InstrPos(x), "a method of the connection ("+x.Common().Method.Name()+") is called directly: reads that bypass the buffered reader see segment boundaries")
						continue
					}
					if f := x.Common().StaticCallee(); f != nil {
						if pk := fnPkg(f); pk != nil && pk.Pkg.Path() == utilPath {
							continue // logging
						}
						if f.Signature.Recv() != nil && len(x.Common().Args) > 0 && x.Common().Args[0] == v {
							c.Fail("C16.T1", tn+" connection read directly", p.InstrPos(x), "a method of the connection ("+f.Name()+") is called directly: reads that bypass the buffered reader see segment boundaries")
							continue
						}
					}
					c.Fail("C16.T1", tn+" connection used directly", p.InstrPos(x), "the connection is handed to "+describe(x)+" other than the buffered reader or the logger")
				default:
					c.Fail("C16.T1", tn+" connection escapes", p.InstrPos(u), "unrecognised use of the connection")
				}
			}
		}
		walkConn(conn, 0)
		// uses of the reader: Peek(6) and io.ReadFull only
		var peek, readFull *ssa.Call
		var walkUses func(v ssa.Value)
		walkUses = func(v ssa.Value) {
			for _, u := range usesOf(v) {
				switch x := u.(type) {
				case *ssa.Call:
					o := calleeObj(x)
					switch {
					case funcIs(o, "bufio", "Reader", "Peek"):
						peek = x
						k, ok := constInt(x.Common().Args[1])
						c.Decide(ok && k == 6, "C16.T1", tn+" peeks the 6-byte header", p.InstrPos(x), "Peek(6)", "the header peek does not ask for exactly the 6 header bytes")
					case funcIs(o, "io", "", "ReadFull"):
						readFull = x
					default:
						c.Fail("C16.T1", tn+" other read on the stream", p.InstrPos(x), "the stream is read by "+o.Name()+": a short read makes frame boundaries depend on TCP segmentation; only Peek and io.ReadFull are segmentation-independent")
					}
				case *ssa.MakeInterface:
					walkUses(x)
				case *ssa.DebugRef:
				default:
					c.Fail("C16.T1", tn+" reader escapes", p.InstrPos(u), "unrecognised use of the buffered reader")
				}
			}
		}
		walkUses(reader)
		c.Decide(peek != nil && readFull != nil, "C16.T1", tn+" frames by Peek + ReadFull", p.InstrPos(reader), "both present", "the receiver does not frame by header peek plus io.ReadFull")
		if peek != nil && readFull != nil {
			uh := p.Func("knx/knxnet", "UnpackHeader")
			var hdrCall *ssa.Call
			instrsOf(tcp, func(in ssa.Instruction) {
				if staticCallTo(in, uh) {
					hdrCall = in.(*ssa.Call)
				}
			})
			var lenCell ssa.Value
			if hdrCall != nil && len(hdrCall.Common().Args) == 3 {
				hdr := hdrCall.Common().Args[0]
				fromPeek := false
				if e, ok := hdr.(*ssa.Extract); ok && e.Tuple == ssa.Value(peek) && e.Index == 0 {
					fromPeek = true
				}
				c.Decide(fromPeek, "C16.T1", tn+" header decoded from the peeked bytes", p.InstrPos(hdrCall), "UnpackHeader(Peek result, ...)", "the header is not decoded from the peeked bytes")
				lenCell = hdrCall.Common().Args[2]
			} else {
				c.Fail("C16.T1", tn+" decodes the header", p.InstrPos(peek), "no UnpackHeader call on the peeked header")
			}
			buf := readFull.Common().Args[1]
			mk, _ := buf.(*ssa.MakeSlice)
			okLen := false
			if mk != nil {
				l := mk.Len
				if cv, ok := l.(*ssa.Convert); ok {
					l = cv.X
				}
				if u, ok := l.(*ssa.UnOp); ok && u.Op == token.MUL && lenCell != nil && u.X == lenCell && instrDominates(hdrCall, u) {
					okLen = true
				}
			}
			c.Decide(okLen, "C16.T1", tn+" reads exactly the announced total length", p.InstrPos(readFull), "io.ReadFull into make([]byte, totalLen) with totalLen written by UnpackHeader", "the frame buffer's size is not the header's total length: frames are cut short or run into the next frame")
			// Unpack gets buf[:n]
			unpack := p.Func("knx/knxnet", "Unpack")
			instrsOf(tcp, func(in ssa.Instruction) {
				if !staticCallTo(in, unpack) {
					return
				}
				okArg := false
				if sl, ok := in.(*ssa.Call).Common().Args[0].(*ssa.Slice); ok && sl.X == buf && sl.Low == nil && sl.Max == nil {
					if e, ok := sl.High.(*ssa.Extract); ok && e.Tuple == ssa.Value(readFull) && e.Index == 0 {
						okArg = true
					}
				}
				c.Decide(okArg, "C16.T1", tn+" decodes the bytes that were read", p.InstrPos(in), "Unpack(buf[:n]) with n the ReadFull count", "the decoder is not given exactly the bytes ReadFull delivered")
			})
		}
	}
	// UDP: Unpack(buffer[:n]) with n the ReadFromUDP count (shared with C01(c))
	checkUDPSlice(c, p, "C16.T1", udp)

	// ---- T3 one frame per Send
	checkSocketSend(c, p, "C16.T3")

	// ---- T4 constructors and Close
	cg := p.CallGraph()
	for _, recv := range []*ssa.Function{udp, tcp} {
		for _, e := range cg.In[recv] {
			g, ok := e.Site.(*ssa.Go)
			if !ok {
				c.Fail("C16.T4", FuncName(e.Caller)+" calls the receiver synchronously", p.InstrPos(e.Site), "receiver not started as a goroutine")
				continue
			}
			ctor := e.Caller
			// the channel argument: the receiver's channel-typed parameter (the last one when there are several)
			ch := g.Common().Args[len(g.Common().Args)-1]
			for i, prm := range recv.Params {
				if cht, isCh := prm.Type().Underlying().(*types.Chan); isCh && i < len(g.Common().Args) && isNamed(cht.Elem(), knxnetPath, "Service") {
					ch = g.Common().Args[i]
				}
			}
			mc, _ := stripConv(ch).(*ssa.MakeChan)
			// the same channel is stored in the returned socket
			stored := false
			instrsOf(ctor, func(in ssa.Instruction) {
				if st, ok := in.(*ssa.Store); ok && mc != nil && stripConv(st.Val) == ssa.Value(mc) {
					if f := fieldOfAddr(st.Addr); f != nil && f.Name() == "inbound" {
						stored = true
					}
				}
			})
			k, isK := int64(-1), false
			if mc != nil {
				k, isK = constInt(mc.Size)
			}
			c.Decide(mc != nil && stored, "C16.T4", FuncName(ctor)+" wires one channel to receiver and socket", p.InstrPos(g), "the channel handed to the receiver is the socket's inbound", "the receiver feeds a different channel than Inbound() returns")
			c.Decide(isK && k == 0, "C16.T4", FuncName(ctor)+" inbound channel unbuffered", p.InstrPos(g), "capacity 0 (hand-off order = read order)", "inbound channel is buffered")
			// the connection given to the receiver is the one stored in the socket
			connArg := g.Common().Args[0]
			sameConn := false
			instrsOf(ctor, func(in ssa.Instruction) {
				if st, ok := in.(*ssa.Store); ok {
					v := st.Val
					if mi, ok := v.(*ssa.MakeInterface); ok {
						v = mi.X
					}
					if v == connArg {
						if f := fieldOfAddr(st.Addr); f != nil && f.Name() == "conn" {
							sameConn = true
						}
					}
				}
			})
			c.Decide(sameConn, "C16.T4", FuncName(ctor)+" receiver reads the socket's connection", p.InstrPos(g), "same conn value", "the receiver reads another connection than Close closes")
		}
	}
	for _, typ := range []string{"TunnelSocket", "RouterSocket"} {
		fn := p.Method("knx/knxnet", typ, "Close")
		if fn == nil {
			c.Fail("C16.T4", "knxnet."+typ+".Close", "", "method not found")
			continue
		}
		okC := false
		instrsOf(fn, func(in ssa.Instruction) {
			if call, ok := in.(*ssa.Call); ok {
				if o := calleeObj(call); o != nil && o.Name() == "Close" {
					if r := callRecv(call); r != nil {
						// sock.conn.Close(), also through the embedded net.conn of *net.UDPConn
						for _, pa := range []*Path{valuePath(r), addrPath(r)} {
							if len(pa.Sels) >= 1 && !pa.Sels[0].IsIdx && pa.Sels[0].Field.Name() == "conn" && pa.Root == ssa.Value(fn.Params[0]) {
								okC = true
							}
						}
					}
				}
			}
		})
		isConnClose := func(in ssa.Instruction) bool {
			call, ok := in.(*ssa.Call)
			if !ok {
				return false
			}
			o := calleeObj(call)
			r := callRecv(call)
			if o == nil || o.Name() != "Close" || r == nil {
				return false
			}
			for _, pa := range []*Path{valuePath(r), addrPath(r)} {
				if len(pa.Sels) >= 1 && !pa.Sels[0].IsIdx && pa.Sels[0].Field.Name() == "conn" && pa.Root == ssa.Value(fn.Params[0]) {
					return true
				}
			}
			return false
		}
		minC, _ := pathCount(fn.Blocks[0], isConnClose, nil)
		c.Decide(okC && minC >= 1, "C16.T4", FuncName(fn)+" closes the connection", p.Pos(fn.Pos()), "conn.Close() on every path", "Close does not fully close the connection on every path (the receiver's blocking read does not fail, Inbound stays open)")
		// Close waits for nobody: the receiver may be parked in its hand-off on the unbuffered inbound channel with no
		// reader left (the caller stopped reading before it closes), so waiting for the receiver waits for ever
		blocks := ""
		for f := range p.CallGraph().reachableSync(fn) {
			if !p.InModule(f) {
				continue
			}
			instrsOf(f, func(in ssa.Instruction) {
				if d := blockingDesc(in); d != "" {
					blocks = d + " at " + p.InstrPos(in)
				}
			})
		}
		c.Decide(blocks == "", "C16.T4", FuncName(fn)+" waits for nobody", p.Pos(fn.Pos()), "no channel operation, lock or wait in Close", "Close blocks on a "+blocks+": with the receiver parked in its hand-off and nobody reading Inbound any more, Close never returns")
	}

	// ---- T5 advertised endpoint
	checkHostInfo(c, p)
}

// checkUDPSlice: the decoder is given buffer[:n] with n the byte count of the
// ReadFromUDP that filled buffer.
func checkUDPSlice(c *Check, p *Program, rule string, udp *ssa.Function) {
	unpack := p.Func("knx/knxnet", "Unpack")
	var read *ssa.Call
	instrsOf(udp, func(in ssa.Instruction) {
		if call, ok := in.(*ssa.Call); ok && funcIs(calleeObj(call), "net", "UDPConn", "ReadFromUDP") {
			read = call
		}
	})
	// the read buffer holds the largest frame this library can itself encode: header 6 + tunnelling
	// header 4 + cEMI code 1 + additional info 1+255 + control/addresses 6 + transport unit 2+255 = 530
	if read != nil && rule == "C16.T1" {
		const largestFrame = 530
		size := int64(-1)
		if rs, ok := read.Common().Args[1].(*ssa.Slice); ok {
			if at, ok := deref(rs.X.Type()).Underlying().(*types.Array); ok {
				size = at.Len()
			}
			if mk, ok := rs.X.(*ssa.MakeSlice); ok {
				if k, isK := constInt(mk.Len); isK {
					size = k
				}
			}
		}
		if mk, ok := read.Common().Args[1].(*ssa.MakeSlice); ok {
			if k, isK := constInt(mk.Len); isK {
				size = k
			}
		}
		c.Decide(size >= largestFrame, rule, FuncName(udp)+" receive buffer holds the largest frame", p.InstrPos(read), fmt.Sprintf("%d bytes >= %d", size, largestFrame), fmt.Sprintf("the datagram buffer has %d bytes (unknown: -1); a well-formed frame of up to %d bytes (additional info and application data at their 255-byte limits) is truncated by the read and dropped", size, largestFrame))
	}
	instrsOf(udp, func(in ssa.Instruction) {
		if !staticCallTo(in, unpack) {
			return
		}
		okArg := false
		if sl, ok := in.(*ssa.Call).Common().Args[0].(*ssa.Slice); ok && read != nil && sl.Low == nil && sl.Max == nil {
			if e, ok := sl.High.(*ssa.Extract); ok && e.Tuple == ssa.Value(read) && e.Index == 0 {
				// same array as the read filled
				if rs, ok := read.Common().Args[1].(*ssa.Slice); ok && rs.X == sl.X && instrDominates(read, in) && innermostLoop(read.Block()) == innermostLoop(in.Block()) || sameLoop(read, in) && ok && rs.X == sl.X {
					okArg = true
				}
			}
		}
		c.Decide(okArg, rule, FuncName(udp)+" decodes exactly the datagram", p.InstrPos(in), "Unpack(buffer[:n]) with n the count of the ReadFromUDP that filled buffer", "the decoder is handed more (or other) bytes than the datagram just read: remnants of an earlier datagram influence the result")
	})
}

func sameLoop(a, b ssa.Instruction) bool {
	la, lb := innermostLoop(a.Block()), innermostLoop(b.Block())
	return la != nil && lb != nil && la.Header == lb.Header
}

func checkHostInfo(c *Check, p *Program) {
	a := resolveTunnel(c, p, "C16.anchor")
	if !a.complete() {
		return
	}
	hi := p.Func("knx/knxnet", "HostInfoFromAddress")
	var hostFn *ssa.Function
	for _, fn := range p.FuncsIn("knx") {
		if fn.Parent() == nil && recvTypeIs(fn, knxPath, "Tunnel") {
			instrsOf(fn, func(in ssa.Instruction) {
				if staticCallTo(in, hi) {
					hostFn = fn
				}
			})
		}
	}
	if hostFn == nil || hi == nil {
		c.Fail("C16.T5", "host-info function", "", "no Tunnel method calls knxnet.HostInfoFromAddress")
		return
	}
	hn := FuncName(hostFn)
	c.Analysed("functions", hn)
	c.Analysed("functions", FuncName(hi))
	proto := p.Field("knx/knxnet", "HostInfo", "Protocol")
	constVal := func(name string) int64 {
		cst, _ := p.Pkg("knx/knxnet").Scope().Lookup(name).(*types.Const)
		if cst == nil {
			return -1
		}
		v, _ := constInt(ssa.NewConst(cst.Val(), cst.Type()))
		return v
	}
	udp4, tcp4 := constVal("UDP4"), constVal("TCP4")
	checkHostInfoFromAddress(c, p, "C16.T5")
	c.Decide(udp4 == 1 && tcp4 == 2, "C16.T5", "protocol codes UDP4=1 TCP4=2", "", "KNXnet/IP host protocol codes", fmt.Sprintf("UDP4=%d TCP4=%d", udp4, tcp4))
	instrsOf(hostFn, func(in ssa.Instruction) {
		if !staticCallTo(in, hi) {
			return
		}
		facts := factsAt(in.Block())
		sl := anyFact(facts, func(f Cmp) bool {
			return cmpIsBool(f, true, func(v ssa.Value) bool { return isLoadOf(v, a.sendLocal) })
		})
		notTCP := anyFact(facts, func(f Cmp) bool { return isUseTCPFact(f, a, false) })
		c.Decide(sl && notTCP, "C16.T5", hn+" real endpoint only when configured and not TCP", p.InstrPos(in), "behind SendLocalAddress && !UseTCP", "the local endpoint is advertised although not configured (or on TCP, where the all-zero endpoint is required)")
		arg := in.(*ssa.Call).Common().Args[0]
		okA := false
		if call, ok := arg.(*ssa.Call); ok && call.Common().IsInvoke() && call.Common().Method.Name() == "LocalAddr" && isLoadOf(call.Common().Value, a.sock) {
			okA = true
		}
		c.Decide(okA, "C16.T5", hn+" advertises the socket's local address", p.InstrPos(in), "HostInfoFromAddress(conn.sock.LocalAddr())", "the advertised endpoint is not the socket's own local address")
	})
	// NAT branch: composites with only Protocol set, by network name
	netNameAt := func(b *ssa.BasicBlock, s string) bool {
		return anyFact(factsAt(b), func(f Cmp) bool {
			if f.Op != token.EQL {
				return false
			}
			k, ok := f.Y.(*ssa.Const)
			if !ok || k.Value == nil || k.Value.ExactString() != `"`+s+`"` {
				return false
			}
			call, ok := f.X.(*ssa.Call)
			return ok && call.Common().IsInvoke() && call.Common().Method.Name() == "Network"
		})
	}
	if hostFn.Signature.Results().Len() != 2 {
		// the endpoint is assembled in a local HostInfo of the connect function itself: judge the definitions of
		// that variable - the whole value from HostInfoFromAddress, or only its Protocol by network name - and
		// that every path to the request passes exactly one of them
		var cell *ssa.Alloc
		instrsOf(hostFn, func(in ssa.Instruction) {
			if st, ok := in.(*ssa.Store); ok {
				if ex, ok := st.Val.(*ssa.Extract); ok && ex.Index == 0 {
					if call, ok := ex.Tuple.(*ssa.Call); ok && call.Common().StaticCallee() == hi {
						cell, _ = st.Addr.(*ssa.Alloc)
					}
				}
			}
		})
		if cell == nil {
			c.Fail("C16.T5", hn+" endpoint variable", p.Pos(hostFn.Pos()), "the result of HostInfoFromAddress is not kept in a local HostInfo variable: the shape of the endpoint computation is not understood")
		} else {
			isDef := func(in ssa.Instruction) bool {
				st, ok := in.(*ssa.Store)
				if !ok {
					return false
				}
				if st.Addr == ssa.Value(cell) {
					_, isK := st.Val.(*ssa.Const)
					return !isK // the zero initialisation is no definition
				}
				fa, ok := st.Addr.(*ssa.FieldAddr)
				return ok && fa.X == ssa.Value(cell)
			}
			instrsOf(hostFn, func(in ssa.Instruction) {
				st, ok := in.(*ssa.Store)
				if !ok || !isDef(in) {
					return
				}
				if fa, ok := st.Addr.(*ssa.FieldAddr); ok {
					f := structField(fa.X.Type(), fa.Field)
					k, isK := constInt(st.Val)
					want := int64(-1)
					if netNameAt(st.Block(), "udp") {
						want = udp4
					} else if netNameAt(st.Block(), "tcp") {
						want = tcp4
					}
					c.Decide(f == proto && isK && want >= 0 && k == want, "C16.T5", hn+" all-zero endpoint with the right protocol", p.InstrPos(st), fmt.Sprintf("Protocol = %d on the matching network edge, nothing else set", k), "the NAT-mode endpoint sets other fields or the wrong protocol code for the socket's network")
				}
			})
			// the request's endpoints are loads of that variable, reached through exactly one definition
			for _, ss := range p.index().sockSends {
				if !ss.payloadIs("ConnReq") || ss.Fn != hostFn {
					continue
				}
				if al, ok := ss.PayVal.(*ssa.Alloc); ok {
					for f, sts := range fieldStores(al) {
						if !isNamed(f.Type(), knxnetPath, "HostInfo") {
							continue
						}
						for _, st := range sts {
							ld, isLd := st.Val.(*ssa.UnOp)
							okLd := isLd && ld.Op == token.MUL && ld.X == ssa.Value(cell)
							if !okLd && isLd && isLoadOf(ld, a.control) {
								// via conn.control, assigned from the endpoint variable before the request is built
								for _, cs := range p.index().stores[a.control] {
									if cs.Parent() != hostFn || !instrDominates(cs, st) {
										continue
									}
									if l2, ok := cs.Val.(*ssa.UnOp); ok && l2.Op == token.MUL && l2.X == ssa.Value(cell) {
										okLd = true
									}
								}
							}
							c.Decide(okLd, "C16.T5", hn+" request."+f.Name()+" carries the endpoint", p.InstrPos(st), "the endpoint variable", "the connect request's "+f.Name()+" is not the computed endpoint")
							min, max, okP := pathCountTo(hostFn.Blocks[0], st.Block(), isDef)
							c.Decide(okP && min == 1 && max == 1, "C16.T5", hn+" request."+f.Name()+" endpoint defined exactly once", p.InstrPos(st), "every path to the request passes one definition of the endpoint", fmt.Sprintf("paths to the request pass %d..%d definitions of the endpoint: the zero endpoint without a protocol code (or a mixture) can be advertised", min, max))
						}
					}
				}
			}
		}
	}
	if hostFn.Signature.Results().Len() == 2 {
		// the endpoint function is a helper: every connect request carries what a call of it returned - directly,
		// through a local, or through the tunnel's endpoint field when nothing else is ever stored there and the
		// store precedes the request on every path
		isHostCall := func(v ssa.Value) bool {
			ex, ok := v.(*ssa.Extract)
			if !ok || ex.Index != 0 {
				return false
			}
			call, ok := ex.Tuple.(*ssa.Call)
			return ok && call.Common().StaticCallee() == hostFn
		}
		nReq := 0
		seenReq := map[*ssa.Alloc]bool{}
		for _, ss := range p.index().sockSends {
			if !ss.payloadIs("ConnReq") {
				continue
			}
			al, ok := ss.PayVal.(*ssa.Alloc)
			if !ok || seenReq[al] {
				continue
			}
			seenReq[al] = true
			rn := FuncName(ss.Fn)
			for f, sts := range fieldStores(al) {
				if !isNamed(f.Type(), knxnetPath, "HostInfo") {
					continue
				}
				for _, st := range sts {
					nReq++
					okAll, why := true, ""
					for _, v := range loadValues(st.Val) {
						if isHostCall(v) {
							continue
						}
						if isLoadOf(v, a.control) {
							dominated := false
							for _, cs := range p.index().stores[a.control] {
								for _, sv := range loadValues(cs.Val) {
									if !isHostCall(sv) {
										okAll, why = false, "the tunnel's endpoint field is also assigned something other than the endpoint function's result at "+p.InstrPos(cs)
									}
								}
								if cs.Parent() == ss.Fn && instrDominates(cs, st) {
									dominated = true
								}
							}
							if !dominated && okAll {
								okAll, why = false, "no assignment of the endpoint function's result to the tunnel's endpoint field precedes the request on every path"
							}
							continue
						}
						okAll, why = false, "the value is neither the endpoint function's result nor the tunnel's endpoint field"
					}
					c.Decide(okAll, "C16.T5", rn+" request."+f.Name()+" carries the endpoint", p.InstrPos(st), "the result of "+hn+" computed for this request", "the connect request's "+f.Name()+" is not the endpoint computed for this request: "+why)
				}
			}
		}
		c.Floor("C16.T5", "endpoint fields of connect requests", nReq, 2)
	}
	for _, r := range returnsOf(hostFn) {
		if len(r.Results) != 2 || !p.returnMayBeNil(r, 1) {
			continue
		}
		vals := resultValues(r, 0)
		if u, ok := r.Results[0].(*ssa.UnOp); ok && u.Op == token.MUL {
			if al, ok := u.X.(*ssa.Alloc); ok {
				if _, isStruct := deref(al.Type()).Underlying().(*types.Struct); isStruct {
					vals = []ssa.Value{r.Results[0]}
				}
			}
		}
		for _, v := range vals {
			if ex, ok := v.(*ssa.Extract); ok {
				if call, ok := ex.Tuple.(*ssa.Call); ok && call.Common().StaticCallee() == hi {
					continue
				}
			}
			u, ok := v.(*ssa.UnOp)
			var al *ssa.Alloc
			if ok && u.Op == token.MUL {
				al, _ = u.X.(*ssa.Alloc)
			}
			if al == nil {
				c.Fail("C16.T5", hn+" NAT endpoint value", p.InstrPos(r), "successful return of something other than HostInfoFromAddress(..) or a HostInfo literal")
				continue
			}
			fs := fieldStores(al)
			onlyProto := len(fs) == 1 && len(fs[proto]) == 1
			want := int64(-1)
			facts := factsAt(r.Block())
			netName := func(s string) bool {
				return anyFact(facts, func(f Cmp) bool {
					if f.Op != token.EQL {
						return false
					}
					k, ok := f.Y.(*ssa.Const)
					if !ok || k.Value == nil || k.Value.ExactString() != `"`+s+`"` {
						return false
					}
					call, ok := f.X.(*ssa.Call)
					return ok && call.Common().IsInvoke() && call.Common().Method.Name() == "Network"
				})
			}
			if netName("udp") {
				want = udp4
			} else if netName("tcp") {
				want = tcp4
			}
			got := int64(-2)
			if onlyProto {
				got, _ = constInt(fs[proto][0].Val)
			}
			c.Decide(onlyProto && want >= 0 && got == want, "C16.T5", hn+" all-zero endpoint with the right protocol", p.InstrPos(r), fmt.Sprintf("HostInfo{Protocol: %d} on the matching network edge", got), "the NAT-mode endpoint sets other fields or the wrong protocol code for the socket's network")
		}
	}
	// HostInfoFromAddress itself
	udpEdge, tcpEdge := false, false
	instrsOf(hi, func(in ssa.Instruction) {
		st, ok := in.(*ssa.Store)
		if !ok || fieldOfAddr(st.Addr) != proto {
			return
		}
		k, _ := constInt(st.Val)
		facts := factsAt(st.Block())
		isNet := func(s string) bool {
			if anyFact(facts, func(f Cmp) bool {
				k, ok := f.Y.(*ssa.Const)
				return f.Op == token.EQL && ok && k.Value != nil && k.Value.ExactString() == `"`+s+`"`
			}) {
				return true
			}
			// a case with several names (`case "udp", "udp4":`): the block is entered by one edge per name;
			// every edge carries an equality with the name or its IPv4-only spelling, one of them the name itself
			names := map[string]bool{}
			for _, pred := range st.Block().Preds {
				got := ""
				for _, f := range append(factsAt(pred), edgeFacts(pred, st.Block())...) {
					if kc, ok := f.Y.(*ssa.Const); ok && f.Op == token.EQL && kc.Value != nil && kc.Value.Kind() == constant.String {
						got = constant.StringVal(kc.Value)
					}
				}
				if got != s && got != s+"4" {
					return false
				}
				names[got] = true
			}
			return names[s]
		}
		if isNet("udp") && k == udp4 {
			udpEdge = true
		}
		if isNet("tcp") && k == tcp4 {
			tcpEdge = true
		}
	})
	if !(udpEdge && tcpEdge) {
		// the code chosen first and stored once: Protocol = phi(UDP4 on the "udp" edge, TCP4 on the "tcp" edge)
		instrsOf(hi, func(in ssa.Instruction) {
			st, ok := in.(*ssa.Store)
			if !ok || fieldOfAddr(st.Addr) != proto {
				return
			}
			ph, ok := st.Val.(*ssa.Phi)
			if !ok {
				return
			}
			for i, e := range ph.Edges {
				k, isK := constInt(e)
				if !isK {
					continue
				}
				pred := ph.Block().Preds[i]
				facts := append(factsAt(pred), edgeFacts(pred, ph.Block())...)
				isNet := func(sv string) bool {
					return anyFact(facts, func(f Cmp) bool {
						kc, ok := f.Y.(*ssa.Const)
						return f.Op == token.EQL && ok && kc.Value != nil && kc.Value.ExactString() == `"`+sv+`"`
					})
				}
				if isNet("udp") && k == udp4 {
					udpEdge = true
				}
				if isNet("tcp") && k == tcp4 {
					tcpEdge = true
				}
			}
		})
	}
	if !(udpEdge && tcpEdge) {
		// the mapping in a helper: Protocol = first result of h(address.Network()), h returning the code by name
		instrsOf(hi, func(in ssa.Instruction) {
			st, ok := in.(*ssa.Store)
			if !ok || fieldOfAddr(st.Addr) != proto {
				return
			}
			ex, ok := st.Val.(*ssa.Extract)
			if !ok || ex.Index != 0 {
				return
			}
			call, ok := ex.Tuple.(*ssa.Call)
			if !ok || call.Common().StaticCallee() == nil || !p.InModule(call.Common().StaticCallee()) || len(call.Common().Args) != 1 {
				return
			}
			if ac, isC := call.Common().Args[0].(*ssa.Call); !isC || !ac.Common().IsInvoke() || ac.Common().Method.Name() != "Network" {
				return
			}
			h := call.Common().StaticCallee()
			for _, r := range returnsOf(h) {
				if len(r.Results) == 0 {
					continue
				}
				k, isK := constInt(r.Results[0])
				if !isK {
					continue
				}
				facts := factsAt(r.Block())
				isNet := func(sv string) bool {
					return anyFact(facts, func(f Cmp) bool {
						kc, ok := f.Y.(*ssa.Const)
						return f.Op == token.EQL && ok && kc.Value != nil && kc.Value.ExactString() == `"`+sv+`"` && f.X == ssa.Value(h.Params[0])
					})
				}
				if isNet("udp") && k == udp4 {
					udpEdge = true
				}
				if isNet("tcp") && k == tcp4 {
					tcpEdge = true
				}
			}
		})
	}
	c.Decide(udpEdge && tcpEdge, "C16.T5", FuncName(hi)+" maps udp->UDP4, tcp->TCP4", p.Pos(hi.Pos()), "protocol set by network name", "HostInfoFromAddress does not map the network name to the protocol code")
	usesTo4, storesPort := false, false
	instrsOf(hi, func(in ssa.Instruction) {
		if call, ok := in.(*ssa.Call); ok && funcIs(calleeObj(call), "net", "IP", "To4") {
			usesTo4 = true
		}
		if st, ok := in.(*ssa.Store); ok {
			if f := fieldOfAddr(st.Addr); f != nil && f.Name() == "Port" {
				storesPort = true
			}
		}
	})
	c.Decide(usesTo4 && storesPort, "C16.T5", FuncName(hi)+" copies IPv4 address and port", p.Pos(hi.Pos()), "To4() and Port stored", "address or port is not taken from the socket address")
}

// checkSocketSend: both Socket.Send implementations allocate a fresh buffer of
// Size(payload), pack into it and hand exactly that slice to one write call on
// every path (shared by C15.3 and C16.T3).
func checkSocketSend(c *Check, p *Program, rule string) {
	sizeFn, packFn := p.Func("knx/knxnet", "Size"), p.Func("knx/knxnet", "Pack")
	nSend := 0
	for _, typ := range []string{"TunnelSocket", "RouterSocket"} {
		fn := p.Method("knx/knxnet", typ, "Send")
		if fn == nil {
			c.Fail(rule, "knxnet."+typ+".Send", "", "method not found")
			continue
		}
		nSend++
		name := FuncName(fn)
		c.Analysed("functions", name)
		var writes []*ssa.Call
		instrsOf(fn, func(in ssa.Instruction) {
			if x, ok := in.(*ssa.Call); ok {
				if o := calleeObj(x); o != nil && (o.Name() == "Write" || o.Name() == "WriteToUDP" || o.Name() == "WriteTo" || o.Name() == "WriteMsgUDP") {
					writes = append(writes, x)
				}
			}
		})
		pb := findPackedBuf(fn, fn.Params[1], sizeFn, packFn, 0)
		mk, pack := pb.buf, pb.at
		c.Decide(pb.okMk, rule, name+" fresh buffer of Size(payload)", p.Pos(fn.Pos()), "make([]byte, Size(payload)) per call"+pb.via, "Send does not allocate a fresh buffer of exactly Size(payload) per call (a shared buffer is torn by concurrent senders; another size breaks the header's total length)")
		c.Decide(pb.okPack, rule, name+" packs the payload into that buffer", p.Pos(fn.Pos()), "Pack(buffer, payload)"+pb.via, "the frame is not packed into the freshly allocated buffer")
		// concurrent senders share nothing but the connection: no store to the socket, no package-level state
		shared := ""
		instrsOf(fn, func(in ssa.Instruction) {
			switch x := in.(type) {
			case *ssa.Store:
				if pa := addrPath(x.Addr); pa.Root == ssa.Value(fn.Params[0]) && len(pa.Sels) > 0 {
					shared = "stores to the socket's field " + pa.String() + " at " + p.InstrPos(x)
				}
				if _, isG := x.Addr.(*ssa.Global); isG {
					shared = "stores to a package-level variable at " + p.InstrPos(x)
				}
			case *ssa.UnOp:
				if f := loadedField(x); f != nil && x.Op == token.MUL {
					if pa := addrPath(x.X); pa.Root == ssa.Value(fn.Params[0]) && f.Name() != "conn" && f.Name() != "addr" && !onlyAtomicUses(x, 0) {
						shared = "reads the socket's field " + f.Name() + " (state shared between concurrent senders) at " + p.InstrPos(x)
					}
				}
			}
		})
		c.Decide(shared == "", rule, name+" shares only the connection between senders", p.Pos(fn.Pos()), "reads conn/addr, writes nothing of the socket", "Send "+shared+": concurrent senders can tear each other's frames")
		c.Exact(rule, name+" write calls", len(writes), 1, p.Pos(fn.Pos()))
		for _, w := range writes {
			args := callArgs(w)
			okW := len(args) >= 1 && mk != nil && args[0] == mk && pack != nil && instrDominates(pack, w)
			c.Decide(okW, rule, name+" writes the whole buffer once", p.InstrPos(w), "the packed slice itself, after Pack", "the bytes written are not exactly the packed buffer (re-sliced, written before packing, or another slice)")
			min, max := pathCount(fn.Blocks[0], func(in ssa.Instruction) bool { return in == ssa.Instruction(w) }, nil)
			c.Decide(min == 1 && max == 1, rule, name+" one write on every path", p.InstrPos(w), "exactly one", fmt.Sprintf("%d..%d writes per Send", min, max))
			c.Decide(!inAnyLoop(w.Block()), rule, name+" write not in a loop", p.InstrPos(w), "single contiguous write", "the frame is written piecewise in a loop: concurrent senders interleave")
		}
	}
	c.Floor(rule, "socket Send implementations", nSend, 2)

}

// packedBuf: the value in fn holding a fresh make([]byte, Size(payload)) that
// Pack(buf, payload) filled, and the instruction after which it is filled.
type packedBuf struct {
	buf          ssa.Value
	at           ssa.Instruction
	okMk, okPack bool
	via          string
}

// findPackedBuf recognises the allocation+pack pair in fn directly, or a call
// of a module function that performs the pair on the same payload and returns
// the buffer on every path (knxnet.AllocAndPack).
func findPackedBuf(fn *ssa.Function, payload ssa.Value, sizeFn, packFn *ssa.Function, depth int) packedBuf {
	var mk *ssa.MakeSlice
	var pack *ssa.Call
	instrsOf(fn, func(in ssa.Instruction) {
		switch x := in.(type) {
		case *ssa.MakeSlice:
			mk = x
		case *ssa.Call:
			if x.Common().StaticCallee() == packFn {
				pack = x
			}
		}
	})
	if mk != nil || pack != nil {
		r := packedBuf{}
		if mk != nil {
			r.buf = mk
			l := mk.Len
			if cv, ok := l.(*ssa.Convert); ok {
				l = cv.X
			}
			if call, ok := l.(*ssa.Call); ok && call.Common().StaticCallee() == sizeFn && call.Common().Args[0] == payload {
				r.okMk = true
			}
		}
		if pack != nil {
			r.at = pack
		}
		r.okPack = pack != nil && mk != nil && pack.Common().Args[0] == ssa.Value(mk) && pack.Common().Args[1] == payload
		return r
	}
	if depth > 1 {
		return packedBuf{}
	}
	var res packedBuf
	instrsOf(fn, func(in ssa.Instruction) {
		call, ok := in.(*ssa.Call)
		if !ok {
			return
		}
		g := call.Common().StaticCallee()
		if g == nil || g.Blocks == nil || g.Pkg == nil || !strings.HasPrefix(g.Pkg.Pkg.Path(), modPath) {
			return
		}
		idx := -1
		for i, a := range call.Common().Args {
			if a == payload {
				idx = i
			}
		}
		if idx < 0 || idx >= len(g.Params) {
			return
		}
		sub := findPackedBuf(g, g.Params[idx], sizeFn, packFn, depth+1)
		if !sub.okMk || !sub.okPack {
			return
		}
		rets := returnsOf(g)
		for _, r := range rets {
			if len(r.Results) != 1 || r.Results[0] != sub.buf || !instrDominates(sub.at, r) {
				return
			}
		}
		if len(rets) == 0 {
			return
		}
		res = packedBuf{buf: call, at: call, okMk: true, okPack: true, via: " (in " + FuncName(g) + ", which returns the packed buffer on every path)"}
	})
	return res
}

// checkHostInfoFromAddress: the endpoint computed from a socket address is that
// address - the four octets of its IPv4 form and its port read as a 16-bit
// decimal number - on every path that reports success.
func checkHostInfoFromAddress(c *Check, p *Program, rule string) {
	f := p.Func("knx/knxnet", "HostInfoFromAddress")
	if f == nil {
		c.Fail(rule, "knxnet.HostInfoFromAddress", "", "not found")
		return
	}
	name := FuncName(f)
	var parse *ssa.Call
	var cp *ssa.Call
	var portSt *ssa.Store
	portF := p.Field("knx/knxnet", "HostInfo", "Port")
	addrF := p.Field("knx/knxnet", "HostInfo", "Address")
	instrsOf(f, func(in ssa.Instruction) {
		switch x := in.(type) {
		case *ssa.Call:
			if cal := x.Common().StaticCallee(); cal != nil && cal.String() == "strconv.ParseUint" {
				parse = x
			}
			if builtinName(x) == "copy" {
				if sl, ok := x.Common().Args[0].(*ssa.Slice); ok && fieldOfAddr(sl.X) == addrF {
					cp = x
				}
			}
		case *ssa.Store:
			if fieldOfAddr(x.Addr) == portF {
				portSt = x
			}
		}
	})
	okParse := false
	if parse != nil {
		b, okb := constInt(parse.Common().Args[1])
		w, okw := constInt(parse.Common().Args[2])
		okParse = okb && okw && b == 10 && w == 16
	}
	c.Decide(okParse, rule, name+" reads the port as a 16-bit decimal number", p.Pos(f.Pos()), "strconv.ParseUint(port, 10, 16)", "the port is not parsed as a decimal number of 16 bits: ports of the upper range (where local ports are allocated) are rejected or misread")
	okPort := false
	if portSt != nil && parse != nil {
		if ex, ok := stripAllConv(portSt.Val).(*ssa.Extract); ok && ex.Tuple == ssa.Value(parse) && ex.Index == 0 {
			okPort = true
		}
	}
	c.Decide(okPort, rule, name+" Port is the parsed port", p.Pos(f.Pos()), "Port = Port(parsed value)", "the Port of the endpoint is not the parsed port of the address")
	okAddr := false
	if cp != nil {
		if call, ok := stripAllConv(cp.Common().Args[1]).(*ssa.Call); ok && call.Common().StaticCallee() != nil && call.Common().StaticCallee().String() == "(net.IP).To4" {
			okAddr = true
		}
	}
	c.Decide(okAddr, rule, name+" Address is the IPv4 form of the address", p.Pos(f.Pos()), "copy(Address[:], ip.To4())", "the Address of the endpoint is not the four octets of the IPv4 form")
	n := 0
	for _, r := range returnsOf(f) {
		if len(r.Results) < 2 || !p.returnMayBeNil(r, 1) {
			continue
		}
		n++
		mnA, _, okA := pathCountTo(f.Blocks[0], r.Block(), func(in ssa.Instruction) bool { return cp != nil && in == ssa.Instruction(cp) })
		mnP, _, okP := pathCountTo(f.Blocks[0], r.Block(), func(in ssa.Instruction) bool { return portSt != nil && in == ssa.Instruction(portSt) })
		c.Decide(okA && okP && mnA >= 1 && mnP >= 1, rule, name+" success only with address and port set", p.InstrPos(r), "every path to this return sets both", "the function can report success with an endpoint whose address or port was not set: the request advertises 0.0.0.0:0 although the real endpoint was asked for")
	}
	c.Floor(rule, "successful returns of "+name, n, 1)
}
