package main

import (
	"fmt"
	"go/types"
	"strings"

	"golang.org/x/tools/go/ssa"
)

// Decode side of the layout interpreter: util.Unpack / util.UnpackSome are
// modelled item by item over the symbolic input (region "in").  A one- to
// eight-octet item reads big-endian from the current offset into the cell or
// field the item points to; a byte-slice item of constant length is filled
// octet by octet; an Unpackable item is interpreted by its own Unpack on the
// rest of the input.  The call forks into its successful outcome (all items
// present: len(input) >= offset reached) and one failing outcome whose count
// and partial writes are not followed (failing paths are never compared).

type decCont struct {
	st  *lpath
	off *Lin
}

func (li *layoutInterp) execUnpackGeneric(fn *ssa.Function, st *lpath, call *ssa.Call, some bool) []*lpath {
	cc := call.Common()
	wd, _, _ := typeWidth(types.Typ[types.Uint], li.p.Arch)
	src, ok := li.eval(st, cc.Args[0]).(avSlice)
	if !ok || src.region != "in" {
		st.notes = append(st.notes, "generic unpacker applied to something other than the input at "+li.p.InstrPos(call))
		st.vals[call] = avTuple{avInt{bv: bvTop(wd)}, avOpaque{"err"}}
		return nil
	}
	var items []AV
	if some {
		its, ok2 := li.varargs(st, cc.Args[1])
		if !ok2 {
			st.notes = append(st.notes, "UnpackSome with operands that are not understood at "+li.p.InstrPos(call))
			st.vals[call] = avTuple{avInt{bv: bvTop(wd)}, avOpaque{"err"}}
			return nil
		}
		items = its
	} else {
		items = []AV{li.eval(st, cc.Args[1])}
	}
	fail := st.clone()
	fail.conds = append(fail.conds, "-decoded "+li.p.InstrPos(call))
	fail.vals[call] = avTuple{avInt{bv: bvSrc("partial count", wd)}, avOpaque{"err"}}
	conts := []decCont{{st, src.off}}
	for _, it := range items {
		var next []decCont
		for _, c := range conts {
			next = append(next, li.unpackItem(c.st, src, c.off, it, call)...)
		}
		conts = next
	}
	var out []*lpath
	for _, c := range conts {
		n := c.off.Sub(src.off)
		// all items present
		if src.len != nil {
			if sat, _ := c.st.env.refine(n, "<=", src.len); !sat {
				continue
			}
			if !c.st.env.le(n, src.len) || true {
				c.st.conds = append(c.st.conds, fmt.Sprintf("%s >= %s", src.len, n))
			}
		}
		c.st.vals[call] = avTuple{newInt(n, wd, false, "decoded"), avOpaque{"nil"}}
		out = append(out, c.st)
	}
	return append(out, fail)
}

func (li *layoutInterp) unpackItem(st *lpath, src avSlice, off *Lin, item AV, call *ssa.Call) []decCont {
	it, ok := item.(avIface)
	if !ok || it.typ == nil {
		st.notes = append(st.notes, "item of the generic unpacker is not a boxed value at "+li.p.InstrPos(call))
		return nil
	}
	rel := off.Sub(src.off) // index relative to the slice value
	if pt, isP := it.typ.(*types.Pointer); isP {
		if w := primWidth(pt.Elem()); w > 0 {
			bv := make(BV, 0, 8*w)
			// big endian: the first octet carries the most significant bits (BV index 0 = least significant)
			parts := make([]BV, w)
			for i := int64(0); i < w; i++ {
				parts[i] = li.readElem(st, src, rel.Add(linConst(i))).resize(8, false)
			}
			for i := w - 1; i >= 0; i-- {
				bv = append(bv, parts[i]...)
			}
			val := avInt{bv: bv}
			if w == 1 {
				// one input octet is also a number in 0..255 (as a direct load data[k] is)
				if k, isK := off.IsConst(); isK {
					sym := fmt.Sprintf("%s[%d]", src.name, k)
					if _, has := st.env[sym]; !has {
						st.env[sym] = iv{0, 255}
					}
					val.lin = linSym(sym)
				}
			}
			li.storeTo(st, it.inner, val, call)
			return []decCont{{st, off.Add(linConst(w))}}
		}
		// Unpackable
		if nt := namedOf(pt.Elem()); nt != nil {
			if callee := methodOf(li.p, nt, "Unpack"); callee != nil && len(callee.Blocks) > 0 && li.depth < 4 {
				return li.unpackNested(st, src, off, it.inner, callee, call)
			}
		}
		st.notes = append(st.notes, "item of type "+it.typ.String()+" of the generic unpacker is not followed at "+li.p.InstrPos(call))
		return nil
	}
	if _, named := it.typ.(*types.Named); !named && isByteSlice(it.typ) {
		dst, okd := it.inner.(avSlice)
		if !okd || dst.len == nil {
			st.notes = append(st.notes, "byte-slice item of unknown length at "+li.p.InstrPos(call))
			return nil
		}
		n, isK := dst.len.IsConst()
		if !isK || n < 0 || n > 64 {
			st.notes = append(st.notes, "byte-slice item of non-constant length at "+li.p.InstrPos(call))
			return nil
		}
		for i := int64(0); i < n; i++ {
			b := li.readElem(st, src, rel.Add(linConst(i))).resize(8, false)
			li.storeElem(st, dst, linConst(i), avInt{bv: b})
		}
		return []decCont{{st, off.Add(linConst(n))}}
	}
	st.notes = append(st.notes, "item of type "+it.typ.String()+" of the generic unpacker is not followed at "+li.p.InstrPos(call))
	return nil
}

// storeTo mirrors a Store through a pointer value.
func (li *layoutInterp) storeTo(st *lpath, addr AV, val AV, at ssa.Instruction) {
	switch a := addr.(type) {
	case avAddr:
		if a.cell != "" {
			st.mem[a.cell] = val
		} else {
			st.effect = append(st.effect, "store to "+a.path+" at "+li.p.InstrPos(at))
			st.mem["out:"+a.path] = val
		}
	case avPath:
		st.effect = append(st.effect, "store to "+a.path+" at "+li.p.InstrPos(at))
		st.mem["out:"+a.path] = val
	default:
		st.notes = append(st.notes, "store through a pointer that is not followed at "+li.p.InstrPos(at))
	}
}

// storeElem: element idx of a destination slice that denotes a local array,
// a fresh slice or an array field of the decoded structure.
func (li *layoutInterp) storeElem(st *lpath, dst avSlice, idx *Lin, val AV) {
	if key, ok := elemKey(dst, idx); ok {
		if strings.HasPrefix(dst.region, "arr:") && !strings.HasPrefix(dst.region, "arr:c") {
			key = "out:" + key
		}
		st.mem[key] = val
		return
	}
	if strings.HasPrefix(dst.region, "f:") {
		if k, ok := dst.off.Add(idx).IsConst(); ok {
			st.mem[fmt.Sprintf("out:%s[%d]", strings.TrimPrefix(dst.region, "f:"), k)] = val
		}
	}
}

// unpackNested interprets the element's own Unpack on the rest of the input.
func (li *layoutInterp) unpackNested(st *lpath, src avSlice, off *Lin, recv AV, callee *ssa.Function, call *ssa.Call) []decCont {
	rest := avSlice{region: "in", off: off, name: src.name}
	if src.len != nil {
		rest.len = src.len.Sub(off.Sub(src.off))
	}
	sub := &layoutInterp{p: li.p, depth: li.depth + 1}
	baseMem := map[string]AV{}
	for k, v := range st.mem {
		baseMem[k] = v
	}
	baseAssume := map[string]bool{}
	for k, v := range st.assume {
		baseAssume[k] = v
	}
	base := &lpath{assume: baseAssume, env: st.env.clone(), conds: append([]string{}, st.conds...), vals: map[ssa.Value]AV{}, mem: baseMem, writes: append([]bufWrite{}, st.writes...), notes: append([]string{}, st.notes...), effect: append([]string{}, st.effect...), nfresh: st.nfresh}
	var out []decCont
	for _, r := range sub.run(callee, []AV{recv, rest}, base) {
		tup, ok := r.ret.(avTuple)
		if !ok || len(tup) != 2 {
			continue
		}
		if o, isO := tup[1].(avOpaque); !isO || o.desc != "nil" {
			continue // the element failed: covered by the call's failing outcome
		}
		n, _ := tup[0].(avInt)
		if n.lin == nil {
			r.notes = append(r.notes, "element decoder with a count that is not linear at "+li.p.InstrPos(call))
			continue
		}
		ns := st.clone()
		ns.env, ns.conds, ns.writes, ns.notes, ns.effect, ns.nfresh = r.env, r.conds, r.writes, r.notes, r.effect, r.nfresh
		ns.mem, ns.assume = r.mem, r.assume
		out = append(out, decCont{ns, off.Add(n.lin)})
	}
	return out
}
