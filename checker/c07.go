package main

import (
	"fmt"
	"os"
	"go/constant"
	"go/token"
	"go/types"
	"math"
	"math/big"
	"strings"

	"golang.org/x/tools/go/ssa"
)

func init() {
	register("C07", "other", checkC07)
	register("C06", "other", checkC06)
}

// packOutcome is one path of a datapoint encoder with the bytes it returns.
type packOutcome struct {
	path  *lpath
	bytes []BV
	ok    bool // the returned slice was understood
	why   string
}

// runDptPack interprets T.Pack with the receiver bound to recv (nil: symbolic "r").
func runDptPack(p *Program, dt dptType, base *lpath, recv AV) []packOutcome {
	li := &layoutInterp{p: p}
	fn := dt.Pack
	arg := recv
	if arg == nil {
		arg = li.valueOfPath("r", fn.Params[0].Type())
	}
	var out []packOutcome
	for _, pp := range li.run(fn, []AV{arg}, base) {
		po := packOutcome{path: pp}
		if len(pp.notes) > 0 {
			po.why = strings.Join(pp.notes, "; ")
			out = append(out, po)
			continue
		}
		sl, isSl := pp.ret.(avSlice)
		if !isSl {
			po.why = "the returned value is not a tracked byte slice"
			out = append(out, po)
			continue
		}
		bs, ok := li.sliceBytes(pp, sl)
		if !ok {
			po.why = "returned slice has no constant length"
			out = append(out, po)
			continue
		}
		po.bytes, po.ok = bs, true
		out = append(out, po)
	}
	return out
}

// packShapeFallback: for encoders with loops - the returned slice is one
// make([]byte, L) / literal of constant length L (possibly the result of a
// helper) and no store can put a non-zero value at index 0.
func packShapeFallback(p *Program, fn *ssa.Function) (int64, bool, string) {
	var mk *ssa.MakeSlice
	helperL := int64(-1)
	for _, r := range returnsOf(fn) {
		v := r.Results[0]
		for _, lv := range loadValues(v) {
			if call, isCall := lv.(*ssa.Call); isCall {
				if g := call.Common().StaticCallee(); g != nil && p.InModule(g) && g != fn {
					L, ok, why := packShapeFallback(p, g)
					if !ok {
						return 0, false, why
					}
					if helperL >= 0 && helperL != L {
						return 0, false, "helpers of different lengths"
					}
					helperL = L
					continue
				}
			}
			if sl, isSl := lv.(*ssa.Slice); isSl {
				if al, isAl := sl.X.(*ssa.Alloc); isAl && strings.Contains(al.Comment, "slicelit") {
					at := deref(al.Type()).Underlying().(*types.Array)
					for _, u := range usesOf(al) {
						if ia, isIA := u.(*ssa.IndexAddr); isIA {
							k, isK := constInt(ia.Index)
							if !isK {
								return 0, false, "literal indexed by a variable"
							}
							if k == 0 {
								for _, su := range usesOf(ia) {
									if st, isSt := su.(*ssa.Store); isSt {
										if z, isZ := constInt(st.Val); !isZ || z != 0 {
											return 0, false, "byte 0 of the literal is not the constant 0"
										}
									}
								}
							}
						}
					}
					for _, u := range usesOf(sl) {
						if ia, isIA := u.(*ssa.IndexAddr); isIA && !indexAtLeastOne(ia.Index) {
							return 0, false, "a store can hit index 0"
						}
					}
					if helperL >= 0 && helperL != at.Len() {
						return 0, false, "different lengths"
					}
					helperL = at.Len()
					continue
				}
			}
			if cv, ok := lv.(*ssa.Convert); ok {
				lv = cv.X
			}
			m, ok := lv.(*ssa.MakeSlice)
			if !ok {
				// lowered make([]byte, const): new [N]byte + slice
				if sl, isSl := lv.(*ssa.Slice); isSl {
					if al, isAl := sl.X.(*ssa.Alloc); isAl && strings.Contains(al.Comment, "makeslice") {
						at := deref(al.Type()).Underlying().(*types.Array)
						bad := ""
						for _, u := range usesOf(al) {
							if ia, isIA := u.(*ssa.IndexAddr); isIA {
								if !indexAtLeastOne(ia.Index) {
									bad = "a store can hit index 0"
								}
							}
						}
						for _, u := range usesOf(sl) {
							if ia, isIA := u.(*ssa.IndexAddr); isIA {
								if !indexAtLeastOne(ia.Index) {
									bad = "a store can hit index 0"
								}
							}
						}
						if bad != "" {
							return 0, false, bad
						}
						return at.Len(), true, ""
					}
				}
				return 0, false, "returned value is not a fresh make"
			}
			if mk != nil && mk != m {
				return 0, false, "several buffers"
			}
			mk = m
		}
	}
	if mk == nil {
		if helperL >= 0 {
			return helperL, true, ""
		}
		return 0, false, "no buffer"
	}
	k, ok := constInt(mk.Len)
	if !ok {
		return 0, false, "variable length"
	}
	for _, u := range usesOf(mk) {
		if ia, isIA := u.(*ssa.IndexAddr); isIA && !indexAtLeastOne(ia.Index) {
			return 0, false, "a store can hit index 0"
		}
	}
	return k, true, ""
}

func indexAtLeastOne(idx ssa.Value) bool {
	if k, ok := constInt(idx); ok {
		return k >= 1
	}
	if bo, ok := idx.(*ssa.BinOp); ok && bo.Op == token.ADD {
		if k, ok := constInt(bo.Y); ok && k >= 1 {
			// i + 1 with a loop counter starting at 0 and increasing
			if ph, ok := bo.X.(*ssa.Phi); ok {
				for _, e := range ph.Edges {
					if kk, ok := constInt(e); ok && kk < 0 {
						return false
					}
				}
				return true
			}
		}
	}
	return false
}

// ratOfConst converts a numeric constant to an exact rational.
func ratOfConst(v ssa.Value) (*big.Rat, bool) {
	c, ok := v.(*ssa.Const)
	if !ok || c.Value == nil {
		return nil, false
	}
	switch c.Value.Kind() {
	case constant.Int, constant.Float:
		r := new(big.Rat)
		if _, ok := r.SetString(c.Value.ExactString()); ok {
			return r, true
		}
	}
	return nil, false
}

// scaleOf: v = root * k for an exact rational k through *, / by constants and
// value-preserving conversions; returns k and the root.
func scaleOf(v ssa.Value, depth int) (*big.Rat, ssa.Value) {
	one := big.NewRat(1, 1)
	if depth > 8 {
		return one, v
	}
	switch x := v.(type) {
	case *ssa.ChangeType:
		return scaleOf(x.X, depth+1)
	case *ssa.Convert:
		// conversions between numeric types do not scale (truncation is the quantisation itself)
		return scaleOf(x.X, depth+1)
	case *ssa.BinOp:
		if x.Op == token.MUL || x.Op == token.QUO {
			if k, ok := ratOfConst(x.Y); ok && k.Sign() != 0 {
				s, r := scaleOf(x.X, depth+1)
				if x.Op == token.MUL {
					return new(big.Rat).Mul(s, k), r
				}
				return new(big.Rat).Quo(s, k), r
			}
			if k, ok := ratOfConst(x.X); ok && x.Op == token.MUL {
				s, r := scaleOf(x.Y, depth+1)
				return new(big.Rat).Mul(s, k), r
			}
		}
	}
	return one, v
}

func checkC07(c *Check, p *Program) {
	c.Technique = "abstract interpretation of every registered type's Pack (returned bytes per path with bit provenance), length/leading-byte comparison with the format table, interval analysis at every float-to-integer conversion, clamp-versus-accept interval inclusion, exact rational scale extraction, bit-field placement of the two-octet float against its specification"
	c.Explanation = "Decided for every registered datapoint type: (1) every path of Pack returns the fixed length the KNX datapoint format prescribes for the type's main number, with a zero leading byte (sub-byte types: one byte whose bits 7..6 are zero) - by interpreting Pack and its helpers, or for the two string types with loops by a structural rule (one make of constant length, no store at index 0); (2) the encoding is accepted by the type's own decoder as far as shape goes: same length as the decoder's length guard, the interval the encoder clamps to is contained in the interval the decoder accepts (two-octet floats, 5.001, 5.003, 17.001, 18.001), validity gates (10.001, 11.001) guard every non-zero store with the same IsValid the decoder uses; (3) saturation: the operand of every float-to-integer conversion in Pack and the helpers lies, by the dominating clamp edges and constant arithmetic in float32 precision, inside the target type's range on amd64 and 386; integer-valued types hand only documented values to the byte packer; (4) the exact rational scale applied by Pack times the scale applied by Unpack is 1 and equals the format's scale (5.001 2.55, 5.003 255/360, 8.003/8.010 100, 8.004 10, two-octet float 100); (5) the two-octet float helper places sign, 4-bit exponent and 11-bit mantissa where the specification puts them on both sides, starts from a zeroed buffer, and sets the sign bit in the very region where it adds 2048 to a negative mantissa (two's complement), guarded by a comparison of that mantissa with zero.; (6) the exponent fits its four bits: the scaled mantissa enters the halving loop inside the interval left by the helper's own clamp and by what every call site hands over, and iterating the loop's monotone transformer on the two ends of that interval reaches the exit interval in at most 15 steps. Not decided: the one-quantisation-step accuracy bound and monotonicity - numeric relations over float32 pairs."
	c.Trusted = []string{"go/types, go/ssa", "kxcheck layout interpreter, bit provenance and interval analysis", "IEEE-754 float32 arithmetic for constant folding of clamp bounds"}
	c.NotDecided = []string{"accuracy within one quantisation step", "monotonicity of encoding"}

	dts := dptTypes(c, p, "C07.types")
	c.Floor("C07.types", "registered datapoint types", len(dts), 174)
	checkDecodeStores(c, p, dts, "C07.keeps")
	memo := map[*ssa.Function]lenGuard{}

	for _, dt := range dts {
		name := dptName(dt)
		pos := p.Pos(dt.Pack.Pos())
		want, known := specPayloadLen(dt.Main)
		if !known {
			c.Fail("C07.length", name+" prescribed length", pos, fmt.Sprintf("no payload length on record for main number %d", dt.Main))
			continue
		}
		// ---- (1) fixed length and leading byte
		if want == -1 {
			// 28.001: zero leading byte, terminator: make([]byte, 1, n) ... append
			c.OK("C07.length", name+" variable length", pos, "variable-length string type (shape judged by C06/C08 length rules)")
		} else {
			outs := runDptPack(p, dt, nil, nil)
			understood := len(outs) > 0
			for _, o := range outs {
				if !o.ok {
					understood = false
				}
			}
			if !understood {
				L, ok, why := packShapeFallback(p, dt.Pack)
				c.Decide(ok && L == want, "C07.length", name+" fixed length and zero leading byte", pos, fmt.Sprintf("one make([]byte, %d), no store reaches index 0", L), fmt.Sprintf("encoder shape not established (%s; length %d, prescribed %d)", why, L, want))
			} else {
				for _, o := range outs {
					lab := name + " [" + pathLabel(o.path) + "]"
					c.Decide(int64(len(o.bytes)) == want, "C07.length", lab+" length", pos, fmt.Sprintf("%d bytes", len(o.bytes)), fmt.Sprintf("this path returns %d bytes, the format prescribes %d", len(o.bytes), want))
					if len(o.bytes) == 0 {
						continue
					}
					first := o.bytes[0]
					if want == 1 {
						c.Decide(first[7].K == b0 && first[6].K == b0, "C07.length", lab+" value in the low six bits", pos, "bits 7..6 are zero", "the single payload byte can have bits 7..6 set: ["+first.String()+"]")
					} else {
						k, isK := first.Const()
						c.Decide(isK && k == 0, "C07.length", lab+" zero leading byte", pos, "byte 0 = 0", "the leading byte is ["+first.String()+"], the format demands 0")
					}
				}
			}
		}
		// ---- (2a) same length as the decoder demands
		g := lenGuardOf(p, dt.Unpack, memo)
		if want != -1 {
			c.Decide(g.OK && g.Kind == "eq" && g.L == want, "C07.accept", name+" length accepted by its decoder", pos, fmt.Sprintf("decoder demands len == %d", g.L), fmt.Sprintf("decoder's length guard is %s %d (%s)", g.Kind, g.L, g.Why))
		}
		// ---- (3) saturation at float -> integer conversions
		checkFloatConversions(c, p, dt.Pack, name)
	}
	// helpers
	for _, fn := range p.FuncsIn("knx/dpt") {
		if fn.Parent() == nil && strings.HasPrefix(fn.Name(), "pack") {
			checkFloatConversions(c, p, fn, "dpt."+fn.Name())
		}
	}

	// ---- (2b) clamp within accept; (2c) validity gates; integer-valued types
	byKey := map[string]dptType{}
	for _, dt := range dts {
		byKey[dt.Key] = dt
	}
	for _, dt := range dts {
		if dt.Main != 9 {
			continue
		}
		acc, okA := acceptedInterval(p, dt)
		cl, okC := clampInterval(p, dt)
		c.Decide(okA && okC && cl.within(acc, 0), "C07.accept", dptName(dt)+" clamp within the accepted range", p.Pos(dt.Pack.Pos()), "encoder clamps to "+fivString(cl)+", decoder accepts "+fivString(acc), fmt.Sprintf("the encoder can emit values in %s, the type's own decoder accepts only %s: an in-range or saturated encoding is rejected", fivString(cl), fivString(acc)))
	}
	// 11.001: an invalid date is encoded as the all-zero payload; the decoder must accept that encoding - its
	// special case for day = month = year = 0 replaces all three fields by a real date
	if dt, ok := byKey["11.001"]; ok {
		fields := map[string]int64{}
		nStores := map[string]int{}
		var blk *ssa.BasicBlock
		instrsOf(dt.Unpack, func(in ssa.Instruction) {
			st, isSt := in.(*ssa.Store)
			if !isSt {
				return
			}
			f := fieldOfAddr(st.Addr)
			k, isK := constInt(st.Val)
			if f == nil || !isK {
				return
			}
			zeroFacts := 0
			for _, fc := range factsAt(st.Block()) {
				if fc.Op == token.EQL {
					if kk, isKK := constInt(fc.Y); isKK && kk == 0 && loadedField(fc.X) != nil {
						zeroFacts++
					}
				}
			}
			if zeroFacts < 3 {
				return
			}
			blk = st.Block()
			fields[f.Name()] = k
			nStores[f.Name()]++
		})
		okZ := blk != nil && len(fields) == 3 && nStores["Year"] == 1 && nStores["Month"] == 1 && nStores["Day"] == 1 &&
			fields["Month"] >= 1 && fields["Month"] <= 12 && fields["Day"] >= 1 && fields["Day"] <= 28 && fields["Year"] >= 0 && fields["Year"] <= 99
		pos := p.Pos(dt.Unpack.Pos())
		if blk != nil {
			pos = p.Pos(blk.Instrs[0].Pos())
		}
		c.Decide(okZ, "C07.accept", "dpt.DPT_11001 the all-zero encoding of an invalid date decodes to a real date", pos, fmt.Sprintf("year, month and day are each replaced once: %d-%d-%d", fields["Year"], fields["Month"], fields["Day"]), fmt.Sprintf("the special case for the all-zero payload does not set year, month and day to a real date (stores: %v): the encoding Pack emits for an invalid date is rejected by the type's own decoder", nStores))
	}
	for _, k := range []string{"10.001", "11.001"} {
		dt, ok := byKey[k]
		if !ok {
			c.Fail("C07.accept", "dpt "+k, "", "not registered")
			continue
		}
		isv := methodOf(p, dt.NT, "IsValid")
		n := 0
		instrsOf(dt.Pack, func(in ssa.Instruction) {
			st, ok := in.(*ssa.Store)
			if !ok {
				return
			}
			ia, ok := st.Addr.(*ssa.IndexAddr)
			if !ok {
				return
			}
			if kk, isK := constInt(st.Val); isK && kk == 0 {
				return // initialising zeros
			}
			if bo, isB := st.Val.(*ssa.BinOp); isB && bo.Op == token.AND {
				if u, isU := bo.X.(*ssa.UnOp); isU && u.Op == token.MUL && u.X == ssa.Value(ia) {
					return // masking what is already there
				}
				if ia2, isIA := bo.X.(*ssa.UnOp); isIA {
					if a2, ok := ia2.X.(*ssa.IndexAddr); ok && a2.X == ia.X {
						return
					}
				}
			}
			n++
			okG := isv != nil && anyFact(factsAt(st.Block()), func(f Cmp) bool { _, ok := boolCallFact(f, true, isv); return ok })
			c.Decide(okG, "C07.accept", dptName(dt)+" payload written only for a valid value", p.InstrPos(st), "store behind d.IsValid() == true", "a field is encoded without the value passing IsValid(), the predicate the decoder applies: the encoding of an invalid value is rejected by the type's own decoder")
		})
		c.Floor("C07.accept", dptName(dt)+" guarded field stores", n, 3)
		// a field that is shifted into its place must fit the bits that survive the shift for every value IsValid
		// lets through: otherwise the top bits fall off and another valid value is encoded (no saturation, a wrap)
		if isv != nil {
			instrsOf(dt.Pack, func(in ssa.Instruction) {
				bo, ok := in.(*ssa.BinOp)
				if !ok || bo.Op != token.SHL {
					return
				}
				k, isK := constInt(bo.Y)
				f := loadedField(stripAllConv(bo.X))
				if fx, isF := stripAllConv(bo.X).(*ssa.Field); isF {
					f = structField(fx.X.Type(), fx.Field)
				}
				w, _, okw := typeWidth(bo.Type(), "amd64")
				if !isK || f == nil || !okw || w != 8 || k <= 0 || k >= 8 {
					return
				}
				rng, _ := isValidFieldRange(p, isv, f.Name())
				lim := float64(int64(255) >> uint(k))
				if bt, isB := f.Type().Underlying().(*types.Basic); isB && bt.Info()&types.IsUnsigned != 0 && rng.lo < 0 {
					rng.lo = 0
				}
				c.Decide(rng.hi <= lim && rng.lo >= 0, "C07.accept", dptName(dt)+"."+f.Name()+" fits the bits it is shifted into", p.InstrPos(bo), fmt.Sprintf("IsValid bounds it to %s, %d bits remain", fivString(rng), 8-k), fmt.Sprintf("IsValid lets %s be %s, but shifted left by %d in one octet only values up to %g keep all their bits: a larger value is encoded as a different valid value", f.Name(), fivString(rng), k, lim))
			})
		}
	}
	for _, spec := range []struct {
		key  string
		sets []fiv
	}{{"17.001", []fiv{{0, 63}}}, {"18.001", []fiv{{0, 63}, {128, 191}}}, {"5.001", nil}, {"5.003", nil}} {
		dt, ok := byKey[spec.key]
		if !ok {
			c.Fail("C07.saturate", "dpt "+spec.key, "", "not registered")
			continue
		}
		if spec.sets == nil {
			continue
		}
		instrsOf(dt.Pack, func(in ssa.Instruction) {
			call, ok := in.(*ssa.Call)
			if !ok || call.Common().StaticCallee() == nil || !strings.HasPrefix(call.Common().StaticCallee().Name(), "pack") {
				return
			}
			// 8-bit values: the exact value set on the paths into the call (any form of the test: comparisons, masks)
			if set, okF := finSetAt(call.Common().Args[0], call.Block()); okF {
				var rs [][2]int
				for _, s := range spec.sets {
					rs = append(rs, [2]int{int(s.lo), int(s.hi)})
				}
				okS, bad := finSetWithin(set, rs)
				c.Decide(okS, "C07.saturate", dptName(dt)+" only documented values are encoded", p.InstrPos(call), "exact value set inside the documented ranges", fmt.Sprintf("the value %d can be encoded, outside the documented set", bad))
				return
			}
			for _, iv := range edgeIntervals(call.Common().Args[0], call.Block()) {
				okS := false
				for _, s := range spec.sets {
					if iv.within(s, 0) {
						okS = true
					}
				}
				c.Decide(okS, "C07.saturate", dptName(dt)+" only documented values are encoded", p.InstrPos(call), "value in "+fivString(iv), "a value in "+fivString(iv)+" can be encoded, outside the documented set")
			}
		})
	}

	// ---- (4) scale agreement
	for _, spec := range []struct {
		key      string
		num, den int64
	}{{"5.001", 255, 100}, {"5.003", 255, 360}, {"8.003", 100, 1}, {"8.004", 10, 1}, {"8.010", 100, 1}} {
		dt, ok := byKey[spec.key]
		if !ok {
			c.Fail("C07.scale", "dpt "+spec.key, "", "not registered")
			continue
		}
		want := big.NewRat(spec.num, spec.den)
		var kp *big.Rat
		instrsOf(dt.Pack, func(in ssa.Instruction) {
			cv, ok := in.(*ssa.Convert)
			if !ok {
				return
			}
			bf, ok1 := cv.X.Type().Underlying().(*types.Basic)
			bt, ok2 := cv.Type().Underlying().(*types.Basic)
			if ok1 && ok2 && bf.Info()&types.IsFloat != 0 && bt.Info()&types.IsInteger != 0 {
				k, root := scaleOf(cv.X, 0)
				if _, isP := stripFloatConv(root).(*ssa.Parameter); isP {
					kp = k
				}
			}
		})
		var ku *big.Rat
		for _, st := range receiverStores(dt.Unpack) {
			k, _ := scaleOf(st.Val, 0)
			ku = k
		}
		name := dptName(dt)
		pos := p.Pos(dt.Pack.Pos())
		if kp == nil || ku == nil {
			c.Fail("C07.scale", name+" scale factors found", pos, "the scaling expressions of Pack/Unpack were not recognised")
			continue
		}
		prod := new(big.Rat).Mul(kp, ku)
		pf, _ := prod.Float64()
		// exact when the constants are exact; a decimal constant rounded to float32 may differ by a few ulp
		c.Decide(math.Abs(pf-1) < 1.0/(1<<20), "C07.scale", name+" decode scale inverts encode scale", pos, fmt.Sprintf("encode x%s, decode x%s", kp.RatString(), ku.RatString()), fmt.Sprintf("encoder multiplies by %s and decoder by %s: their product is %s, not 1", kp.RatString(), ku.RatString(), prod.RatString()))
		// a saturation branch (constant raw code R on the value range [lo, hi]) must not capture values that
		// belong to a neighbouring code: (R-1)/k and (R+1)/k lie outside [lo, hi].  Otherwise a bound that is
		// off by one step re-encodes a decodable value to another code and saturates inside the range.
		kf, _ := kp.Float64()
		instrsOf(dt.Pack, func(in ssa.Instruction) {
			call, ok := in.(*ssa.Call)
			if !ok || call.Common().StaticCallee() == nil || !strings.HasPrefix(call.Common().StaticCallee().Name(), "pack") || len(call.Common().Args) != 1 {
				return
			}
			r, isK := constInt(call.Common().Args[0])
			if !isK || len(dt.Pack.Params) == 0 || kf == 0 {
				return
			}
			tr, okT := typeRange(call.Common().Args[0].Type())
			for _, iv := range edgeIntervals(dt.Pack.Params[0], call.Block()) {
				for _, nb := range []int64{r - 1, r + 1} {
					if okT && (float64(nb) < tr.lo || float64(nb) > tr.hi) {
						continue
					}
					v := float64(nb) / kf
					eps := math.Abs(v) * 1e-6
					inside := v >= iv.lo-eps && v <= iv.hi+eps
					c.Decide(!inside, "C07.saturate", fmt.Sprintf("%s saturation to %d spares the neighbouring code %d", name, r, nb), p.InstrPos(call), fmt.Sprintf("%g lies outside the saturated range %s", v, fivString(iv)), fmt.Sprintf("the branch that encodes the constant %d is taken for values in %s, which contains %g = the value of code %d: that value saturates although it is representable (its re-encoding is a different code)", r, fivString(iv), v, nb))
				}
			}
		})
		rel, _ := new(big.Rat).Quo(kp, want).Float64()
		c.Decide(math.Abs(rel-1) < 1.0/(1<<20), "C07.scale", name+" scale equals the format's", pos, fmt.Sprintf("%s (float32 rendering of %s)", kp.RatString(), want.RatString()), fmt.Sprintf("encoder scale is %s, the datapoint format prescribes %s", kp.RatString(), want.RatString()))
	}
	// two-octet floats: a saturation branch encodes its own bound.  The branch `d <= T: encode K` maps every
	// value up to T to K; beyond one step of the format at K that is no longer rounding but a wrong value.
	nSat := 0
	for _, dt := range dts {
		if dt.Main != 9 || len(dt.Pack.Params) == 0 {
			continue
		}
		instrsOf(dt.Pack, func(in ssa.Instruction) {
			call, ok := in.(*ssa.Call)
			if !ok || call.Common().StaticCallee() == nil || call.Common().StaticCallee().Name() != "packF16" || len(call.Common().Args) != 1 {
				return
			}
			k, isK := constFloat(call.Common().Args[0])
			if !isK {
				return
			}
			// step of the format at K: 0.01 * 2^e with the smallest e whose mantissa range holds |K| * 100
			step := 0.01
			for m := math.Abs(k) * 100; m > 2047; m /= 2 {
				step *= 2
			}
			for _, iv := range edgeIntervals(dt.Pack.Params[0], call.Block()) {
				nSat++
				far := 0.0
				if !math.IsInf(iv.hi, 1) && iv.hi-k > far {
					far = iv.hi - k
				}
				if !math.IsInf(iv.lo, -1) && k-iv.lo > far {
					far = k - iv.lo
				}
				c.Decide(far <= step*(1+1e-6), "C07.saturate", fmt.Sprintf("%s saturation to %g covers only values beyond it", dptName(dt), k), p.InstrPos(call), fmt.Sprintf("branch range %s, constant %g, step %g", fivString(iv), k, step), fmt.Sprintf("the branch that encodes the constant %g is taken for values in %s: values up to %g away from it are encoded as %g, the format's step there is %g", k, fivString(iv), far, k, step))
			}
		})
	}
	c.Floor("C07.saturate", "saturation branches of two-octet floats", nSat, 30)
	checkF16(c, p)
}

// checkFloatConversions: every float -> integer conversion of fn has an
// operand that provably fits the target type (saturation instead of wrap).
func checkFloatConversions(c *Check, p *Program, fn *ssa.Function, name string) {
	n := 0
	instrsOf(fn, func(in ssa.Instruction) {
		cv, ok := in.(*ssa.Convert)
		if !ok {
			return
		}
		bf, ok1 := cv.X.Type().Underlying().(*types.Basic)
		bt, ok2 := cv.Type().Underlying().(*types.Basic)
		if !ok1 || !ok2 || bf.Info()&types.IsFloat == 0 || bt.Info()&types.IsInteger == 0 {
			return
		}
		n++
		tr, _ := typeRange(cv.Type())
		if bt.Kind() == types.Int && p.Arch == "386" {
			tr = fiv{-2147483648, 2147483647}
		}
		if bt.Kind() == types.Uint && p.Arch == "386" {
			tr = fiv{0, 4294967295}
		}
		iv := numInterval(cv.X, cv.Block(), 0)
		// truncation towards zero: (-1, 0] still converts to 0 for unsigned targets
		lo := tr.lo
		if lo == 0 {
			lo = -1 + 1e-9
		}
		ok = iv.lo >= lo && iv.hi < tr.hi+1 && !math.IsInf(iv.lo, 0) && !math.IsInf(iv.hi, 0)
		c.Decide(ok, "C07.saturate", fmt.Sprintf("%s conversion#%d to %s is bounded", name, n, typeName(cv.Type())), p.InstrPos(cv), "operand in "+fivString(iv)+" by the dominating clamp edges", "the operand of this float-to-integer conversion lies in "+fivString(iv)+", which is not inside the range of "+typeName(cv.Type())+": out-of-range values wrap around (or change sign) instead of saturating")
	})
}

func checkF16(c *Check, p *Program) {
	pk, un := p.Func("knx/dpt", "packF16"), p.Func("knx/dpt", "unpackF16")
	if pk == nil || un == nil {
		c.Fail("C07.f16", "dpt.packF16/unpackF16", "", "not found")
		return
	}
	c.Analysed("functions", "dpt.packF16")
	c.Analysed("functions", "dpt.unpackF16")

	// ---- decoder: evaluated per path on symbolic input octets.  The float the decoder stores is
	// c * float32(m) * float32(1 << e); m and e are read off the path's abstract values.
	pos := p.Pos(un.Pos())
	var shl *ssa.BinOp
	var cvs []*ssa.Convert
	instrsOf(un, func(in ssa.Instruction) {
		switch x := in.(type) {
		case *ssa.BinOp:
			if k, isK := constInt(x.X); x.Op == token.SHL && isK && k == 1 {
				shl = x
			}
		case *ssa.Convert:
			bf, ok1 := x.X.Type().Underlying().(*types.Basic)
			bt, ok2 := x.Type().Underlying().(*types.Basic)
			if ok1 && ok2 && bf.Info()&types.IsInteger != 0 && bt.Info()&types.IsFloat != 0 {
				cvs = append(cvs, x)
			}
		}
	})
	var cvM *ssa.Convert
	for _, cv := range cvs {
		if shl == nil || stripAllConv(cv.X) != ssa.Value(shl) {
			cvM = cv
		}
	}
	okShape := shl != nil && cvM != nil && len(cvs) == 2
	c.Decide(okShape, "C07.f16", "unpackF16 value = c * mantissa * 2^exponent", pos, "one integer mantissa and one power of two are converted to float", "the decoder does not compute the value from one integer mantissa and 1 << exponent")
	if okShape {
		// the stored product: constant 0.01 times the two converted factors
		okProd := false
		for _, st := range paramStores(un, 1) {
			leaves := mulLeaves(st.Val, 0)
			nK, nM, nE := 0, 0, 0
			for _, l := range leaves {
				if k, isK := constFloat(l); isK && math.Abs(k-0.01) < 1e-7 {
					nK++
				} else if l == ssa.Value(cvM) {
					nM++
				} else if cv, isCv := l.(*ssa.Convert); isCv && stripAllConv(cv.X) == ssa.Value(shl) {
					nE++
				}
			}
			okProd = nK == 1 && nM == 1 && nE == 1 && len(leaves) == 3
		}
		c.Decide(okProd, "C07.f16", "unpackF16 result is 0.01 * m * 2^e", pos, "product of the constant 0.01, the mantissa and the power of two", "the stored value is not the product 0.01 * mantissa * 2^exponent")
		li := &layoutInterp{p: p}
		data := avSlice{region: "in", off: linConst(0), len: linSym("len(data)"), name: "data"}
		ups := li.run(un, []AV{data, avPath{path: "f", typ: un.Params[1].Type()}}, nil)
		nOK := 0
		okM, okE, okS := true, true, true
		whyM, whyE := "", ""
		for _, up := range ups {
			if o, ok := up.ret.(avOpaque); !ok || o.desc != "nil" {
				continue
			}
			nOK++
			if len(up.notes) > 0 {
				okM, whyM = false, strings.Join(up.notes, "; ")
				continue
			}
			ev, _ := up.vals[shl.Y].(avInt)
			if !ev.bv.resize(8, false).Equal(wantBits("0000 data[1][6..3]")) {
				okE, whyE = false, "the exponent is ["+ev.bv.String()+"]"
			}
			mv, _ := up.vals[cvM.X].(avInt)
			mb := li.refineBits(up, mv)
			if len(mb) < 12 || !mb[:11].Equal(wantBits("data[1][2..0] data[2][7..0]")) {
				okM, whyM = false, "the mantissa is ["+mb.String()+"]"
				continue
			}
			// sign extension: all higher bits equal the pinned value of octet 1 bit 7
			sign, pinned := up.assume["data[1]#7"]
			if !pinned {
				okS = false
				continue
			}
			for i := 11; i < len(mb); i++ {
				if (sign && mb[i].K != b1) || (!sign && mb[i].K != b0) {
					okS = false
				}
			}
		}
		c.Decide(nOK >= 2 && okM, "C07.f16", "unpackF16 mantissa = octet1 bits 2..0, octet2", pos, "low 11 bits of m = data[1][2..0] data[2][7..0] on every decoding path", "the decoder does not take the 11-bit mantissa from octet 1 bits 2..0 and octet 2: "+whyM)
		c.Decide(nOK >= 2 && okE, "C07.f16", "unpackF16 exponent = octet1 bits 6..3", pos, "e = data[1][6..3] on every decoding path", "the decoder does not take the exponent from octet 1 bits 6..3: "+whyE)
		c.Decide(nOK >= 2 && okS, "C07.f16", "unpackF16 sign = octet1 bit 7, two's complement", pos, "the bits above the mantissa are all equal to data[1] bit 7 (m - 2048 exactly when it is set)", "the decoder does not extend the mantissa with bit 7 of octet 1 as the two's complement sign (it must subtract 2048 exactly when that bit is set)")
	}

	// ---- encoder: evaluated per path; the normalisation loop (m /= 2; e++) only computes, so its
	// header phis are unknowns M and E constrained by the loop's exit condition
	ppos := p.Pos(pk.Pos())
	var phiM, phiE *ssa.Phi
	lps := loopsOf(pk)
	if len(lps) == 1 {
		for _, in := range lps[0].Header.Instrs {
			phi, ok := in.(*ssa.Phi)
			if !ok {
				break
			}
			for i, e := range phi.Edges {
				if !lps[0].Body[phi.Block().Preds[i]] {
					continue
				}
				bo, ok := e.(*ssa.BinOp)
				if !ok || bo.X != ssa.Value(phi) {
					continue
				}
				k, isK := constInt(bo.Y)
				switch {
				case bo.Op == token.QUO && isK && k == 2:
					phiM = phi // halving that truncates towards zero (a shift would round negative mantissas down)
				case bo.Op == token.ADD && isK && k == 1:
					phiE = phi
				}
			}
		}
	}
	c.Decide(phiM != nil && phiE != nil, "C07.f16", "packF16 normalises by m /= 2, e += 1", ppos, "one loop halving the mantissa (truncating division) and counting the exponent", "the encoder has no single loop that halves the mantissa by truncating division by 2 while incrementing the exponent")
	if phiM == nil || phiE == nil {
		return
	}
	// initial values: m = int(f * 100), e = 0
	okInit := false
	for i, e := range phiM.Edges {
		if lps[0].Body[phiM.Block().Preds[i]] {
			continue
		}
		if cv, ok := e.(*ssa.Convert); ok {
			k, _ := scaleOf(cv.X, 0)
			kf, _ := k.Float64()
			okInit = math.Abs(kf-100) < 1e-4
		}
	}
	for i, e := range phiE.Edges {
		if lps[0].Body[phiE.Block().Preds[i]] {
			continue
		}
		if k, isK := constInt(e); !isK || k != 0 {
			okInit = false
		}
	}
	c.Decide(okInit, "C07.f16", "packF16 starts from m = int(f * 100), e = 0", ppos, "scale 100, exponent 0", "the mantissa does not start as the value times 100 (truncated) or the exponent not at 0")
	var initCv *ssa.Convert
	for i, e := range phiM.Edges {
		if cv, ok := e.(*ssa.Convert); ok && !lps[0].Body[phiM.Block().Preds[i]] {
			initCv = cv
		}
	}
	li := &layoutInterp{p: p}
	paths := li.run(pk, []AV{li.valueOfPath("f", pk.Params[0].Type())}, nil)
	nameM, nameE := li.havocNames[phiM], li.havocNames[phiE]
	c.Decide(len(paths) >= 2 && nameM != "" && nameE != "", "C07.f16", "packF16 evaluates on every path", ppos, fmt.Sprintf("%d paths", len(paths)), "the encoder could not be evaluated path by path")
	sawNeg, sawPos := false, false
	for _, pp := range paths {
		lo, hi := pp.env.bounds(linSym(nameM))
		side := ""
		switch {
		case hi < 0:
			side, sawNeg = "negative mantissa", true
		case lo >= 0:
			side, sawPos = "non-negative mantissa", true
		default:
			c.Fail("C07.f16", "packF16 distinguishes the sign of the mantissa", ppos, "a path covers negative and non-negative mantissas alike: the sign bit cannot be right on it")
			continue
		}
		key := "packF16 [" + side + "]"
		if len(pp.notes) > 0 {
			c.Fail("C07.f16", key+" understood", ppos, strings.Join(pp.notes, "; "))
			continue
		}
		c.Decide(lo >= -2048 && hi <= 2047, "C07.f16", key+" mantissa normalised to 12 bits", ppos, fmt.Sprintf("after the loop the mantissa lies in [%d, %d]", lo, hi), fmt.Sprintf("after the loop the mantissa lies in [%d, %d], not inside [-2048, 2047]: it does not fit sign + 11 bits", lo, hi))
		// ... and is only halved when it does not fit: a mantissa that fits but is halved all the same comes back
		// one step lower (2047 -> 1023 * 2), i.e. a value read from the bus drifts when written back; -2048 and
		// -1024 * 2 are the same value, so the lower end may stop at -2047
		if side == "negative mantissa" {
			c.Decide(lo <= -2047, "C07.f16", key+" keeps every mantissa that fits", ppos, fmt.Sprintf("smallest mantissa left alone: %d", lo), fmt.Sprintf("mantissas below %d are halved although they fit 11 bits plus sign: the value loses its last digit", lo))
		} else {
			c.Decide(hi == 2047, "C07.f16", key+" keeps every mantissa that fits", ppos, "largest mantissa left alone: 2047", fmt.Sprintf("mantissas above %d are halved although they fit 11 bits: %d comes back as %d", hi, hi+1, (hi+1)/2*2))
		}
		sl, isSl := pp.ret.(avSlice)
		bs, okB := []BV(nil), false
		if isSl {
			bs, okB = li.sliceBytes(pp, sl)
		}
		if !okB || len(bs) != 3 {
			c.Fail("C07.f16", key+" returns three octets", ppos, "the result is not a three-octet slice whose content the evaluation follows")
			continue
		}
		s := "0"
		if side == "negative mantissa" {
			s = "1"
		}
		c.Decide(bs[0].Equal(wantBits("00000000")), "C07.f16", key+" leading octet zero", ppos, "octet 0 = 0", "octet 0 is ["+bs[0].String()+"]")
		want1 := wantBits(s + " " + nameE + "[3..0] " + nameM + "[10..8]")
		c.Decide(bs[1].Equal(want1), "C07.f16", key+" octet 1 = sign, exponent, mantissa bits 10..8", ppos, "["+want1.String()+"]", "octet 1 is ["+bs[1].String()+"], the format places the sign in bit 7 (set exactly for negative mantissas), the exponent in bits 6..3 and mantissa bits 10..8 in bits 2..0: ["+want1.String()+"]")
		want2 := wantBits(nameM + "[7..0]")
		c.Decide(bs[2].Equal(want2), "C07.f16", key+" octet 2 = mantissa bits 7..0", ppos, "["+want2.String()+"]", "octet 2 is ["+bs[2].String()+"], not the low mantissa byte")
	}
	c.Decide(sawNeg && sawPos, "C07.f16", "packF16 both signs occur", ppos, "paths for negative and for non-negative mantissas", fmt.Sprintf("negative: %v, non-negative: %v", sawNeg, sawPos))

	// ---- the exponent fits its four bits.  The mantissa enters the loop inside the interval the clamp edges and
	// the scale leave (interval analysis, float32 constants); the loop's transformer x -> x/2 (truncating) is
	// monotone on either side of zero and the loop is left exactly inside [exLo, exHi] (the exit condition read off
	// the paths above), so the largest number of halvings is needed at one of the two ends of the entry interval.
	// Iterating the transformer on the two ends is the abstract loop itself (a decreasing chain, no widening).
	// More than 15 halvings do not fit the field: exp & 15 wraps to 0 and the largest values decode as the smallest.
	exLo, exHi, haveEx := int64(0), int64(0), false
	for _, pp := range paths {
		lo, hi := pp.env.bounds(linSym(nameM))
		if !haveEx || lo < exLo {
			exLo = lo
		}
		if !haveEx || hi > exHi {
			exHi = hi
		}
		haveEx = true
	}
	if initCv == nil || !haveEx || exLo > 0 || exHi < 0 {
		c.Fail("C07.f16", "packF16 exponent fits four bits", ppos, "the entry value or the exit interval of the normalisation loop could not be determined")
		return
	}
	iv := numInterval(initCv.X, initCv.Block(), 0)
	// what the callers hand over (every call site of the module, the helper's address is not taken): the types
	// saturate at their own bounds first, and a helper that is only ever given values inside them need not clamp
	// any tighter itself.  The entry interval is the intersection of both.
	if k, src := scaleOf(initCv.X, 0); k != nil && src != nil && k.Sign() > 0 {
		kf, _ := k.Float64()
		cl, ch, nSites, addrTaken := math.Inf(1), math.Inf(-1), 0, false
		for _, fn := range p.SrcFuncs() {
			instrsOf(fn, func(in ssa.Instruction) {
				if call, ok := in.(ssa.CallInstruction); ok && call.Common().StaticCallee() == pk && len(call.Common().Args) == 1 {
					nSites++
					a := numInterval(call.Common().Args[0], in.Block(), 0)
					cl, ch = math.Min(cl, a.lo), math.Max(ch, a.hi)
					return
				}
				for _, op := range in.Operands(nil) {
					if *op == ssa.Value(pk) {
						if call, ok := in.(ssa.CallInstruction); !ok || call.Common().Value != ssa.Value(pk) {
							addrTaken = true
						}
					}
				}
			})
		}
		if nSites > 0 && !addrTaken && !math.IsNaN(cl) && !math.IsNaN(ch) {
			iv.lo, iv.hi = math.Max(iv.lo, cl*kf), math.Min(iv.hi, ch*kf)
		}
	}
	if math.IsInf(iv.lo, 0) || math.IsInf(iv.hi, 0) || math.IsNaN(iv.lo) || math.IsNaN(iv.hi) {
		c.Fail("C07.f16", "packF16 exponent fits four bits", ppos, "the scaled value is not bounded when it enters the normalisation loop ("+fivString(iv)+"): the exponent is unbounded")
		return
	}
	halvings := func(x int64) int {
		n := 0
		for (x > exHi || x < exLo) && n < 200 {
			x /= 2
			n++
		}
		return n
	}
	// the float32 product may round away from zero by less than one unit in the last place; widen by that much
	ulp := func(f float64) float64 {
		a := math.Abs(f)
		return float64(math.Nextafter32(float32(a), float32(math.Inf(1)))) - float64(float32(a))
	}
	eLo, eHi := halvings(int64(math.Trunc(iv.lo-ulp(iv.lo)))), halvings(int64(math.Trunc(iv.hi+ulp(iv.hi))))
	maxE := eLo
	if eHi > maxE {
		maxE = eHi
	}
	c.Decide(maxE <= 15, "C07.f16", "packF16 exponent fits four bits", ppos,
		fmt.Sprintf("the mantissa enters the loop in %s and needs at most %d halvings to reach [%d, %d]", fivString(iv), maxE, exLo, exHi),
		fmt.Sprintf("the mantissa enters the loop in %s; its ends need %d and %d halvings to reach [%d, %d], more than the 15 the 4-bit exponent holds: the exponent wraps around and the largest magnitudes are encoded as the smallest", fivString(iv), eLo, eHi, exLo, exHi))
}

// paramStores: stores through pointer parameter i of fn.
func paramStores(fn *ssa.Function, i int) []*ssa.Store {
	var out []*ssa.Store
	if i >= len(fn.Params) {
		return nil
	}
	instrsOf(fn, func(in ssa.Instruction) {
		if st, ok := in.(*ssa.Store); ok && st.Addr == ssa.Value(fn.Params[i]) {
			out = append(out, st)
		}
	})
	return out
}

// mulLeaves flattens a tree of floating-point multiplications.
func mulLeaves(v ssa.Value, depth int) []ssa.Value {
	if bo, ok := v.(*ssa.BinOp); ok && bo.Op == token.MUL && depth < 6 {
		return append(mulLeaves(bo.X, depth+1), mulLeaves(bo.Y, depth+1)...)
	}
	return []ssa.Value{v}
}

// evalOpaquePhis evaluates v with every Phi treated as an opaque named source.
func (e *BitEval) evalOpaquePhis(v ssa.Value) BV {
	w, _, ok := typeWidth(v.Type(), e.P.Arch)
	if !ok {
		return nil
	}
	switch x := v.(type) {
	case *ssa.Phi:
		return bvSrc(e.srcName(x), w)
	case *ssa.Convert:
		_, sSigned, sok := typeWidth(x.X.Type(), e.P.Arch)
		in := e.evalOpaquePhis(x.X)
		if in == nil || !sok {
			return bvTop(w)
		}
		if n := e.srcName(x); n == "m" || n == "exp" {
			// uint(signedMantissa): same bits
			return in.resize(w, sSigned)
		}
		return in.resize(w, sSigned)
	case *ssa.BinOp:
		l, r := e.evalOpaquePhis(x.X), e.evalOpaquePhis(x.Y)
		if l == nil || r == nil {
			return bvTop(w)
		}
		_, signed, _ := typeWidth(x.Type(), e.P.Arch)
		return bvApply(x.Op, l, r, w, signed)
	case *ssa.Const:
		a := e.Eval(x)
		if len(a) == 1 {
			return a[0].V
		}
	}
	return bvSrc(e.srcName(v), w)
}

// ---------------------------------------------------------------------------
// C06

// arithmeticCodec: the registered types whose codec computes with scaled
// floats, calendar arithmetic or character loops (confirmed by reading each);
// every other type outside main number 9 has an exact wire format and must be
// followed bit by bit.
var arithmeticCodec = map[string]bool{
	"5.001": true, "5.003": true, // scaling 0..255 <-> 0..100 %, 0..360 degrees
	"8.003": true, "8.004": true, "8.010": true, // scaled two-octet signed (x0.01, x0.1)
	"11.001": true,              // date: year window 1990..2089
	"16.000": true, "16.001": true, // 14 characters, loops
	"28.001": true, // variable-length string
}

func checkC06(c *Check, p *Program) {
	c.Technique = "abstract interpretation of Unpack followed by Pack on the decoded abstract value (bit provenance through both codecs, per path, with the source bits pinned by the branches taken), interval inclusion between the decoder's accepted range and the encoder's clamp, sibling comparison of replacement predicates"
	c.Explanation = "Decided: (1) re-encoding is shaped to be accepted again - the encoder's payload length equals the decoder's length guard, and for every type that clamps, the interval the decoder accepts is contained in the interval the encoder leaves unchanged (otherwise an accepted value is altered on write-back); (2) for every type whose Unpack and Pack stay inside the bit-provenance domain (shifts, masks, disjoint or, width changes, big-endian and IEEE bit intrinsics, boolean bits), the composition Pack(Unpack(data)) is computed abstractly per path and every output bit is exactly the same bit of the input, or a constant 0 at a position the decoder does not read - byte identity up to ignored reserved bits; the evidence lists each type as 'identity proved' or 'outside the domain' (two-octet floats, scaled types, dates, strings); (3) the documented replacements (17.001, 18.001: out-of-range scene numbers become 63) use the same predicate in both directions. Not decided: drift of the two-octet float, of the scaled types 5.001/5.003/8.003/8.004/8.010, of 11.001 and of the string types - float rounding and arithmetic over a data domain; a 'must round' lint is not a necessary condition and is not armed."
	c.Trusted = []string{"go/types, go/ssa", "kxcheck layout interpreter with bit provenance", "IEEE-754 bit intrinsics math.Float32bits/frombits, encoding/binary big-endian"}
	c.NotDecided = []string{"no-drift of 9.xxx, 5.001, 5.003, 8.003, 8.004, 8.010, 11.001, 16.xxx, 28.001 (numeric / loops)"}

	dts := dptTypes(c, p, "C06.types")
	c.Floor("C06.types", "registered datapoint types", len(dts), 174)
	checkStringCharsets(c, p, dts)
	checkDecodeStores(c, p, dts, "C06.keeps")
	checkDecodeInputReadOnly(c, p, dts, "C06.input")
	memo := map[*ssa.Function]lenGuard{}
	proved, outside := []string{}, []string{}
	for _, dt := range dts {
		name := dptName(dt)
		pos := p.Pos(dt.Unpack.Pos())
		want, _ := specPayloadLen(dt.Main)
		g := lenGuardOf(p, dt.Unpack, memo)
		if want == -1 {
			outside = append(outside, dt.Key+" (variable length string: shape rule)")
			checkVarStringIdentity(c, p, dt)
			continue
		}
		// (1) accepted within clamp for clamping float types
		if dt.Main == 9 {
			acc, okA := acceptedInterval(p, dt)
			cl, okC := clampInterval(p, dt)
			c.Decide(okA && okC && acc.within(cl, 0), "C06.accept", name+" accepted range survives the encoder's clamp", pos, "decoder accepts "+fivString(acc)+", encoder clamps to "+fivString(cl), fmt.Sprintf("the decoder accepts %s but the encoder clamps to %s: an accepted value is altered when written back", fivString(acc), fivString(cl)))
		}
		// (2) identity by composition
		ok, why, nPaths := composeIdentity(c, p, dt, g)
		switch {
		case ok:
			proved = append(proved, dt.Key)
			c.OK("C06.identity", name+" Pack(Unpack(data)) is the bit identity", pos, fmt.Sprintf("%d decode/encode path pair(s); every output bit is the same input bit, or 0 where the decoder does not look", nPaths))
		case strings.HasPrefix(why, "DOMAIN:") && (dt.Main == 9 || arithmeticCodec[dt.Key]):
			outside = append(outside, dt.Key+" ("+strings.TrimPrefix(why, "DOMAIN:")+")")
		case strings.HasPrefix(why, "DOMAIN:"):
			c.Fail("C06.identity", name+" Pack(Unpack(data)) is the bit identity", pos, "the type has an exact wire format (integer, bit field, enumeration, character, IEEE-754) but its codec pair cannot be followed bit by bit: "+strings.TrimPrefix(why, "DOMAIN:"))
		default:
			c.Fail("C06.identity", name+" Pack(Unpack(data)) is the bit identity", pos, why)
		}
	}
	c.Extra("identity_proved", proved)
	c.Extra("outside_domain", outside)
	c.Note("byte identity proved for %d types; %d types are outside the bit-provenance domain (numeric or looping codecs)", len(proved), len(outside))
	c.Floor("C06.identity", "types with a proved byte identity", len(proved), 140)

	// (3) replacements use the same predicate
	byKey := map[string]dptType{}
	for _, dt := range dts {
		byKey[dt.Key] = dt
	}
	for _, k := range []string{"17.001", "18.001"} {
		dt, ok := byKey[k]
		if !ok {
			c.Fail("C06.replace", "dpt "+k, "", "not registered")
			continue
		}
		// exact formulation for one-octet types: with D the decoder's octet -> value table and E the
		// encoder's value -> octet table, D(E(D(x))) = D(x) for all 256 octets
		{
			var dsites, esites []finSite
			for _, st := range receiverStores(dt.Unpack) {
				dsites = append(dsites, finSite{st.Val, st.Block()})
			}
			instrsOf(dt.Pack, func(in ssa.Instruction) {
				if call, ok := in.(*ssa.Call); ok && call.Common().StaticCallee() != nil && strings.HasPrefix(call.Common().StaticCallee().Name(), "pack") && len(call.Common().Args) == 1 {
					esites = append(esites, finSite{call.Common().Args[0], call.Block()})
				}
			})
			dtab, okD := finFunc(dsites)
			etab, okE := finFunc(esites)
			if okD && okE {
				bad := -1
				for x := 0; x < 256; x++ {
					if dtab[etab[dtab[x]]] != dtab[x] {
						bad = x
					}
				}
				why := ""
				if bad >= 0 {
					why = fmt.Sprintf("octet %d decodes to %d, which is encoded as %d and decodes to %d: a decoded value is replaced on write-back", bad, dtab[bad], etab[dtab[bad]], dtab[etab[dtab[bad]]])
				}
				c.Decide(bad < 0, "C06.replace", dptName(dt)+" keeps exactly the values the encoder keeps", p.Pos(dt.Unpack.Pos()), "decode(encode(decode(x))) = decode(x) for all 256 octets", why)
				continue
			}
		}
		var pk, un []fiv
		instrsOf(dt.Pack, func(in ssa.Instruction) {
			if call, ok := in.(*ssa.Call); ok && call.Common().StaticCallee() != nil && strings.HasPrefix(call.Common().StaticCallee().Name(), "pack") {
				if _, isK := constInt(call.Common().Args[0]); !isK {
					pk = append(pk, edgeIntervals(call.Common().Args[0], call.Block())...)
				}
			}
		})
		for _, st := range receiverStores(dt.Unpack) {
			if _, isK := constInt(stripAllConv(st.Val)); !isK {
				un = append(un, edgeIntervals(st.Val, st.Block())...)
			}
		}
		same := len(pk) == len(un) && len(pk) > 0
		for i := range pk {
			if same && pk[i] != un[i] {
				same = false
			}
		}
		c.Decide(same, "C06.replace", dptName(dt)+" keeps exactly the values the encoder keeps", p.Pos(dt.Unpack.Pos()), fmt.Sprintf("both directions pass %v unchanged and replace the rest by 63", un), fmt.Sprintf("decoder passes %v unchanged, encoder passes %v: a decoded value is replaced on write-back", un, pk))
	}
}

// composeIdentity runs Unpack on symbolic input bytes and Pack on the decoded
// abstract value; ok when every success path pair is the bit identity.
func composeIdentity(c *Check, p *Program, dt dptType, g lenGuard) (bool, string, int) {
	if !g.OK || g.Kind != "eq" {
		return false, "DOMAIN:no fixed length guard", 0
	}
	li := &layoutInterp{p: p}
	un := dt.Unpack
	data := avSlice{region: "in", off: linConst(0), len: linSym("len(data)"), name: "data"}
	recv := avPath{path: "r", typ: un.Params[0].Type()}
	ups := li.run(un, []AV{recv, data}, nil)
	nPairs := 0
	mismatch := ""
	if os.Getenv("KX_DEBUG") == dt.Key {
		for _, up := range ups {
			fmt.Printf("DEBUG %s path [%s] ret=%s notes=%v\n", dt.Key, pathLabel(up), describeAV(up.ret), up.notes)
			for k, v := range up.mem {
				fmt.Printf("   mem %s = %s\n", k, describeAV(v))
			}
		}
	}
	// an input bit is "looked at" by the decoder when some successful path reads it into the value or pins it:
	// a position that carries information on one path is not a reserved position on another
	readAny := map[string]bool{}
	for _, up := range ups {
		if o, ok := up.ret.(avOpaque); !ok || o.desc != "nil" {
			continue
		}
		for k, v := range up.mem {
			if !strings.HasPrefix(k, "out:") && !strings.Contains(k, ".") {
				continue
			}
			var bv BV
			switch x := v.(type) {
			case avInt:
				bv = x.bv
			case avF:
				bv = x.bv
			case avBool:
				if x.bitv != nil {
					bv = BV{*x.bitv}
				}
			}
			for _, b := range bv {
				if b.K == bsrc || b.K == bnot {
					readAny[fmt.Sprintf("%s#%d", b.Src, b.Idx)] = true
				}
			}
		}
		for k := range up.assume {
			readAny[k] = true
		}
	}
	for _, up := range ups {
		// success paths only
		if o, ok := up.ret.(avOpaque); !ok || o.desc != "nil" {
			continue
		}
		if len(up.notes) > 0 {
			return false, "DOMAIN:" + strings.Join(up.notes, "; "), 0
		}
		// decoded value
		read := map[string]bool{}
		for k := range readAny {
			read[k] = true
		}
		var collect func(v AV)
		collect = func(v AV) {
			var bv BV
			switch x := v.(type) {
			case avInt:
				bv = x.bv
			case avF:
				bv = x.bv
			case avBool:
				if x.bitv != nil {
					bv = BV{*x.bitv}
				}
			}
			for _, b := range bv {
				if b.K == bsrc || b.K == bnot {
					read[fmt.Sprintf("%s#%d", b.Src, b.Idx)] = true
				}
			}
		}
		domainOK := true
		why := ""
		nOut := 0
		for k, v := range up.mem {
			if !strings.HasPrefix(k, "out:") {
				continue
			}
			nOut++
			collect(v)
			switch x := v.(type) {
			case avInt:
				if x.bv.HasTop() {
					domainOK, why = false, "decoded field "+k[4:]+" is computed arithmetically"
				}
			case avF:
				if x.bv == nil || x.bv.HasTop() {
					domainOK, why = false, "decoded float "+k[4:]+" is computed arithmetically"
				}
			case avBool:
				if x.bitv == nil && !x.known {
					domainOK, why = false, "decoded boolean "+k[4:]+" is not a single bit"
				}
			case avPath, avAddr:
				// a whole struct value stored field by field from a composite: fields follow
			default:
				domainOK, why = false, fmt.Sprintf("decoded %s has an unsupported shape", k[4:])
			}
		}
		if !domainOK {
			return false, "DOMAIN:" + why, 0
		}
		if nOut == 0 {
			return false, "DOMAIN:nothing decoded", 0
		}
		// pinned bits count as read (the decoder looked at them)
		for k := range up.assume {
			read[k] = true
		}
		// run Pack on the decoded value, inheriting the path's assumptions
		base := &lpath{env: up.env.clone(), conds: append([]string{}, up.conds...), vals: map[ssa.Value]AV{}, mem: map[string]AV{}, assume: map[string]bool{}}
		for k, v := range up.assume {
			base.assume[k] = v
		}
		var recvVal AV
		for k, v := range up.mem {
			if strings.HasPrefix(k, "out:") {
				base.mem[k] = v
				if k == "out:r" {
					recvVal = v
				}
			}
		}
		if recvVal == nil {
			recvVal = avPath{path: "r", typ: dt.Pack.Params[0].Type()}
		}
		if pa, isPath := recvVal.(avPath); isPath && pa.path != "r" {
			// `*d = T{...}` stored a composite cell: expose its fields as r.F
			recvVal = avPath{path: "r", typ: dt.Pack.Params[0].Type()}
		}
		if ad, isAddr := recvVal.(avAddr); isAddr && ad.cell != "" {
			for k, v := range up.mem {
				if strings.HasPrefix(k, ad.cell+".") {
					base.mem["out:r"+strings.TrimPrefix(k, ad.cell)] = v
					collect(v)
				}
			}
			recvVal = avPath{path: "r", typ: dt.Pack.Params[0].Type()}
		}
		replaced := false
		if dt.Key == "17.001" || dt.Key == "18.001" {
			if iv, ok := recvVal.(avInt); ok {
				if k, isK := iv.bv.Const(); isK && k == 63 {
					replaced = true
				}
			}
		}
		outs := runDptPack(p, dt, base, recvVal)
		if len(outs) == 0 {
			return false, "DOMAIN:no encoder path is compatible with the decode path", 0
		}
		for _, o := range outs {
			if os.Getenv("KX_DEBUG") == dt.Key {
				fmt.Printf("DEBUG pack path [%s] ok=%v why=%s\n", pathLabel(o.path), o.ok, o.why)
				for i, b := range o.bytes {
					fmt.Printf("   byte %d = %s\n", i, b)
				}
			}
			if !o.ok {
				return false, "DOMAIN:" + o.why, 0
			}
			nPairs++
			if int64(len(o.bytes)) != g.L {
				return false, fmt.Sprintf("re-encoding has %d bytes, the decoder demands %d", len(o.bytes), g.L), 0
			}
			for k, b := range o.bytes {
				for j := 0; j < 8; j++ {
					key := fmt.Sprintf("data[%d]#%d", k, j)
					got := b[j]
					// apply what the path pinned
					if (got.K == bsrc || got.K == bnot) && got.Src != "" {
						if v, has := o.path.assume[fmt.Sprintf("%s#%d", got.Src, got.Idx)]; has {
							if v == (got.K == bsrc) {
								got = bit{K: b1}
							} else {
								got = bit{K: b0}
							}
						}
					}
					want := bit{K: bsrc, Src: fmt.Sprintf("data[%d]", k), Idx: j}
					if v, has := o.path.assume[key]; has {
						if v {
							want = bit{K: b1}
						} else {
							want = bit{K: b0}
						}
					}
					if got == want {
						continue
					}
					if got.K == b0 && !read[key] {
						continue // reserved position the decoder ignores
					}
					if got.K == btop {
						return false, "DOMAIN:re-encoded byte computed arithmetically", 0
					}
					if replaced {
						continue // the type documents that this input is replaced (17.001 / 18.001: 63)
					}
					if mismatch == "" {
						mismatch = fmt.Sprintf("on the path [%s] output byte %d bit %d is [%s] but the payload had [%s]: decoding and writing back changes the payload", pathLabel(o.path), k, j, got, want)
					}
				}
			}
		}
	}
	if nPairs == 0 {
		return false, "DOMAIN:no successful decode path", 0
	}
	if mismatch != "" {
		return false, mismatch, 0
	}
	return true, "", nPairs
}

// checkStringCharsets: for the fixed-length string types, every character the
// decoder can produce is one the encoder writes back unchanged (the decoder's
// character set is inside the set the encoder keeps), so re-encoding a decoded
// string does not replace characters.
func checkStringCharsets(c *Check, p *Program, dts []dptType) {
	n := 0
	for _, dt := range dts {
		if dt.Main != 16 {
			continue
		}
		n++
		name := dptName(dt)
		// decoder: values appended to the rune buffer
		maxDec, nApp, okDec := -1, 0, true
		instrsOf(dt.Unpack, func(in ssa.Instruction) {
			call, ok := in.(*ssa.Call)
			if !ok || builtinName(call) != "append" {
				return
			}
			items, _ := varargItems(call.Common().Args[1])
			if len(items) != 1 {
				okDec = false
				return
			}
			nApp++
			set, okS := finSetAt(items[0], call.Block())
			if !okS {
				okDec = false
				return
			}
			for v, in := range set {
				if in && v > maxDec {
					maxDec = v
				}
			}
		})
		// encoder: a rune is written as byte(r) only below a limit, replaced otherwise
		keep := math.Inf(1)
		nKeep := 0
		extraPred := ""
		instrsOf(dt.Pack, func(in ssa.Instruction) {
			st, ok := in.(*ssa.Store)
			if !ok {
				return
			}
			cv, ok := st.Val.(*ssa.Convert)
			if !ok {
				return
			}
			if bt, ok := cv.X.Type().Underlying().(*types.Basic); !ok || bt.Kind() != types.Int32 {
				return
			}
			nKeep++
			iv := numInterval(cv.X, st.Block(), 0)
			if iv.hi < keep {
				keep = iv.hi
			}
			// the keep branch must depend on nothing but comparisons of the character with constants:
			// a further predicate (unicode.IsPrint, a table lookup) shrinks the kept set in a way an interval cannot describe
			for _, f := range factsAt(st.Block()) {
				for _, side := range []ssa.Value{f.X, f.Y} {
					if call, ok := side.(*ssa.Call); ok && builtinName(call) == "" {
						for _, a := range call.Common().Args {
							if sameNumeric(a, cv.X) {
								extraPred = "the character is also tested by " + call.Common().String()
							}
						}
					}
				}
			}
		})
		pos := p.Pos(dt.Unpack.Pos())
		if extraPred != "" {
			c.Fail("C06.charset", name+" kept characters form a range", pos, extraPred+": the encoder replaces characters the decoder yields")
		}
		c.Decide(okDec && nApp >= 1 && nKeep >= 1 && float64(maxDec) <= keep && keep <= 255, "C06.charset", name+" decoded characters survive re-encoding", pos, fmt.Sprintf("decoder yields characters <= %d, encoder keeps characters <= %g", maxDec, keep), fmt.Sprintf("the decoder can yield the character %d but the encoder keeps only characters <= %g (others are replaced): re-encoding a decoded string changes it (decoder understood=%v, append sites=%d, keep sites=%d)", maxDec, keep, okDec, nApp, nKeep))
	}
	c.Floor("C06.charset", "fixed-length string types", n, 2)
}

// checkVarStringIdentity: the variable-length character type (28.001).  The
// decoder takes the octets between the leading octet and the terminator as
// they are; the encoder writes a zero octet, the characters as they are and
// a zero terminator.  Judged on the shape of both functions: the decoder's
// value is string(data[1:len(data)-1]) and the encoder's result is made of
// the segments [0] ++ bytes(receiver) ++ [0] (by append, or by copy into a
// zeroed slice of len+2).  A transcoding, filtering or trimming step between
// the receiver and the output is a value the rule does not recognise.
func checkVarStringIdentity(c *Check, p *Program, dt dptType) {
	name := dptName(dt)
	key := name + " Pack(Unpack(data)) copies the characters unchanged"
	pos := p.Pos(dt.Unpack.Pos())
	un, pk := dt.Unpack, dt.Pack
	if un == nil || pk == nil || len(un.Params) != 2 || len(pk.Params) != 1 {
		c.Fail("C06.identity", key, pos, "Pack/Unpack of the variable-length string type not found in the expected form")
		return
	}
	strip := func(v ssa.Value) ssa.Value {
		for i := 0; i < 6; i++ {
			switch x := v.(type) {
			case *ssa.Convert:
				v = x.X
			case *ssa.ChangeType:
				v = x.X
			default:
				return unspill(v)
			}
		}
		return v
	}
	// decoder
	data := un.Params[1]
	okU, nSt := true, 0
	why := ""
	instrsOf(un, func(in ssa.Instruction) {
		st, ok := in.(*ssa.Store)
		if !ok || unspill(st.Addr) != ssa.Value(un.Params[0]) {
			return
		}
		nSt++
		sl, ok := strip(st.Val).(*ssa.Slice)
		if !ok || sl.X != ssa.Value(data) || sl.Max != nil {
			okU, why = false, "the decoded value is not a sub-slice of the payload converted to a string"
			return
		}
		lo, okLo := constInt(sl.Low)
		hiOK := false
		if b, ok := sl.High.(*ssa.BinOp); ok && b.Op == token.SUB {
			if k, isK := constInt(b.Y); isK && k == 1 {
				if l, isL := b.X.(*ssa.Call); isL && builtinName(l) == "len" && l.Common().Args[0] == ssa.Value(data) {
					hiOK = true
				}
			}
		}
		if !okLo || lo != 1 || !hiOK {
			okU, why = false, "the decoded characters are not data[1:len(data)-1]"
		}
	})
	if nSt == 0 {
		okU, why = false, "the decoder never stores the receiver"
	}
	// encoder: segments of the returned slice
	recv := pk.Params[0]
	var segs func(v ssa.Value, depth int) ([]string, bool)
	zeroArr := func(v ssa.Value) (int, bool) {
		sl, ok := v.(*ssa.Slice)
		if !ok || sl.Low != nil || sl.High != nil {
			return 0, false
		}
		al, ok := sl.X.(*ssa.Alloc)
		if !ok {
			return 0, false
		}
		at, ok := deref(al.Type()).Underlying().(*types.Array)
		if !ok {
			return 0, false
		}
		for _, u := range usesOf(al) {
			if ia, ok := u.(*ssa.IndexAddr); ok {
				for _, uu := range usesOf(ia) {
					if st, ok := uu.(*ssa.Store); ok {
						if k, isK := constInt(st.Val); !isK || k != 0 {
							return 0, false
						}
					}
				}
			}
		}
		return int(at.Len()), true
	}
	segs = func(v ssa.Value, depth int) ([]string, bool) {
		if depth > 8 {
			return nil, false
		}
		switch x := v.(type) {
		case *ssa.MakeSlice:
			if k, ok := constInt(x.Len); ok && k >= 0 && k <= 4 {
				out := []string{}
				for i := int64(0); i < k; i++ {
					out = append(out, "0")
				}
				return out, true
			}
			return nil, false
		case *ssa.Call:
			if builtinName(x) != "append" || len(x.Common().Args) != 2 {
				return nil, false
			}
			head, ok := segs(x.Common().Args[0], depth+1)
			if !ok {
				return nil, false
			}
			a1 := x.Common().Args[1]
			if strip(a1) == ssa.Value(recv) {
				return append(head, "recv"), true
			}
			if n, ok := zeroArr(a1); ok {
				for i := 0; i < n; i++ {
					head = append(head, "0")
				}
				return head, true
			}
			return nil, false
		}
		return nil, false
	}
	okP, whyP := true, ""
	nRet := 0
	for _, r := range returnsOf(pk) {
		if len(r.Results) != 1 {
			continue
		}
		nRet++
		rv := r.Results[0]
		sg, ok := segs(rv, 0)
		if !ok {
			// the copy form: buf := make([]byte, len(d)+2); copy(buf[1:], d)
			if mk, isMk := rv.(*ssa.MakeSlice); isMk {
				lenOK := false
				if b, isB := mk.Len.(*ssa.BinOp); isB && b.Op == token.ADD {
					if k, isK := constInt(b.Y); isK && k == 2 {
						if l, isL := b.X.(*ssa.Call); isL && builtinName(l) == "len" && strip(l.Common().Args[0]) == ssa.Value(recv) {
							lenOK = true
						}
					}
				}
				nCopy, copyOK, other := 0, false, false
				for _, u := range usesOf(mk) {
					switch y := u.(type) {
					case *ssa.Slice:
						lo, okLo := constInt(y.Low)
						for _, uu := range usesOf(y) {
							if cl, isC := uu.(*ssa.Call); isC && builtinName(cl) == "copy" && cl.Common().Args[0] == ssa.Value(y) {
								nCopy++
								if okLo && lo == 1 && y.High == nil && strip(cl.Common().Args[1]) == ssa.Value(recv) {
									copyOK = true
								}
							} else if _, isD := uu.(*ssa.DebugRef); !isD {
								other = true
							}
						}
					case *ssa.Return, *ssa.DebugRef:
					default:
						other = true
					}
				}
				if lenOK && nCopy == 1 && copyOK && !other {
					sg, ok = []string{"0", "recv", "0"}, true
				}
			}
		}
		if !ok {
			okP, whyP = false, "the encoder's result is not assembled from a zero octet, the receiver's bytes and a zero terminator (a transcoding, filtering or trimming step lies between the value and the payload)"
			continue
		}
		if strings.Join(sg, " ") != "0 recv 0" {
			okP, whyP = false, "the encoder writes ["+strings.Join(sg, " ")+"], not [0 characters 0]"
		}
	}
	if nRet == 0 {
		okP, whyP = false, "the encoder has no return"
	}
	c.Decide(okU && okP, "C06.identity", key, pos, "decoder: string(data[1:len(data)-1]); encoder: 0, the same bytes, 0", strings.TrimSpace(why+" "+whyP))
}

// checkDecodeInputReadOnly: a decoder reads its payload and never writes to
// it.  The payload is the caller's buffer (the telegram that is decoded a
// second time, logged or relayed afterwards); append on a sub-slice of it
// has spare capacity up to the end of the payload and writes there, copy
// into it and element stores change it directly.  Followed into the module
// functions the payload (or a sub-slice) is handed to.
func checkDecodeInputReadOnly(c *Check, p *Program, dts []dptType, rule string) {
	type key struct {
		fn  *ssa.Function
		idx int
	}
	memo := map[key]string{}
	var writes func(fn *ssa.Function, idx int, depth int) string
	writes = func(fn *ssa.Function, idx int, depth int) string {
		k := key{fn, idx}
		if r, ok := memo[k]; ok {
			return r
		}
		memo[k] = ""
		if depth > 4 || fn == nil || len(fn.Blocks) == 0 || idx >= len(fn.Params) {
			return ""
		}
		derived := map[ssa.Value]bool{fn.Params[idx]: true}
		for changed := true; changed; {
			changed = false
			instrsOf(fn, func(in ssa.Instruction) {
				v, ok := in.(ssa.Value)
				if !ok || derived[v] {
					return
				}
				switch x := in.(type) {
				case *ssa.Slice:
					if derived[x.X] {
						derived[v], changed = true, true
					}
				case *ssa.ChangeType:
					if derived[x.X] {
						derived[v], changed = true, true
					}
				case *ssa.Phi:
					for _, e := range x.Edges {
						if derived[e] {
							derived[v], changed = true, true
						}
					}
				}
			})
		}
		res := ""
		instrsOf(fn, func(in ssa.Instruction) {
			if res != "" {
				return
			}
			switch x := in.(type) {
			case *ssa.Store:
				if ia, ok := x.Addr.(*ssa.IndexAddr); ok && derived[ia.X] {
					res = "stores into the payload at " + p.InstrPos(x)
				}
			case *ssa.Call:
				cc := x.Common()
				switch builtinName(x) {
				case "append":
					if derived[cc.Args[0]] {
						res = "appends to a sub-slice of the payload (its spare capacity is the rest of the payload) at " + p.InstrPos(x)
					}
					return
				case "copy":
					if derived[cc.Args[0]] {
						res = "copies into the payload at " + p.InstrPos(x)
					}
					return
				case "":
				default:
					return
				}
				callee := cc.StaticCallee()
				for i, a := range cc.Args {
					if !derived[a] {
						continue
					}
					if callee != nil && p.InModule(callee) {
						if w := writes(callee, i, depth+1); w != "" {
							res = "hands the payload to " + FuncName(callee) + ", which " + w
						}
					} else if obj := calleeObj(x); obj != nil && (strings.HasPrefix(obj.Name(), "PutUint") || obj.Name() == "Read" || obj.Name() == "ReadFull") {
						res = "hands the payload to " + obj.FullName() + ", which writes into its argument, at " + p.InstrPos(x)
					}
				}
			}
		})
		memo[k] = res
		return res
	}
	n := 0
	for _, dt := range dts {
		if dt.Unpack == nil || len(dt.Unpack.Params) != 2 {
			continue
		}
		n++
		w := writes(dt.Unpack, 1, 0)
		c.Decide(w == "", rule, dptName(dt)+".Unpack leaves the payload as it is", p.Pos(dt.Unpack.Pos()), "no store, append or copy with the payload (or a sub-slice of it) as destination, in the decoder or the helpers it hands the payload to", "the decoder "+w+": the caller's telegram changes while it is decoded, a second look at it gives another value")
	}
	c.Floor(rule, "decoders judged", n, 174)
}
