package main

import (
	"fmt"
	"go/ast"
	"go/constant"
	"go/token"
	"go/types"
	"regexp"
	"sort"
	"strings"

	"golang.org/x/tools/go/ssa"
)

func init() { register("C19", "other", checkC19) }

type regEntry struct {
	Key  string
	Type *types.Named
	Pos  token.Pos
}

// registryEntries reads the dptTypes composite literal.  Problems are
// reported on c (if non-nil) under the given rule prefix.
func registryEntries(c *Check, p *Program, rule string) []regEntry {
	pk := p.PkgSyntax("knx/dpt")
	obj := registryObj(pk.Types)
	if obj == nil {
		if c != nil {
			c.Fail(rule, "dpt.dptTypes", "", "registry variable not found")
		}
		return nil
	}
	var lit *ast.CompositeLit
	for _, f := range pk.Syntax {
		for _, d := range f.Decls {
			gd, ok := d.(*ast.GenDecl)
			if !ok || gd.Tok != token.VAR {
				continue
			}
			for _, s := range gd.Specs {
				vs := s.(*ast.ValueSpec)
				for i, n := range vs.Names {
					if pk.TypesInfo.Defs[n] == obj && i < len(vs.Values) {
						lit, _ = vs.Values[i].(*ast.CompositeLit)
					}
				}
			}
		}
	}
	if lit == nil {
		if c != nil {
			c.Fail(rule, "dpt.dptTypes", p.Pos(obj.Pos()), "registry is not initialised by a composite literal")
		}
		return nil
	}
	var out []regEntry
	for i, el := range lit.Elts {
		kv, ok := el.(*ast.KeyValueExpr)
		if !ok {
			if c != nil {
				c.Fail(rule, fmt.Sprintf("dpt.dptTypes element %d", i), p.Pos(el.Pos()), "element is not key: value")
			}
			continue
		}
		tv := pk.TypesInfo.Types[kv.Key]
		if tv.Value == nil || tv.Value.Kind() != constant.String {
			if c != nil {
				c.Fail(rule, fmt.Sprintf("dpt.dptTypes element %d", i), p.Pos(kv.Key.Pos()), "key is not a constant string")
			}
			continue
		}
		key := constant.StringVal(tv.Value)
		e := regEntry{Key: key, Pos: kv.Pos()}
		// value must be new(T)
		if call, ok := kv.Value.(*ast.CallExpr); ok && len(call.Args) == 1 {
			if id, ok := call.Fun.(*ast.Ident); ok {
				if b, ok := pk.TypesInfo.Uses[id].(*types.Builtin); ok && b.Name() == "new" {
					if n, ok := types.Unalias(pk.TypesInfo.Types[call.Args[0]].Type).(*types.Named); ok {
						e.Type = n
					}
				}
			}
		}
		out = append(out, e)
	}
	return out
}

var keyForm = regexp.MustCompile(`^[0-9]+\.[0-9]{3}$`)
var keyLoose = regexp.MustCompile(`^([0-9]+)\.([0-9]+)$`)

func checkC19(c *Check, p *Program) {
	c.Technique = "AST + go/types queries over the registry literal; SSA def-use of Produce; who-writes scan of package dpt"
	c.Explanation = "Decides: (1) every registry key is a constant string of the form main.sub with a 3-digit sub-number, unique; (2) every value is new(T) with T the package's type DPT_<main><sub> and *T implements Datapoint; (3) every exported DPT_* type and every type implementing DatapointValue is registered; (4) Produce reports ok exactly as the map lookup does and assigns a result only on the ok edge; (5) the produced value is reflect.New of the prototype's element type, the prototype never escapes, the map and every package-level variable of package dpt are never written after initialisation, no registered type contains a reference (pointer, slice, map, chan, func, interface) and no method of a registered type writes package-level state; ListSupportedTypes returns a freshly made slice holding every key of a range over the map. Level 'other' rather than 'proof' only because one obligation (key \"14.1200\") is a recorded known finding, so discharged != obligations."
	c.Trusted = []string{"go/types, go/ssa (x/tools v0.29.0)", "kxcheck rules C19.*", "reflect.New/TypeOf/Elem/Interface contracts", "Go map semantics (concurrent reads are safe)"}
	c.Assumptions = []string{"no code outside package dpt can reach the unexported registry map (language visibility)"}
	c.NotDecided = []string{"nothing of the statement is left undecided; concurrency safety is derived from read-only-ness of all shared state, not from exploring interleavings"}

	dpt := p.Pkg("knx/dpt")
	entries := registryEntries(c, p, "C19.literal")
	c.Floor("C19.literal", "registry entries", len(entries), 174)

	iface := func(name string) *types.Interface {
		o := dpt.Scope().Lookup(name)
		if o == nil {
			return nil
		}
		i, _ := o.Type().Underlying().(*types.Interface)
		return i
	}
	datapoint, dpValue := iface("Datapoint"), iface("DatapointValue")
	if datapoint == nil || dpValue == nil {
		c.Fail("C19.literal", "dpt.Datapoint", "", "interface Datapoint/DatapointValue not found")
		return
	}

	// (1) key form and uniqueness, (2) key <-> type
	seen := map[string]bool{}
	registered := map[*types.Named]string{}
	for _, e := range entries {
		pos := p.Pos(e.Pos)
		c.Decide(keyForm.MatchString(e.Key), "C19.key-form", fmt.Sprintf("%q", e.Key), pos,
			"matches ^[0-9]+\\.[0-9]{3}$", "key does not have the form main.sub with a three-digit sub-number")
		c.Decide(!seen[e.Key], "C19.key-unique", fmt.Sprintf("%q", e.Key), pos, "first occurrence", "duplicate key")
		seen[e.Key] = true
		if e.Type == nil {
			c.Fail("C19.key-type", fmt.Sprintf("%q", e.Key), pos, "value is not new(T) with T a named type")
			continue
		}
		want := ""
		if m := keyLoose.FindStringSubmatch(e.Key); m != nil {
			want = "DPT_" + m[1] + m[2]
		}
		okName := e.Type.Obj().Pkg() == dpt && e.Type.Obj().Name() == want
		c.Decide(okName, "C19.key-type", fmt.Sprintf("%q", e.Key), pos,
			"value is new("+e.Type.Obj().Name()+")", fmt.Sprintf("value is new(%s) but the type bearing number %s is %s", e.Type.Obj().Name(), e.Key, want))
		c.Decide(types.Implements(types.NewPointer(e.Type), datapoint), "C19.implements", e.Type.Obj().Name(), pos,
			"*T implements dpt.Datapoint", "*T does not implement dpt.Datapoint")
		if prev, dup := registered[e.Type]; dup {
			c.Fail("C19.type-unique", e.Type.Obj().Name(), pos, fmt.Sprintf("type registered twice (%q and %q)", prev, e.Key))
		} else {
			registered[e.Type] = e.Key
		}
		c.Analysed("registry entries", e.Key)
	}

	// (3) completeness
	names := dpt.Scope().Names()
	nDPT := 0
	for _, n := range names {
		tn, ok := dpt.Scope().Lookup(n).(*types.TypeName)
		if !ok || tn.IsAlias() {
			continue
		}
		named, ok := tn.Type().(*types.Named)
		if !ok {
			continue
		}
		if _, isIface := named.Underlying().(*types.Interface); isIface {
			continue
		}
		isDPTName := strings.HasPrefix(n, "DPT_") && tn.Exported()
		implV := types.Implements(types.NewPointer(named), dpValue) || types.Implements(named, dpValue)
		if !isDPTName && !implV {
			continue
		}
		nDPT++
		_, ok = registered[named]
		c.Decide(ok, "C19.complete", n, p.Pos(tn.Pos()), "registered as "+registered[named], "datapoint type is not reachable through the registry")
	}
	c.Floor("C19.complete", "datapoint types in package source", nDPT, 174)

	// (5c) no registered type holds a reference
	for t, key := range registered {
		if why := hasReference(t.Underlying(), 0); why != "" {
			c.Fail("C19.no-shared-refs", t.Obj().Name(), p.Pos(t.Obj().Pos()), "type of "+key+" contains "+why+": two instances could share state")
		} else {
			c.OK("C19.no-shared-refs", t.Obj().Name(), p.Pos(t.Obj().Pos()), "underlying type "+typeName(t.Underlying())+" holds no pointer/slice/map/chan/func/interface")
		}
	}

	// (4),(5a) Produce
	checkProduce(c, p)
	// (5b) package state is read-only after init
	checkDptGlobalsReadOnly(c, p, registered)
	// ListSupportedTypes
	checkListSupported(c, p)
}

func hasReference(t types.Type, depth int) string {
	if depth > 6 {
		return "deeply nested type"
	}
	switch u := t.Underlying().(type) {
	case *types.Basic:
		if u.Kind() == types.UnsafePointer {
			return "unsafe.Pointer"
		}
		return ""
	case *types.Pointer:
		return "a pointer"
	case *types.Slice:
		return "a slice"
	case *types.Map:
		return "a map"
	case *types.Chan:
		return "a channel"
	case *types.Signature:
		return "a func"
	case *types.Interface:
		return "an interface"
	case *types.Array:
		return hasReference(u.Elem(), depth+1)
	case *types.Struct:
		for i := 0; i < u.NumFields(); i++ {
			if w := hasReference(u.Field(i).Type(), depth+1); w != "" {
				return w + " (field " + u.Field(i).Name() + ")"
			}
		}
		return ""
	}
	return "an unknown kind of type"
}

func checkProduce(c *Check, p *Program) {
	fn := p.Func("knx/dpt", "Produce")
	g := registryGlobal(p)
	if fn == nil || g == nil {
		c.Fail("C19.produce", "dpt.Produce", "", "function Produce or variable dptTypes not found")
		return
	}
	pos := p.Pos(fn.Pos())
	c.Analysed("functions", FuncName(fn))
	if len(fn.Params) != 1 {
		c.Fail("C19.produce", "dpt.Produce", pos, "expected exactly one parameter")
		return
	}
	name := fn.Params[0]
	// find the lookups
	var lookups []*ssa.Lookup
	for _, b := range fn.Blocks {
		for _, in := range b.Instrs {
			if l, ok := in.(*ssa.Lookup); ok {
				lookups = append(lookups, l)
			}
		}
	}
	if len(lookups) != 1 || !lookups[0].CommaOk {
		c.Fail("C19.produce-ok", "dpt.Produce", pos, "expected exactly one comma-ok map lookup")
		return
	}
	lk := lookups[0]
	fromReg := false
	if u, ok := lk.X.(*ssa.UnOp); ok && u.Op == token.MUL && u.X == g {
		fromReg = true
	}
	c.Decide(fromReg && lk.Index == name, "C19.produce-ok", "dpt.Produce lookup", p.InstrPos(lk),
		"comma-ok lookup dptTypes[name] on the parameter", "lookup is not dptTypes[<parameter>]")
	var okVal, protoVal ssa.Value
	for _, r := range usesOf(lk) {
		if e, ok := r.(*ssa.Extract); ok {
			if e.Index == 1 {
				okVal = e
			} else {
				protoVal = e
			}
		}
	}
	// okAt: +1 when the lookup's ok is known true at the end of block b (on the edge to succ), -1 known false, 0 unknown
	okAt := func(b, succ *ssa.BasicBlock) int {
		fs := factsAt(b)
		if succ != nil {
			fs = append(append([]Cmp{}, fs...), edgeFactsOf(b, succ)...)
		}
		res := 0
		for _, f := range fs {
			if f.X != okVal {
				continue
			}
			k, isK := f.Y.(*ssa.Const)
			if !isK || k.Value == nil || k.Value.Kind() != constant.Bool {
				continue
			}
			want := constant.BoolVal(k.Value)
			if f.Op == token.NEQ {
				want = !want
			} else if f.Op != token.EQL {
				continue
			}
			if want {
				res = 1
			} else {
				res = -1
			}
		}
		return res
	}
	for i, r := range returnsOf(fn) {
		key := fmt.Sprintf("dpt.Produce return#%d", i)
		if len(r.Results) != 2 {
			c.Fail("C19.produce-ok", key, p.InstrPos(r), "expected two results")
			continue
		}
		// second result: the lookup's ok, or the constant it is known to equal on this path
		good := true
		oks := resultValues(r, 1)
		for _, ov := range oks {
			ov = resolvePhiAt(ov, r.Block())
			if ov == okVal {
				continue
			}
			k, isK := ov.(*ssa.Const)
			if isK && k.Value != nil && k.Value.Kind() == constant.Bool {
				st := okAt(r.Block(), nil)
				if (constant.BoolVal(k.Value) && st == 1) || (!constant.BoolVal(k.Value) && st == -1) {
					continue
				}
			}
			good = false
		}
		c.Decide(good && len(oks) >= 1, "C19.produce-ok", key+" ok", p.InstrPos(r), "second result equals the comma-ok of the map lookup", "second result is not the map lookup's ok value")

		// first result: nil exactly when !ok, otherwise a fresh allocation
		for _, dv := range resultValues(r, 0) {
			checkProducedValue(c, p, key, r, resolvePhiAt(dv, r.Block()), okAt, protoVal)
		}
	}
	// the prototype reaches only reflect.TypeOf / reflect.ValueOf, and reflect values derived from it
	// are only inspected (Elem, Type, Kind, Indirect): nothing hands out or mutates the prototype
	if protoVal != nil {
		bad := ""
		var follow func(v ssa.Value, depth int)
		var followRV func(v ssa.Value, depth int)
		followRV = func(v ssa.Value, depth int) {
			if depth > 8 {
				bad = "reflect value chain too deep"
				return
			}
			for _, u := range usesOf(v) {
				switch x := u.(type) {
				case *ssa.Call:
					o := calleeObj(x)
					switch {
					case funcIs(o, "reflect", "Value", "Elem"), funcIs(o, "reflect", "", "Indirect"):
						followRV(x, depth+1)
					case funcIs(o, "reflect", "Value", "Type"), funcIs(o, "reflect", "Value", "Kind"), funcIs(o, "reflect", "Value", "IsNil"), funcIs(o, "reflect", "Value", "IsValid"):
					default:
						bad = "a reflect.Value of the prototype is used by " + x.Common().String() + " (it can hand out or modify the registry's prototype)"
					}
				case *ssa.DebugRef:
				case *ssa.Store:
					// spilled receiver of a method call on the value: follow the cell's loads
					if al, ok := x.Addr.(*ssa.Alloc); ok && x.Val == v {
						for _, lu := range usesOf(al) {
							if ld, ok := lu.(*ssa.UnOp); ok && ld.Op == token.MUL {
								followRV(ld, depth+1)
							}
						}
					} else {
						bad = "a reflect.Value of the prototype is stored"
					}
				default:
					bad = fmt.Sprintf("a reflect.Value of the prototype flows into %T", u)
				}
			}
		}
		follow = func(v ssa.Value, depth int) {
			for _, u := range usesOf(v) {
				switch x := u.(type) {
				case *ssa.ChangeInterface:
					follow(x, depth+1)
				case *ssa.MakeInterface:
					follow(x, depth+1)
				case *ssa.Call:
					switch {
					case funcIs(calleeObj(x), "reflect", "", "TypeOf"):
					case funcIs(calleeObj(x), "reflect", "", "ValueOf"):
						followRV(x, 0)
					default:
						bad = "prototype is passed to " + x.Common().String()
					}
				case *ssa.DebugRef:
				default:
					bad = fmt.Sprintf("prototype flows into %T (%s)", u, u)
				}
			}
		}
		follow(protoVal, 0)
		c.Decide(bad == "", "C19.produce-fresh", "dpt.Produce prototype use", p.InstrPos(lk), "the looked-up prototype reaches only reflect.TypeOf/ValueOf and is only inspected", bad)
	}
}

func checkProducedValue(c *Check, p *Program, key string, r *ssa.Return, dv ssa.Value, okAt func(b, succ *ssa.BasicBlock) int, protoVal ssa.Value) {
	switch x := dv.(type) {
	case *ssa.Phi:
		for i, e := range x.Edges {
			pred := x.Block().Preds[i]
			st := okAt(pred, x.Block())
			sub := fmt.Sprintf("%s d edge%d", key, i)
			if isNilConst(e) {
				c.Decide(st == -1, "C19.produce-ok", sub, p.InstrPos(r), "nil result only on the !ok edge", "nil datapoint returned although the name is registered")
				continue
			}
			c.Decide(st == 1, "C19.produce-ok", sub, p.InstrPos(r), "result assigned only on the ok edge", "a datapoint is returned for an unknown name")
			checkFresh(c, p, sub, r, e, protoVal)
		}
	default:
		st := okAt(r.Block(), nil)
		if isNilConst(dv) {
			c.Decide(st == -1, "C19.produce-ok", key+" d", p.InstrPos(r), "nil result behind !ok", "nil datapoint returned although the name may be registered")
			return
		}
		c.Decide(st == 1, "C19.produce-ok", key+" d", p.InstrPos(r), "a datapoint is returned only behind ok", "a datapoint is returned for an unknown name")
		checkFresh(c, p, key+" d", r, dv, protoVal)
	}
}

// reflKind classifies a reflect value/type derived from the prototype:
// "T:ptr" TypeOf(proto), "T:elem" its element type, "V:ptr" ValueOf(proto),
// "V:elem" the prototype's pointee; "" unknown.
func reflKind(v ssa.Value, proto ssa.Value, depth int) string {
	if depth > 10 {
		return ""
	}
	// values spilled into a cell for a method call with a value receiver
	if u, ok := v.(*ssa.UnOp); ok && u.Op == token.MUL {
		if al, ok := u.X.(*ssa.Alloc); ok {
			if sts := cellStores(al); len(sts) == 1 {
				return reflKind(sts[0].Val, proto, depth+1)
			}
		}
		return ""
	}
	call, ok := v.(*ssa.Call)
	if !ok {
		return ""
	}
	o := calleeObj(call)
	arg0 := func() ssa.Value {
		if call.Common().IsInvoke() {
			return call.Common().Value
		}
		if len(call.Common().Args) == 0 {
			return nil
		}
		a := call.Common().Args[0]
		for {
			switch x := a.(type) {
			case *ssa.ChangeInterface:
				a = x.X
				continue
			case *ssa.MakeInterface:
				a = x.X
				continue
			}
			break
		}
		return a
	}
	switch {
	case funcIs(o, "reflect", "", "TypeOf"):
		if arg0() == proto {
			return "T:ptr"
		}
	case funcIs(o, "reflect", "", "ValueOf"):
		if arg0() == proto {
			return "V:ptr"
		}
	case funcIs(o, "reflect", "", "Indirect"):
		if reflKind(arg0(), proto, depth+1) == "V:ptr" {
			return "V:elem"
		}
	case o != nil && o.Name() == "Elem":
		switch reflKind(arg0(), proto, depth+1) {
		case "T:ptr":
			return "T:elem"
		case "V:ptr":
			return "V:elem"
		}
	case o != nil && o.Name() == "Type" && funcIs(o, "reflect", "Value", "Type"):
		switch reflKind(arg0(), proto, depth+1) {
		case "V:ptr":
			return "T:ptr"
		case "V:elem":
			return "T:elem"
		}
	}
	return ""
}

// checkFresh: v = (reflect.New(<element type of the prototype>)).Interface(), possibly through a type assertion.
func checkFresh(c *Check, p *Program, key string, r *ssa.Return, v ssa.Value, proto ssa.Value) {
	fail := func(why string) { c.Fail("C19.produce-fresh", key, p.InstrPos(r), why) }
	if ta, ok := v.(*ssa.TypeAssert); ok {
		v = ta.X
	}
	if ci, ok := v.(*ssa.ChangeInterface); ok {
		v = ci.X
	}
	call, ok := v.(*ssa.Call)
	if !ok || !funcIs(calleeObj(call), "reflect", "Value", "Interface") {
		fail("returned value is not the Interface() of a reflect.Value (it may alias the registry prototype)")
		return
	}
	recv := call.Common().Args[0]
	if u, ok := recv.(*ssa.UnOp); ok && u.Op == token.MUL {
		if al, ok := u.X.(*ssa.Alloc); ok {
			if sts := cellStores(al); len(sts) == 1 {
				recv = sts[0].Val
			}
		}
	}
	nw, ok := recv.(*ssa.Call)
	if !ok || !funcIs(calleeObj(nw), "reflect", "", "New") {
		fail("the reflect.Value is not produced by reflect.New (no fresh allocation)")
		return
	}
	if k := reflKind(nw.Common().Args[0], proto, 0); k != "T:elem" {
		fail("reflect.New is not applied to the element type of the looked-up prototype (TypeOf(prototype).Elem() or an equivalent chain); derivation: " + map[string]string{"": "unrecognised", "T:ptr": "the pointer type itself", "V:ptr": "a value", "V:elem": "a value"}[k])
		return
	}
	c.OK("C19.produce-fresh", key, p.InstrPos(r), "reflect.New(<element type of the prototype>).Interface(): a new zero value of exactly the prototype's element type")
}

// globalPartUse judges the uses of the address of a field or element of a
// package-level variable: loads of plain values anywhere, stores during
// package initialisation only, sync/atomic operations (a word every access
// to which is atomic is no state that concurrent use could corrupt).
func globalPartUse(addr ssa.Value, inInit bool, fname string, depth int) string {
	if depth > 6 {
		return "address used through a long selector chain in " + fname
	}
	refs := addr.Referrers()
	if refs == nil {
		return ""
	}
	for _, r := range *refs {
		switch x := r.(type) {
		case *ssa.DebugRef:
		case *ssa.UnOp:
			if x.Op != token.MUL {
				return "address used by " + x.String() + " in " + fname
			}
			switch x.Type().Underlying().(type) {
			case *types.Slice, *types.Map, *types.Pointer, *types.Chan, *types.Interface, *types.Signature:
				return "a reference held in the variable is loaded in " + fname + " (what it refers to is shared)"
			}
		case *ssa.Store:
			if x.Addr != addr {
				return "address stored by " + fname
			}
			if !inInit {
				return "a part of it is assigned in " + fname
			}
		case *ssa.FieldAddr:
			if b := globalPartUse(x, inInit, fname, depth+1); b != "" {
				return b
			}
		case *ssa.IndexAddr:
			if b := globalPartUse(x, inInit, fname, depth+1); b != "" {
				return b
			}
		case ssa.CallInstruction:
			if a := x.Common().Args; x.Common().IsInvoke() || !isSyncAtomic(calleeObj(x)) || len(a) == 0 || a[0] != addr {
				return fmt.Sprintf("address escapes through %T in %s", r, fname)
			}
		default:
			return fmt.Sprintf("address escapes through %T in %s", r, fname)
		}
	}
	return ""
}

// checkDptGlobalsReadOnly: no store to any package-level variable of dpt
// outside package initialisation; no MapUpdate on a global map; the address
// of a global never escapes; methods of registered types (and everything they
// call inside the package) therefore share no mutable state.
func checkDptGlobalsReadOnly(c *Check, p *Program, registered map[*types.Named]string) {
	sp := p.SSAPkg[modPath+"/knx/dpt"]
	var globals []*ssa.Global
	for _, m := range sp.Members {
		if g, ok := m.(*ssa.Global); ok && !strings.HasPrefix(g.Name(), "init$") {
			globals = append(globals, g)
		}
	}
	sort.Slice(globals, func(i, j int) bool { return globals[i].Name() < globals[j].Name() })
	for _, g := range globals {
		bad := ""
		nUses := 0
		for _, u := range usesOf(g) {
			nUses++
			fn := u.Parent()
			inInit := fn != nil && fn.Name() == "init" && fn.Parent() == nil
			switch x := u.(type) {
			case *ssa.UnOp:
				if x.Op != token.MUL {
					bad = "address used by " + x.String()
					break
				}
				// loaded value: a map/slice must not be updated outside init
				for _, lu := range usesOf(x) {
					switch y := lu.(type) {
					case *ssa.MapUpdate:
						if y.Map == x && !inInit {
							bad = "map is updated in " + FuncName(fn)
						}
					case *ssa.IndexAddr:
						for _, su := range usesOf(y) {
							if st, ok := su.(*ssa.Store); ok && st.Addr == y && !inInit {
								bad = "element is assigned in " + FuncName(fn)
							}
						}
					case *ssa.Call:
						if builtinName(y) == "delete" || builtinName(y) == "clear" {
							bad = "map is modified by " + builtinName(y) + " in " + FuncName(fn)
						}
						if (builtinName(y) == "append" || builtinName(y) == "copy") && y.Common().Args[0] == ssa.Value(x) && !inInit {
							bad = "the variable's backing array is written by " + builtinName(y) + " in " + FuncName(fn)
						}
					case *ssa.Slice:
						// a re-slice shares the backing array: appending to / storing through it writes shared state
						if !inInit {
							for _, su := range usesOf(y) {
								switch z := su.(type) {
								case *ssa.Call:
									if (builtinName(z) == "append" || builtinName(z) == "copy") && z.Common().Args[0] == ssa.Value(y) {
										bad = "a re-slice of the variable is written by " + builtinName(z) + " in " + FuncName(fn)
									}
								case *ssa.Phi, *ssa.Store, *ssa.Return, *ssa.MakeInterface:
									bad = "a re-slice of the variable escapes in " + FuncName(fn) + " (shared backing array)"
								case *ssa.IndexAddr:
									for _, ssu := range usesOf(z) {
										if st, ok := ssu.(*ssa.Store); ok && st.Addr == ssa.Value(z) {
											bad = "an element of the variable is assigned through a re-slice in " + FuncName(fn)
										}
									}
								}
							}
						}
					case *ssa.Return:
						if _, isSl := x.Type().Underlying().(*types.Slice); isSl && !inInit {
							bad = "the slice itself is returned by " + FuncName(fn) + " (callers can modify shared state)"
						}
					}
				}
			case *ssa.Store:
				if x.Addr == g && !inInit {
					bad = "assigned in " + FuncName(fn)
				} else if x.Addr != g {
					bad = "address stored by " + FuncName(fn)
				}
			case *ssa.DebugRef:
			case *ssa.FieldAddr, *ssa.IndexAddr:
				// a field or element of the variable itself
				bad = globalPartUse(x.(ssa.Value), inInit, FuncName(fn), 0)
			case ssa.CallInstruction:
				// a typed atomic (atomic.Uint64 ...) used through its methods
				if a := x.Common().Args; x.Common().IsInvoke() || !isSyncAtomic(calleeObj(x)) || len(a) == 0 || a[0] != ssa.Value(g) {
					bad = fmt.Sprintf("address escapes through %T in %s", u, FuncName(fn))
				}
			default:
				bad = fmt.Sprintf("address escapes through %T in %s", u, FuncName(fn))
			}
			if bad != "" {
				break
			}
		}
		c.Decide(bad == "", "C19.read-only-state", "dpt."+g.Name(), p.Pos(g.Pos()),
			fmt.Sprintf("%d use(s): loads only, written in package init only", nUses), "package-level variable of dpt is "+bad)
	}
	c.Floor("C19.read-only-state", "package-level variables of dpt", len(globals), 3)
	// anti-vacuity: the scan sees the uses of the registry (Produce and ListSupportedTypes read it)
	if rg := registryGlobal(p); rg != nil {
		c.Floor("C19.read-only-state", "uses of the registry variable seen by the scan", len(usesOf(rg)), 2)
	}
	// methods of registered types exist and are analysed through the global scan
	// above (a write anywhere in the package is caught irrespective of caller).
	n := 0
	for t := range registered {
		for i := 0; i < t.NumMethods(); i++ {
			if f := p.SSA.FuncValue(t.Method(i)); f != nil {
				n++
			}
		}
	}
	c.Note("methods of registered types covered by the package-wide who-writes scan: %d", n)
}

func checkListSupported(c *Check, p *Program) {
	fn := p.Func("knx/dpt", "ListSupportedTypes")
	g := registryGlobal(p)
	if fn == nil {
		c.Fail("C19.list", "dpt.ListSupportedTypes", "", "function not found")
		return
	}
	c.Analysed("functions", FuncName(fn))
	pos := p.Pos(fn.Pos())
	// returned slice: chain of append/phi rooted at a MakeSlice
	var rootOK func(v ssa.Value, depth int) bool
	rootOK = func(v ssa.Value, depth int) bool {
		if depth > 10 {
			return true // cycles through phi are fine
		}
		switch x := v.(type) {
		case *ssa.MakeSlice:
			return true
		case *ssa.Phi:
			for _, e := range x.Edges {
				if e == x {
					continue
				}
				if !rootOK(e, depth+1) {
					return false
				}
			}
			return true
		case *ssa.Call:
			if builtinName(x) == "append" {
				return rootOK(x.Common().Args[0], depth+1)
			}
		case *ssa.Const:
			return x.Value == nil
		case *ssa.UnOp:
			// a local that a closure captures (sort.Slice's less function) lives in a cell of this call:
			// everything stored there must be fresh, and the cell goes nowhere but into closures of this function
			if cell, ok := x.X.(*ssa.Alloc); ok && x.Op == token.MUL && cell.Parent() == fn {
				for _, st := range cellStores(cell) {
					if !rootOK(st.Val, depth+1) {
						return false
					}
				}
				for _, af := range fn.AnonFuncs {
					for _, fv := range af.FreeVars {
						if closureBinding(fv) == ssa.Value(cell) {
							for _, st := range cellStores2(fv) {
								if !rootOK(st.Val, depth+1) {
									return false
								}
							}
						}
					}
				}
				return len(cellStores(cell)) > 0
			}
		}
		return false
	}
	for i, r := range returnsOf(fn) {
		ok := len(r.Results) == 1 && rootOK(r.Results[0], 0)
		c.Decide(ok, "C19.list", fmt.Sprintf("dpt.ListSupportedTypes return#%d", i), p.InstrPos(r), "returns a slice allocated in the call (make + append)", "returned slice is not freshly allocated in the call")
	}
	// every key of a range over the registry is appended
	var rng *ssa.Range
	for _, b := range fn.Blocks {
		for _, in := range b.Instrs {
			if r, ok := in.(*ssa.Range); ok {
				if u, ok := r.X.(*ssa.UnOp); ok && u.X == g {
					rng = r
				}
			}
		}
	}
	if rng == nil {
		c.Fail("C19.list", "dpt.ListSupportedTypes range", pos, "no range over the registry map")
		return
	}
	okAppend := false
	for _, u := range usesOf(rng) {
		nx, ok := u.(*ssa.Next)
		if !ok {
			continue
		}
		for _, e := range usesOf(nx) {
			ex, ok := e.(*ssa.Extract)
			if !ok || ex.Index != 1 {
				continue
			}
			// key stored into varargs array which is appended; the append lies
			// in the loop body unconditionally (body block has the If(ok) as
			// only guard)
			for _, su := range usesOf(ex) {
				if st, ok := su.(*ssa.Store); ok {
					edges := domEdges(st.Block())
					onlyRangeGuard := true
					for _, ed := range edges {
						if x, ok := ed.Cond.(*ssa.Extract); !ok || x.Tuple != nx || x.Index != 0 {
							onlyRangeGuard = false
						}
					}
					if onlyRangeGuard {
						okAppend = true
					}
				}
			}
		}
	}
	c.Decide(okAppend, "C19.list", "dpt.ListSupportedTypes range", p.InstrPos(rng), "every key of the range is appended unconditionally", "keys are filtered or not appended")
}

// registryObj: the registry is the one package-level variable of package dpt
// whose type is map[string]Datapoint (found by type, not by name).
func registryObj(pkg *types.Package) types.Object {
	var found types.Object
	n := 0
	for _, name := range pkg.Scope().Names() {
		v, ok := pkg.Scope().Lookup(name).(*types.Var)
		if !ok {
			continue
		}
		m, ok := v.Type().Underlying().(*types.Map)
		if !ok {
			continue
		}
		if b, ok := m.Key().Underlying().(*types.Basic); !ok || b.Kind() != types.String {
			continue
		}
		if nt, ok := m.Elem().(*types.Named); ok && nt.Obj().Name() == "Datapoint" && nt.Obj().Pkg() == pkg {
			found = v
			n++
		}
	}
	if n != 1 {
		return nil
	}
	return found
}

func registryGlobal(p *Program) *ssa.Global {
	pk := p.PkgSyntax("knx/dpt")
	if pk == nil {
		return nil
	}
	obj := registryObj(pk.Types)
	if obj == nil {
		return nil
	}
	return p.Global("knx/dpt", obj.Name())
}

// cellStores2: stores through a captured variable inside the closure.
func cellStores2(fv *ssa.FreeVar) []*ssa.Store {
	var out []*ssa.Store
	if refs := fv.Referrers(); refs != nil {
		for _, r := range *refs {
			if st, ok := r.(*ssa.Store); ok && st.Addr == ssa.Value(fv) {
				out = append(out, st)
			}
		}
	}
	return out
}
