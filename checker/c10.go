package main

import (
	"fmt"
	"go/token"
	"go/types"
	"sort"
	"strings"

	"golang.org/x/tools/go/ssa"
)

func init() { register("C10", "other", checkC10) }

// hasDeferredRecover: fn defers a closure that calls recover().
// recoversBefore: a deferred function that calls recover() is registered on
// every path before instruction at (a recover registered behind the send does
// not protect it).
func recoversBefore(fn *ssa.Function, at ssa.Instruction) bool {
	found := false
	instrsOf(fn, func(in ssa.Instruction) {
		d, ok := in.(*ssa.Defer)
		if !ok || !instrDominates(d, at) {
			return
		}
		cf := deferCallee(d)
		if cf == nil || cf.Blocks == nil {
			return
		}
		instrsOf(cf, func(x ssa.Instruction) {
			if c, ok := x.(ssa.CallInstruction); ok && builtinName(c) == "recover" {
				found = true
			}
		})
	})
	return found
}

func hasDeferredRecover(fn *ssa.Function) bool {
	found := false
	instrsOf(fn, func(in ssa.Instruction) {
		d, ok := in.(*ssa.Defer)
		if !ok {
			return
		}
		cf := deferCallee(d)
		if cf == nil || cf.Blocks == nil {
			return
		}
		instrsOf(cf, func(x ssa.Instruction) {
			if c, ok := x.(ssa.CallInstruction); ok && builtinName(c) == "recover" {
				found = true
			}
		})
	})
	return found
}

// topOf returns the outermost enclosing function.
func topOf(fn *ssa.Function) *ssa.Function {
	for fn.Parent() != nil {
		fn = fn.Parent()
	}
	return fn
}

// recvTypeIs: fn (or its outermost parent) is a method of *pkg.name.
func recvTypeIs(fn *ssa.Function, pkg, name string) bool {
	t := topOf(fn)
	if t.Signature.Recv() == nil {
		return false
	}
	rt := t.Signature.Recv().Type()
	return isPtrToNamed(rt, pkg, name) || isNamed(rt, pkg, name)
}

// fieldAccess is one read or write of a struct field.
type fieldAccess struct {
	Field *types.Var
	Write bool
	In    ssa.Instruction
	Fn    *ssa.Function
}

// accessesOf lists loads and stores of the fields of struct type st in the module.
func (p *Program) accessesOf(st *types.Named) []fieldAccess {
	var out []fieldAccess
	owns := map[*types.Var]bool{}
	s, _ := st.Underlying().(*types.Struct)
	for i := 0; s != nil && i < s.NumFields(); i++ {
		owns[s.Field(i)] = true
	}
	for _, fn := range p.SrcFuncs() {
		instrsOf(fn, func(in ssa.Instruction) {
			switch x := in.(type) {
			case *ssa.FieldAddr:
				f := structField(x.X.Type(), x.Field)
				if !owns[f] {
					return
				}
				// direct uses of &x.f; nested &x.f.g counts as an access of f
				var visit func(addr ssa.Value, depth int)
				visit = func(addr ssa.Value, depth int) {
					for _, u := range usesOf(addr) {
						switch y := u.(type) {
						case *ssa.UnOp:
							if y.Op == token.MUL {
								out = append(out, fieldAccess{f, false, y, fn})
							}
						case *ssa.Store:
							if y.Addr == addr {
								out = append(out, fieldAccess{f, true, y, fn})
							}
						case *ssa.FieldAddr:
							if depth < 3 {
								visit(y, depth+1)
							}
						case *ssa.IndexAddr:
							if depth < 3 {
								visit(y, depth+1)
							}
						}
					}
				}
				visit(x, 0)
			case *ssa.Field:
				if f := structField(x.X.Type(), x.Field); owns[f] {
					out = append(out, fieldAccess{f, false, x, fn})
				}
			}
		})
	}
	return out
}

func isSyncType(t types.Type) bool {
	n := namedOf(t)
	return n != nil && n.Obj().Pkg() != nil && n.Obj().Pkg().Path() == "sync"
}

// raceReport runs the lockset race rule over the fields of one client struct.
// ctor: the constructor (accesses rooted only there happen before any goroutine
// of the client exists).  It emits one obligation per non-sync field.
func raceReport(c *Check, p *Program, rule string, st *types.Named, ctor *ssa.Function, cg *CG, lc *lockCtx) {
	accs := p.accessesOf(st)
	byField := map[*types.Var][]fieldAccess{}
	for _, a := range accs {
		byField[a.Field] = append(byField[a.Field], a)
	}
	s := st.Underlying().(*types.Struct)
	// the constructor must not touch the client after starting its goroutines
	ctorSafe := true
	if ctor != nil {
		instrsOf(ctor, func(in ssa.Instruction) {
			g, ok := in.(*ssa.Go)
			if !ok {
				return
			}
			instrsOf(ctor, func(y ssa.Instruction) {
				if ci, ok := y.(*ssa.Call); ok && instrReaches(g, ci) {
					if f := ci.Common().StaticCallee(); f != nil && p.InModule(f) {
						ctorSafe = false
					}
				}
				if stt, ok := y.(*ssa.Store); ok && instrReaches(g, stt) {
					if f := fieldOfAddr(stt.Addr); f != nil && byField[f] != nil {
						ctorSafe = false
					}
				}
			})
		})
	}
	c.Decide(ctorSafe, rule, FuncName(ctor)+" does not touch the client after starting goroutines", p.Pos(ctor.Pos()), "no module call or field store is reachable from a go statement of the constructor", "the constructor keeps working on the client after its goroutines were started: constructor accesses are not ordered before them")
	type ctxAcc struct {
		a     fieldAccess
		roots []string
		self  bool // the context can run concurrently with itself
		locks map[string]bool
	}
	rootMemo := map[*ssa.Function][]Root{}
	for i := 0; i < s.NumFields(); i++ {
		f := s.Field(i)
		if isSyncType(f.Type()) {
			continue
		}
		key := st.Obj().Name() + "." + f.Name()
		var list []ctxAcc
		nW := 0
		for _, a := range byField[f] {
			rs, ok := rootMemo[a.Fn]
			if !ok {
				rs = cg.rootsAPI(a.Fn)
				rootMemo[a.Fn] = rs
			}
			ca := ctxAcc{a: a, locks: map[string]bool{}}
			for _, k := range lc.info(a.Fn).HeldSet(a.In) {
				if !strings.HasPrefix(k, "defer:") {
					ca.locks[k] = true
				}
			}
			for _, r := range rs {
				if r.Kind == "api" && r.Fn == ctor {
					continue // CTOR: ordered before every goroutine of the client
				}
				label := r.Kind + ":" + FuncName(r.Fn)
				ca.roots = append(ca.roots, label)
				if r.Kind == "api" {
					ca.self = true // any number of application goroutines
				} else if r.Site != nil && (inAnyLoop(r.Site.Block()) || r.Site.Parent() != ctor) {
					ca.self = true // spawned repeatedly
				}
			}
			if len(ca.roots) == 0 {
				continue
			}
			if a.Write {
				nW++
			}
			list = append(list, ca)
		}
		if nW == 0 {
			c.OK(rule, key, p.Pos(f.Pos()), fmt.Sprintf("never written after construction (%d reads)", len(list)))
			continue
		}
		// pairwise
		var races []string
		for _, w := range list {
			if !w.a.Write {
				continue
			}
			for _, x := range list {
				if x.a.In == w.a.In && !w.self {
					continue
				}
				conc := w.self && x.a.In == w.a.In
				for _, rw := range w.roots {
					for _, rx := range x.roots {
						if rw != rx || w.self || x.self {
							conc = true
						}
					}
				}
				if !conc {
					continue
				}
				common := false
				for k := range w.locks {
					if x.locks[k] {
						common = true
					}
				}
				if common {
					continue
				}
				kind := "read"
				if x.a.Write {
					kind = "write"
				}
				races = append(races, fmt.Sprintf("write in %s [%s] %s vs %s in %s [%s] %s", FuncName(w.a.Fn), strings.Join(w.roots, ","), p.InstrPos(w.a.In), kind, FuncName(x.a.Fn), strings.Join(x.roots, ","), p.InstrPos(x.a.In)))
			}
		}
		sort.Strings(races)
		if len(races) == 0 {
			c.OK(rule, key, p.Pos(f.Pos()), fmt.Sprintf("%d writes, every conflicting pair shares a lock or a goroutine", nW))
		} else {
			more := ""
			if len(races) > 3 {
				more = fmt.Sprintf(" (+%d more pairs)", len(races)-3)
				races = races[:3]
			}
			c.Fail(rule, key, p.Pos(f.Pos()), "unsynchronised conflicting accesses: "+strings.Join(races, "; ")+more)
		}
	}
}

func checkC10(c *Check, p *Program) {
	c.Technique = "call-graph who-may-call, dominance inside the once-guarded closure, close-site census per channel, blocking-point enumeration with exit rules, lockset-based race report over goroutine contexts"
	c.Explanation = "Decides the structure Close relies on: K1 Close is exactly one sync.Once.Do of a closure; K2 close(Tunnel.done) exists at one site, inside that closure; the disconnect request is sent only from that closure, unconditionally, before Socket.Close; K3 wait.Add(1) precedes `go serve`, and in the closure close(done) -> wait.Wait() -> Socket.Close() are unconditional and in that order; K4 Tunnel.inbound and Tunnel.ack are each closed at one deferred site in the once-per-client serve goroutine, local channels by a defer of their maker; K5 every blocking select in a Tunnel method has a case on Tunnel.done or on a timer created outside its loop that leaves the loop, every plain send can be left through a deferred recover plus the K4 close; K6 every send on a channel that is closed somewhere runs in the closer's goroutine or under a deferred recover; K7 the sender's acknowledgement receive is comma-ok and the closed edge returns a non-nil error; K8 lockset race report over all fields of Tunnel by goroutine context (constructor / serve / spawned roots / API). Tunnel.channel and Tunnel.control are written by the reconnect path without a lock their readers hold: recorded known findings. Not decided: Close's duration bound, that helper goroutines have already exited when Close returns, races inside package net."
	c.Trusted = []string{"go/types, go/ssa", "kxcheck call graph (static callees, closures, Once.Do, AfterFunc, CHA) and lockset", "sync.Once / WaitGroup / Mutex semantics"}
	c.NotDecided = []string{"numeric bound on Close's duration", "helper goroutines already gone at the instant Close returns", "absence of races inside package net"}

	a := resolveTunnel(c, p, "C10.anchor")
	if !a.complete() {
		return
	}
	t := resolveTunnelFns(c, p, "C10.anchor", a)
	if !t.complete() {
		return
	}
	cg := p.CallGraph()
	lc := newLockCtx(p, cg)
	ix := p.index()
	tun := p.Named("knx", "Tunnel")

	// ---- K1: Close
	var closeFn, onceFn *ssa.Function
	var onceCall *ssa.Call
	for _, fn := range p.FuncsIn("knx") {
		if fn.Parent() != nil || !recvTypeIs(fn, knxPath, "Tunnel") {
			continue
		}
		instrsOf(fn, func(in ssa.Instruction) {
			if call, ok := in.(*ssa.Call); ok && funcIs(calleeObj(call), "sync", "Once", "Do") && fieldOfAddr(callRecv(call)) == a.once {
				closeFn, onceCall = fn, call
				if len(call.Common().Args) == 2 {
					onceFn = fnOfValue(call.Common().Args[1])
				}
			}
		})
	}
	if closeFn == nil || onceFn == nil {
		c.Fail("C10.K1", "Tunnel.Close", "", "no method of Tunnel calls Tunnel.once.Do(func): Close is not once-guarded")
		return
	}
	c.Analysed("functions", FuncName(closeFn))
	c.Analysed("functions", FuncName(onceFn))
	okOnly := true
	bad := ""
	instrsOf(closeFn, func(in ssa.Instruction) {
		switch x := in.(type) {
		case *ssa.FieldAddr, *ssa.MakeClosure, *ssa.Return, *ssa.Alloc, *ssa.DebugRef, *ssa.UnOp:
		case *ssa.Store:
			if _, isCell := x.Addr.(*ssa.Alloc); !isCell {
				okOnly, bad = false, p.InstrPos(in)
			}
		case *ssa.Call:
			if x != onceCall {
				okOnly, bad = false, p.InstrPos(in)
			}
		default:
			okOnly, bad = false, p.InstrPos(in)
		}
	})
	c.Decide(okOnly, "C10.K1", FuncName(closeFn)+" is only once.Do(closure)", p.Pos(closeFn.Pos()), "nothing outside the once-guarded closure has an effect", "Close does something outside once.Do at "+bad+": a second Close repeats it")
	nOnceUsers := 0
	for _, fn := range p.FuncsIn("knx") {
		instrsOf(fn, func(in ssa.Instruction) {
			if call, ok := in.(ssa.CallInstruction); ok && funcIs(calleeObj(call), "sync", "Once", "Do") && fieldOfAddr(callRecv(call)) == a.once {
				nOnceUsers++
			}
		})
	}
	c.Exact("C10.K1", "uses of Tunnel.once", nOnceUsers, 1, p.Pos(closeFn.Pos()))

	// helpers inside the closure
	on := FuncName(onceFn)
	unconditional := func(in ssa.Instruction) bool {
		if inAnyLoop(in.Block()) {
			return false
		}
		for _, r := range returnsOf(onceFn) {
			if !in.Block().Dominates(r.Block()) {
				return false
			}
		}
		return true
	}
	var closeDone, waitCall, sockClose, discCall ssa.Instruction
	instrsOf(onceFn, func(in ssa.Instruction) {
		ci, ok := in.(ssa.CallInstruction)
		if !ok {
			return
		}
		switch {
		case builtinName(ci) == "close" && chanIs(ci.Common().Args[0], a.done):
			closeDone = in
		case funcIs(calleeObj(ci), "sync", "WaitGroup", "Wait") && fieldOfAddr(callRecv(ci)) == a.wait:
			waitCall = in
		case ci.Common().IsInvoke() && ci.Common().Method.Name() == "Close" && isLoadOf(ci.Common().Value, a.sock):
			sockClose = in
		default:
			if f := ci.Common().StaticCallee(); f != nil && t.discSender != nil && cg.reachableSync(f)[t.discSender] {
				discCall = in
			}
		}
	})

	// the closure may transmit the disconnect request itself (sender inlined into Close)
	if discCall == nil && t.discSender == onceFn {
		for _, s := range ix.sockSends {
			if s.payloadIs("DiscReq") && s.Fn == onceFn {
				discCall = s.Call
			}
		}
	}

	// ---- K2
	closes := ix.opsOnField(a.done, "close")
	c.Exact("C10.K2", "close(Tunnel.done) sites", len(closes), 1, "")
	for _, op := range closes {
		c.Decide(op.Fn == onceFn, "C10.K2", FuncName(op.Fn)+" closes done", p.InstrPos(op.Instr), "inside the once-guarded closure", "Tunnel.done is closed outside the once-guarded closure: a second close panics")
	}
	if t.discSender == nil {
		c.Fail("C10.K2", "disconnect request sender", "", "no function sends a *knxnet.DiscReq: Close does not tell the gateway")
	} else {
		// who may call: every synchronous caller chain passes the once edge
		var bad []string
		seen := map[*ssa.Function]bool{}
		var up func(f *ssa.Function)
		up = func(f *ssa.Function) {
			if seen[f] {
				return
			}
			seen[f] = true
			if f == onceFn {
				return
			}
			ins := cg.In[f]
			if len(ins) == 0 {
				bad = append(bad, FuncName(f))
			}
			for _, e := range ins {
				up(e.Caller)
			}
		}
		up(t.discSender)
		c.Decide(len(bad) == 0, "C10.K2", "disconnect request only from the once-guarded closure", p.Pos(t.discSender.Pos()), "every caller chain of "+FuncName(t.discSender)+" passes Close's closure", "a disconnect request can also be sent from "+strings.Join(bad, ", ")+": more than one may go out")
		n := 0
		for _, s := range ix.sockSends {
			if s.payloadIs("DiscReq") && fnPkg(s.Fn).Pkg.Path() == knxPath {
				n++
				if al, ok := s.PayVal.(*ssa.Alloc); ok {
					fs := fieldStores(al)
					ch := fs[fieldByName(al.Type(), "Channel")]
					c.Decide(len(ch) == 1 && isLoadOf(ch[0].Val, a.channel), "C10.K2", FuncName(s.Fn)+" DiscReq.Channel", p.InstrPos(s.Call), "the connection's channel", "the disconnect request does not carry the connection's channel")
				}
			}
		}
		c.Exact("C10.K2", "DiscReq transmission sites", n, 1, "")
		if discCall == nil {
			c.Fail("C10.K2", on+" sends the disconnect request", p.Pos(onceFn.Pos()), "the closure does not call the disconnect-request sender")
		} else {
			c.Decide(unconditional(discCall), "C10.K2", on+" disconnect request unconditional", p.InstrPos(discCall), "on every path of the closure", "the disconnect request is only sent on some paths")
			if sockClose != nil {
				c.Decide(instrDominates(discCall, sockClose), "C10.K2", on+" disconnect request before Socket.Close", p.InstrPos(discCall), "precedes the socket's close", "the disconnect request is sent after the socket was closed")
			}
		}
	}

	// ---- K3 join
	for name, in := range map[string]ssa.Instruction{"close(done)": closeDone, "wait.Wait()": waitCall, "sock.Close()": sockClose} {
		if in == nil {
			c.Fail("C10.K3", on+" "+name, p.Pos(onceFn.Pos()), "the closure does not perform "+name)
			continue
		}
		c.Decide(unconditional(in), "C10.K3", on+" "+name+" unconditional", p.InstrPos(in), "dominates every return of the closure, outside loops", name+" is skipped on some path through Close (e.g. an early return): the tunnel is left running or the socket open")
	}
	if closeDone != nil && waitCall != nil && sockClose != nil {
		c.Decide(instrDominates(closeDone, waitCall) && instrDominates(waitCall, sockClose), "C10.K3", on+" order close(done) -> Wait -> Socket.Close", p.InstrPos(waitCall), "termination signal, then join, then socket", "Close waits before signalling, or closes the socket before the worker has exited")
	}
	var goServe *ssa.Go
	instrsOf(t.ctor, func(in ssa.Instruction) {
		if g, ok := in.(*ssa.Go); ok && goCallee(g) == t.serve {
			goServe = g
		}
	})
	if goServe == nil {
		c.Fail("C10.K3", FuncName(t.ctor)+" starts serve", p.Pos(t.ctor.Pos()), "the constructor does not start the serve goroutine")
	} else {
		okAdd := false
		instrsOf(t.ctor, func(in ssa.Instruction) {
			if ci, ok := in.(*ssa.Call); ok && funcIs(calleeObj(ci), "sync", "WaitGroup", "Add") && fieldOfAddr(callRecv(ci)) == a.wait {
				if k, isK := constInt(ci.Common().Args[1]); isK && k == 1 && instrDominates(ci, goServe) {
					okAdd = true
				}
			}
		})
		c.Decide(okAdd, "C10.K3", FuncName(t.ctor)+" wait.Add(1) before go serve", p.InstrPos(goServe), "Add(1) dominates the go statement", "wait.Add(1) does not precede the start of the serve goroutine: Close's Wait can return before (or panic when) the worker calls Done")
		c.Decide(!inAnyLoop(goServe.Block()), "C10.K3", FuncName(t.ctor)+" one serve goroutine", p.InstrPos(goServe), "outside loops", "serve is started in a loop")
	}
	nGoServe := 0
	for _, e := range cg.In[t.serve] {
		if e.Kind == "go" {
			nGoServe++
		} else {
			c.Fail("C10.K3", FuncName(e.Caller)+" calls serve", p.InstrPos(e.Site), "serve is also entered other than by the constructor's go statement")
		}
	}
	c.Exact("C10.K3", "go sites of serve", nGoServe, 1, "")
	// wait.Done deferred in serve: C09.H8 shape, re-checked here
	doneDef := false
	for _, hf := range append([]*ssa.Function{t.serve}, t.serve.AnonFuncs...) {
		instrsOf(hf, func(in ssa.Instruction) {
			ci, ok := in.(ssa.CallInstruction)
			if !ok || !funcIs(calleeObj(ci), "sync", "WaitGroup", "Done") || fieldOfAddr(callRecv(ci)) != a.wait {
				return
			}
			if d := deferredIn(t.serve, in); d != nil && !inAnyLoop(d.Block()) && d.Block() == t.serve.Blocks[0] {
				doneDef = true
			}
		})
	}
	c.Decide(doneDef, "C10.K3", FuncName(t.serve)+" defers wait.Done()", p.Pos(t.serve.Pos()), "deferred in the entry block", "serve does not defer wait.Done() at entry: Close can block for ever in Wait")
	// deferred calls run in reverse order: the completion signal must be registered before every deferred close of a
	// channel the application or a sender observes, so that Close's Wait returns only after those channels are closed
	var doneDefer *ssa.Defer
	var closeDefers []*ssa.Defer
	litOrderBad := false
	instrsOf(t.serve, func(in ssa.Instruction) {
		d, ok := in.(*ssa.Defer)
		if !ok {
			return
		}
		if funcIs(calleeObj(d), "sync", "WaitGroup", "Done") && fieldOfAddr(callRecv(d)) == a.wait {
			doneDefer = d
		}
		if builtinName(d) == "close" {
			if f := chanField(d.Common().Args[0]); f == a.inbound || f == a.ack {
				closeDefers = append(closeDefers, d)
			}
		}
		// a deferred literal that does one of the two
		if mc, isMC := d.Common().Value.(*ssa.MakeClosure); isMC {
			if lit, isFn := mc.Fn.(*ssa.Function); isFn {
				var doneIn ssa.Instruction
				var closesIn []ssa.Instruction
				instrsOf(lit, func(y ssa.Instruction) {
					if ci, ok := y.(ssa.CallInstruction); ok {
						if funcIs(calleeObj(ci), "sync", "WaitGroup", "Done") {
							doneDefer, doneIn = d, y
						}
						if builtinName(ci) == "close" {
							closeDefers = append(closeDefers, d)
							closesIn = append(closesIn, y)
						}
					}
				})
				// both in one literal: the closes come first inside it
				if doneIn != nil {
					for _, cl := range closesIn {
						if !instrDominates(cl, doneIn) {
							litOrderBad = true
						}
					}
				}
			}
		}
	})
	if doneDefer != nil {
		okOrder := len(closeDefers) >= 1 && !litOrderBad
		for _, cd := range closeDefers {
			if cd != doneDefer && !instrDominates(doneDefer, cd) {
				okOrder = false
			}
		}
		c.Decide(okOrder, "C10.K3", FuncName(t.serve)+" signals completion after closing its channels", p.InstrPos(doneDefer), "wait.Done() is deferred before the deferred closes, so it runs after them", "wait.Done() is deferred after a deferred close of Inbound or the acknowledgement channel and therefore runs before it: Close can return while Inbound is still open")
	}

	// ---- K4 single closer
	closedFields := map[*types.Var]bool{}
	for _, f := range []*types.Var{a.inbound, a.ack} {
		ops := ix.opsOnField(f, "close")
		key := fieldKey(f)
		c.Exact("C10.K4", "close sites of "+key, len(ops), 1, "")
		for _, op := range ops {
			d := deferredIn(t.serve, op.Instr)
			c.Decide(d != nil && !inAnyLoop(d.Block()), "C10.K4", key+" closed by serve's defer", p.InstrPos(op.Instr), "deferred, once, in the once-per-client serve goroutine", "the channel is closed outside serve's deferred exit (double close, or close while serve still sends)")
			closedFields[f] = true
		}
	}
	// local channels of Tunnel methods that are closed: closed by a defer of their maker
	closedLocals := map[*ssa.MakeChan]bool{}
	for _, op := range ix.chanOps {
		if op.Kind != "close" || !recvTypeIs(op.Fn, knxPath, "Tunnel") || op.Field != nil {
			continue
		}
		mc, _ := stripConv(op.Chan).(*ssa.MakeChan)
		_, isDefer := op.Instr.(*ssa.Defer)
		ok := mc != nil && isDefer && mc.Parent() == op.Fn && !inAnyLoop(op.Instr.Block())
		c.Decide(ok, "C10.K4", FuncName(op.Fn)+" closes its local channel by defer", p.InstrPos(op.Instr), "made and closed (deferred) by the same function", "a local channel is closed other than by a defer of the function that made it")
		if mc != nil {
			closedLocals[mc] = true
		}
	}

	// ---- K5 every blocking point can be left; K6 sends on closed channels
	nBlock := 0
	for _, fn := range p.FuncsIn("knx") {
		if !recvTypeIs(fn, knxPath, "Tunnel") {
			continue
		}
		fnName := FuncName(fn)
		instrsOf(fn, func(in ssa.Instruction) {
			d := blockingDesc(in)
			if d == "" {
				return
			}
			pos := p.InstrPos(in)
			switch x := in.(type) {
			case *ssa.Select:
				nBlock++
				lp := innermostLoop(x.Block())
				cases, _ := selectCases(x)
				exit := ""
				for i, st := range x.States {
					if st.Dir != types.RecvOnly {
						continue
					}
					leaves := true
					if lp != nil && cases[i].Body != nil {
						leaves = !reachableFrom(cases[i].Body, nil)[lp.Header]
					}
					if chanIs(st.Chan, a.done) && leaves {
						exit = "case <-Tunnel.done leaves"
					}
					if tm := timerOf(st.Chan); tm != nil && tm.Kind == "after" && leaves {
						if lp == nil || (!lp.Body[tm.Call.Block()] && tm.Call.Block().Dominates(lp.Header)) {
							if exit == "" {
								exit = "case on time.After(" + describe(tm.Arg) + ") created outside the loop leaves"
							}
						} else if exit == "" {
							exit = ""
							c.Note("%s: select at %s has a time.After case that is re-armed inside its loop", fnName, pos)
						}
					}
				}
				c.Decide(exit != "", "C10.K5", fnName+" select can be left", pos, exit, "this blocking select has neither a case on Tunnel.done nor a case on a timer created outside its loop that leaves the loop: the goroutine (and Close, which waits for serve) can block for ever")
			case *ssa.Send:
				nBlock++
				f := chanField(x.Chan)
				closed := closedFields[f]
				if mc, ok := stripConv(resolveFree(x.Chan)).(*ssa.MakeChan); ok && closedLocals[mc] {
					closed = true
				}
				c.Decide(closed && recoversBefore(fn, in), "C10.K5", fnName+" plain send can be left", pos, "the channel is closed on serve's exit and the resulting panic is recovered", "a plain blocking send that nothing interrupts: the goroutine leaks when nobody receives")
			case *ssa.UnOp:
				nBlock++
				c.Fail("C10.K5", fnName+" plain receive", pos, "a plain blocking receive outside a select cannot be interrupted by Close")
			case *ssa.Call:
				switch d {
				case "sync.WaitGroup.Wait":
					nBlock++
					c.Decide(fn == onceFn, "C10.K5", fnName+" Wait", pos, "Close's join; serve leaves by its select exits", "WaitGroup.Wait outside Close")
					// the join must not hold a lock the joined goroutine may still need
					held := ""
					for sf := range cg.reachableSync(t.serve) {
						instrsOf(sf, func(y ssa.Instruction) {
							if ci, ok := y.(ssa.CallInstruction); ok {
								if op, ok := mutexOp(ci); ok && op.kind == "lock" && lc.Held(x, op.key) {
									held = op.key + " (taken by " + FuncName(sf) + ")"
								}
							}
						})
					}
					c.Decide(held == "", "C10.K5", fnName+" Wait holds no lock the worker takes", pos, "lockset at the join: "+lc.HeldSet(x), "Close waits for the worker while holding "+held+": when the worker is about to take that lock (reconnect) both wait for ever")
				case "sync.Mutex.Lock":
					nBlock++
					rel, whyNot := lockReleased(fn, x)
					c.Decide(rel, "C10.K5", fnName+" Lock "+lockKey(callRecv(x)), pos, "released on every path (Unlock or deferred Unlock); holders leave through their select exits (K5)", "the lock is not released on every path: "+whyNot+" - the next Send (or reconnect) blocks for ever")
				default:
					nBlock++
					c.Fail("C10.K5", fnName+" "+d, pos, "unbounded blocking call in a tunnel goroutine")
				}
			}
		})
	}
	c.Floor("C10.K5", "blocking points in Tunnel methods", nBlock, 6)
	checkNoLockCopies(c, p, "C10.K5", "knx", "Tunnel")

	// K6
	nSend := 0
	for _, op := range ix.chanOps {
		if op.Kind != "send" && op.Kind != "sel-send" {
			continue
		}
		if !recvTypeIs(op.Fn, knxPath, "Tunnel") && !(op.ViaParam != nil && op.Field != nil && closedFields[op.Field]) {
			continue // (a helper shared with the router, handed one of the tunnel's closed channels, counts)
		}
		closed := op.Field != nil && closedFields[op.Field]
		var ch ssa.Value = op.Chan
		if mc, ok := stripConv(unspill(resolveFree(stripConv(ch)))).(*ssa.MakeChan); ok && closedLocals[mc] {
			closed = true
		}
		// a channel parameter fed by a closed local (handleConnStateRes's heartbeat parameter)
		if prm, ok := unspill(resolveFree(stripConv(ch))).(*ssa.Parameter); ok && !closed {
			for _, e := range cg.In[topOf(op.Fn)] {
				if ci, ok := e.Site.(ssa.CallInstruction); ok {
					for i, fp := range topOf(op.Fn).Params {
						if fp == prm && i < len(ci.Common().Args) {
							if mc, ok := stripConv(ci.Common().Args[i]).(*ssa.MakeChan); ok && closedLocals[mc] {
								closed = true
							}
						}
					}
				}
			}
		}
		if !closed {
			continue
		}
		nSend++
		roots := cg.rootsOfOp(op)
		inCloser := len(roots) > 0
		for _, r := range roots {
			if !(r.Kind == "go" && r.Fn == t.serve) {
				inCloser = false
			}
		}
		c.Decide(inCloser || recoversBefore(op.Fn, op.Instr), "C10.K6", FuncName(op.Fn)+" send on a channel that gets closed", p.InstrPos(op.Instr), "runs in the closing goroutine or recovers", "this send can execute after serve closed the channel and nothing recovers the 'send on closed channel' panic: it escapes the library")
	}
	c.Floor("C10.K6", "sends on channels that are closed on exit", nSend, 3)

	// ---- K7 Send after Close
	var sender *ssa.Function
	for _, s := range ix.sockSends {
		if s.payloadIs("TunnelReq") && fnPkg(s.Fn).Pkg.Path() == knxPath {
			sender = s.Fn
		}
	}
	if sender != nil {
		nClosedRet := 0
		for _, r := range returnsOf(sender) {
			sel, _, in := inSelectRecvOn(r.Block(), a.ack)
			if !in {
				continue
			}
			okv := selectRecvOK(sel)
			if okv == nil {
				c.Fail("C10.K7", FuncName(sender)+" comma-ok receive", p.InstrPos(sel), "the acknowledgement receive does not test whether the channel is closed: after Close, Send sees a nil acknowledgement")
				break
			}
			if anyFact(factsAt(r.Block()), func(f Cmp) bool { return cmpIsBool(f, false, func(v ssa.Value) bool { return v == okv }) }) {
				nClosedRet++
				c.Decide(!p.returnMayBeNil(r, 0), "C10.K7", FuncName(sender)+" closed ack channel fails Send", p.InstrPos(r), "non-nil error", "Send reports success when the tunnel has terminated")
			}
		}
		c.Floor("C10.K7", "closed-channel exits of the sender", nClosedRet, 1)
		// after Close the socket is closed and its Send fails: that error is the only thing that stops a Send on a
		// TCP tunnel (no acknowledgement to wait for) from reporting success, so every exit that may report success
		// lies behind "the transmission returned no error"
		sendCalls := map[ssa.Value]bool{}
		for _, s := range ix.sockSends {
			if s.Fn == sender && s.payloadIs("TunnelReq") {
				if v, ok := s.Call.(ssa.Value); ok {
					sendCalls[v] = true
				}
			}
		}
		nSucc := 0
		for _, r := range returnsOf(sender) {
			if len(r.Results) == 0 || !p.returnMayBeNil(r, 0) {
				continue
			}
			nSucc++
			behind := anyFact(factsAt(r.Block()), func(f Cmp) bool {
				return f.Op == token.EQL && (sendCalls[f.X] && isNilConst(f.Y) || sendCalls[f.Y] && isNilConst(f.X))
			})
			// ... or the exit returns the transmission's own result: nil exactly when it succeeded
			if !behind {
				vals := resultValues(r, 0)
				own := len(vals) > 0
				for _, v := range vals {
					if !sendCalls[v] && p.mayBeNil(v, r.Block()) {
						own = false
					}
				}
				behind = own
			}
			c.Decide(behind, "C10.K7", FuncName(sender)+" success only after a transmission that succeeded", p.InstrPos(r), "the exit lies behind Socket.Send(...) == nil", "Send can report success without having looked at the error of its transmission: after Close (or a socket failure) the frame goes nowhere and the caller is told it was sent")
		}
		c.Floor("C10.K7", "exits of the sender that may report success", nSucc, 1)
	}

	// ---- K8 races
	raceReport(c, p, "C10.K8", tun, t.ctor, cg, lc)
}
