package main

import (
	"fmt"
	"go/constant"
	"go/token"
	"go/types"

	"golang.org/x/tools/go/ssa"
)

func init() { register("C09", "other", checkC09) }

// tunnelFns resolves the functions of the tunnel client by what they do, not
// by their names.
type tunnelFns struct {
	process, serve, connect, stateReq, heartbeat, discReqH, discResH, stateResH, ctor, closeFn, discSender *ssa.Function
	procSel                                                                                          *ssa.Select
	procCall                                                                                         *ssa.Call // call of process in serve
}

func paramOfPtrType(fn *ssa.Function, pkg, name string) *ssa.Parameter {
	for _, p := range fn.Params {
		if isPtrToNamed(p.Type(), pkg, name) {
			return p
		}
	}
	return nil
}

func resolveTunnelFns(c *Check, p *Program, rule string, a *tunnelAnchors) *tunnelFns {
	t := &tunnelFns{}
	ix := p.index()
	cg := p.CallGraph()
	isInboundCall := func(v ssa.Value) bool {
		call, ok := v.(*ssa.Call)
		return ok && call.Common().IsInvoke() && call.Common().Method.Name() == "Inbound" && isLoadOf(call.Common().Value, a.sock)
	}
	for _, fn := range p.FuncsIn("knx") {
		instrsOf(fn, func(in ssa.Instruction) {
			s, ok := in.(*ssa.Select)
			if !ok {
				return
			}
			hasDone, hasIn := false, false
			for _, st := range s.States {
				if st.Dir == types.RecvOnly && chanIs(st.Chan, a.done) {
					hasDone = true
				}
				if st.Dir == types.RecvOnly && isInboundCall(st.Chan) {
					hasIn = true
				}
			}
			if hasDone && hasIn {
				t.process, t.procSel = fn, s
			}
		})
		if fn.Parent() == nil {
			if paramOfPtrType(fn, knxnetPath, "DiscReq") != nil && len(fn.Params) == 2 {
				t.discReqH = fn
			}
			if paramOfPtrType(fn, knxnetPath, "DiscRes") != nil && len(fn.Params) == 2 {
				t.discResH = fn
			}
			if paramOfPtrType(fn, knxnetPath, "ConnStateRes") != nil {
				t.stateResH = fn
			}
		}
	}
	for _, s := range ix.sockSends {
		if fnPkg(s.Fn).Pkg.Path() != knxPath {
			continue
		}
		switch {
		case s.payloadIs("ConnReq"):
			t.connect = s.Fn
		case s.payloadIs("ConnStateReq"):
			t.stateReq = s.Fn
		case s.payloadIs("DiscReq"):
			t.discSender = s.Fn
		}
	}
	if t.process != nil {
		for _, e := range cg.In[t.process] {
			if e.Kind == "call" {
				t.serve = e.Caller
				t.procCall, _ = e.Site.(*ssa.Call)
			}
		}
	}
	if t.stateReq != nil {
		for _, e := range cg.In[t.stateReq] {
			if e.Kind == "call" {
				t.heartbeat = e.Caller
			}
		}
	}
	tun := p.Named("knx", "Tunnel")
	for _, fn := range p.FuncsIn("knx") {
		if fn.Parent() == nil && isConstructorOf(fn, tun) {
			t.ctor = fn
		}
	}
	for name, f := range map[string]*ssa.Function{"process function (select on Tunnel.done and sock.Inbound())": t.process, "serve function (caller of process)": t.serve, "connect function (sends *ConnReq)": t.connect, "connection-state request function (sends *ConnStateReq)": t.stateReq, "heartbeat function (caller of the state request)": t.heartbeat, "disconnect-request handler (*DiscReq parameter)": t.discReqH, "disconnect-response handler (*DiscRes parameter)": t.discResH, "connection-state response handler (*ConnStateRes parameter)": t.stateResH, "constructor of Tunnel": t.ctor} {
		if f == nil {
			c.Fail(rule, name, "", "cannot be resolved: the mechanism the rule checks is missing or was restructured beyond recognition")
		} else {
			c.Analysed("functions", FuncName(f))
		}
	}
	return t
}

func (t *tunnelFns) complete() bool {
	return t.process != nil && t.serve != nil && t.connect != nil && t.stateReq != nil && t.heartbeat != nil && t.discReqH != nil && t.discResH != nil && t.stateResH != nil && t.ctor != nil && t.procCall != nil
}

func checkC09(c *Check, p *Program) {
	c.Technique = "select/timer decoding, dominating-edge facts, path enumeration with edge facts, who-calls and def-use over the SSA of process/serve/connect/heartbeat functions"
	c.Explanation = "Decides the wiring of the heartbeat/reconnect mechanism edge by edge: H1 the processing select has a case on NewTicker(config.HeartbeatInterval).C created before the loop that starts the heartbeat goroutine, the three durations stored by the constructor are defaulted when non-positive and the default variable is never written; H2 the connection-state request carries conn.channel/conn.control, is sent before the wait loop, re-sent on the ResendInterval ticker and fails on time.After(ResponseTimeout); H3 the heartbeat function signals failure on every path except err == nil && state == NoError, the result channel is unbuffered, only fed behind res.Channel == conn.channel with res.Status, and its value is what the request function returns; H4 process returns the heartbeat-failed error exactly in the failure-channel case, serve calls the connect function exactly on the heartbeat-failed/disconnected errors, success re-enters processing, failure returns; H5 a disconnect request is answered with DiscRes{req.Channel, 0} and leads to reconnect only behind req.Channel == conn.channel; H6 a disconnect response ends the tunnel only behind res.Channel == conn.channel; H7 connect succeeds only behind *ConnRes with Status NoError, stores res.Channel and resets the sequence counter there, busy statuses retry, others fail; the connect request carries conn.layer/conn.control; H8 serve defers close(inbound), close(ack), wait.Done() before its loop. Not decided: wall-clock heartbeat period/response deadline and multi-epoch behaviour under every fault placement."
	c.Trusted = []string{"go/types, go/ssa", "kxcheck select/timer decoding, dominance, path enumeration", "time.NewTicker/After semantics"}
	c.NotDecided = []string{"'at least once per heartbeat interval' and 'within the response timeout' as wall-clock facts", "behaviour over consecutive epochs under every fault placement"}
	c.Assumptions = []string{"the application does not overwrite knx.DefaultTunnelConfig"}

	a := resolveTunnel(c, p, "C09.anchor")
	if !a.complete() {
		return
	}
	t := resolveTunnelFns(c, p, "C09.anchor", a)
	if !t.complete() {
		return
	}
	ix := p.index()
	cg := p.CallGraph()
	pn := FuncName(t.process)
	sel := t.procSel
	selPos := p.InstrPos(sel)
	cases, _ := selectCases(sel)
	lp := innermostLoop(sel.Block())
	if lp == nil {
		c.Fail("C09.H1", pn+" select in loop", selPos, "the processing select is not in a loop")
		return
	}

	// ---- H1 heartbeat is scheduled
	hbState := -1
	var failCh ssa.Value // the failure channel handed to the heartbeat goroutine
	var hbCh ssa.Value   // the result channel
	for i, st := range sel.States {
		tm := timerOf(st.Chan)
		if st.Dir == types.RecvOnly && tm != nil && tm.Kind == "ticker" && tm.Field == a.heartbeatIv {
			hbState = i
			outside := !lp.Body[tm.Call.Block()] && tm.Call.Block().Dominates(lp.Header)
			c.Decide(outside, "C09.H1", pn+" heartbeat ticker created once", p.InstrPos(tm.Call), "time.NewTicker(config.HeartbeatInterval) before the loop", "the heartbeat ticker is created inside the loop: it never fires while traffic keeps arriving")
		}
	}
	c.Decide(hbState >= 0, "C09.H1", pn+" has a heartbeat case", selPos, "select receives from NewTicker(config.HeartbeatInterval).C", "the processing select has no case on a ticker of config.HeartbeatInterval: no heartbeat is ever scheduled")
	if hbState >= 0 && cases[hbState].Body != nil {
		body := cases[hbState].Body
		reach := reachableFrom(body, func(from, to *ssa.BasicBlock) bool { return to == lp.Header })
		var goes []*ssa.Go
		for b := range reach {
			if b == lp.Header {
				continue
			}
			for _, in := range b.Instrs {
				if g, ok := in.(*ssa.Go); ok {
					goes = append(goes, g)
				}
			}
		}
		okGo := false
		for _, g := range goes {
			if f := goCallee(g); f != nil && cg.reachableSync(f)[t.stateReq] {
				okGo = true
				// the goroutine's channel arguments
				for _, arg := range g.Common().Args {
					v := stripConv(arg)
					if mc, ok := v.(*ssa.MakeChan); ok {
						if isNamed(mc.Type().Underlying().(*types.Chan).Elem(), knxnetPath, "ErrCode") {
							hbCh = mc
						} else {
							failCh = mc
						}
					}
				}
			}
		}
		min, max := pathCount(body, func(in ssa.Instruction) bool { _, ok := in.(*ssa.Go); return ok }, func(b *ssa.BasicBlock) bool { return b == lp.Header })
		c.Decide(okGo && min == 1 && max == 1, "C09.H1", pn+" heartbeat case starts the check", selPos, "every path of the case starts one goroutine that reaches the connection-state request", fmt.Sprintf("the heartbeat case starts %d..%d goroutines reaching the connection-state request (found=%v)", min, max, okGo))
	}
	checkConfigDefaults(c, p, "C09.H1", a, t)

	// ---- H2 request content and repetition
	var stateSel *ssa.Select
	var stateAlloc ssa.Value
	for _, s := range ix.sockSends {
		if s.Fn == t.stateReq && s.payloadIs("ConnStateReq") {
			stateAlloc = s.PayVal
		}
	}
	if al, ok := stateAlloc.(*ssa.Alloc); ok {
		fs := fieldStores(al)
		chk := func(name string, want *types.Var) {
			f := fieldByName(al.Type(), name)
			sts := fs[f]
			okv := len(sts) == 1 && isLoadOf(sts[0].Val, want)
			c.Decide(okv, "C09.H2", FuncName(t.stateReq)+" request."+name, p.Pos(al.Pos()), "load of "+fieldKey(want), "the connection-state request's "+name+" is not the connection's current "+want.Name())
		}
		chk("Channel", a.channel)
		chk("Control", a.control)
	} else {
		c.Fail("C09.H2", FuncName(t.stateReq)+" request value", p.Pos(t.stateReq.Pos()), "the connection-state request is not a fresh composite")
	}
	var hbParam *ssa.Parameter
	for _, prm := range t.stateReq.Params {
		if ch, ok := prm.Type().Underlying().(*types.Chan); ok && isNamed(ch.Elem(), knxnetPath, "ErrCode") {
			hbParam = prm
		}
	}
	instrsOf(t.stateReq, func(in ssa.Instruction) {
		if s, ok := in.(*ssa.Select); ok {
			for _, st := range s.States {
				if st.Dir == types.RecvOnly && hbParam != nil && stripConv(st.Chan) == ssa.Value(hbParam) {
					stateSel = s
				}
			}
		}
	})
	if stateSel == nil {
		c.Fail("C09.H2", FuncName(t.stateReq)+" reply select", p.Pos(t.stateReq.Pos()), "no select receiving from the heartbeat result channel")
	} else {
		rl := checkRequestLoop(c, p, "C09.H2", t.stateReq, stateSel, stateAlloc, "ConnStateReq", a.respTimeout, a.resend, 1)
		// first transmission before the loop
		n := 0
		for _, s := range ix.sockSends {
			if s.Fn == t.stateReq && s.PayVal == stateAlloc && rl.Loop != nil && !rl.Loop.Body[s.Call.Block()] && s.Call.Block().Dominates(rl.Loop.Header) {
				n++
			}
		}
		c.Decide(n == 1, "C09.H2", FuncName(t.stateReq)+" first request before the wait", p.InstrPos(stateSel), "one Socket.Send dominates the wait loop", fmt.Sprintf("%d transmissions dominate the wait loop (expected 1)", n))
		// the value returned as state on success is the received one, behind ok
		for i, st := range stateSel.States {
			if st.Dir != types.RecvOnly || stripConv(st.Chan) != ssa.Value(hbParam) {
				continue
			}
			rv := selectRecvValue(stateSel, i)
			okv := selectRecvOK(stateSel)
			for _, r := range returnsOf(t.stateReq) {
				if len(r.Results) != 2 || !p.returnMayBeNil(r, 1) {
					continue
				}
				facts := factsAt(r.Block())
				open := okv != nil && anyFact(facts, func(f Cmp) bool { return cmpIsBool(f, true, func(v ssa.Value) bool { return v == okv }) })
				same := rv != nil
				for _, v := range resultValues(r, 0) {
					if v != rv {
						same = false
					}
				}
				c.Decide(open && same, "C09.H2", FuncName(t.stateReq)+" success returns the received state", p.InstrPos(r), "nil error only with the value received on the open result channel", "the request function can report success without a received connection-state response (or returns another status)")
			}
		}
	}

	checkConfigNormalisers(c, p, "C09.H1", "TunnelConfig")
	// ---- H3 success only by an OK response on the current channel
	hn := FuncName(t.heartbeat)
	var stateCall *ssa.Call
	instrsOf(t.heartbeat, func(in ssa.Instruction) {
		if staticCallTo(in, t.stateReq) {
			stateCall = in.(*ssa.Call)
		}
	})
	var sigSel *ssa.Select
	var failParam *ssa.Parameter
	for _, prm := range t.heartbeat.Params {
		if ch, ok := prm.Type().Underlying().(*types.Chan); ok && ch.Dir() == types.SendOnly {
			failParam = prm
		}
	}
	instrsOf(t.heartbeat, func(in ssa.Instruction) {
		if s, ok := in.(*ssa.Select); ok {
			for _, st := range s.States {
				if st.Dir == types.SendOnly && failParam != nil && stripConv(st.Chan) == ssa.Value(failParam) {
					sigSel = s
				}
			}
		}
	})
	if stateCall == nil || sigSel == nil {
		c.Fail("C09.H3", hn+" shape", p.Pos(t.heartbeat.Pos()), "the heartbeat function does not call the state request and signal failure through a select on its failure channel")
	} else {
		hasDone := false
		for _, st := range sigSel.States {
			if st.Dir == types.RecvOnly && chanIs(st.Chan, a.done) {
				hasDone = true
			}
		}
		c.Decide(hasDone && sigSel.Blocking && len(sigSel.States) == 2, "C09.H3", hn+" failure signal can always be left", p.InstrPos(sigSel), "blocking select {<-done, failure<-}", "the failure signal is not a blocking select over exactly the failure channel and Tunnel.done (the failure can be dropped, or the goroutine can hang after Close)")
		isState := func(v ssa.Value) bool {
			e, ok := v.(*ssa.Extract)
			return ok && e.Tuple == ssa.Value(stateCall) && e.Index == 0
		}
		isErr := func(v ssa.Value) bool {
			e, ok := v.(*ssa.Extract)
			return ok && e.Tuple == ssa.Value(stateCall) && e.Index == 1
		}
		good := func(fs []Cmp) bool {
			errNil := anyFact(fs, func(f Cmp) bool {
				return f.Op == token.EQL && ((isErr(f.X) && isNilConst(f.Y)) || (isErr(f.Y) && isNilConst(f.X)))
			})
			stOK := anyFact(fs, func(f Cmp) bool {
				if f.Op != token.EQL {
					return false
				}
				if k, ok := constInt(f.Y); ok && k == 0 && isState(f.X) {
					return true
				}
				if k, ok := constInt(f.X); ok && k == 0 && isState(f.Y) {
					return true
				}
				return false
			})
			return errNil && stOK
		}
		nPaths := 0
		allOK := true
		for _, r := range returnsOf(t.heartbeat) {
			n, ok := allPathsSatisfy(stateCall.Block(), r.Block(), func(b *ssa.BasicBlock) bool { return b == sigSel.Block() }, good)
			nPaths += n
			if !ok {
				allOK = false
			}
		}
		// and the exchange is made on every call: no path from the entry reaches an exit without the state request
		mn, _ := pathCount(t.heartbeat.Blocks[0], func(in ssa.Instruction) bool { return in == ssa.Instruction(stateCall) }, nil)
		c.Decide(mn >= 1, "C09.H3", hn+" every check asks the gateway", p.InstrPos(stateCall), "every path from the entry passes the connection-state request", "the heartbeat function can return without asking the gateway (an early exit before the request): a dead gateway goes unnoticed while that exit is taken")
		c.Decide(allOK && nPaths >= 1, "C09.H3", hn+" silent exit only on err == nil && state == NoError", p.InstrPos(stateCall), fmt.Sprintf("%d path(s) avoid the failure signal, all carry both facts", nPaths), "the heartbeat function can end without signalling failure although the exchange failed or the gateway reported an error status")
	}
	// result channel: unbuffered, fed only behind channel match with res.Status
	if mc, ok := hbCh.(*ssa.MakeChan); ok {
		k, isK := constInt(mc.Size)
		c.Decide(isK && k == 0, "C09.H3", pn+" heartbeat result channel unbuffered", p.InstrPos(mc), "make(chan ErrCode) with capacity 0", "the heartbeat result channel is buffered: a response that arrived before the request is parked and later satisfies a heartbeat it does not answer")
		c.Decide(mc.Parent() == t.process && !inAnyLoop(mc.Block()), "C09.H3", pn+" one result channel per epoch", p.InstrPos(mc), "made once per call of the processing function", "the result channel is not made once per connection epoch")
	} else {
		c.Fail("C09.H3", pn+" heartbeat result channel", selPos, "the channel handed to the heartbeat goroutine is not a channel made by the processing function")
	}
	stResChan := p.Field("knx/knxnet", "ConnStateRes", "Channel")
	stResStatus := p.Field("knx/knxnet", "ConnStateRes", "Status")
	nFeed := 0
	var feedParam *ssa.Parameter
	for _, prm := range t.stateResH.Params {
		if ch, ok := prm.Type().Underlying().(*types.Chan); ok && isNamed(ch.Elem(), knxnetPath, "ErrCode") {
			feedParam = prm
		}
	}
	for _, fn := range p.FuncsIn("knx") {
		top := fn
		for top.Parent() != nil {
			top = top.Parent()
		}
		if top != t.stateResH {
			continue
		}
		instrsOf(fn, func(in ssa.Instruction) {
			var ch, val ssa.Value
			switch x := in.(type) {
			case *ssa.Send:
				ch, val = x.Chan, x.X
			case *ssa.Select:
				for _, st := range x.States {
					if st.Dir == types.SendOnly {
						ch, val = st.Chan, st.Send
					}
				}
			}
			if ch == nil || unspill(resolveFree(stripConv(ch))) != ssa.Value(feedParam) {
				return
			}
			nFeed++
			facts := factsWithParents(in.Block())
			c.Decide(anyFact(facts, func(f Cmp) bool { return cmpIsFieldEq(f, stResChan, a.channel) }), "C09.H3", FuncName(fn)+" feeds the heartbeat behind channel match", p.InstrPos(in), "dominated by res.Channel == conn.channel", "a connection-state response for a foreign channel reaches the heartbeat")
			c.Decide(isLoadOf(val, stResStatus), "C09.H3", FuncName(fn)+" feeds res.Status", p.InstrPos(in), "the response's status", "the value handed to the heartbeat is "+describe(val)+", not the response's status")
			// a response nobody waits for is dropped after one resend interval at the latest: held longer it answers the
			// next heartbeat, whose request then is never repeated and whose verdict is about an earlier moment
			if sel, isSel := in.(*ssa.Select); isSel {
				expires := false
				for _, st := range sel.States {
					if st.Dir != types.RecvOnly {
						continue
					}
					if tm := timerOf(st.Chan); tm != nil && tm.Kind == "after" && tm.Field == a.resend {
						expires = true
					}
				}
				// a non-blocking offer on the unbuffered result channel (obligation above) expires at once
				instant := !sel.Blocking && len(sel.States) == 1
				c.Decide((expires && sel.Blocking) || instant, "C09.H3", FuncName(fn)+" relayed response expires after one resend interval", p.InstrPos(in), "select {result <- status, <-time.After(config.ResendInterval), <-done} or a non-blocking offer", "the relayed connection-state response is kept for another time than one resend interval: a surplus response of a gateway that then dies is taken as the answer to the next heartbeat")
			} else {
				c.Fail("C09.H3", FuncName(fn)+" relayed response expires after one resend interval", p.InstrPos(in), "the response is handed over by a plain blocking send")
			}
		})
	}
	c.Floor("C09.H3", "sends on the heartbeat result channel", nFeed, 1)
	// the handler is called with the same channel the goroutine listens on
	instrsOf(t.process, func(in ssa.Instruction) {
		if staticCallTo(in, t.stateResH) {
			same := false
			for _, arg := range in.(*ssa.Call).Common().Args {
				if stripConv(arg) == hbCh && hbCh != nil {
					same = true
				}
			}
			c.Decide(same, "C09.H3", pn+" response handler gets the epoch's result channel", p.InstrPos(in), "same channel as the heartbeat goroutine", "the response handler feeds a different channel than the heartbeat waits on")
			c.Decide(factAssertPtr(factsAt(in.Block()), knxnetPath, "ConnStateRes"), "C09.H3", pn+" response handler in the *ConnStateRes case", p.InstrPos(in), "behind msg.(*ConnStateRes)", "not in the type-switch case")
		}
	})

	// ---- H4 failure => reconnect
	gFailed := p.Global("knx", "errHeartbeatFailed")
	gDisc := p.Global("knx", "errDisconnected")
	if gFailed == nil || gDisc == nil {
		c.Fail("C09.H4", "error sentinels", "", "errHeartbeatFailed / errDisconnected not found")
		return
	}
	c.Decide(p.globalIsConstError(gFailed) && p.globalIsConstError(gDisc), "C09.H4", "sentinels are fixed non-nil errors", "", "initialised once with errors.New", "the sentinel errors are reassigned somewhere")
	nRet := 0
	for _, r := range returnsOf(t.process) {
		for _, v := range resultValues(r, 0) {
			if !isGlobalLoad(v, gFailed) {
				continue
			}
			nRet++
			okCase := false
			for _, s := range selectStatesAt(r.Block()) {
				st := s.Sel.States[s.State]
				if s.Sel == sel && st.Dir == types.RecvOnly && failCh != nil && stripConv(st.Chan) == failCh {
					okCase = true
				}
			}
			c.Decide(okCase, "C09.H4", pn+" heartbeat-failed only in the failure case", p.InstrPos(r), "dominated by the receive on the failure channel given to the heartbeat goroutine", "the heartbeat-failed error is returned outside the failure-channel case")
		}
	}
	c.Exact("C09.H4", "returns of the heartbeat-failed error", nRet, 1, p.Pos(t.process.Pos()))
	// the failure case must return that error
	for i, st := range sel.States {
		if st.Dir == types.RecvOnly && failCh != nil && stripConv(st.Chan) == failCh && cases[i].Body != nil {
			reach := reachableFrom(cases[i].Body, nil)
			okb := !reach[lp.Header]
			for b := range reach {
				for _, in := range b.Instrs {
					if r, ok := in.(*ssa.Return); ok {
						for _, v := range resultValues(r, 0) {
							if !isGlobalLoad(v, gFailed) {
								okb = false
							}
						}
					}
				}
			}
			c.Decide(okb, "C09.H4", pn+" failure case ends processing with heartbeat-failed", selPos, "the case returns errHeartbeatFailed on every path", "a failed heartbeat does not end the processing loop with the heartbeat-failed error")
		}
	}
	// serve: connect exactly on those two errors
	sn := FuncName(t.serve)
	procRes := ssa.Value(t.procCall)
	// "processing ended with sentinel g": err == g, or errors.Is(err, g) (true for g itself and for an error
	// wrapping it - the same outcome carrying more text)
	isSentinelFact := func(f Cmp, g *ssa.Global) bool {
		if f.Op == token.EQL && ((f.X == procRes && isGlobalLoad(f.Y, g)) || (f.Y == procRes && isGlobalLoad(f.X, g))) {
			return true
		}
		return cmpIsBool(f, true, func(v ssa.Value) bool {
			call, ok := v.(*ssa.Call)
			if !ok || !funcIs(calleeObj(call), "errors", "", "Is") {
				return false
			}
			args := call.Common().Args
			return len(args) == 2 && args[0] == procRes && isGlobalLoad(args[1], g)
		})
	}
	isRetryFact := func(f Cmp) bool {
		for _, g := range []*ssa.Global{gFailed, gDisc} {
			if isSentinelFact(f, g) {
				return true
			}
		}
		return false
	}
	var connCalls []*ssa.Call
	instrsOf(t.serve, func(in ssa.Instruction) {
		if staticCallTo(in, t.connect) {
			connCalls = append(connCalls, in.(*ssa.Call))
		}
	})
	c.Exact("C09.H4", "reconnect sites in serve", len(connCalls), 1, p.Pos(t.serve.Pos()))
	for _, cc := range connCalls {
		c.Decide(guardedBy(cc.Block(), isRetryFact), "C09.H4", sn+" reconnect only after heartbeat failure or disconnect", p.InstrPos(cc), "every edge into the reconnect carries err == errDisconnected or err == errHeartbeatFailed", "the connect function is reachable for another outcome of processing (e.g. after Close or a disconnect response)")
		// success edge re-enters processing, failure returns
		res := ssa.Value(cc)
		for _, b := range t.serve.Blocks {
			iff := ifOf(b)
			if iff == nil {
				continue
			}
			cm, _ := cmpOf(iff.Cond, true)
			if !((cm.X == res && isNilConst(cm.Y)) || (cm.Y == res && isNilConst(cm.X))) {
				continue
			}
			okT, failT := b.Succs[0], b.Succs[1]
			if cm.Op == token.NEQ {
				okT, failT = failT, okT
			}
			pb := t.procCall.Block()
			reach := reachUntil(okT, pb)
			bad := false
			for rb := range reach {
				if rb == pb {
					continue
				}
				for _, in := range rb.Instrs {
					if _, ok := in.(*ssa.Return); ok {
						bad = true
					}
				}
			}
			c.Decide(!bad && (okT == pb || reachableFrom(okT, nil)[pb]), "C09.H4", sn+" successful reconnect resumes processing", p.InstrPos(iff), "the success edge leads to a new call of the processing function", "after a successful reconnect the serve loop can return instead of processing the new connection")
			c.Decide(failT != pb && !reachableFrom(failT, nil)[pb], "C09.H4", sn+" failed reconnect terminates", p.InstrPos(iff), "the failure edge cannot reach the processing call", "a refused or unanswered reconnect does not terminate the tunnel")
		}
	}
	// both sentinels lead to the reconnect
	for _, g := range []*ssa.Global{gFailed, gDisc} {
		found := false
		for _, b := range t.serve.Blocks {
			for _, s := range b.Succs {
				f, ok := edgeFact(b, s)
				if !ok || !isSentinelFact(f, g) {
					continue
				}
				found = true
				min, _ := pathCount(s, func(in ssa.Instruction) bool { return staticCallTo(in, t.connect) }, nil)
				c.Decide(min >= 1, "C09.H4", sn+" "+g.Name()+" leads to reconnect", p.InstrPos(ifOf(b)), "every path from the edge calls the connect function", "processing ending with "+g.Name()+" does not always lead to a connect request")
			}
		}
		c.Decide(found, "C09.H4", sn+" tests "+g.Name(), p.Pos(t.serve.Pos()), "comparison present", "serve never compares the processing result with "+g.Name()+": that outcome terminates the tunnel instead of reconnecting")
	}

	// ---- H5 disconnect request
	dreqChan := p.Field("knx/knxnet", "DiscReq", "Channel")
	dn := FuncName(t.discReqH)
	chanFact := func(f Cmp) bool { return cmpIsFieldEq(f, dreqChan, a.channel) }
	nS := 0
	for _, s := range ix.sockSends {
		if s.Fn != t.discReqH {
			continue
		}
		nS++
		c.Decide(anyFact(factsAt(s.Call.Block()), chanFact), "C09.H5", dn+" answers behind channel match", p.InstrPos(s.Call), "dominated by req.Channel == conn.channel", "a disconnect request for a foreign channel is answered")
		al, _ := s.PayVal.(*ssa.Alloc)
		okC := s.payloadIs("DiscRes") && al != nil
		if okC {
			fs := fieldStores(al)
			ch := fs[fieldByName(al.Type(), "Channel")]
			okC = len(ch) == 1 && (isLoadOf(ch[0].Val, dreqChan) || isLoadOf(ch[0].Val, a.channel))
			for _, st := range fs[fieldByName(al.Type(), "Status")] {
				if k, ok := constInt(st.Val); !ok || k != 0 {
					okC = false
				}
			}
		}
		c.Decide(okC, "C09.H5", dn+" answers with DiscRes{channel, OK}", p.InstrPos(s.Call), "DiscRes carrying the channel and status 0", "the answer to a disconnect request is not a disconnect response with the connection's channel and status OK")
	}
	c.Exact("C09.H5", "transmissions in the disconnect-request handler", nS, 1, p.Pos(t.discReqH.Pos()))
	for _, r := range returnsOf(t.discReqH) {
		facts := factsAt(r.Block())
		if p.returnMayBeNil(r, 0) {
			c.Decide(anyFact(facts, chanFact), "C09.H5", dn+" accepts only the current channel", p.InstrPos(r), "nil result behind req.Channel == conn.channel", "a disconnect request for a foreign channel is accepted (triggers a reconnect)")
			min, max, _ := pathCountTo(t.discReqH.Blocks[0], r.Block(), func(in ssa.Instruction) bool {
				ci, ok := in.(ssa.CallInstruction)
				return ok && isSocketSend(ci, knxnetPath)
			})
			c.Decide(min == 1 && max == 1, "C09.H5", dn+" accepted request is answered", p.InstrPos(r), "one response on every accepting path", fmt.Sprintf("accepting paths send %d..%d responses", min, max))
		}
	}
	// process: errDisconnected iff that handler returned nil
	nD := 0
	for _, r := range returnsOf(t.process) {
		for _, v := range resultValues(r, 0) {
			if !isGlobalLoad(v, gDisc) {
				continue
			}
			nD++
			facts := factsAt(r.Block())
			okF := anyFact(facts, func(f Cmp) bool {
				return callResultNilFact(f, true, func(fn *ssa.Function) bool { return fn == t.discReqH })
			}) && factAssertPtr(facts, knxnetPath, "DiscReq")
			c.Decide(okF, "C09.H5", pn+" disconnected only after an accepted disconnect request", p.InstrPos(r), "dominated by msg.(*DiscReq) and handler == nil", "the gateway-disconnected outcome (which makes serve reconnect) is produced for something else than an accepted disconnect request")
		}
	}
	c.Exact("C09.H5", "returns of the disconnected error", nD, 1, p.Pos(t.process.Pos()))
	checkHandlerOutcome(c, p, "C09.H5", t.process, sel, t.discReqH, true, "a rejected (foreign-channel) disconnect request")

	// ---- H6 disconnect response
	dresChan := p.Field("knx/knxnet", "DiscRes", "Channel")
	for _, r := range returnsOf(t.discResH) {
		if p.returnMayBeNil(r, 0) {
			c.Decide(anyFact(factsAt(r.Block()), func(f Cmp) bool { return cmpIsFieldEq(f, dresChan, a.channel) }), "C09.H6", FuncName(t.discResH)+" accepts only the current channel", p.InstrPos(r), "nil result behind res.Channel == conn.channel", "a disconnect response for a foreign channel is accepted (terminates the tunnel)")
		}
	}
	nNil, nViaRes := 0, 0
	for _, r := range returnsOf(t.process) {
		if !p.returnMayBeNil(r, 0) {
			continue
		}
		nNil++
		facts := factsAt(r.Block())
		_, _, onDone := inSelectRecvOn(r.Block(), a.done)
		viaRes := anyFact(facts, func(f Cmp) bool {
			return callResultNilFact(f, true, func(fn *ssa.Function) bool { return fn == t.discResH })
		}) && factAssertPtr(facts, knxnetPath, "DiscRes")
		if viaRes {
			nViaRes++
		}
		c.Decide(onDone || viaRes, "C09.H6", pn+" clean end only on done or an accepted disconnect response", p.InstrPos(r), "nil result behind <-done or handler == nil in the *DiscRes case", "processing can end cleanly (terminating the tunnel without reconnect) for another reason")
	}
	// every other exit of the processing function (neither clean, nor one of the two sentinels that make serve
	// reconnect) ends the tunnel for good: admissible only when the socket's receiver has terminated, i.e. behind the
	// comma-ok receive from the socket reporting a closed channel
	okv := selectRecvOK(sel)
	nOther := 0
	for _, r := range returnsOf(t.process) {
		if p.returnMayBeNil(r, 0) {
			continue
		}
		sentinel := false
		for _, v := range resultValues(r, 0) {
			if isGlobalLoad(v, gDisc) || isGlobalLoad(v, gFailed) {
				sentinel = true
			}
		}
		if sentinel {
			continue
		}
		nOther++
		closed := okv != nil && anyFact(factsAt(r.Block()), func(f Cmp) bool { return cmpIsBool(f, false, func(v ssa.Value) bool { return v == okv }) })
		c.Decide(closed, "C09.H6", pn+" ends for good only when the socket is closed", p.InstrPos(r), "behind the comma-ok receive from the socket reporting a closed channel", "processing (and with it the tunnel) can end with an error that does not lead to a reconnect although the socket's receiver is alive: a received frame terminates the tunnel")
	}
	c.Floor("C09.H6", "terminal error exits of the processing function", nOther, 1)
	c.Decide(nViaRes == 1, "C09.H6", pn+" accepted disconnect response ends processing", p.Pos(t.process.Pos()), "one nil return behind the accepted response", fmt.Sprintf("%d nil returns behind an accepted disconnect response (expected 1): the tunnel does not terminate on it", nViaRes))
	checkHandlerOutcome(c, p, "C09.H6", t.process, sel, t.discResH, true, "a foreign-channel disconnect response")

	// ---- H7 new epoch
	cn := FuncName(t.connect)
	cresStatus := p.Field("knx/knxnet", "ConnRes", "Status")
	cresChan := p.Field("knx/knxnet", "ConnRes", "Channel")
	stOK := func(f Cmp) bool { return cmpIsFieldConst(f, cresStatus, token.EQL, 0) }
	nOK := 0
	for _, r := range returnsOf(t.connect) {
		facts := factsAt(r.Block())
		if p.returnMayBeNil(r, 0) {
			nOK++
			good := anyFact(facts, stOK) && factAssertPtr(facts, knxnetPath, "ConnRes")
			c.Decide(good, "C09.H7", cn+" success only on ConnRes with NoError", p.InstrPos(r), "dominated by msg.(*ConnRes) and res.Status == NoError", "the connect function can report success without a connect response carrying status NoError")
			// on the way: channel stored, counter reset
			for _, want := range []struct {
				f    *types.Var
				what string
				ok   func(*ssa.Store) bool
			}{
				{a.channel, "conn.channel = res.Channel", func(st *ssa.Store) bool { return isLoadOf(st.Val, cresChan) }},
				{a.seqNumber, "conn.seqNumber = 0", func(st *ssa.Store) bool { k, ok := constInt(st.Val); return ok && k == 0 }},
			} {
				n := 0
				for _, st := range ix.stores[want.f] {
					if st.Parent() == t.connect && want.ok(st) && anyFact(factsAt(st.Block()), stOK) && instrDominates(st, r) {
						n++
					}
				}
				c.Decide(n >= 1, "C09.H7", cn+" new epoch: "+want.what, p.InstrPos(r), "stored on the success edge before returning", "a successful (re)connect returns without "+want.what+": the new epoch keeps the previous "+want.f.Name())
			}
		}
	}
	c.Floor("C09.H7", "success exits of the connect function", nOK, 1)
	// stores to Tunnel.channel anywhere else?
	for _, st := range ix.stores[a.channel] {
		c.Decide(st.Parent() == t.connect && isLoadOf(st.Val, cresChan), "C09.H7", FuncName(st.Parent())+" writes Tunnel.channel", p.InstrPos(st), "only the connect function stores the assigned channel", "Tunnel.channel is written with "+describe(st.Val)+" outside a successful connect")
	}
	// connect request content
	for _, s := range ix.sockSends {
		if s.Fn != t.connect || !s.payloadIs("ConnReq") {
			continue
		}
		al, _ := s.PayVal.(*ssa.Alloc)
		if al == nil {
			continue
		}
		fs := fieldStores(al)
		for name, want := range map[string]*types.Var{"Layer": a.layer, "Control": a.control, "Tunnel": a.control} {
			sts := fs[fieldByName(al.Type(), name)]
			c.Decide(len(sts) == 1 && isLoadOf(sts[0].Val, want), "C09.H7", cn+" ConnReq."+name, p.Pos(al.Pos()), "load of "+fieldKey(want), "the connect request's "+name+" is not taken from the tunnel's "+want.Name())
		}
		break
	}
	// the connect exchange has the same resend / timeout wiring as every request
	{
		var connSel *ssa.Select
		var connAlloc ssa.Value
		instrsOf(t.connect, func(in ssa.Instruction) {
			if s, ok := in.(*ssa.Select); ok {
				for _, st := range s.States {
					if call, ok := st.Chan.(*ssa.Call); ok && st.Dir == types.RecvOnly && call.Common().IsInvoke() && call.Common().Method.Name() == "Inbound" {
						connSel = s
					}
				}
			}
		})
		for _, s := range ix.sockSends {
			if s.Fn == t.connect && s.payloadIs("ConnReq") {
				connAlloc = s.PayVal
			}
		}
		if connSel == nil {
			c.Fail("C09.H7", cn+" reply select", p.Pos(t.connect.Pos()), "no select receiving from the socket's inbound channel")
		} else {
			checkRequestLoop(c, p, "C09.H7", t.connect, connSel, connAlloc, "ConnReq", a.respTimeout, a.resend, 0)
		}
	}
	// busy statuses retry, everything else fails: every return not behind Status==0 is non-nil (done above by returnMayBeNil)
	for _, busy := range []string{"ErrNoMoreConnections", "ErrNoMoreUniqueConnections"} {
		cst, _ := p.Pkg("knx/knxnet").Scope().Lookup(busy).(*types.Const)
		if cst == nil {
			c.Fail("C09.H7", "knxnet."+busy, "", "constant not found")
			continue
		}
		kv, _ := constant.Int64Val(cst.Val())
		found := false
		for _, b := range t.connect.Blocks {
			for _, s := range b.Succs {
				f, ok := edgeFact(b, s)
				if !ok || !cmpIsFieldConst(f, cresStatus, token.EQL, kv) {
					continue
				}
				found = true
				lpc := innermostLoop(b)
				bad := lpc == nil
				if lpc != nil && s != lpc.Header {
					for rb := range reachUntil(s, lpc.Header) {
						if rb == lpc.Header {
							continue
						}
						for _, in := range rb.Instrs {
							if _, ok := in.(*ssa.Return); ok {
								bad = true
							}
						}
					}
				}
				c.Decide(!bad, "C09.H7", cn+" "+busy+" keeps waiting", p.InstrPos(ifOf(b)), "the edge leads back to the wait loop", "a busy gateway ("+busy+") ends the connect attempt instead of waiting for a later response")
			}
		}
		c.Decide(found, "C09.H7", cn+" tests "+busy, p.Pos(t.connect.Pos()), "comparison present", "status "+busy+" is not distinguished (a busy gateway is treated as refusal)")
	}

	// ---- H8 termination closes everything
	var firstLoop *ssa.BasicBlock
	if lps := loopsOf(t.serve); len(lps) > 0 {
		firstLoop = lps[0].Header
	}
	want := map[string]bool{"close inbound": false, "close ack": false, "wait.Done": false}
	h8fns := []*ssa.Function{t.serve}
	h8fns = append(h8fns, t.serve.AnonFuncs...)
	for _, hf := range h8fns {
		instrsOf(hf, func(in ssa.Instruction) {
			ci, ok := in.(ssa.CallInstruction)
			if !ok {
				return
			}
			key := ""
			if builtinName(ci) == "close" {
				switch chanField(ci.Common().Args[0]) {
				case a.inbound:
					key = "close inbound"
				case a.ack:
					key = "close ack"
				}
			} else if o := calleeObj(ci); funcIs(o, "sync", "WaitGroup", "Done") && fieldOfAddr(callRecv(ci)) == a.wait {
				key = "wait.Done"
			}
			if key == "" {
				return
			}
			d := deferredIn(t.serve, in)
			if d == nil {
				return
			}
			okd := firstLoop != nil && d.Block().Dominates(firstLoop) && !inAnyLoop(d.Block())
			for _, r := range returnsOf(t.serve) {
				if !d.Block().Dominates(r.Block()) {
					okd = false
				}
			}
			if okd {
				want[key] = true
			}
		})
	}
	for k, v := range want {
		c.Decide(v, "C09.H8", sn+" defers "+k, p.Pos(t.serve.Pos()), "unconditional defer before the serve loop, dominating every return", "serve does not unconditionally defer "+k+": termination leaves Inbound open, pending Sends waiting, or Close blocked")
	}
	checkTunnelConstructor(c, p, a, t)
	// the processing loop hands every connection-state response to its handler
	nH := 0
	instrsOf(t.process, func(in ssa.Instruction) {
		if staticCallTo(in, t.stateResH) {
			nH++
		}
	})
	c.Exact("C09.H3", "call sites of the connection-state response handler in the processing loop", nH, 1, p.Pos(t.process.Pos()))
}

// checkTunnelConstructor: the constructor dials the transport the
// configuration asks for, connects before it starts the worker, starts the
// worker exactly when the connect succeeded and reports a failed dial or
// connect as an error.
func checkTunnelConstructor(c *Check, p *Program, a *tunnelAnchors, t *tunnelFns) {
	if t.ctor == nil || t.connect == nil {
		c.Fail("C09.H7", "tunnel constructor", "", "not found")
		return
	}
	cn := FuncName(t.ctor)
	useTCP := p.Field("knx", "TunnelConfig", "UseTCP")
	tcpDial, udpDial := p.Func("knx/knxnet", "DialTunnelTCP"), p.Func("knx/knxnet", "DialTunnelUDP")
	nDial := 0
	instrsOf(t.ctor, func(in ssa.Instruction) {
		for _, d := range []struct {
			fn   *ssa.Function
			want bool
			name string
		}{{tcpDial, true, "TCP"}, {udpDial, false, "UDP"}} {
			if d.fn == nil || !staticCallTo(in, d.fn) {
				continue
			}
			nDial++
			okF := anyFact(factsAt(in.Block()), func(f Cmp) bool {
				return cmpIsBool(f, d.want, func(v ssa.Value) bool { return loadedField(unspill(v)) == useTCP || fieldOfValue(v) == useTCP })
			})
			c.Decide(okF, "C09.H7", cn+" dials "+d.name+" exactly when configured", p.InstrPos(in), fmt.Sprintf("behind config.UseTCP == %v", d.want), "the transport that is dialled does not follow config.UseTCP: the tunnel runs its UDP exchange (sequence numbers, acknowledgements) over a stream or the other way round")
		}
	})
	if nDial == 0 {
		// the dial function chosen first and called once: dial := DialTunnelUDP; if UseTCP { dial = DialTunnelTCP }
		instrsOf(t.ctor, func(in ssa.Instruction) {
			call, ok := in.(*ssa.Call)
			if !ok || call.Common().StaticCallee() != nil || call.Common().IsInvoke() {
				return
			}
			ph, ok := call.Common().Value.(*ssa.Phi)
			if !ok {
				return
			}
			for i, e := range ph.Edges {
				fnv, _ := e.(*ssa.Function)
				pred := ph.Block().Preds[i]
				fs := append(factsAt(pred), edgeFacts(pred, ph.Block())...)
				for _, d := range []struct {
					fn   *ssa.Function
					want bool
					name string
				}{{tcpDial, true, "TCP"}, {udpDial, false, "UDP"}} {
					if fnv == nil || fnv != d.fn {
						continue
					}
					nDial++
					okF := anyFact(fs, func(f Cmp) bool {
						return cmpIsBool(f, d.want, func(v ssa.Value) bool { return loadedField(unspill(v)) == useTCP || fieldOfValue(v) == useTCP })
					})
					c.Decide(okF, "C09.H7", cn+" dials "+d.name+" exactly when configured", p.InstrPos(call), fmt.Sprintf("the dial function is chosen behind config.UseTCP == %v", d.want), "the transport that is dialled does not follow config.UseTCP")
				}
			}
		})
	}
	c.Exact("C09.H7", "dial sites in the tunnel constructor", nDial, 2, p.Pos(t.ctor.Pos()))
	// connect, then serve
	var connCall *ssa.Call
	var goServe *ssa.Go
	instrsOf(t.ctor, func(in ssa.Instruction) {
		if staticCallTo(in, t.connect) {
			connCall = in.(*ssa.Call)
		}
		if g, ok := in.(*ssa.Go); ok && g.Common().StaticCallee() == t.serve {
			goServe = g
		}
	})
	if connCall == nil || goServe == nil {
		c.Fail("C09.H7", cn+" connects before it serves", p.Pos(t.ctor.Pos()), "the constructor does not call the connect function and start the worker")
		return
	}
	okOrder := instrDominates(connCall, goServe) && anyFact(factsAt(goServe.Block()), func(f Cmp) bool {
		return f.Op == token.EQL && ((f.X == ssa.Value(connCall) && isNilConst(f.Y)) || (f.Y == ssa.Value(connCall) && isNilConst(f.X)))
	})
	c.Decide(okOrder, "C09.H7", cn+" starts the worker exactly when the connect succeeded", p.InstrPos(goServe), "go serve behind connect() == nil", "the worker is started without a successful connect (or the connect is skipped): frames carry channel 0 and the gateway ignores them")
	for _, r := range returnsOf(t.ctor) {
		if len(r.Results) < 2 {
			continue
		}
		if !p.returnMayBeNil(r, 1) {
			continue
		}
		// a success return: lies behind the started worker
		c.Decide(instrDominates(goServe, r), "C09.H7", cn+" success only with a connected, served tunnel", p.InstrPos(r), "behind the go statement", "the constructor can report success without a connected tunnel being served")
	}
}

// fieldOfValue: v is a field read out of a structure value (config.UseTCP with
// config a parameter).
func fieldOfValue(v ssa.Value) *types.Var {
	if f, ok := unspill(v).(*ssa.Field); ok {
		return structField(f.X.Type(), f.Field)
	}
	return nil
}

// checkHandlerOutcome: in process, the edge "handler returned an error" leads
// back to the select without returning.
func checkHandlerOutcome(c *Check, p *Program, rule string, process *ssa.Function, sel *ssa.Select, handler *ssa.Function, _ bool, what string) {
	found := false
	for _, b := range process.Blocks {
		for _, s := range b.Succs {
			f, ok := edgeFact(b, s)
			if !ok || !callResultNilFact(f, false, func(fn *ssa.Function) bool { return fn == handler }) {
				continue
			}
			found = true
			bad := false
			for rb := range reachUntil(s, sel.Block()) {
				if rb == sel.Block() {
					continue
				}
				for _, in := range rb.Instrs {
					if _, ok := in.(*ssa.Return); ok {
						bad = true
					}
				}
			}
			c.Decide(!bad, rule, FuncName(process)+" ignores "+what, p.InstrPos(ifOf(b)), "the rejecting edge leads back to the select", what+" ends the processing loop")
		}
	}
	c.Decide(found, rule, FuncName(process)+" tests the result of "+FuncName(handler), p.Pos(process.Pos()), "result compared with nil", "the handler's verdict is not examined")
}

// checkConfigDefaults: the constructor stores f(config) where f replaces each
// non-positive duration by the corresponding field of the default variable,
// whose initialiser is positive and which nobody writes.
func checkConfigDefaults(c *Check, p *Program, rule string, a *tunnelAnchors, t *tunnelFns) {
	var cfgStore *ssa.Store
	for _, fn := range p.FuncsIn("knx") {
		instrsOf(fn, func(in ssa.Instruction) {
			if st, ok := in.(*ssa.Store); ok && fieldOfAddr(st.Addr) == a.config {
				cfgStore = st
			}
		})
	}
	if cfgStore == nil {
		c.Fail(rule, "store of Tunnel.config", "", "not found")
		return
	}
	call, _ := cfgStore.Val.(*ssa.Call)
	if call == nil {
		// normalised into a local first (config = checkTunnelConfig(config)): every value the local holds at
		// the store is the result of one and the same call
		if u, ok := cfgStore.Val.(*ssa.UnOp); ok && u.Op == token.MUL {
			if cell, ok := u.X.(*ssa.Alloc); ok {
				var last *ssa.Store
				nCall := 0
				for _, st := range cellStores(cell) {
					if _, isP := st.Val.(*ssa.Parameter); isP {
						continue
					}
					nCall++
					last = st
				}
				if nCall == 1 && last != nil && instrDominates(last, u) {
					call, _ = last.Val.(*ssa.Call)
				}
			}
		}
	}
	var norm *ssa.Function
	if call != nil {
		norm = call.Common().StaticCallee()
	}
	if norm == nil || !p.InModule(norm) {
		c.Fail(rule, FuncName(cfgStore.Parent())+" normalises the configuration", p.InstrPos(cfgStore), "Tunnel.config is stored without passing through a defaulting function: a zero duration reaches time.NewTicker (panic) or time.After (immediate timeout)")
		return
	}
	c.Analysed("functions", FuncName(norm))
	def := p.Global("knx", "DefaultTunnelConfig")
	for _, f := range []*types.Var{a.resend, a.heartbeatIv, a.respTimeout} {
		ok := false
		instrsOf(norm, func(in ssa.Instruction) {
			st, isSt := in.(*ssa.Store)
			if !isSt || fieldOfAddr(st.Addr) != f {
				return
			}
			fromDefault := false
			if u, isU := st.Val.(*ssa.UnOp); isU && u.Op == token.MUL {
				if fa, isFA := u.X.(*ssa.FieldAddr); isFA && structField(fa.X.Type(), fa.Field) == f && fa.X == ssa.Value(def) {
					fromDefault = true
				}
			}
			guard := anyFact(factsAt(st.Block()), func(cm Cmp) bool {
				return cmpIsFieldConst(cm, f, token.LEQ, 0) || cmpIsFieldConst(cm, f, token.LSS, 1)
			})
			if fromDefault && guard {
				ok = true
			}
		})
		c.Decide(ok, rule, FuncName(norm)+" defaults "+f.Name(), p.Pos(norm.Pos()), "non-positive value replaced by DefaultTunnelConfig."+f.Name(), "a non-positive "+f.Name()+" is not replaced by the default: NewTicker panics or the timeout fires at once")
	}
	// the default variable: positive constants, never written outside init
	if def == nil {
		c.Fail(rule, "knx.DefaultTunnelConfig", "", "not found")
		return
	}
	vals := map[*types.Var]int64{}
	writers := 0
	for _, fn := range p.AllFuncs {
		instrsOf(fn, func(in ssa.Instruction) {
			st, ok := in.(*ssa.Store)
			if !ok {
				return
			}
			root := st.Addr
			if fa, ok := root.(*ssa.FieldAddr); ok {
				root = fa.X
			}
			if root != ssa.Value(def) {
				return
			}
			if fn.Name() != "init" {
				writers++
				return
			}
			if f := fieldOfAddr(st.Addr); f != nil {
				if k, ok := constInt(st.Val); ok {
					vals[f] = k
				}
			}
		})
	}
	c.Decide(writers == 0, rule, "DefaultTunnelConfig is not written by the module", p.Pos(def.Pos()), "only its initialiser stores to it", fmt.Sprintf("%d store(s) outside the initialiser", writers))
	for _, f := range []*types.Var{a.resend, a.heartbeatIv, a.respTimeout} {
		c.Decide(vals[f] > 0, rule, "DefaultTunnelConfig."+f.Name()+" positive", p.Pos(def.Pos()), fmt.Sprintf("%d ns", vals[f]), "default duration is not positive")
	}
}
