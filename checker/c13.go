package main

import (
	"fmt"
	"go/constant"
	"go/token"
	"go/types"

	"golang.org/x/tools/go/ssa"
)

func init() {
	register("C13", "other", checkC13)
	register("C14", "other", checkC14)
}

type routerAnchors struct {
	sock, config, inbound, sendMu, retainer, pause, retainCount, pauseCfg *types.Var
	muKey                                                             string
	serve, ctor, sendFn, lostH, deliver, closeFn, multi               *ssa.Function
	sendSite                                                          *SendSite
	busyBlock, indBlock, lostBlock                                    *ssa.BasicBlock
}

func resolveRouter(c *Check, p *Program, rule string) *routerAnchors {
	a := &routerAnchors{}
	get := func(dst **types.Var, typ, name string) {
		*dst = p.Field("knx", typ, name)
		if *dst == nil {
			c.Fail(rule, "anchor knx."+typ+"."+name, "", "struct field not found")
		}
	}
	get(&a.sock, "Router", "sock")
	get(&a.config, "Router", "config")
	get(&a.inbound, "Router", "inbound")
	get(&a.sendMu, "Router", "sendMu")
	get(&a.retainer, "Router", "retainer")
	get(&a.pause, "Router", "postSendPause")
	get(&a.retainCount, "RouterConfig", "RetainCount")
	get(&a.pauseCfg, "RouterConfig", "PostSendPauseDuration")
	for _, f := range []*types.Var{a.sock, a.config, a.inbound, a.sendMu, a.retainer, a.pause, a.retainCount, a.pauseCfg} {
		if f == nil {
			return nil
		}
	}
	a.muKey = fieldKey(a.sendMu)
	ix := p.index()
	cg := p.CallGraph()
	rt := p.Named("knx", "Router")
	n := 0
	for i := range ix.sockSends {
		s := &ix.sockSends[i]
		if s.payloadIs("RoutingInd") && fnPkg(s.Fn).Pkg.Path() == knxPath {
			n++
			a.sendSite = s
			a.sendFn = s.Fn
		}
	}
	c.Exact(rule, "Socket.Send(*RoutingInd) sites", n, 1, "")
	for _, fn := range p.FuncsIn("knx") {
		if fn.Parent() != nil {
			continue
		}
		if isConstructorOf(fn, rt) {
			a.ctor = fn
		}
		if !recvTypeIs(fn, knxPath, "Router") {
			continue
		}
		// serve: ranges over sock.Inbound()
		instrsOf(fn, func(in ssa.Instruction) {
			if u, ok := in.(*ssa.UnOp); ok && u.Op == token.ARROW && u.CommaOk {
				if call, ok := u.X.(*ssa.Call); ok && call.Common().IsInvoke() && call.Common().Method.Name() == "Inbound" && isLoadOf(call.Common().Value, a.sock) {
					a.serve = fn
				}
			}
			if call, ok := in.(*ssa.Call); ok && call.Common().IsInvoke() && call.Common().Method.Name() == "Close" && isLoadOf(call.Common().Value, a.sock) {
				a.closeFn = fn
			}
		})
	}
	for _, op := range ix.opsOnField(a.inbound, "send", "sel-send") {
		a.deliver = topOf(op.Fn)
	}
	if a.serve != nil {
		for _, b := range a.serve.Blocks {
			facts := factsAt(b)
			// the first block of each type-switch arm
			if factAssertPtr(facts, knxnetPath, "RoutingBusy") && a.busyBlock == nil {
				a.busyBlock = b
			}
			if factAssertPtr(facts, knxnetPath, "RoutingInd") && a.indBlock == nil {
				a.indBlock = b
			}
			if factAssertPtr(facts, knxnetPath, "RoutingLost") && a.lostBlock == nil {
				a.lostBlock = b
			}
		}
		if a.lostBlock != nil {
			for _, in := range a.lostBlock.Instrs {
				if call, ok := in.(*ssa.Call); ok {
					if f := call.Common().StaticCallee(); f != nil && recvTypeIs(f, knxPath, "Router") {
						a.lostH = f
					}
				}
			}
		}
	}
	if a.lostH != nil {
		for _, e := range cg.Out[a.lostH] {
			if e.Kind == "go" {
				a.multi = e.Callee
			}
		}
	}
	for name, f := range map[string]*ssa.Function{"serve (ranges over sock.Inbound())": a.serve, "constructor of Router": a.ctor, "sending function (transmits *RoutingInd)": a.sendFn, "routing-lost handler": a.lostH, "deliver function (sends on Router.inbound)": a.deliver, "Close (calls sock.Close)": a.closeFn} {
		if f == nil {
			c.Fail(rule, name, "", "cannot be resolved")
			return nil
		}
		c.Analysed("functions", FuncName(f))
	}
	return a
}

// releaseKind classifies an instruction that (eventually) releases mutex key
// exactly once: "unlock" (direct), "defer-unlock", "defer-handoff" (deferred
// closure that starts one goroutine which unlocks once on every path),
// "afterfunc" (time.AfterFunc(_, mu.Unlock)).
func releaseKind(p *Program, in ssa.Instruction, key string) string {
	switch x := in.(type) {
	case *ssa.Call:
		if op, ok := mutexOp(x); ok && op.kind == "unlock" && op.key == key {
			return "unlock"
		}
		if funcIs(calleeObj(x), "time", "", "AfterFunc") && len(x.Common().Args) == 2 {
			if f := fnOfValue(x.Common().Args[1]); f != nil {
				if unlocksOnce(boundTarget(f), x.Common().Args[1], key) {
					return "afterfunc"
				}
				// a function literal doing nothing with the mutex but one Unlock on every path
				if f.Parent() != nil && f.Blocks != nil && goroutineUnlocksOnce(f, key) && mutexOpsIn(f, key) == 1 {
					return "afterfunc"
				}
			}
		}
	case *ssa.Go:
		if _, ok := goWaitUnlock(x, key); ok {
			return "afterfunc" // a goroutine that waits for a duration and then unlocks: the same construct as time.AfterFunc(d, Unlock)
		}
	case *ssa.Defer:
		if op, ok := mutexOp(x); ok && op.kind == "unlock" && op.key == key {
			return "defer-unlock"
		}
		if cf := deferCallee(x); cf != nil && cf.Blocks != nil {
			if handoffUnlocksOnce(cf, key) {
				return "defer-handoff"
			}
			if cf.Parent() != nil && goroutineUnlocksOnce(cf, key) && mutexOpsIn(cf, key) == 1 {
				return "defer-unlock"
			}
		}
	}
	return ""
}

// waitOf: the instruction blocks for a duration and nothing else: time.Sleep(d),
// or a plain receive from time.After(d) / time.NewTimer(d).C; returns d.
func waitOf(in ssa.Instruction) (ssa.Value, bool) {
	switch x := in.(type) {
	case *ssa.Call:
		if funcIs(calleeObj(x), "time", "", "Sleep") {
			return x.Common().Args[0], true
		}
	case *ssa.UnOp:
		if x.Op == token.ARROW {
			if t := timerOf(x.X); t != nil && t.Kind == "after" {
				return t.Arg, true
			}
		}
	}
	return nil, false
}

// goWaitUnlock: g starts a goroutine that, on every path, waits once for a
// duration and then unlocks key exactly once, touching the mutex in no other
// way; returns the duration value (resolved to the go statement's frame).
func goWaitUnlock(g *ssa.Go, key string) (ssa.Value, bool) {
	gf := goCallee(g)
	if gf == nil || gf.Blocks == nil || !goroutineUnlocksOnce(gf, key) || mutexOpsIn(gf, key) != 1 {
		return nil, false
	}
	var dur ssa.Value
	min, max := pathCount(gf.Blocks[0], func(in ssa.Instruction) bool {
		if d, ok := waitOf(in); ok {
			dur = d
			return true
		}
		return false
	}, nil)
	if min != 1 || max != 1 || dur == nil {
		return nil, false
	}
	// the wait precedes the unlock
	okOrder := true
	instrsOf(gf, func(in ssa.Instruction) {
		if cl, ok := in.(*ssa.Call); ok {
			if op, ok := mutexOp(cl); ok && op.kind == "unlock" && op.key == key {
				dominated := false
				instrsOf(gf, func(w ssa.Instruction) {
					if _, isW := waitOf(w); isW && instrDominates(w, in) {
						dominated = true
					}
				})
				if !dominated {
					okOrder = false
				}
			}
		}
	})
	if !okOrder {
		return nil, false
	}
	// a parameter of the goroutine's function: the argument of the go statement
	d := resolveFree(unspill(dur))
	if prm, ok := d.(*ssa.Parameter); ok && prm.Parent() == gf {
		for i, fp := range gf.Params {
			if fp == prm && i < len(g.Common().Args) {
				d = g.Common().Args[i]
			}
		}
	}
	return d, true
}

// unlocksOnce: f is (a bound method value of) sync.Mutex.Unlock on the mutex key.
func unlocksOnce(target *ssa.Function, v ssa.Value, key string) bool {
	mc, ok := v.(*ssa.MakeClosure)
	if !ok || len(mc.Bindings) != 1 {
		return false
	}
	fn := mc.Fn.(*ssa.Function)
	if fn.Synthetic == "" || target == nil || target.Object() == nil {
		return false
	}
	if !funcIs(target.Object().(*types.Func), "sync", "Mutex", "Unlock") {
		return false
	}
	return lockKey(mc.Bindings[0]) == key
}

// mutexOpsIn counts the operations on mutex key in fn (calls, defers, gos).
func mutexOpsIn(fn *ssa.Function, key string) int {
	n := 0
	instrsOf(fn, func(in ssa.Instruction) {
		if c, ok := in.(ssa.CallInstruction); ok {
			if op, ok := mutexOp(c); ok && op.key == key {
				n++
			}
		}
	})
	return n
}

// goroutineUnlocksOnce: every path through fn performs exactly one Unlock of key.
func goroutineUnlocksOnce(fn *ssa.Function, key string) bool {
	min, max := pathCount(fn.Blocks[0], func(in ssa.Instruction) bool {
		c, ok := in.(*ssa.Call)
		if !ok {
			return false
		}
		op, ok := mutexOp(c)
		return ok && op.kind == "unlock" && op.key == key
	}, nil)
	return min == 1 && max == 1 && len(loopHeaders(fn)) == 0
}

// handoffUnlocksOnce: the deferred closure starts exactly one goroutine (on
// every path) whose every path unlocks key once, and does not unlock itself.
func handoffUnlocksOnce(cf *ssa.Function, key string) bool {
	var gf *ssa.Function
	min, max := pathCount(cf.Blocks[0], func(in ssa.Instruction) bool {
		g, ok := in.(*ssa.Go)
		if ok {
			gf = goCallee(g)
		}
		return ok
	}, nil)
	if min != 1 || max != 1 || gf == nil || gf.Blocks == nil {
		return false
	}
	direct := 0
	instrsOf(cf, func(in ssa.Instruction) {
		if c, ok := in.(*ssa.Call); ok {
			if op, ok := mutexOp(c); ok && op.key == key {
				direct++
			}
		}
	})
	return direct == 0 && goroutineUnlocksOnce(gf, key)
}

// countAfter counts matching instructions on all acyclic paths that start
// right after instruction `from` and end at a function exit.
func countAfter(from ssa.Instruction, match func(ssa.Instruction) bool, stop func(*ssa.BasicBlock) bool) (min, max int) {
	b := from.Block()
	n := 0
	for _, in := range b.Instrs[instrIndex(from)+1:] {
		if match(in) {
			n++
		}
	}
	mn, mx := -1, -1
	for _, s := range b.Succs {
		if isBackEdge(b, s) {
			continue
		}
		if stop != nil && stop(s) {
			if mn < 0 || 0 < mn {
				mn = 0
			}
			if mx < 0 {
				mx = 0
			}
			continue
		}
		a, z := pathCount(s, match, stop)
		if mn < 0 || a < mn {
			mn = a
		}
		if z > mx {
			mx = z
		}
	}
	if mn < 0 {
		mn, mx = 0, 0
	}
	return n + mn, n + mx
}

func lockSitesOf(p *Program, key string) []*ssa.Call {
	var out []*ssa.Call
	for _, fn := range p.FuncsIn("knx") {
		instrsOf(fn, func(in ssa.Instruction) {
			if c, ok := in.(*ssa.Call); ok {
				if op, ok := mutexOp(c); ok && op.kind == "lock" && op.key == key {
					out = append(out, c)
				}
			}
		})
	}
	return out
}

func checkLockTypestate(c *Check, p *Program, rule string, a *routerAnchors) {
	locks := lockSitesOf(p, a.muKey)
	c.Floor(rule, a.muKey+".Lock sites", len(locks), 3)
	for _, l := range locks {
		fn := l.Parent()
		// in the serve loop one iteration is the unit: stop at the loop header
		var stop func(*ssa.BasicBlock) bool
		if lp := innermostLoop(l.Block()); lp != nil {
			stop = func(b *ssa.BasicBlock) bool { return b == lp.Header }
		}
		kinds := map[string]bool{}
		min, max := countAfter(l, func(in ssa.Instruction) bool {
			k := releaseKind(p, in, a.muKey)
			if k != "" {
				kinds[k] = true
			}
			return k != ""
		}, stop)
		var ks []string
		for k := range kinds {
			ks = append(ks, k)
		}
		c.Decide(min == 1 && max == 1, rule, FuncName(fn)+" acquisition is released exactly once", p.InstrPos(l), fmt.Sprintf("every path after the Lock passes exactly one release construct %v", ks), fmt.Sprintf("paths after this Lock pass between %d and %d release constructs: the send lock is never released (all later Sends block) or released twice (panic)", min, max))
	}
	// no release without acquisition: every release construct is preceded by a Lock in its function
	for _, fn := range p.FuncsIn("knx") {
		if fn.Parent() != nil {
			continue
		}
		instrsOf(fn, func(in ssa.Instruction) {
			k := releaseKind(p, in, a.muKey)
			if k == "" {
				return
			}
			held := false
			for _, l := range locks {
				if l.Parent() == fn && instrDominates(l, in) {
					held = true
				}
				// a deferred release runs at the function's exit: registered in the block of a Lock that every return
				// passes, it follows that Lock whichever of the two statements comes first
				if _, isDefer := in.(*ssa.Defer); isDefer && l.Parent() == fn && l.Block() == in.Block() {
					all := true
					for _, r := range returnsOf(fn) {
						if !l.Block().Dominates(r.Block()) {
							all = false
						}
					}
					if all {
						held = true
					}
				}
			}
			c.Decide(held, rule, FuncName(fn)+" "+k+" follows an acquisition", p.InstrPos(in), "dominated by a Lock of the same mutex", "the send lock is released without having been acquired on this path")
		})
	}
}

func checkC13(c *Check, p *Program) {
	c.Technique = "must-hold lockset, lock typestate (acquire/release-construct path counting), closure/goroutine hand-off summaries, expression-shape analysis of the busy wait time on the SSA of the router client"
	c.Explanation = "Decides the lock protocol that produces pacing and back-off: P1 the only transmission of a *RoutingInd happens with Router.sendMu held, once per acquisition, outside loops; P2 the sending function never releases the lock synchronously; its only release is a deferred closure starting one goroutine that unlocks exactly once on every path and passes time.Sleep(Router.postSendPause) on every path from {err == nil, pause > 0}; postSendPause is written only by the constructor from config.PostSendPauseDuration; P3 every path through the *RoutingBusy case acquires the lock once and arms exactly one time.AfterFunc(w, sendMu.Unlock), where w is clamped from above by the 50 ms constant and otherwise is msg.WaitTime plus non-negative terms; P4 every Lock site of sendMu is followed on every path by exactly one release construct and no release lacks an acquisition; P5 release constructs need no lock, channel or I/O (the goroutine only sleeps). Not decided: real-time gaps and the 'at most one further transmission per goroutine already inside Send' count (scheduler facts)."
	c.Trusted = []string{"go/types, go/ssa", "kxcheck lockset and typestate", "sync.Mutex, time.AfterFunc, time.Sleep semantics", "rand.Float64 returns a value in [0,1)"}
	c.NotDecided = []string{"wall-clock gap between transmissions", "number of transmissions that still leave after a busy indication is taken in"}

	a := resolveRouter(c, p, "C13.anchor")
	if a == nil {
		return
	}
	cg := p.CallGraph()
	lc := newLockCtx(p, cg)
	ix := p.index()
	sn := FuncName(a.sendFn)

	// ---- P1
	call := a.sendSite.Call
	c.Decide(lc.Held(call, a.muKey), "C13.P1", sn+" transmits under "+a.muKey, p.InstrPos(call), "lockset "+lc.HeldSet(call), "a routing indication is transmitted without the send lock (lockset "+lc.HeldSet(call)+"): pacing and busy back-off do not apply to it")
	c.Decide(!inAnyLoop(call.Block()), "C13.P1", sn+" one transmission per acquisition", p.InstrPos(call), "the transmission is not in a loop", "several routing indications are transmitted under one acquisition of the send lock: they leave without the post-send pause between them")
	// every other transmission of anything on the router socket? (only RoutingInd exists)
	for _, s := range ix.sockSends {
		if recvTypeIs(s.Fn, knxPath, "Router") && !s.payloadIs("RoutingInd") {
			c.Fail("C13.P1", FuncName(s.Fn)+" other transmission", p.InstrPos(s.Call), "the router client transmits something that is not a *RoutingInd built by the sending function")
		}
	}

	// ---- P2
	nRel := 0
	var handoff *ssa.Function
	instrsOf(a.sendFn, func(in ssa.Instruction) {
		switch k := releaseKind(p, in, a.muKey); k {
		case "":
		case "defer-handoff":
			nRel++
			handoff = deferCallee(in.(*ssa.Defer))
		default:
			nRel++
			c.Fail("C13.P2", sn+" synchronous release", p.InstrPos(in), "the sending function releases the send lock by "+k+": the lock does not outlive the post-send pause, the next transmission may follow immediately")
		}
	})
	c.Decide(handoff != nil && nRel == 1, "C13.P2", sn+" releases only by the deferred hand-off", p.Pos(a.sendFn.Pos()), "one deferred closure that hands the lock to a goroutine", fmt.Sprintf("%d release constructs, hand-off found=%v", nRel, handoff != nil))
	if handoff != nil {
		var gf *ssa.Function
		instrsOf(handoff, func(in ssa.Instruction) {
			if g, ok := in.(*ssa.Go); ok {
				gf = goCallee(g)
			}
		})
		if gf != nil {
			c.Analysed("functions", FuncName(gf))
			gn := FuncName(gf)
			// the sleep precedes the unlock on every path from err == nil && pause > 0
			isSleep := func(in ssa.Instruction) bool {
				d, ok := waitOf(in)
				return ok && isLoadOf(resolveFree(unspill(d)), a.pause)
			}
			isUnlock := func(in ssa.Instruction) bool {
				cl, ok := in.(*ssa.Call)
				if !ok {
					return false
				}
				op, ok := mutexOp(cl)
				return ok && op.kind == "unlock" && op.key == a.muKey
			}
			var unlock ssa.Instruction
			instrsOf(gf, func(in ssa.Instruction) {
				if isUnlock(in) {
					unlock = in
				}
			})
			// the error examined is the sending function's result (captured named result or cell)
			isSendErr := func(v ssa.Value) bool {
				// handed to the goroutine as an argument: evaluated when the deferred closure runs, after the transmission
				v = resolveFree(v)
				u, ok := v.(*ssa.UnOp)
				if !ok || u.Op != token.MUL {
					return false
				}
				cell := cellOf(u.X)
				if cell == nil || cell.Parent() != a.sendFn {
					return false
				}
				// the cell receives the transmission's result (or an error made from it where it failed)
				return cellTracksFailure(p, cell, a.sendSite.Call.Value(), nil)
			}
			if unlock == nil {
				c.Fail("C13.P2", gn+" unlocks", p.Pos(gf.Pos()), "no unlock in the hand-off goroutine")
			} else {
				n, ok := allPathsSatisfy(gf.Blocks[0], unlock.Block(), nil, func(fs []Cmp) bool { return true })
				_ = n
				_ = ok
				// enumerate paths: each path whose facts include err==nil and pause>0 must contain the sleep
				bad := 0
				total := 0
				var walk func(b *ssa.BasicBlock, facts []Cmp, slept bool, seen map[*ssa.BasicBlock]bool)
				walk = func(b *ssa.BasicBlock, facts []Cmp, slept bool, seen map[*ssa.BasicBlock]bool) {
					for _, in := range b.Instrs {
						if isSleep(in) {
							slept = true
						}
						if in == unlock {
							total++
							errNil := anyFact(facts, func(f Cmp) bool {
								return f.Op == token.EQL && ((isSendErr(f.X) && isNilConst(f.Y)) || (isSendErr(f.Y) && isNilConst(f.X)))
							})
							pausePos := anyFact(facts, func(f Cmp) bool { return cmpIsFieldConst(f, a.pause, token.GTR, 0) || cmpIsFieldConst(f, a.pause, token.GEQ, 1) || cmpIsFieldConst(f, a.pause, token.NEQ, 0) })
							// a path that does not test the pause at all must sleep too
							pauseTested := anyFact(facts, func(f Cmp) bool { return isLoadOf(f.X, a.pause) || isLoadOf(f.Y, a.pause) })
							errFailed := anyFact(facts, func(f Cmp) bool {
								return f.Op == token.NEQ && ((isSendErr(f.X) && isNilConst(f.Y)) || (isSendErr(f.Y) && isNilConst(f.X)))
							})
							needs := !errFailed && (pausePos || !pauseTested)
							_ = errNil
							if needs && !slept {
								bad++
							}
							return
						}
					}
					seen[b] = true
					for _, s := range b.Succs {
						if seen[s] {
							continue
						}
						nf := facts
						if f, has := edgeFact(b, s); has {
							nf = append(append([]Cmp{}, facts...), f)
						}
						walk(s, nf, slept, seen)
					}
					delete(seen, b)
				}
				walk(gf.Blocks[0], nil, false, map[*ssa.BasicBlock]bool{})
				c.Decide(bad == 0 && total >= 1, "C13.P2", gn+" sleeps the pause before unlocking", p.InstrPos(unlock), fmt.Sprintf("%d path(s) to the unlock; every path on which the transmission succeeded and the pause is positive passes time.Sleep(postSendPause)", total), fmt.Sprintf("%d of %d paths release the send lock after a successful transmission without sleeping the post-send pause", bad, total))
			}
			// P5: the goroutine needs nothing but time
			okP5 := true
			why := ""
			instrsOf(gf, func(in ssa.Instruction) {
				if _, isWait := waitOf(in); isWait {
					return // waiting for a timer is time
				}
				if d := blockingDesc(in); d != "" && d != "time.Sleep" {
					okP5, why = false, d+" at "+p.InstrPos(in)
				}
				if ci, ok := in.(ssa.CallInstruction); ok && isSocketSend(ci, knxnetPath) {
					okP5, why = false, "socket I/O at "+p.InstrPos(in)
				}
			})
			c.Decide(okP5, "C13.P5", gn+" release needs only time", p.Pos(gf.Pos()), "no lock, channel or I/O before the unlock", "the releasing goroutine can block on "+why+": the send lock may never be released")
		} else {
			c.Fail("C13.P2", sn+" hand-off goroutine", p.Pos(handoff.Pos()), "not found")
		}
	}
	// postSendPause: constructor-only, from config.PostSendPauseDuration
	for _, st := range ix.stores[a.pause] {
		c.Decide(st.Parent() == a.ctor && isLoadOf(st.Val, a.pauseCfg), "C13.P2", FuncName(st.Parent())+" sets postSendPause", p.InstrPos(st), "constructor stores config.PostSendPauseDuration", "Router.postSendPause is written with "+describe(st.Val)+" (not the configured pause, or after construction)")
	}
	c.Floor("C13.P2", "stores to Router.postSendPause", len(ix.stores[a.pause]), 1)
	// the configured pause reaches the constructor undiminished: a function that normalises a configuration it
	// was handed (a parameter, by value or by pointer) may replace the pause only where it is not positive, or by
	// a constant that is at least every value the guarding comparison lets through
	nNorm := 0
	for _, st := range ix.stores[a.pauseCfg] {
		fa, ok := st.Addr.(*ssa.FieldAddr)
		if !ok {
			continue
		}
		fromParam := false
		switch b := fa.X.(type) {
		case *ssa.Parameter:
			fromParam = true
		case *ssa.Alloc:
			for _, cs := range cellStores(b) {
				if _, isP := cs.Val.(*ssa.Parameter); isP {
					fromParam = true
				}
			}
		}
		if !fromParam {
			continue
		}
		nNorm++
		sameField := func(v ssa.Value) bool {
			u, ok := unspill(v).(*ssa.UnOp)
			if !ok || u.Op != token.MUL {
				return false
			}
			f2, ok := u.X.(*ssa.FieldAddr)
			return ok && f2.X == fa.X && f2.Field == fa.Field
		}
		okSt, why := false, "the assignment is not guarded by a comparison of the configured pause"
		k, isK := constInt(st.Val)
		for _, f := range factsAt(st.Block()) {
			op, x, y := f.Op, f.X, f.Y
			if sameField(y) && !sameField(x) {
				op, x, y = swapOp(op), y, x
			}
			if !sameField(x) {
				continue
			}
			u, isU := constInt(y)
			if !isU {
				continue
			}
			switch {
			case (op == token.LEQ || op == token.EQL) && u <= 0, op == token.LSS && u <= 1:
				okSt = !isK || k >= 0
				why = "a negative pause is stored"
			case op == token.LSS && isK:
				if k >= u-1 {
					okSt = true
				} else {
					why = fmt.Sprintf("pauses below %d are replaced by the smaller constant %d", u, k)
				}
			case op == token.LEQ && isK:
				if k >= u {
					okSt = true
				} else {
					why = fmt.Sprintf("pauses up to %d are replaced by the smaller constant %d", u, k)
				}
			}
			if okSt {
				break
			}
		}
		c.Decide(okSt, "C13.P2", FuncName(st.Parent())+" never shortens the configured pause", p.InstrPos(st), "the pause is replaced only where it is not positive, or by a constant at least as large as what it replaces", "the configured post-send pause can be replaced by a shorter one: "+why+" (time.Duration counts nanoseconds)")
	}
	c.OK("C13.P2", "configuration normalisers assigning the pause", "", fmt.Sprintf("%d assignment(s) to the pause of a configuration parameter", nNorm))

	// ---- P3 busy back-off
	if a.busyBlock == nil {
		c.Fail("C13.P3", FuncName(a.serve)+" RoutingBusy case", p.Pos(a.serve.Pos()), "serve has no case for *knxnet.RoutingBusy: busy indications are ignored")
	} else {
		lp := innermostLoop(a.busyBlock)
		stop := func(b *ssa.BasicBlock) bool { return lp != nil && b == lp.Header }
		isLock := func(in ssa.Instruction) bool {
			cl, ok := in.(*ssa.Call)
			if !ok {
				return false
			}
			op, ok := mutexOp(cl)
			return ok && op.kind == "lock" && op.key == a.muKey
		}
		var after ssa.Instruction
		isAfter := func(in ssa.Instruction) bool {
			if releaseKind(p, in, a.muKey) == "afterfunc" {
				after = in
				return true
			}
			return false
		}
		min, max := pathCount(a.busyBlock, isLock, stop)
		c.Decide(min == 1 && max == 1, "C13.P3", FuncName(a.serve)+" busy: lock on every path", p.Pos(a.busyBlock.Instrs[0].Pos()), "every path through the busy case acquires the send lock once", fmt.Sprintf("paths through the busy case acquire the send lock %d..%d times: a busy indication can be taken in without stopping transmissions", min, max))
		min, max = pathCount(a.busyBlock, isAfter, stop)
		c.Decide(min == 1 && max == 1, "C13.P3", FuncName(a.serve)+" busy: one timer release on every path", p.Pos(a.busyBlock.Instrs[0].Pos()), "every path arms exactly one time.AfterFunc(w, sendMu.Unlock)", fmt.Sprintf("paths through the busy case arm %d..%d unlock timers", min, max))
		// no other release in the case
		for b := range reachableFrom(a.busyBlock, func(from, to *ssa.BasicBlock) bool { return stop(to) }) {
			if stop(b) || !a.busyBlock.Dominates(b) {
				continue
			}
			for _, in := range b.Instrs {
				if k := releaseKind(p, in, a.muKey); k != "" && k != "afterfunc" {
					c.Fail("C13.P3", FuncName(a.serve)+" busy: early release", p.InstrPos(in), "the busy case releases the lock by "+k+" instead of the wait timer")
				}
			}
		}
		if after != nil {
			checkBusyDecode(c, p, "C13.P3")
			checkNoLockCopies(c, p, "C13.P4", "knx", "Router")
			checkBusyWait(c, p, a, after)
		}
	}

	// ---- P4 / P5
	checkLockTypestate(c, p, "C13.P4", a)
}

// checkBusyDecode: RoutingBusy.WaitTime is the announced number of milliseconds
// - the two-octet item after length and status, multiplied by time.Millisecond,
// stored on every successful path of the decoder.
func checkBusyDecode(c *Check, p *Program, rule string) {
	un := p.Method("knx/knxnet", "RoutingBusy", "Unpack")
	waitF := p.Field("knx/knxnet", "RoutingBusy", "WaitTime")
	if un == nil || waitF == nil {
		c.Fail(rule, "knxnet.RoutingBusy.Unpack", "", "not found")
		return
	}
	name := FuncName(un)
	var us *ssa.Call
	instrsOf(un, func(in ssa.Instruction) {
		if call, ok := in.(*ssa.Call); ok && callIs(call, modPath+"/knx/util", "", "UnpackSome") && call.Common().Args[0] == ssa.Value(inputParam(un)) {
			us = call
		}
	})
	if us == nil {
		c.Fail(rule, name+" decodes the announced wait time", p.Pos(un.Pos()), "no util.UnpackSome over the input")
		return
	}
	items, opaque := ifaceArgs(us, true)
	// item 2 (after the length octet and the status octet) is a two-octet local
	var cell *ssa.Alloc
	okItems := !opaque && len(items) >= 3
	if okItems {
		w := int64(0)
		for i := 0; i < 2; i++ {
			if mi, isMI := items[i].(*ssa.MakeInterface); isMI {
				if pt, isP := mi.X.Type().(*types.Pointer); isP {
					w += primWidth(pt.Elem())
				}
			}
		}
		mi, isMI := items[2].(*ssa.MakeInterface)
		if isMI {
			cell, _ = stripPtrConv(mi.X).(*ssa.Alloc)
		}
		okItems = w == 2 && cell != nil && primWidth(cell.Type().(*types.Pointer).Elem()) == 2
	}
	c.Decide(okItems, rule, name+" wait time is the two octets behind length and status", p.InstrPos(us), "third item, 16 bits, at offset 2", "the wait time is not decoded from octets 2..3 of the indication")
	if cell == nil {
		return
	}
	// WaitTime = Duration(cell) * Millisecond
	isSet := func(in ssa.Instruction) bool {
		st, ok := in.(*ssa.Store)
		if !ok || fieldOfAddr(st.Addr) != waitF {
			return false
		}
		bo, ok := st.Val.(*ssa.BinOp)
		if !ok || bo.Op != token.MUL {
			return false
		}
		for _, pr := range [][2]ssa.Value{{bo.X, bo.Y}, {bo.Y, bo.X}} {
			k, isK := constInt(pr[1])
			u, isU := stripAllConv(pr[0]).(*ssa.UnOp)
			if isK && k == 1000000 && isU && u.Op == token.MUL && u.X == ssa.Value(cell) {
				return true
			}
		}
		return false
	}
	n := 0
	for _, r := range returnsOf(un) {
		if len(r.Results) < 2 || !p.returnMayBeNil(r, 1) {
			continue
		}
		n++
		mn, mx, okP := pathCountTo(us.Block(), r.Block(), isSet)
		c.Decide(okP && mn == 1 && mx == 1, rule, name+" stores the announced milliseconds on success", p.InstrPos(r), "WaitTime = Duration(octets 2..3) * time.Millisecond on every path to this return", fmt.Sprintf("paths to this successful return set WaitTime = announced value * 1 ms %d..%d times: the client backs off for another time than announced (or not at all)", mn, mx))
	}
	c.Floor(rule, "successful returns of "+name, n, 1)
}

// checkBusyWait: w = min(msg.WaitTime + nonneg, 50ms)
func checkBusyWait(c *Check, p *Program, a *routerAnchors, after ssa.Instruction) {
	var w ssa.Value
	switch x := after.(type) {
	case *ssa.Call:
		w = x.Common().Args[0]
	case *ssa.Go:
		w, _ = goWaitUnlock(x, a.muKey)
	}
	if w == nil {
		c.Fail("C13.P3", "busy wait duration", p.InstrPos(after), "the duration of the wait cannot be identified")
		return
	}
	waitF := p.Field("knx/knxnet", "RoutingBusy", "WaitTime")
	pos := p.InstrPos(after)
	if waitF == nil {
		c.Fail("C13.P3", "anchor RoutingBusy.WaitTime", pos, "not found")
		return
	}
	// the cap the property names; whatever the source calls its constant, the clamp below must use this value
	const maxV = int64(50_000_000)
	// upper clamp: w is a phi; constant edges <= max, other edges guarded by value <= max
	clampOK := true
	sawWait := false
	var nonneg func(v ssa.Value, depth int) bool
	nonneg = func(v ssa.Value, depth int) bool {
		if depth > 10 {
			return false
		}
		switch x := v.(type) {
		case *ssa.Const:
			k, ok := constInt(x)
			if ok {
				return k >= 0
			}
			if x.Value != nil && x.Value.Kind() == constant.Float {
				return constant.Sign(x.Value) >= 0
			}
			return false
		case *ssa.BinOp:
			if x.Op == token.ADD || x.Op == token.MUL {
				return nonneg(x.X, depth+1) && nonneg(x.Y, depth+1)
			}
			return false
		case *ssa.Phi:
			for _, e := range x.Edges {
				if !nonneg(e, depth+1) {
					return false
				}
			}
			return true
		case *ssa.Convert:
			return nonneg(x.X, depth+1)
		case *ssa.ChangeType:
			return nonneg(x.X, depth+1)
		case *ssa.Call:
			// non-negative by contract: Float64 in [0,1), Intn/Int31n/Int63n in [0,n), Int/Int31/Int63 >= 0
			for _, n := range []string{"Float64", "Float32", "Intn", "Int31n", "Int63n", "Int", "Int31", "Int63"} {
				if funcIs(calleeObj(x), "math/rand", "", n) {
					return true
				}
			}
			return false
		case *ssa.UnOp:
			if isLoadOf(x, waitF) {
				sawWait = true
				return true // time.Duration from an unsigned wire field scaled by Unpack; see assumptions
			}
		}
		return false
	}
	// at least the announced time: the wait time itself, plus non-negative terms, on every path
	var geWait func(v ssa.Value, depth int) bool
	geWait = func(v ssa.Value, depth int) bool {
		if depth > 10 {
			return false
		}
		switch x := v.(type) {
		case *ssa.UnOp:
			if isLoadOf(x, waitF) {
				sawWait = true
				return true
			}
		case *ssa.BinOp:
			if x.Op == token.ADD {
				return (geWait(x.X, depth+1) && nonneg(x.Y, depth+1)) || (geWait(x.Y, depth+1) && nonneg(x.X, depth+1))
			}
		case *ssa.Phi:
			for _, e := range x.Edges {
				if !geWait(e, depth+1) {
					return false
				}
			}
			return len(x.Edges) > 0
		case *ssa.Convert:
			return geWait(x.X, depth+1)
		case *ssa.ChangeType:
			return geWait(x.X, depth+1)
		}
		return false
	}
	ph, isPhi := w.(*ssa.Phi)
	if !isPhi {
		clampOK = false
	} else {
		for i, e := range ph.Edges {
			pred := ph.Block().Preds[i]
			if k, ok := constInt(e); ok {
				if k > maxV || k < 0 {
					clampOK = false
				}
				// the constant may only replace a larger value
				guard := anyFact(append(factsAt(pred), edgeFacts(pred, ph.Block())...), func(f Cmp) bool {
					if kk, ok := constInt(f.Y); ok && kk == maxV && (f.Op == token.GTR || f.Op == token.GEQ) {
						return true
					}
					return false
				})
				if !guard {
					clampOK = false
				}
				continue
			}
			guard := anyFact(append(factsAt(pred), edgeFacts(pred, ph.Block())...), func(f Cmp) bool {
				if kk, ok := constInt(f.Y); ok && kk == maxV && f.X == e && (f.Op == token.LEQ || f.Op == token.LSS) {
					return true
				}
				return false
			})
			if !guard || !geWait(e, 0) {
				clampOK = false
			}
		}
	}
	c.Decide(clampOK && sawWait, "C13.P3", FuncName(after.Parent())+" wait = min(WaitTime + non-negative, 50 ms)", pos, "the timer duration is msg.WaitTime plus non-negative terms, replaced by the 50 ms constant exactly when larger", "the busy wait is not the announced wait time capped at 50 ms (a subtraction, a missing/other clamp, or WaitTime does not reach the timer): transmissions can resume before the announced time")
}

// edgeFacts returns the fact of the edge from->to as a slice.
func edgeFacts(from, to *ssa.BasicBlock) []Cmp {
	if f, ok := edgeFact(from, to); ok {
		return []Cmp{f}
	}
	return nil
}

// ---------------------------------------------------------------------------

func isListCall(in ssa.Instruction, a *routerAnchors, name string) (*ssa.Call, bool) {
	c, ok := in.(*ssa.Call)
	if !ok {
		return nil, false
	}
	o := calleeObj(c)
	if o == nil || o.Pkg() == nil || o.Pkg().Path() != "container/list" {
		return nil, false
	}
	if name != "" && o.Name() != name {
		return nil, false
	}
	recv := callRecv(c)
	if recv == nil || !isLoadOf(recv, a.retainer) {
		return nil, false
	}
	return c, true
}

// elemOrigins follows a *list.Element value to the list calls that produce it.
func elemOrigins(v ssa.Value, out map[string]bool, depth int) {
	if depth > 8 {
		out["?"] = true
		return
	}
	switch x := v.(type) {
	case *ssa.Call:
		if o := calleeObj(x); o != nil && o.Pkg() != nil && o.Pkg().Path() == "container/list" {
			out[o.Name()] = true
			return
		}
		out["?"] = true
	case *ssa.Phi:
		for _, e := range x.Edges {
			elemOrigins(e, out, depth+1)
		}
	default:
		out["?"] = true
	}
}

func checkC14(c *Check, p *Program) {
	c.Technique = "must-hold lockset at every container/list call, dominating-edge facts, path enumeration with edge facts, loop-iteration path counting, def-use of list elements, lock typestate, lockset race report on the SSA of the router client"
	c.Explanation = "Decides: Q1 every container/list call on Router.retainer runs under Router.sendMu, the list pointer is set only by the constructor, and no field of Router is accessed from two goroutine contexts without a common lock; Q2 PushBack is dominated by err == nil of the one RoutingInd transmission and retains the value that was sent; Q3 every path from PushBack to the exit passes the edge Len() <= config.RetainCount (evaluated after the push), the trim removes Front()/Next() elements, RetainCount 0 is defaulted; Q4 in the lost handler the slice length is clamped by retainer.Len(), each loop iteration performs exactly one Remove of a Back()/Prev() element and one store into the slice, the slice is handed to one goroutine that calls the sending function once per element in ascending index order; Q5 one mutex only, every acquisition released exactly once (C13 P4), the lost handler holds the lock over non-blocking operations only; Q6 the RoutingInd case delivers msg.Payload exactly once and the deliver function hands it exactly once to a send on Router.inbound; Q7 Close closes the socket, serve ranges over sock.Inbound() and defers the only close(Router.inbound). Not decided: that resent elements come back in original order and are exactly the last ones beyond the Back()/Prev() origin of removed elements; 'no earlier resend in progress' interleavings."
	c.Trusted = []string{"go/types, go/ssa", "kxcheck lockset / typestate / path counting", "container/list semantics"}
	c.NotDecided = []string{"original order of the resent messages (depends on how the slice is filled)", "interleavings with an earlier resend still in progress"}
	c.Assumptions = []string{"the application does not overwrite knx.DefaultRouterConfig"}

	a := resolveRouter(c, p, "C14.anchor")
	if a == nil {
		return
	}
	cg := p.CallGraph()
	lc := newLockCtx(p, cg)
	ix := p.index()
	sn := FuncName(a.sendFn)

	// ---- Q1
	nList := 0
	for _, fn := range p.FuncsIn("knx") {
		instrsOf(fn, func(in ssa.Instruction) {
			if call, ok := isListCall(in, a, ""); ok {
				nList++
				c.Decide(lc.Held(call, a.muKey), "C14.Q1", FuncName(fn)+" "+calleeObj(call).Name()+" under "+a.muKey, p.InstrPos(call), "lockset "+lc.HeldSet(call), "the retained-message list is used without the send lock (lockset "+lc.HeldSet(call)+")")
			}
		})
	}
	c.Floor("C14.Q1", "container/list calls on Router.retainer", nList, 6) // PushBack, Len+Front+Remove (trim), Len/Back/Remove (resend): fewer cannot implement the history
	for _, st := range ix.stores[a.retainer] {
		c.Decide(st.Parent() == a.ctor, "C14.Q1", FuncName(st.Parent())+" sets Router.retainer", p.InstrPos(st), "constructor only", "the list pointer is replaced after construction")
	}
	raceReport(c, p, "C14.Q1", p.Named("knx", "Router"), a.ctor, cg, lc)

	// ---- Q2
	sendRes := a.sendSite.Call.Value()
	isSendErr := func(v ssa.Value) bool {
		if v == ssa.Value(sendRes) {
			return true
		}
		for _, x := range loadValues(v) {
			if x == ssa.Value(sendRes) {
				return true
			}
		}
		if u, ok := v.(*ssa.UnOp); ok && u.Op == token.MUL {
			if cell := cellOf(u.X); cell != nil && cellTracksFailure(p, cell, sendRes, u) {
				return true
			}
		}
		return false
	}
	var pushes []*ssa.Call
	for _, fn := range p.FuncsIn("knx") {
		instrsOf(fn, func(in ssa.Instruction) {
			if call, ok := isListCall(in, a, ""); ok {
				switch calleeObj(call).Name() {
				case "PushBack":
					pushes = append(pushes, call)
				case "PushFront", "InsertBefore", "InsertAfter", "PushBackList", "PushFrontList", "MoveToFront", "MoveToBack", "MoveBefore", "MoveAfter", "Init":
					c.Fail("C14.Q2", FuncName(fn)+" "+calleeObj(call).Name(), p.InstrPos(call), "the retained list is modified by an operation other than PushBack/Remove: order or content of the history is no longer the send history")
				}
			}
		})
	}
	c.Exact("C14.Q2", "PushBack sites", len(pushes), 1, "")
	var sentVal ssa.Value
	if al, ok := a.sendSite.PayVal.(*ssa.Alloc); ok {
		if sts := fieldStores(al)[fieldByName(al.Type(), "Payload")]; len(sts) == 1 {
			sentVal = sts[0].Val
		}
	}
	// the sending function transmits what it is given: every path on which the message is not nil passes the
	// transmission once, and the transmitted payload is the parameter
	if a.sendFn != nil && a.sendSite.Call != nil {
		var msgP *ssa.Parameter
		for _, prm := range a.sendFn.Params {
			if _, isI := prm.Type().Underlying().(*types.Interface); isI {
				msgP = prm
			}
		}
		assume := map[ssa.Value]bool{}
		if msgP != nil {
			instrsOf(a.sendFn, func(in ssa.Instruction) {
				if bo, ok := in.(*ssa.BinOp); ok && (bo.Op == token.EQL || bo.Op == token.NEQ) {
					if (unspill(bo.X) == ssa.Value(msgP) && isNilConst(bo.Y)) || (unspill(bo.Y) == ssa.Value(msgP) && isNilConst(bo.X)) {
						assume[bo] = bo.Op == token.NEQ
					}
				}
			})
		}
		mn, mx := pathCountAssuming(a.sendFn.Blocks[0], func(in ssa.Instruction) bool { return in == ssa.Instruction(a.sendSite.Call) }, nil, assume)
		c.Decide(mn == 1 && mx == 1, "C14.Q2", sn+" transmits every message it is given", p.InstrPos(a.sendSite.Call), "one transmission on every path with a non-nil message", fmt.Sprintf("paths with a non-nil message pass the transmission %d..%d times: a message is swallowed (Send reports an error for every valid message) or sent twice", mn, mx))
		c.Decide(sentVal != nil && msgP != nil && unspill(sentVal) == ssa.Value(msgP), "C14.Q2", sn+" transmits the message it is given", p.InstrPos(a.sendSite.Call), "RoutingInd.Payload is the parameter", "the transmitted payload is not the message handed to Send")
	}
	for _, pb := range pushes {
		facts := factsAt(pb.Block())
		okErr := pb.Parent() == a.sendFn && anyFact(facts, func(f Cmp) bool {
			return f.Op == token.EQL && ((isSendErr(f.X) && isNilConst(f.Y)) || (isSendErr(f.Y) && isNilConst(f.X)))
		}) && instrDominates(a.sendSite.Call, pb)
		c.Decide(okErr, "C14.Q2", sn+" retains only successful transmissions", p.InstrPos(pb), "PushBack is dominated by err == nil of the transmission", "a message is retained although its transmission failed (or before it was attempted)")
		arg := callArgs(pb)[0]
		if ci, ok := arg.(*ssa.ChangeInterface); ok {
			arg = ci.X
		}
		if mi, ok := arg.(*ssa.MakeInterface); ok {
			arg = mi.X
		}
		c.Decide(sentVal != nil && unspill(arg) == unspill(sentVal), "C14.Q2", sn+" retains the message that was sent", p.InstrPos(pb), "same value as RoutingInd.Payload", "the retained value is not the transmitted message")
	}

	// ---- Q3
	isLenLE := func(f Cmp, after ssa.Instruction) bool {
		// Len() <= RetainCount   (either orientation, through uint conversion)
		try := func(x, y ssa.Value, op token.Token) bool {
			if op != token.LEQ && op != token.LSS {
				return false
			}
			lx := x
			if cv, ok := lx.(*ssa.Convert); ok {
				lx = cv.X
			}
			call, ok := lx.(*ssa.Call)
			if !ok {
				return false
			}
			if _, isLen := isListCall(call, a, "Len"); !isLen {
				return false
			}
			if after != nil && !instrReaches(after, call) {
				return false
			}
			return isLoadOf(y, a.retainCount)
		}
		return try(f.X, f.Y, f.Op) || try(f.Y, f.X, swapOp(f.Op))
	}
	for _, pb := range pushes {
		nP, allOK := 0, true
		for _, r := range returnsOf(pb.Parent()) {
			if !reachableFrom(pb.Block(), nil)[r.Block()] {
				continue
			}
			n, ok := allPathsSatisfy(pb.Block(), r.Block(), nil, func(fs []Cmp) bool {
				return anyFact(fs, func(f Cmp) bool { return isLenLE(f, pb) })
			})
			nP += n
			if !ok {
				allOK = false
			}
		}
		c.Decide(allOK && nP >= 1, "C14.Q3", sn+" history bounded after every push", p.InstrPos(pb), fmt.Sprintf("%d exit path(s), each passes the edge retainer.Len() <= config.RetainCount", nP), "after retaining a message the function can return without having established retainer.Len() <= config.RetainCount: the history grows beyond the configured bound")
	}
	// the trim removes the oldest
	nTrim := 0
	instrsOf(a.sendFn, func(in ssa.Instruction) {
		if call, ok := isListCall(in, a, "Remove"); ok {
			nTrim++
			or := map[string]bool{}
			elemOrigins(callArgs(call)[0], or, 0)
			okO := or["Front"] && !or["Back"] && !or["Prev"] && !or["?"]
			c.Decide(okO, "C14.Q3", sn+" trims the oldest entry", p.InstrPos(call), "removed element comes from Front()", fmt.Sprintf("the trim removes an element obtained by %v: the most recent messages are dropped instead of the oldest", keys(or)))
		}
	})
	c.Floor("C14.Q3", "trim sites in the sending function", nTrim, 1)
	checkRouterDefaults(c, p, "C14.Q3", a)
	checkConfigNormalisers(c, p, "C14.Q3", "RouterConfig")

	// ---- Q4 resend
	ln := FuncName(a.lostH)
	var mk *ssa.MakeSlice
	instrsOf(a.lostH, func(in ssa.Instruction) {
		if m, ok := in.(*ssa.MakeSlice); ok {
			mk = m
		}
	})
	if mk == nil {
		c.Fail("C14.Q4", ln+" collects into a slice", p.Pos(a.lostH.Pos()), "no make([]cemi.Message, n) found")
	} else {
		// n <= retainer.Len()
		var lenOK func(v ssa.Value, at *ssa.BasicBlock, depth int) bool
		cntParam := a.lostH.Params[len(a.lostH.Params)-1]
		lenOK = func(v ssa.Value, at *ssa.BasicBlock, depth int) bool {
			if depth > 6 {
				return false
			}
			switch x := v.(type) {
			case *ssa.Convert:
				return lenOK(x.X, at, depth+1)
			case *ssa.Call:
				_, ok := isListCall(x, a, "Len")
				return ok
			case *ssa.Phi:
				for i, e := range x.Edges {
					pred := x.Block().Preds[i]
					if !lenOK(e, pred, depth+1) {
						// or the edge is guarded by  count <= Len()
						fs := append(factsAt(pred), edgeFacts(pred, x.Block())...)
						if !anyFact(fs, func(f Cmp) bool { return cmpCountLELen(f, e, a) }) {
							return false
						}
					}
				}
				return true
			case *ssa.Parameter:
				return anyFact(factsAt(at), func(f Cmp) bool { return cmpCountLELen(f, x, a) })
			}
			return false
		}
		_ = cntParam
		c.Decide(lenOK(mk.Len, mk.Block(), 0), "C14.Q4", ln+" resend count clamped to the history", p.InstrPos(mk), "slice length is retainer.Len() or a count behind the edge count <= retainer.Len()", "the number of messages taken is not bounded by the number retained: Back() of an empty list is removed (panic) or nil messages are resent")
		// the removal loop
		lps := loopsOf(a.lostH)
		c.Exact("C14.Q4", "loops in the lost handler", len(lps), 1, p.Pos(a.lostH.Pos()))
		for _, lp := range lps {
			body := lp.Header
			stop := func(b *ssa.BasicBlock) bool { return !lp.Body[b] }
			isRemove := func(in ssa.Instruction) bool { _, ok := isListCall(in, a, "Remove"); return ok }
			isStore := func(in ssa.Instruction) bool {
				st, ok := in.(*ssa.Store)
				if !ok {
					return false
				}
				ia, ok := st.Addr.(*ssa.IndexAddr)
				return ok && (ia.X == ssa.Value(mk) || resolveCell(ia.X) == ssa.Value(mk))
			}
			// count along one iteration: from header through body back to header
			min, max := iterCount(lp, isRemove)
			_ = body
			_ = stop
			c.Decide(min == 1 && max == 1, "C14.Q4", ln+" one Remove per collected message", p.InstrPos(mk), "each iteration removes exactly one element", fmt.Sprintf("an iteration of the collection loop removes %d..%d elements from the history: resent messages stay retained (and are resent again later) or more than k are consumed", min, max))
			min, max = iterCount(lp, isStore)
			c.Decide(min == 1 && max == 1, "C14.Q4", ln+" one slot filled per iteration", p.InstrPos(mk), "each iteration stores one message", fmt.Sprintf("an iteration fills %d..%d slots", min, max))
			// the slots are visited from the last to the first, each once: the k-th message taken from the back of the
			// history is the k-th last sent.  Index, bound and step are affine in the induction variable i and the
			// slice length L with unit step; such a loop is right for every L iff it is right for L = 0..6, which is
			// evaluated here on the affine forms (nothing of the program runs).
			okOrder, whyOrder := affineLoopVisits(lp, mk, isStore)
			c.Decide(okOrder, "C14.Q4", ln+" fills the slots from the last to the first, each once", p.InstrPos(mk), "i runs over len-1 .. 0 (or the mirrored form) and the slot is the mirror of the removal order", "the collection loop does not fill every slot in reverse removal order: "+whyOrder+" - lost messages are resent in the wrong order, some slots stay nil or the loop does not end")
			for b := range lp.Body {
				for _, in := range b.Instrs {
					if call, ok := isListCall(in, a, "Remove"); ok {
						or := map[string]bool{}
						elemOrigins(callArgs(call)[0], or, 0)
						c.Decide(or["Back"] && !or["Front"] && !or["Next"] && !or["?"], "C14.Q4", ln+" takes from the back of the history", p.InstrPos(call), "removed elements come from Back()/Prev()", fmt.Sprintf("elements to resend are obtained by %v: not the most recently sent ones", keys(or)))
						// the stored value is the removed one
					}
					if st, ok := in.(*ssa.Store); ok && isStore(in) {
						v := st.Val
						if ta, ok := v.(*ssa.TypeAssert); ok {
							v = ta.X
						}
						isRem := false
						if vi, ok := v.(ssa.Instruction); ok {
							_, isRem = isListCall(vi, a, "Remove")
						}
						c.Decide(isRem, "C14.Q4", ln+" collects the removed message", p.InstrPos(st), "slot = Remove(...).(cemi.Message)", "the slot is filled with something other than the value removed from the history")
					}
				}
			}
		}
		// exactly one go with the slice
		var goes []*ssa.Go
		instrsOf(a.lostH, func(in ssa.Instruction) {
			if g, ok := in.(*ssa.Go); ok {
				goes = append(goes, g)
			}
		})
		min, max := pathCount(a.lostH.Blocks[0], func(in ssa.Instruction) bool { _, ok := in.(*ssa.Go); return ok }, nil)
		okGo := len(goes) == 1 && min == 1 && max == 1
		if okGo {
			has := false
			for _, arg := range goes[0].Common().Args {
				if arg == ssa.Value(mk) || resolveCell(arg) == ssa.Value(mk) {
					has = true
				}
			}
			// or captured by the goroutine's closure
			if mc, ok := goes[0].Common().Value.(*ssa.MakeClosure); ok {
				for _, bd := range mc.Bindings {
					if cell, ok := bd.(*ssa.Alloc); ok && !cellEscapes(cell) {
						if sts := cellStores(cell); len(sts) == 1 && sts[0].Val == ssa.Value(mk) {
							has = true
						}
					}
				}
			}
			okGo = has && !inAnyLoop(goes[0].Block())
		}
		c.Decide(okGo, "C14.Q4", ln+" hands the collected slice to one goroutine", p.InstrPos(mk), "one go statement with the slice, on every path", "the collected messages are not handed to exactly one resend goroutine")
		if a.multi != nil {
			c.Analysed("functions", FuncName(a.multi))
			mn := FuncName(a.multi)
			var prm *ssa.Parameter
			for _, x := range a.multi.Params {
				if _, ok := x.Type().Underlying().(*types.Slice); ok {
					prm = x
				}
			}
			nCall, okArg, asc := 0, false, false
			instrsOf(a.multi, func(in ssa.Instruction) {
				call, ok := in.(*ssa.Call)
				if !ok || call.Common().StaticCallee() != a.sendFn {
					if ok && call.Common().StaticCallee() != nil && p.InModule(call.Common().StaticCallee()) {
						nCall += 100
					}
					return
				}
				nCall++
				arg := callArgs(call)[0]
				if u, ok := arg.(*ssa.UnOp); ok && u.Op == token.MUL {
					if ia, ok := u.X.(*ssa.IndexAddr); ok && ((prm != nil && ia.X == ssa.Value(prm)) || (mk != nil && resolveCell(ia.X) == ssa.Value(mk))) {
						okArg = true
						if ph, ok := ia.Index.(*ssa.BinOp); ok && ph.Op == token.ADD {
							if k, ok := constInt(ph.Y); ok && k == 1 {
								asc = true
							}
						}
						if ph, ok := ia.Index.(*ssa.Phi); ok {
							for _, e := range ph.Edges {
								if bo, ok := e.(*ssa.BinOp); ok && bo.Op == token.ADD {
									if k, ok := constInt(bo.Y); ok && k == 1 {
										asc = true
									}
								}
							}
						}
					}
				}
				c.Decide(inAnyLoop(call.Block()), "C14.Q4", mn+" sends inside its loop", p.InstrPos(call), "once per element", "the send is outside the loop")
			})
			c.Decide(nCall == 1 && okArg && asc, "C14.Q4", mn+" resends every element once, ascending", p.Pos(a.multi.Pos()), "one call of the sending function per slice element, index increasing by one", fmt.Sprintf("the resend goroutine does not call the sending function exactly once per element in ascending index order (calls=%d elementArg=%v ascending=%v)", nCall, okArg, asc))
			_, maxIt := 0, 0
			for _, lp := range loopsOf(a.multi) {
				_, maxIt = iterCount(lp, func(in ssa.Instruction) bool { return staticCallTo(in, a.sendFn) })
				c.Decide(maxIt == 1, "C14.Q4", mn+" one send per iteration", p.Pos(a.multi.Pos()), "exactly one", fmt.Sprintf("%d sends per element", maxIt))
			}
		} else {
			c.Fail("C14.Q4", ln+" resend goroutine", p.Pos(a.lostH.Pos()), "not found")
		}
	}
	checkNoLockCopies(c, p, "C14.Q5", "knx", "Router")
	// the count the handler is given is the one the router announced: octets 2..3 of the indication (behind the
	// length octet and the status octet), decoded into RoutingLost.Count
	if un := p.Method("knx/knxnet", "RoutingLost", "Unpack"); un != nil {
		cntF := p.Field("knx/knxnet", "RoutingLost", "Count")
		var us *ssa.Call
		instrsOf(un, func(in ssa.Instruction) {
			if call, ok := in.(*ssa.Call); ok && callIs(call, modPath+"/knx/util", "", "UnpackSome") && call.Common().Args[0] == ssa.Value(inputParam(un)) {
				us = call
			}
		})
		okL := false
		if us != nil {
			if items, opaque := ifaceArgs(us, true); !opaque && len(items) >= 3 {
				w := int64(0)
				for i := 0; i < 2; i++ {
					if mi, isMI := items[i].(*ssa.MakeInterface); isMI {
						if pt, isP := mi.X.Type().(*types.Pointer); isP {
							w += primWidth(pt.Elem())
						}
					}
				}
				if mi, isMI := items[2].(*ssa.MakeInterface); isMI && w == 2 {
					if pt, isP := mi.X.Type().(*types.Pointer); isP && primWidth(pt.Elem()) == 2 && fieldOfAddr(stripPtrConv(mi.X)) == cntF {
						okL = true
					}
				}
			}
		}
		if !okL {
			// a hand-written decoder: interpreted - on every successful path Count is octets 2 and 3, big endian
			nS := 0
			okI := true
			for _, d := range runDecoder(p, un) {
				tup, isT := d.ret.(avTuple)
				if !isT || len(tup) != 2 {
					continue
				}
				if o, isO := tup[1].(avOpaque); !isO || o.desc != "nil" {
					continue
				}
				nS++
				v, has := d.mem["out:r.Count"].(avInt)
				if len(d.notes) > 0 || !has || len(v.bv) != 16 {
					okI = false
					continue
				}
				for j, b := range v.bv {
					wantSrc, wantIdx := "data[3]", j
					if j >= 8 {
						wantSrc, wantIdx = "data[2]", j-8
					}
					if b.K != bsrc || b.Src != wantSrc || b.Idx != wantIdx {
						okI = false
					}
				}
			}
			okL = okI && nS >= 1
		}
		c.Decide(okL, "C14.Q4", FuncName(un)+" Count is the two octets behind length and status", p.Pos(un.Pos()), "third item, 16 bits, at offset 2, decoded into Count", "the number of lost messages is not decoded from octets 2..3 of the indication: the client resends another number of messages than the router lost")
	} else {
		c.Fail("C14.Q4", "knxnet.RoutingLost.Unpack", "", "not found")
	}
	// the lost handler is called once with msg.Count
	if a.lostBlock != nil {
		n := 0
		lostCount := p.Field("knx/knxnet", "RoutingLost", "Count")
		for _, in := range a.lostBlock.Instrs {
			if staticCallTo(in, a.lostH) {
				n++
				args := callArgs(in.(*ssa.Call))
				c.Decide(len(args) == 1 && isLoadOf(args[0], lostCount), "C14.Q4", FuncName(a.serve)+" passes msg.Count", p.InstrPos(in), "the indication's count", "the lost handler is not given the indication's count")
			}
		}
		c.Exact("C14.Q4", "calls of the lost handler in the RoutingLost case", n, 1, p.Pos(a.serve.Pos()))
	}

	// ---- Q5
	nMu := 0
	st := p.Named("knx", "Router").Underlying().(*types.Struct)
	for i := 0; i < st.NumFields(); i++ {
		if isSyncType(st.Field(i).Type()) {
			nMu++
		}
	}
	c.Decide(nMu == 1, "C14.Q5", "Router has a single lock", p.Pos(p.Named("knx", "Router").Obj().Pos()), "one mutex: no lock-order cycle possible", fmt.Sprintf("%d synchronisation fields: lock ordering must be analysed", nMu))
	checkLockTypestate(c, p, "C14.Q5", a)
	instrsOf(a.lostH, func(in ssa.Instruction) {
		if d := blockingDesc(in); d != "" {
			if cl, ok := in.(*ssa.Call); ok {
				if op, ok := mutexOp(cl); ok && op.kind == "lock" && op.key == a.muKey {
					return
				}
			}
			c.Fail("C14.Q5", ln+" blocks while holding the lock", p.InstrPos(in), "the lost handler performs "+d+" with the send lock held: the serve loop stalls and senders wait")
		}
		if ci, ok := in.(*ssa.Call); ok && (isSocketSend(ci, knxnetPath) || ci.Common().StaticCallee() == a.sendFn) {
			c.Fail("C14.Q5", ln+" transmits while holding the lock", p.InstrPos(in), "the lost handler transmits synchronously with the send lock held (re-entering the sending function deadlocks; a direct transmission bypasses pacing)")
		}
	})
	c.OK("C14.Q5", ln+" holds the lock over non-blocking work", p.Pos(a.lostH.Pos()), "list operations and one go statement only")

	// ---- Q6
	if a.indBlock == nil {
		c.Fail("C14.Q6", FuncName(a.serve)+" RoutingInd case", p.Pos(a.serve.Pos()), "no case for *knxnet.RoutingInd")
	} else {
		lp := innermostLoop(a.indBlock)
		indPay := p.Field("knx/knxnet", "RoutingInd", "Payload")
		min, max := pathCount(a.indBlock, func(in ssa.Instruction) bool {
			if !staticCallTo(in, a.deliver) {
				return false
			}
			_, chansOK := deliverArgs(in.(*ssa.Call), a.inbound)
			return chansOK
		}, func(b *ssa.BasicBlock) bool { return lp != nil && b == lp.Header })
		c.Decide(min == 1 && max == 1, "C14.Q6", FuncName(a.serve)+" delivers each indication once", p.Pos(a.indBlock.Instrs[0].Pos()), "one call of the deliver function on every path of the case", fmt.Sprintf("%d..%d deliveries per indication", min, max))
		instrsOf(a.serve, func(in ssa.Instruction) {
			if staticCallTo(in, a.deliver) {
				args, _ := deliverArgs(in.(*ssa.Call), a.inbound)
				c.Decide(len(args) == 1 && isLoadOf(args[0], indPay) && factAssertPtr(factsAt(in.Block()), knxnetPath, "RoutingInd"), "C14.Q6", FuncName(a.serve)+" delivers msg.Payload", p.InstrPos(in), "payload of the received indication", "delivery outside the RoutingInd case or of another value")
			}
		})
	}
	checkDeliverFn(c, p, "C14.Q6", a.deliver, a.inbound, nil)

	// ---- Q7
	closes := ix.opsOnField(a.inbound, "close")
	c.Exact("C14.Q7", "close(Router.inbound) sites", len(closes), 1, "")
	for _, op := range closes {
		_, isDefer := op.Instr.(*ssa.Defer)
		c.Decide(isDefer && op.Fn == a.serve && !inAnyLoop(op.Instr.Block()) && op.Instr.Block() == a.serve.Blocks[0], "C14.Q7", FuncName(op.Fn)+" closes Inbound when serve ends", p.InstrPos(op.Instr), "deferred at serve's entry", "Router.inbound is not closed by a defer at the entry of serve")
	}
	// a send on Router.inbound outside the serve goroutine can meet the closed channel: its panic must be
	// recovered by a deferred function that calls recover() itself (`defer recover()` recovers nothing)
	nParked := 0
	for _, op := range ix.opsOnField(a.inbound, "send", "sel-send") {
		roots := cg.rootsOfOp(op)
		inCloser := len(roots) > 0
		for _, r := range roots {
			if !(r.Kind == "go" && r.Fn == a.serve) {
				inCloser = false
			}
		}
		if inCloser {
			continue
		}
		nParked++
		c.Decide(recoversBefore(op.Fn, op.Instr), "C14.Q7", FuncName(op.Fn)+" send outside serve recovers from the closed channel", p.InstrPos(op.Instr), "deferred function literal calling recover()", "this send can execute after serve closed Router.inbound and nothing recovers the 'send on closed channel' panic: closing the router crashes the process")
	}
	_ = nParked
	for _, r := range returnsOf(a.serve) {
		// serve returns only after the socket's channel was closed: every return is behind the !ok edge of the range receive
		okR := false
		for _, f := range factsAt(r.Block()) {
			if cmpIsBool(f, false, func(v ssa.Value) bool {
				e, ok := v.(*ssa.Extract)
				if !ok || e.Index != 1 {
					return false
				}
				u, ok := e.Tuple.(*ssa.UnOp)
				return ok && u.Op == token.ARROW
			}) {
				okR = true
			}
		}
		c.Decide(okR, "C14.Q7", FuncName(a.serve)+" ends only when the socket's channel closes", p.InstrPos(r), "return behind the closed-channel edge of the range", "serve can end (closing Inbound) while the socket still delivers")
	}
	nGo := 0
	for _, e := range cg.In[a.serve] {
		if e.Kind == "go" && e.Caller == a.ctor && !inAnyLoop(e.Site.Block()) {
			nGo++
		}
	}
	c.Exact("C14.Q7", "go sites of serve (constructor, outside loops)", nGo, 1, "")
}

func keys(m map[string]bool) []string {
	var out []string
	for k := range m {
		out = append(out, k)
	}
	return out
}

// iterCount counts matches along one loop iteration (header -> ... -> back edge).
func iterCount(lp *loopInfo, match func(ssa.Instruction) bool) (min, max int) {
	type res struct{ min, max int }
	memo := map[*ssa.BasicBlock]res{}
	var walk func(b *ssa.BasicBlock) (res, bool)
	walk = func(b *ssa.BasicBlock) (res, bool) {
		if r, ok := memo[b]; ok {
			return r, true
		}
		n := 0
		for _, in := range b.Instrs {
			if match(in) {
				n++
			}
		}
		r := res{-1, -1}
		any := false
		for _, s := range b.Succs {
			if !lp.Body[s] {
				continue // leaves the loop: not a full iteration
			}
			if s == lp.Header {
				any = true
				if r.min < 0 || 0 < r.min {
					r.min = 0
				}
				if r.max < 0 {
					r.max = 0
				}
				continue
			}
			if isBackEdge(b, s) {
				continue
			}
			sr, ok := walk(s)
			if !ok {
				continue
			}
			any = true
			if r.min < 0 || sr.min < r.min {
				r.min = sr.min
			}
			if sr.max > r.max {
				r.max = sr.max
			}
		}
		if !any {
			return res{}, false
		}
		r.min += n
		r.max += n
		memo[b] = r
		return r, true
	}
	r, ok := walk(lp.Header)
	if !ok {
		return 0, 0
	}
	return r.min, r.max
}

// cmpCountLELen: the fact says int(v) <= retainer.Len()  (or !(int(v) > Len())).
func cmpCountLELen(f Cmp, v ssa.Value, a *routerAnchors) bool {
	strip := func(x ssa.Value) ssa.Value {
		if cv, ok := x.(*ssa.Convert); ok {
			return cv.X
		}
		return x
	}
	isLen := func(x ssa.Value) bool {
		call, ok := strip(x).(*ssa.Call)
		if !ok {
			return false
		}
		_, isL := isListCall(call, a, "Len")
		return isL
	}
	same := func(x ssa.Value) bool {
		// the compared value is v, v converted, or the same conversion of the same operand
		return x == v || strip(x) == v || (strip(x) == strip(v) && types.Identical(x.Type(), v.Type()))
	}
	if (f.Op == token.LEQ || f.Op == token.LSS) && same(f.X) && isLen(f.Y) {
		return true
	}
	if (f.Op == token.GEQ || f.Op == token.GTR) && same(f.Y) && isLen(f.X) {
		return true
	}
	return false
}

func checkRouterDefaults(c *Check, p *Program, rule string, a *routerAnchors) {
	// the constructor stores f(config) with RetainCount 0 replaced by the default
	var norm *ssa.Function
	for _, st := range p.index().stores[a.config] {
		if st.Parent() != a.ctor {
			c.Fail(rule, FuncName(st.Parent())+" writes Router.config", p.InstrPos(st), "configuration changed after construction")
			continue
		}
		v := st.Val
		for _, x := range loadValues(v) {
			if call, ok := x.(*ssa.Call); ok {
				norm = call.Common().StaticCallee()
			}
		}
		if call, ok := v.(*ssa.Call); ok {
			norm = call.Common().StaticCallee()
		}
	}
	if norm == nil {
		// config = checkRouterConfig(config) assigns the parameter cell first
		instrsOf(a.ctor, func(in ssa.Instruction) {
			if call, ok := in.(*ssa.Call); ok {
				if f := call.Common().StaticCallee(); f != nil && p.InModule(f) && f.Signature.Results().Len() == 1 && isNamed(f.Signature.Results().At(0).Type(), knxPath, "RouterConfig") {
					norm = f
				}
			}
		})
	}
	if norm == nil {
		c.Fail(rule, FuncName(a.ctor)+" normalises the configuration", p.Pos(a.ctor.Pos()), "Router.config is stored without passing through a defaulting function: RetainCount 0 keeps no history at all")
		return
	}
	def := p.Global("knx", "DefaultRouterConfig")
	ok := false
	instrsOf(norm, func(in ssa.Instruction) {
		st, isSt := in.(*ssa.Store)
		if !isSt || fieldOfAddr(st.Addr) != a.retainCount {
			return
		}
		fromDef := false
		if u, isU := st.Val.(*ssa.UnOp); isU && u.Op == token.MUL {
			if fa, isFA := u.X.(*ssa.FieldAddr); isFA && fa.X == ssa.Value(def) && structField(fa.X.Type(), fa.Field) == a.retainCount {
				fromDef = true
			}
		}
		if fromDef && anyFact(factsAt(st.Block()), func(cm Cmp) bool { return cmpIsFieldConst(cm, a.retainCount, token.EQL, 0) }) {
			ok = true
		}
	})
	c.Decide(ok, rule, FuncName(norm)+" defaults RetainCount", p.Pos(norm.Pos()), "0 replaced by DefaultRouterConfig.RetainCount", "a zero RetainCount is not replaced by the default")
	var defVal int64 = -1
	writers := 0
	for _, fn := range p.AllFuncs {
		instrsOf(fn, func(in ssa.Instruction) {
			st, ok := in.(*ssa.Store)
			if !ok {
				return
			}
			root := st.Addr
			if fa, ok := root.(*ssa.FieldAddr); ok {
				root = fa.X
			}
			if root != ssa.Value(def) {
				return
			}
			if fn.Name() != "init" {
				writers++
			} else if fieldOfAddr(st.Addr) == a.retainCount {
				defVal, _ = constInt(st.Val)
			}
		})
	}
	c.Decide(writers == 0 && defVal >= 1, rule, "DefaultRouterConfig.RetainCount is a positive constant nobody writes", p.Pos(def.Pos()), fmt.Sprintf("%d", defVal), "default retain count is not a fixed positive value")
}

// affineLoopVisits: the loop stores into mk[idx] with idx, the continuation
// test and the induction step affine in (i, L = len(mk)); for L = 0..6 the
// sequence of slots visited is L-1, L-2, ..., 0.
func affineLoopVisits(lp *loopInfo, mk *ssa.MakeSlice, isStore func(ssa.Instruction) bool) (bool, string) {
	var phi *ssa.Phi
	type aff struct{ i, l, k int64 }
	var lf func(v ssa.Value, d int) (aff, bool)
	lf = func(v ssa.Value, d int) (aff, bool) {
		if d > 8 {
			return aff{}, false
		}
		if phi != nil && v == ssa.Value(phi) {
			return aff{1, 0, 0}, true
		}
		switch x := v.(type) {
		case *ssa.Const:
			if k, ok := constInt(x); ok {
				return aff{0, 0, k}, true
			}
		case *ssa.Convert:
			return lf(x.X, d+1)
		case *ssa.ChangeType:
			return lf(x.X, d+1)
		case *ssa.Call:
			if builtinName(x) == "len" && (x.Common().Args[0] == ssa.Value(mk) || resolveCell(x.Common().Args[0]) == ssa.Value(mk)) {
				return aff{0, 1, 0}, true
			}
		case *ssa.BinOp:
			a, oka := lf(x.X, d+1)
			b, okb := lf(x.Y, d+1)
			if oka && okb {
				switch x.Op {
				case token.ADD:
					return aff{a.i + b.i, a.l + b.l, a.k + b.k}, true
				case token.SUB:
					return aff{a.i - b.i, a.l - b.l, a.k - b.k}, true
				}
			}
		}
		if stripAllConv(v) == stripAllConv(mk.Len) {
			return aff{0, 1, 0}, true
		}
		return aff{}, false
	}
	// induction variable: a header phi whose latch edge is phi +- 1
	var init aff
	step := int64(0)
	for _, in := range lp.Header.Instrs {
		ph, ok := in.(*ssa.Phi)
		if !ok {
			continue
		}
		for ei, e := range ph.Edges {
			if !lp.Body[lp.Header.Preds[ei]] {
				continue
			}
			phi = ph
			if a, ok := lf(e, 0); ok && a.i == 1 && a.l == 0 && (a.k == 1 || a.k == -1) {
				step = a.k
			}
		}
		if step != 0 {
			okI := false
			for ei, e := range ph.Edges {
				if !lp.Body[lp.Header.Preds[ei]] {
					phi = nil // the initial value does not mention i
					init, okI = lf(e, 0)
					phi = ph
				}
			}
			if okI {
				break
			}
			step = 0
		}
		phi = nil
	}
	if phi == nil || step == 0 {
		return false, "no induction variable with unit step found"
	}
	// continuation test
	var cx, cy aff
	var cop token.Token
	found := false
	for b := range lp.Body {
		iff := ifOf(b)
		if iff == nil || len(b.Succs) != 2 {
			continue
		}
		in0, in1 := lp.Body[b.Succs[0]], lp.Body[b.Succs[1]]
		if in0 == in1 {
			continue
		}
		cm, ok := cmpOf(iff.Cond, in0)
		if !ok {
			continue
		}
		x, okx := lf(cm.X, 0)
		y, oky := lf(cm.Y, 0)
		if !okx || !oky {
			return false, "the loop test is not affine in the index and the slice length"
		}
		cx, cy, cop, found = x, y, cm.Op, true
	}
	if !found {
		return false, "no loop test found"
	}
	// slot index
	var idx aff
	okIdx := false
	for b := range lp.Body {
		for _, in := range b.Instrs {
			if isStore(in) {
				ia := in.(*ssa.Store).Addr.(*ssa.IndexAddr)
				idx, okIdx = lf(ia.Index, 0)
			}
		}
	}
	if !okIdx {
		return false, "the slot index is not affine in the index and the slice length"
	}
	ev := func(a aff, i, l int64) int64 { return a.i*i + a.l*l + a.k }
	holds := func(i, l int64) bool {
		x, y := ev(cx, i, l), ev(cy, i, l)
		switch cop {
		case token.LSS:
			return x < y
		case token.LEQ:
			return x <= y
		case token.GTR:
			return x > y
		case token.GEQ:
			return x >= y
		case token.EQL:
			return x == y
		case token.NEQ:
			return x != y
		}
		return false
	}
	for l := int64(0); l <= 6; l++ {
		i := ev(init, 0, l)
		var visited []int64
		for n := int64(0); holds(i, l); n++ {
			if n > l+1 {
				return false, fmt.Sprintf("for a slice of %d the loop does not end after %d rounds", l, l)
			}
			visited = append(visited, ev(idx, i, l))
			i += step
		}
		if int64(len(visited)) != l {
			return false, fmt.Sprintf("for a slice of %d the loop fills %d slots", l, len(visited))
		}
		for k, v := range visited {
			if v != l-1-int64(k) {
				return false, fmt.Sprintf("for a slice of %d round %d fills slot %d instead of %d", l, k, v, l-1-int64(k))
			}
		}
	}
	return true, ""
}

// cellTracksFailure: the error variable is nil exactly when the transmission
// succeeded: it is stored the transmission's result itself, or - where the
// result is known to be non-nil - an error made for it; nothing else but the
// nil initialisation is ever stored.
func cellTracksFailure(p *Program, cell *ssa.Alloc, sendRes *ssa.Call, at ssa.Instruction) bool {
	if sendRes == nil {
		return false
	}
	tracked := false
	for _, st := range cellStores(cell) {
		after := instrReaches(sendRes, st)
		before := instrReaches(st, sendRes)
		if u, ok := st.Val.(*ssa.UnOp); ok && u.Op == token.MUL && cellOf(u.X) == cell {
			continue // `return err` with a named result stores the variable into itself
		}
		switch {
		case !after && !before:
			// on a path that never transmits (an early return)
		case !after:
			if !isNilConst(st.Val) {
				return false
			}
		case isNilConst(st.Val):
			// `return nil` where the transmission is known to have succeeded
			okNil := anyFact(factsAt(st.Block()), func(f Cmp) bool {
				if f.Op != token.EQL {
					return false
				}
				x, y := f.X, f.Y
				if isNilConst(x) {
					x, y = y, x
				}
				if !isNilConst(y) {
					return false
				}
				if x == ssa.Value(sendRes) {
					return true
				}
				u, ok := x.(*ssa.UnOp)
				return ok && u.Op == token.MUL && cellOf(u.X) == cell
			})
			if !okNil {
				return false
			}
		case st.Val == ssa.Value(sendRes):
			// read in the function itself: the assignment comes first on every path
			if at != nil && !instrDominates(st, at) {
				return false
			}
			tracked = true
		case p.isNonNilError(st.Val):
			if at != nil && !instrReaches(st, at) {
				return false
			}
			failed := anyFact(factsAt(st.Block()), func(f Cmp) bool {
				return f.Op == token.NEQ && ((f.X == ssa.Value(sendRes) && isNilConst(f.Y)) || (f.Y == ssa.Value(sendRes) && isNilConst(f.X)))
			})
			if !failed {
				return false
			}
			tracked = true
		default:
			return false
		}
	}
	return tracked
}
