package main

import (
	"fmt"
	"strings"
	"go/token"
	"go/types"

	"golang.org/x/tools/go/ssa"
)

// Offset-loop decoders: a decoder that walks its input with a running offset
// n ("for n < end { decode element at data[n:]; n += its length }").  Decided
// per loop, from the shape of the loop alone:
//
//	T1  the loop continues exactly while n < end, end loop-invariant
//	    (len(data) or a length octet decoded before the loop);
//	T2  every way round the loop advances n by a decoded length (the count of
//	    the element's decode call, or the element's length octet), never by a
//	    constant and never leaves it unchanged;
//	T3  every decode call in the loop reads at the current offset:
//	    data[n:], data[n:n+len] or data[n+k:n+len] with a constant header k;
//	T4  every append in the loop keeps the element decoded in this round (the
//	    local that received the decode call), stored back into the same field,
//	    exactly once on every path behind that decode call.
func checkOffsetLoopDecoders(c *Check, p *Program, rule string) {
	n := 0
	for _, tg := range [][2]string{{"DescriptionBlock", "Unpack"}, {"SupportedServicesDIB", "Unpack"}} {
		f := p.Method("knx/knxnet", tg[0], tg[1])
		if f == nil || len(f.Blocks) == 0 {
			c.Fail(rule, "knxnet."+tg[0]+"."+tg[1], "", "not found")
			continue
		}
		lps := loopsOf(f)
		if len(lps) != 1 {
			c.Fail(rule, FuncName(f)+" one offset loop", p.Pos(f.Pos()), fmt.Sprintf("%d loops", len(lps)))
			continue
		}
		n++
		checkOffsetLoop(c, p, rule, f, lps[0])
	}
	c.Floor(rule, "offset-loop decoders", n, 2)
	// the blocks these loops walk start with (length, type): the encoders of the block types write their size
	// first and their type second
	nEnc := 0
	zero := linConst(0)
	for _, tn := range []string{"DeviceInformationBlock", "SupportedServicesDIB"} {
		pk := p.Method("knx/knxnet", tn, "Pack")
		if pk == nil {
			c.Fail(rule, "knxnet."+tn+".Pack", "", "not found")
			continue
		}
		for _, pp := range runEncoder(p, pk) {
			b0, ok0 := byteAt(pp, zero, 0)
			b1, ok1 := byteAt(pp, zero, 1)
			isSize := ok0 && len(b0) == 8
			if isSize {
				if _, isK := b0.Const(); !isK {
					for i, b := range b0 {
						if b.K != bsrc || !strings.Contains(b.Src, "Size(") || b.Idx != i {
							isSize = false
						}
					}
				}
			}
			isType := ok1 && len(b1) == 8
			if isType {
				for i, b := range b1 {
					if b.K != bsrc || b.Src != "r.Type" || b.Idx != i {
						isType = false
					}
				}
			}
			nEnc++
			c.Decide(isSize && isType, rule, "knxnet."+tn+" block starts with (size, type) ["+pathLabel(pp)+"]", p.Pos(pk.Pos()), "octet 0 = Size(), octet 1 = Type", "the encoder of this block type does not write its size into octet 0 and its type into octet 1: the block loop reads length and type from those octets")
		}
	}
	c.Floor(rule, "block encoders compared with the loop header", nEnc, 2)
}

func checkOffsetLoop(c *Check, p *Program, rule string, f *ssa.Function, lp *loopInfo) {
	name := FuncName(f)
	data := inputParam(f)
	isData := func(v ssa.Value) bool { return data != nil && (v == ssa.Value(data) || unspill(v) == ssa.Value(data)) }
	// the exit test and the offset
	var test *ssa.BasicBlock
	for b := range lp.Body {
		if ifOf(b) != nil && len(b.Succs) == 2 && lp.Body[b.Succs[0]] != lp.Body[b.Succs[1]] {
			// the test that decides between another round and the code behind the loop (returns inside the loop
			// body also leave it: take the one whose exit does not return at once with an error)
			if test == nil || b == lp.Header {
				test = b
			}
		}
	}
	if test == nil {
		c.Fail(rule, name+" loop test", p.Pos(f.Pos()), "no exit test found")
		return
	}
	stay := lp.Body[test.Succs[0]]
	cm, _ := cmpOf(ifOf(test).Cond, stay)
	var off *ssa.Phi
	var end ssa.Value
	switch cm.Op {
	case token.LSS:
		off, _ = cm.X.(*ssa.Phi)
		end = cm.Y
	case token.GTR:
		off, _ = cm.Y.(*ssa.Phi)
		end = cm.X
	}
	invariant := func(v ssa.Value) (bool, string) {
		v = stripAllConv(v)
		if call, ok := v.(*ssa.Call); ok && builtinName(call) == "len" && isData(call.Common().Args[0]) {
			return true, "len(data)"
		}
		if u, ok := v.(*ssa.UnOp); ok && u.Op == token.MUL {
			if cell, ok := u.X.(*ssa.Alloc); ok {
				// a local filled before the loop and not stored to inside it
				okInv := true
				filledInLoop := false
				for _, w := range cellWritersOf(cell) {
					if lp.Body[w.Block()] {
						filledInLoop = true
					}
				}
				if filledInLoop {
					okInv = false
				}
				return okInv, "the length octet decoded before the loop"
			}
		}
		if u, ok := v.(*ssa.UnOp); ok && u.Op == token.MUL {
			if ia, ok := u.X.(*ssa.IndexAddr); ok && isData(ia.X) && !lp.Body[u.Block()] {
				if _, isK := constInt(ia.Index); isK {
					return true, "the length octet read before the loop"
				}
			}
		}
		return false, ""
	}
	okT1 := off != nil && off.Block() == lp.Header && end != nil
	what := ""
	if okT1 {
		okT1, what = invariant(end)
	}
	c.Decide(okT1, rule, name+" continues exactly while the offset is below the end", p.InstrPos(ifOf(test)), "n < "+what, "the loop is not `for offset < end` with a loop-invariant end (len(data) or a length decoded before the loop): elements are skipped, or the loop reads past them")
	if off == nil {
		return
	}
	// T2: latch values
	okT2, whyT2 := true, ""
	nLatch := 0
	var visit func(v ssa.Value, d int)
	visit = func(v ssa.Value, d int) {
		if d > 6 {
			okT2, whyT2 = false, "advance too deep to follow"
			return
		}
		if ph, ok := v.(*ssa.Phi); ok && ph != off && lp.Body[ph.Block()] {
			for _, e := range ph.Edges {
				visit(e, d+1)
			}
			return
		}
		nLatch++
		bo, ok := v.(*ssa.BinOp)
		if !ok || bo.Op != token.ADD {
			okT2, whyT2 = false, "the offset of the next round is "+describe(v)+", not offset + length"
			return
		}
		base, step := bo.X, bo.Y
		if stripAllConv(base) != ssa.Value(off) {
			base, step = bo.Y, bo.X
		}
		if stripAllConv(base) != ssa.Value(off) {
			okT2, whyT2 = false, "the offset of the next round is not the current offset plus a length"
			return
		}
		st := stripAllConv(step)
		if _, isK := st.(*ssa.Const); isK {
			okT2, whyT2 = false, "the offset advances by a constant, not by the element's length"
			return
		}
		switch x := st.(type) {
		case *ssa.Extract:
			if call, ok := x.Tuple.(*ssa.Call); !ok || !lp.Body[call.Block()] || x.Index != 0 {
				okT2, whyT2 = false, "the offset advances by something that is not the count of this round's decode call"
			}
		case *ssa.UnOp:
			if _, ok := x.X.(*ssa.Alloc); !ok || x.Op != token.MUL {
				okT2, whyT2 = false, "the offset advances by "+describe(st)
			}
		default:
			okT2, whyT2 = false, "the offset advances by "+describe(st)
		}
	}
	for i, e := range off.Edges {
		if lp.Body[off.Block().Preds[i]] {
			visit(e, 0)
		}
	}
	c.Decide(okT2 && nLatch >= 1, rule, name+" every round advances the offset by the element's length", p.InstrPos(off), fmt.Sprintf("%d way(s) round the loop, each offset + decoded length", nLatch), "a way round the loop does not advance the offset by the decoded length of the element: "+whyT2)
	// the header: the first octet read is the announced length (the value the loop advances or ends by), the
	// second the type
	{
		var lenCell *ssa.Alloc
		if u, ok := stripAllConv(end).(*ssa.UnOp); ok && u.Op == token.MUL {
			lenCell, _ = u.X.(*ssa.Alloc)
		}
		if lenCell == nil {
			var find func(v ssa.Value, d int)
			find = func(v ssa.Value, d int) {
				if d > 6 || lenCell != nil {
					return
				}
				switch x := v.(type) {
				case *ssa.Phi:
					if x != off {
						for _, e := range x.Edges {
							find(e, d+1)
						}
					}
				case *ssa.BinOp:
					find(x.X, d+1)
					find(x.Y, d+1)
				case *ssa.Convert:
					find(x.X, d+1)
				case *ssa.UnOp:
					if c, ok := x.X.(*ssa.Alloc); ok && x.Op == token.MUL {
						lenCell = c
					}
				}
			}
			for i, e := range off.Edges {
				if lp.Body[off.Block().Preds[i]] {
					find(e, 0)
				}
			}
		}
		var hdr *ssa.Call
		instrsOf(f, func(in ssa.Instruction) {
			if call, ok := in.(*ssa.Call); ok && callIs(call, modPath+"/knx/util", "", "UnpackSome") && hdr == nil {
				hdr = call
			}
		})
		okHdr := false
		if hdr != nil && lenCell != nil {
			if items, opaque := ifaceArgs(hdr, true); !opaque && len(items) == 2 {
				mi0, ok0 := items[0].(*ssa.MakeInterface)
				mi1, ok1 := items[1].(*ssa.MakeInterface)
				if ok0 && ok1 && stripPtrConv(mi0.X) == ssa.Value(lenCell) && stripPtrConv(mi1.X) != ssa.Value(lenCell) {
					if pt, isP := mi1.X.Type().(*types.Pointer); isP && primWidth(pt.Elem()) == 1 {
						okHdr = true
					}
				}
			}
		}
		if !okHdr {
			// hand-written header: length := data[k], type := data[k+1] with k = 0 before the loop or k = the offset inside it
			var lenLd *ssa.UnOp
			if u, ok := stripAllConv(end).(*ssa.UnOp); ok && u.Op == token.MUL {
				if _, isIA := u.X.(*ssa.IndexAddr); isIA {
					lenLd = u
				}
			}
			if lenLd != nil {
				ia := lenLd.X.(*ssa.IndexAddr)
				base, isK := constInt(ia.Index)
				instrsOf(f, func(in ssa.Instruction) {
					u, ok := in.(*ssa.UnOp)
					if !ok || u.Op != token.MUL {
						return
					}
					ia2, ok := u.X.(*ssa.IndexAddr)
					if !ok || !isData(ia2.X) {
						return
					}
					if k2, isK2 := constInt(ia2.Index); isK && isK2 && base == 0 && k2 == 1 {
						okHdr = true
					}
				})
			}
		}
		c.Decide(okHdr, rule, name+" reads (length, type) in that order", p.Pos(f.Pos()), "header read: announced length first, type second, one octet each", "the header of a block is not read as announced length then type: the loop advances by the type octet")
	}
	// T3: decode calls at the current offset
	nDec := 0
	// width of the header the round itself reads (util.UnpackSome(data[n:], &length, &type) inside the loop)
	hdrWidth := int64(0)
	for b := range lp.Body {
		for _, in := range b.Instrs {
			if call, ok := in.(*ssa.Call); ok && callIs(call, modPath+"/knx/util", "", "UnpackSome") {
				if items, opaque := ifaceArgs(call, true); !opaque {
					w := int64(0)
					for _, it := range items {
						if mi, isMI := it.(*ssa.MakeInterface); isMI {
							if pt, isP := mi.X.Type().(*types.Pointer); isP {
								w += primWidth(pt.Elem())
							}
						}
					}
					hdrWidth = w
				}
			}
		}
	}
	type decCall struct {
		call *ssa.Call
		dst  ssa.Value
	}
	var decs []decCall
	for b := range lp.Body {
		for _, in := range b.Instrs {
			call, ok := in.(*ssa.Call)
			if !ok || builtinName(call) != "" {
				continue
			}
			var sl *ssa.Slice
			var dst ssa.Value
			for _, a := range call.Common().Args {
				if s, isSl := a.(*ssa.Slice); isSl && rootIsData(s, isData, 0) {
					sl = s
				} else if _, isP := a.Type().(*types.Pointer); isP {
					dst = a
				}
			}
			if sl == nil {
				continue
			}
			nDec++
			decs = append(decs, decCall{call, dst})
			// data[lo:hi], possibly taken in two steps (block := data[n:end]; block[2:])
			okLow, lowK, okHigh := dataSliceAt(sl, off, isData, 0)
			// the constant added to the offset: 0 for the round's own header read and for element decoders that
			// read their own header, the width of the round's header for element decoders that take the bare content
			wantK := int64(0)
			if callee := call.Common().StaticCallee(); callee != nil && fnPkg(callee) != nil && fnPkg(callee).Pkg.Path() != modPath+"/knx/util" && !readsOwnHeader(callee) {
				wantK = hdrWidth
			}
			if lowK != wantK {
				okLow = false
			}
			c.Decide(okLow && okHigh, rule, name+" "+calleeName(call)+" decodes at the current offset", p.InstrPos(call), "data[n(+k) : (n+length)]", "an element is decoded from somewhere else than the current offset (or beyond the element's announced length)")
		}
	}
	c.Floor(rule, "decode calls in the loop of "+name, nDec, 1)
	// the only way out of the loop body is a failure: success is reported behind the loop, after the last element
	exitSucc := test.Succs[0]
	if stay {
		exitSucc = test.Succs[1]
	}
	inBody := reachableFrom(lp.Header, func(from, to *ssa.BasicBlock) bool { return from == test && to == exitSucc })
	nIn := 0
	for _, r := range returnsOf(f) {
		if !inBody[r.Block()] || len(r.Results) < 2 {
			continue
		}
		nIn++
		c.Decide(!p.returnMayBeNil(r, len(r.Results)-1), rule, name+" return inside the loop reports an error", p.InstrPos(r), "non-nil error", "the decoder can report success from inside the loop, before the remaining elements are decoded (or swallows the failure of an element)")
	}
	c.Floor(rule, "failure exits inside the loop of "+name, nIn, 1)
	// an announced length that is compared with the decoded structure's Size(): success lies behind equality
	instrsOf(f, func(in ssa.Instruction) {
		bo, ok := in.(*ssa.BinOp)
		if !ok || (bo.Op != token.EQL && bo.Op != token.NEQ) {
			return
		}
		isLen := func(v ssa.Value) bool {
			u, ok := stripAllConv(v).(*ssa.UnOp)
			if !ok || u.Op != token.MUL {
				return false
			}
			_, isCell := u.X.(*ssa.Alloc)
			return isCell
		}
		isSize := func(v ssa.Value) bool {
			call, ok := stripAllConv(v).(*ssa.Call)
			return ok && call.Common().StaticCallee() != nil && call.Common().StaticCallee().Name() == "Size"
		}
		if !((isLen(bo.X) && isSize(bo.Y)) || (isLen(bo.Y) && isSize(bo.X))) {
			return
		}
		for _, r := range returnsOf(f) {
			if len(r.Results) < 2 || !p.returnMayBeNil(r, len(r.Results)-1) || !bo.Block().Dominates(r.Block()) {
				continue
			}
			eq := anyFact(factsAt(r.Block()), func(fc Cmp) bool {
				return fc.Op == token.EQL && ((fc.X == bo.X && fc.Y == bo.Y) || (fc.X == bo.Y && fc.Y == bo.X))
			})
			c.Decide(eq, rule, name+" succeeds only when the announced length equals Size()", p.InstrPos(r), "behind length == Size()", "the decoder succeeds when the announced length differs from the decoded structure's size (and fails when they agree): every well-formed block is rejected")
		}
	})
	// every element decoded into a fresh local is kept, every decodable field of the structure is filled
	for _, d := range decs {
		cell, isLocal := d.dst.(*ssa.Alloc)
		if !isLocal || !lp.Body[cell.Block()] {
			continue
		}
		if _, isStruct := cell.Type().(*types.Pointer).Elem().Underlying().(*types.Struct); !isStruct {
			continue
		}
		kept := false
		for b := range lp.Body {
			for _, in := range b.Instrs {
				if call, ok := in.(*ssa.Call); ok && builtinName(call) == "append" {
					if items, okI := varargItems(call.Common().Args[1]); okI && len(items) == 1 {
						if u, ok := items[0].(*ssa.UnOp); ok && u.Op == token.MUL && u.X == ssa.Value(cell) {
							kept = true
						}
					}
				}
			}
		}
		c.Decide(kept, rule, name+" element decoded by "+calleeName(d.call)+" is kept", p.InstrPos(d.call), "appended to a field of the structure", "an element is decoded into a local and then dropped")
	}
	if len(f.Params) > 0 {
		if pt, ok := f.Params[0].Type().(*types.Pointer); ok {
			if st, ok := pt.Elem().Underlying().(*types.Struct); ok {
				for i := 0; i < st.NumFields(); i++ {
					fld := st.Field(i)
					nt := namedOf(fld.Type())
					if nt == nil || methodOf(p, nt, "Unpack") == nil {
						continue
					}
					filled := false
					for _, d := range decs {
						if d.dst != nil && fieldOfAddr(d.dst) == fld {
							filled = true
						}
					}
					c.Decide(filled, rule, name+" fills "+fld.Name(), p.Pos(f.Pos()), "a decode call of the loop has &r."+fld.Name()+" as its destination", "no decode call of the loop fills the field "+fld.Name()+": blocks of that kind are skipped")
				}
			}
		}
	}
	// T4: appends keep this round's element
	for b := range lp.Body {
		for _, in := range b.Instrs {
			call, ok := in.(*ssa.Call)
			if !ok || builtinName(call) != "append" {
				continue
			}
			items, okI := varargItems(call.Common().Args[1])
			var src *ssa.Alloc
			if okI && len(items) == 1 {
				if u, ok := items[0].(*ssa.UnOp); ok && u.Op == token.MUL {
					src, _ = u.X.(*ssa.Alloc)
				}
			}
			var by *ssa.Call
			for _, d := range decs {
				if src != nil && d.dst == ssa.Value(src) && instrDominates(d.call, call) {
					by = d.call
				}
			}
			// stored back into the field it was loaded from
			fld := loadedField(call.Common().Args[0])
			stored := false
			for _, u := range usesOf(call) {
				if st, ok := u.(*ssa.Store); ok && fld != nil && fieldOfAddr(st.Addr) == fld {
					stored = true
				}
			}
			c.Decide(by != nil && stored, rule, name+" keeps the element decoded in this round", p.InstrPos(call), "append(field, element filled by this round's decode call), stored back", "the value appended is not the element this round decoded, or the result is not stored back into the field")
			if by != nil {
				var errv ssa.Value
				for _, u := range usesOf(by) {
					if ex, ok := u.(*ssa.Extract); ok && ex.Index == 1 {
						errv = ex
					}
				}
				assume := map[ssa.Value]bool{}
				instrsOf(f, func(x ssa.Instruction) {
					if bo, ok := x.(*ssa.BinOp); ok && errv != nil && (bo.Op == token.EQL || bo.Op == token.NEQ) {
						if (bo.X == errv && isNilConst(bo.Y)) || (bo.Y == errv && isNilConst(bo.X)) {
							assume[bo] = bo.Op == token.EQL
						}
					}
				})
				mn, mx := pathCountAssuming(by.Block(), func(x ssa.Instruction) bool { return x == ssa.Instruction(call) }, func(bb *ssa.BasicBlock) bool { return bb == lp.Header }, assume)
				c.Decide(mn == 1 && mx == 1, rule, name+" every decoded element is kept once", p.InstrPos(call), "one append on every path from the successful decode to the next round", fmt.Sprintf("paths from the successful decode to the next round append %d..%d times", mn, mx))
			}
		}
	}
}

// readsOwnHeader: the element decoder decodes a length octet of its own into a
// local (so it is handed the element including its header).
func readsOwnHeader(fn *ssa.Function) bool {
	found := false
	instrsOf(fn, func(in ssa.Instruction) {
		call, ok := in.(*ssa.Call)
		if !ok || !(callIs(call, modPath+"/knx/util", "", "UnpackSome") || callIs(call, modPath+"/knx/util", "", "Unpack")) {
			return
		}
		items, opaque := ifaceArgs(call, callIs(call, modPath+"/knx/util", "", "UnpackSome"))
		if opaque {
			return
		}
		for _, it := range items {
			if mi, isMI := it.(*ssa.MakeInterface); isMI {
				if cell, isCell := stripPtrConv(mi.X).(*ssa.Alloc); isCell {
					if w, _, okw := typeWidth(cell.Type().(*types.Pointer).Elem(), "amd64"); okw && w == 8 {
						found = true
					}
				}
			}
		}
	})
	if !found {
		if data := inputParam(fn); data != nil {
			instrsOf(fn, func(in ssa.Instruction) {
				if u, ok := in.(*ssa.UnOp); ok && u.Op == token.MUL {
					if ia, ok := u.X.(*ssa.IndexAddr); ok && ia.X == ssa.Value(data) {
						if k, isK := constInt(ia.Index); isK && k == 0 {
							found = true
						}
					}
				}
			})
		}
	}
	return found
}

func calleeName(call *ssa.Call) string {
	if f := call.Common().StaticCallee(); f != nil {
		return FuncName(f)
	}
	if call.Common().IsInvoke() {
		return call.Common().Method.Name()
	}
	return "call"
}

// cellWritersOf: instructions that may write the local cell (stores, and calls
// that are handed its address).
func cellWritersOf(cell *ssa.Alloc) []ssa.Instruction {
	var out []ssa.Instruction
	var walk func(v ssa.Value, d int)
	walk = func(v ssa.Value, d int) {
		if d > 5 {
			return
		}
		for _, u := range usesOf(v) {
			switch x := u.(type) {
			case *ssa.Store:
				if x.Addr == v {
					out = append(out, x)
				} else {
					// the address itself is stored somewhere (boxed into a varargs array): follow the array to its call
					if ia, ok := x.Addr.(*ssa.IndexAddr); ok {
						if al, ok := ia.X.(*ssa.Alloc); ok {
							for _, u2 := range usesOf(al) {
								if sl, ok := u2.(*ssa.Slice); ok {
									for _, u3 := range usesOf(sl) {
										if ci, ok := u3.(ssa.CallInstruction); ok {
											out = append(out, ci)
										}
									}
								}
							}
						}
					}
				}
			case ssa.CallInstruction:
				out = append(out, x)
			case *ssa.MakeInterface:
				walk(x, d+1)
			case *ssa.ChangeType:
				walk(x, d+1)
			case *ssa.Convert:
				walk(x, d+1)
			}
		}
	}
	walk(cell, 0)
	return out
}

func rootIsData(sl *ssa.Slice, isData func(ssa.Value) bool, d int) bool {
	if isData(sl.X) {
		return true
	}
	if in, ok := sl.X.(*ssa.Slice); ok && d < 3 {
		return rootIsData(in, isData, d+1)
	}
	return false
}

// dataSliceAt: sl denotes data[off+k : high] with high absent or off+length.
func dataSliceAt(sl *ssa.Slice, off *ssa.Phi, isData func(ssa.Value) bool, d int) (okLow bool, k int64, okHigh bool) {
	isEnd := func(v ssa.Value) bool {
		if bo, ok := stripAllConv(v).(*ssa.BinOp); ok && bo.Op == token.ADD && stripAllConv(bo.X) == ssa.Value(off) {
			if u, ok := stripAllConv(bo.Y).(*ssa.UnOp); ok && u.Op == token.MUL {
				_, isCell := u.X.(*ssa.Alloc)
				return isCell
			}
		}
		return false
	}
	if isData(sl.X) {
		if sl.Low != nil {
			l := stripAllConv(sl.Low)
			if l == ssa.Value(off) {
				okLow = true
			} else if bo, ok := l.(*ssa.BinOp); ok && bo.Op == token.ADD && stripAllConv(bo.X) == ssa.Value(off) {
				if c, isK := constInt(bo.Y); isK && c >= 0 {
					okLow, k = true, c
				}
			}
		}
		okHigh = sl.High == nil || isEnd(sl.High)
		return
	}
	in, ok := sl.X.(*ssa.Slice)
	if !ok || d > 2 {
		return false, 0, false
	}
	okLow, k, okHigh = dataSliceAt(in, off, isData, d+1)
	if sl.Low != nil {
		c, isK := constInt(sl.Low)
		if !isK || c < 0 {
			return false, 0, false
		}
		k += c
	}
	if sl.High != nil {
		okHigh = false // a bound relative to the inner slice is not followed
	}
	return
}
